//! C20 driver: run the real `warcraft-rs` binary on the cases TLC enumerated (specs/Gen_Cli.tla) and
//! record, per process run, the exit status, what the tool printed about success/failure, the files it
//! produced (tokens + the library's verdict on them), the facts it printed, and the library's own view
//! of the same input.  Nothing is decided here: specs/Trace_Cli.tla evaluates the obligations.
//!
//! usage: c20 <cases.ndjson> <trace.ndjson> <path-to-warcraft-rs>
mod valid;

use std::path::{Path, PathBuf};
use std::process::{Command, Stdio};
use std::time::{Duration, Instant};
use wow_mpq::{Archive, ArchiveBuilder, FormatVersion};
use wverif_common::*;

struct RunOut {
    exit: i64,
    stdout: String,
    stderr: String,
}

thread_local! {
    /// GLOBAL option of the case being run on this thread ("" | "-q" | "-v" | "-vv"), put in front of every argv of the case
    static GLOB: std::cell::RefCell<String> = const { std::cell::RefCell::new(String::new()) };
}

fn run_cli(cli: &Path, cwd: &Path, args: &[String]) -> RunOut {
    let glob = GLOB.with(|g| g.borrow().clone());
    let mut child = Command::new(cli)
        .args(if glob.is_empty() { Vec::new() } else { vec![glob] })
        .args(args)
        .current_dir(cwd)
        .env_remove("RUST_LOG")
        .env_remove("RUST_BACKTRACE")
        .env("NO_COLOR", "1")
        .stdin(Stdio::null())
        .stdout(Stdio::piped())
        .stderr(Stdio::piped())
        .spawn()
        .unwrap_or_else(|e| tool_error(&format!("cannot start {cli:?}: {e}")));
    let mut so = child.stdout.take().unwrap();
    let mut se = child.stderr.take().unwrap();
    let t1 = std::thread::spawn(move || {
        let mut b = Vec::new();
        let _ = std::io::Read::read_to_end(&mut so, &mut b);
        b
    });
    let t2 = std::thread::spawn(move || {
        let mut b = Vec::new();
        let _ = std::io::Read::read_to_end(&mut se, &mut b);
        b
    });
    let t0 = Instant::now();
    let exit = loop {
        match child.try_wait() {
            Ok(Some(st)) => {
                break match st.code() {
                    Some(c) => c as i64,
                    None => 1000 + std::os::unix::process::ExitStatusExt::signal(&st).unwrap_or(0) as i64,
                }
            }
            Ok(None) => {
                if t0.elapsed() > Duration::from_secs(120) {
                    let _ = child.kill();
                    let _ = child.wait();
                    break -1;
                }
                std::thread::sleep(Duration::from_millis(2));
            }
            Err(e) => tool_error(&format!("wait: {e}")),
        }
    };
    RunOut {
        exit,
        stdout: String::from_utf8_lossy(&t1.join().unwrap_or_default()).into_owned(),
        stderr: String::from_utf8_lossy(&t2.join().unwrap_or_default()).into_owned(),
    }
}

/// Did the tool itself print a failure verdict?  (only asked of `validate` sub-commands)
fn says_fail(cmd: &str, r: &RunOut) -> bool {
    if cmd != "validate" {
        return false;
    }
    r.stdout.lines().chain(r.stderr.lines()).any(|l| {
        let low = l.to_lowercase();
        (l.contains('\u{2717}') || l.contains('\u{274c}')) && (low.contains("fail") || low.contains("invalid") || low.contains("error"))
    })
}

fn damage(bytes: &[u8], class: &str, rng: &mut Rng) -> Vec<u8> {
    let n = bytes.len();
    let mut b = bytes.to_vec();
    match class {
        "empty" => b.clear(),
        "trunc_head" => b.truncate(3.min(n.saturating_sub(1))),
        "trunc_mid" => b.truncate(n / 2),
        "trunc_tail" => b.truncate(n.saturating_sub(1 + rng.below(8.min(n as u64 / 4).max(1)) as usize)),
        "corrupt_magic" => {
            for x in b.iter_mut().take(4) {
                *x ^= 0xFF;
            }
        }
        "corrupt_size" => {
            if n >= 8 {
                b[4..8].copy_from_slice(&0xFFFF_FFF0u32.to_le_bytes());
            }
        }
        "corrupt_rand" => {
            for _ in 0..6 {
                let i = rng.below(64.min(n as u64).max(1)) as usize;
                if i < n {
                    b[i] ^= 1 << rng.below(8);
                }
            }
        }
        _ => {}
    }
    b
}

/// Put the pre-state at an output location before the producing command runs.
fn plant(path: &Path, pre: &str, longer_than: usize) {
    if let Some(d) = path.parent() {
        let _ = std::fs::create_dir_all(d);
    }
    match pre {
        "shorter" => {
            let _ = std::fs::write(path, b"x");
        }
        "longer" | "readonly" => {
            let _ = std::fs::write(path, vec![0xEEu8; longer_than]);
            if pre == "readonly" {
                use std::os::unix::fs::PermissionsExt;
                let _ = std::fs::set_permissions(path, std::fs::Permissions::from_mode(0o444));
            }
        }
        "dir" => {
            let _ = std::fs::create_dir_all(path);
        }
        _ => {}
    }
}

/// Pre-state "samelen": a regular file of exactly the length of `output`, every byte different (an older generation of the same
/// fixed-size file).  An empty output has no such neighbour: nothing is planted.
fn plant_samelen(path: &Path, output: &[u8]) {
    if output.is_empty() {
        return;
    }
    if let Some(d) = path.parent() {
        let _ = std::fs::create_dir_all(d);
    }
    let old: Vec<u8> = output.iter().map(|b| !b).collect();
    let _ = std::fs::write(path, old);
}

/// Damage by table region of an MPQ archive (user data / header at offset 0 as the builder writes it): the header's table
/// pointers (hash table position @0x10, block table position @0x14, entry counts @0x18 / @0x1c, 16 bytes per entry) locate
/// the tables; the file is cut inside the named table (seed-chosen offset within the class), everything stored before it intact.
fn cut_in_table(bytes: &[u8], class: &str, rng: &mut Rng) -> Vec<u8> {
    let n = bytes.len();
    if n < 0x20 || &bytes[0..4] != b"MPQ\x1a" {
        tool_error("cut_in_table: reference archive does not start with an MPQ header");
    }
    let u = |o: usize| u32::from_le_bytes([bytes[o], bytes[o + 1], bytes[o + 2], bytes[o + 3]]) as usize;
    let (pos, cnt) = if class.starts_with("cut_hash") { (u(0x10), u(0x18)) } else { (u(0x14), u(0x1c)) };
    let len = (cnt * 16).min(n.saturating_sub(pos));
    if pos == 0 || pos >= n || len < 32 {
        tool_error(&format!("cut_in_table: {class}: table at {pos} (+{len}) not inside the {n}-byte archive or shorter than two entries"));
    }
    // class "...0": no whole entry survives (0..15 bytes of the table are left); otherwise >= 1 whole entry is left and >= 1 is lost
    let cut = if class.ends_with('0') { pos + rng.below(16) as usize } else { pos + 16 + rng.below(len as u64 - 31) as usize };
    bytes[..cut].to_vec()
}

/// lower-cased characters of a string as one-character strings (the spec's GlobMatch works on these)
fn chars(x: &str) -> Vec<String> {
    x.to_lowercase().chars().map(|c| c.to_string()).collect()
}

fn lib3(s: &str) -> &'static str {
    if s == "ok" {
        "ok"
    } else if s.starts_with("panic") {
        "panic"
    } else {
        "err"
    }
}

/// CLI name of the version `valid::make_valid(kind, variant)` writes (to convert back to).
fn source_version(kind: &str, variant: u32) -> &'static str {
    match kind {
        "m2" => ["wotlk", "vanilla", "tbc", "cataclysm", "mop"][variant as usize % 5],
        "skin" => ["wotlk", "cataclysm", "cataclysm"][variant as usize % 3],
        "anim" => ["legion", "legion", "wotlk"][variant as usize % 3],
        "wmo_root" => ["classic", "mop", "wotlk"][variant as usize % 3],
        "adt" => ["classic", "tbc", "wotlk", "cataclysm", "mop"][variant as usize % 5],
        "wdt" => "WotLK",
        "wdl" => ["wotlk", "vanilla", "wotlk", "legion"][variant as usize % 4],
        _ => "",
    }
}

/// another accepted spelling of the same version (identity conversion through an alias)
fn alias_of(v: &str) -> &'static str {
    match v.to_lowercase().as_str() {
        "vanilla" => "classic",
        "classic" => "vanilla",
        "tbc" => "bc",
        "wotlk" => "wrath",
        "cataclysm" => "cata",
        "mop" => "pandaria",
        "legion" => "Legion",
        _ => "wotlk",
    }
}
/// conversion target by option flag: 0 / 1 = two other versions, 2 = the source version itself, 3 = an alias of it
fn target_for(kind: &str, variant: u32, opt: i64, t0: &str, t1: &str) -> String {
    match opt {
        0 => s(t0),
        1 => s(t1),
        2 => s(source_version(kind, variant)),
        _ => s(if kind == "adt" { source_version(kind, variant) } else { alias_of(source_version(kind, variant)) }),
    }
}

fn s(x: &str) -> String {
    x.to_string()
}
fn p(x: &Path) -> String {
    x.to_string_lossy().into_owned()
}

#[allow(clippy::too_many_arguments)]
fn run_event(
    case: &str, fam: &str, cmd: &str, kind: &str, input: &str, lib: &str, libval: &str, missing: bool, skip: bool, opt: i64,
    r: &RunOut, want: &[(String, String)], got: &[(String, String)], outs: &[String], need_outs: bool, view: &[String], libview: &[String],
) -> Value {
    run_event_rt(case, fam, cmd, kind, input, lib, libval, missing, skip, opt, r, want, got, outs, need_outs, view, libview, &Rt::default())
}

/// Round-trip observation of a conversion A -> B -> A': tokens of the parsed A and A' ("" = not applicable / not parseable).
#[derive(Default)]
struct Rt {
    dir: String,      // e.g. "wotlk>cataclysm>wotlk"
    back_exit: i64,   // exit status of the conversion back (-9 = not run)
    tok_in: String,
    tok_back: String,
    // pre-state of the output location and the comparison with the same command run into a fresh location
    pre: String,       // "empty" | "shorter" | "longer" | "samelen" | "dir" | "readonly"
    out_tok: String,   // token / length of the produced file ("" / 0 = not produced or not compared)
    fresh_tok: String,
    out_len: u64,
    fresh_len: u64,
    // numeric selector option: "in" / "out" of range ("" = n/a); --filter pattern and the lower-cased characters of the library's names
    sel: String,
    filt: String,
    libnames: Vec<String>,
}

#[allow(clippy::too_many_arguments)]
fn run_event_rt(
    case: &str, fam: &str, cmd: &str, kind: &str, input: &str, lib: &str, libval: &str, missing: bool, skip: bool, opt: i64,
    r: &RunOut, want: &[(String, String)], got: &[(String, String)], outs: &[String], need_outs: bool, view: &[String], libview: &[String],
    rt: &Rt,
) -> Value {
    let pair = |v: &[(String, String)]| Value::Array(v.iter().map(|(a, b)| json!([a, b])).collect());
    let tail: String = r.stderr.lines().rev().find(|l| l.contains("Error") || l.contains("panicked")).map(normalise_digits).unwrap_or_default();
    json!({"ev":"Run","case":case,"fam":fam,"cmd":cmd,"kind":kind,"input":input,"lib":lib,"libval":libval,"missing":missing,"skip":skip,
        "opt":opt,"exit":r.exit,"says_fail":says_fail(cmd, r),"want":pair(want),"got":pair(got),"outs":outs,"need_outs":need_outs,
        "view":view,"libview":libview,"err":tail,"stdout_tok":tok(r.stdout.as_bytes()),
        "pre":if rt.pre.is_empty() { "empty" } else { rt.pre.as_str() },"out_tok":rt.out_tok,"fresh_tok":rt.fresh_tok,"out_len":rt.out_len,"fresh_len":rt.fresh_len,
        "glob":GLOB.with(|g| g.borrow().clone()),"sel":if rt.sel.is_empty() { "n/a" } else { rt.sel.as_str() },
        "filt":chars(&rt.filt),"libchars":if rt.filt.is_empty() { Vec::new() } else { rt.libnames.iter().map(|n| chars(n)).collect::<Vec<_>>() },
        "rt_dir":rt.dir,"rt_back_exit":if rt.dir.is_empty() { -9 } else { rt.back_exit },"rt_in":rt.tok_in,"rt_back":rt.tok_back})
}

// --------------------------------------------------------------------------------------------------
// format families
// --------------------------------------------------------------------------------------------------
fn fmt_case(cli: &Path, dir: &Path, c: &Value, seed: u64) -> Vec<Value> {
    let id = gi(c, "id").to_string();
    let (fam, cmd, kind, input) = (gs(c, "fam"), gs(c, "cmd"), gs(c, "kind"), gs(c, "input"));
    let opt = gi(c, "opt");
    let variant = gi(c, "variant") as u32;
    let mut rng = Rng::derive(seed, &format!("c20:{kind}:{variant}:{input}"));
    let tmp = dir.join("tmp");
    std::fs::create_dir_all(&tmp).unwrap();
    let reset = json!({"ev":"Reset","case":id,"mode":"fmt","fam":fam,"cmd":cmd,"kind":kind,"input":input,"variant":variant,"opt":opt,
        "pre":c.get("pre").and_then(|x| x.as_str()).unwrap_or("empty")});
    let pre = c.get("pre").and_then(|x| x.as_str()).unwrap_or("empty").to_string();
    let base = match input {
        "flagviol" => valid::make_flag_violating(kind, variant, &mut rng).ok_or_else(|| s("no flag-violating file for this kind")),
        // dbc: the file is fine, the schema it is validated against has one field too many (schema validation must fail)
        "flagged" if kind == "dbc" => valid::make_valid(kind, variant, &mut rng),
        "flagged" => valid::make_invalid_but_parseable(kind, &mut rng).ok_or_else(|| s("no flagged file for this kind")),
        _ => valid::make_valid(kind, variant, &mut rng),
    };
    let base = match base {
        Ok(b) => b,
        Err(e) => tool_error(&format!("cannot make a valid {kind} file (variant {variant}): {e}")),
    };
    let bytes = if matches!(input, "valid" | "flagged" | "flagviol" | "nonexistent") { base } else { damage(&base, input, &mut rng) };
    // the rule an optional validate flag switches on (asked of the library, per flag)
    let flag = match (fam, cmd, opt) {
        ("blp", "validate", 1) => "strict",
        ("wdl", "validate", 1) => "wotlk",
        _ => "",
    };
    let mut libview: Vec<String> = Vec::new();
    let ext = valid::extension(kind);
    let file = dir.join(format!("in.{ext}"));
    let (lib, libval) = if input == "nonexistent" {
        (s("n/a"), s("n/a"))
    } else {
        std::fs::write(&file, &bytes).unwrap();
        let refkind = if (fam, cmd, kind) == ("wmo", "convert", "wmo_root") { "wmo_conv" } else { kind };
        let (l, st, n, fv, lview) = lib_verdicts_flag(refkind, &file, &tmp, flag);
        libview = lview;
        let lv = if l != "ok" {
            s("n/a")
        } else if fv == "fail" {
            s("fail")
        } else {
            match kind {
                "m2" | "anim" | "wdl" => s(if st == "ok" { "ok" } else if st == "err" { "fail" } else { "n/a" }),
                "blp" => s(if n > 0 { "fail" } else { "ok" }),
                _ => s("n/a"),
            }
        };
        (l, lv)
    };
    let f = p(&file);
    let out = dir.join(format!("out.{ext}"));
    let o = p(&out);
    let schema = dir.join("schema.yaml");
    if let Some(mut y) = valid::schema_yaml(kind, variant) {
        if input == "flagged" {
            y.push_str("  - name: one_too_many\n    type_name: UInt32\n");
        }
        std::fs::write(&schema, y).unwrap();
    }
    let sc = p(&schema);
    let mut outs_paths: Vec<(PathBuf, String)> = Vec::new(); // (path, kind of the produced file)
    let (mut sel_class, mut sel_level) = (String::new(), -1i64);
    let mut a: Vec<String> = vec![s(fam), s(cmd)];
    match (fam, cmd) {
        ("dbc", "info") => a.push(f),
        ("dbc", "validate") => a.extend([f, s("--schema"), sc]),
        ("dbc", "list") => {
            a.push(f);
            if opt == 1 {
                a.extend([s("--schema"), sc]);
            }
        }
        ("dbc", "export") => {
            let e = dir.join(if opt == 1 { "out.csv" } else { "out.json" });
            a.extend([f, s("--schema"), sc, s("--format"), s(if opt == 1 { "csv" } else { "json" }), s("--output"), p(&e)]);
            outs_paths.push((e, s("text")));
        }
        ("dbc", "analyze") => {
            a.push(f);
            if opt == 1 {
                a.extend([s("--schema"), sc]);
            }
        }
        ("dbc", "discover") => {
            a.push(f);
            if opt == 1 {
                a.push(s("--yaml"));
            }
        }
        ("blp", "info") => {
            a.push(f);
            if opt == 1 {
                a.push(s("--all"));
            }
        }
        ("blp", "validate") => {
            a.push(f);
            if opt == 1 {
                a.push(s("--strict"));
            }
        }
        ("blp", "convert") if opt >= 2 => {
            // numeric selector --mipmap-level at 0, the last stored level, one past it, huge
            let levels = libview.iter().find_map(|l| l.strip_prefix("levels:").and_then(|x| x.parse::<i64>().ok())).unwrap_or(0);
            let level = match opt { 2 => 0, 3 => (levels - 1).max(0), 4 => levels, _ => 1_000_000 };
            let png = dir.join("out.png");
            a.extend([f, p(&png), s("--mipmap-level"), level.to_string()]);
            outs_paths.push((png, s("png")));
            if lib == "ok" {
                sel_class = s(if level < levels { "in" } else { "out" });
                sel_level = level;
            }
        }
        ("blp", "convert") => {
            if opt == 1 {
                a.extend([f, o.clone(), s("--blp-version"), s("blp2"), s("--blp-format"), s("dxt5")]);
                outs_paths.push((out.clone(), s("blp")));
            } else {
                let png = dir.join("out.png");
                a.extend([f, p(&png)]);
                outs_paths.push((png, s("png")));
            }
        }
        ("m2", "info") | ("m2", "skin-info") | ("m2", "anim-info") | ("wmo", "info") | ("adt", "info") => {
            a.push(f);
            if opt == 1 {
                a.push(s("--detailed"));
            }
        }
        ("m2", "validate") | ("wmo", "validate") => {
            a.push(f);
            if opt == 1 {
                a.push(s("-w"));
            }
        }
        ("m2", "tree") | ("wmo", "tree") | ("adt", "tree") | ("wdt", "tree") | ("wdl", "tree") | ("m2", "blp-info") | ("wdl", "info") => a.push(f),
        ("m2", "convert") => {
            a.extend([f, o.clone(), s("--version"), target_for(kind, variant, opt, "Cataclysm", "1.12.1")]);
            outs_paths.push((out.clone(), s("m2")));
        }
        ("m2", "skin-convert") => {
            a.extend([f, o.clone(), s("--version"), target_for(kind, variant, opt, "Cataclysm", "WotLK")]);
            outs_paths.push((out.clone(), s("skin")));
        }
        ("m2", "anim-convert") => {
            a.extend([f, o.clone(), s("--version"), target_for(kind, variant, opt, "Legion", "WotLK")]);
            outs_paths.push((out.clone(), s("anim")));
        }
        ("wmo", "convert") => {
            a.extend([f, o.clone(), s("--version"), target_for(kind, variant, opt, "Cataclysm", "WotLK")]);
            outs_paths.push((out.clone(), s(kind)));
        }
        ("wmo", "list") => {
            a.push(f);
            if opt == 1 {
                a.extend([s("--component"), s("groups")]);
            }
        }
        ("wmo", "export") => a.extend([f, s("--output"), p(&dir.join("export"))]),
        ("wmo", "extract-groups") => a.extend([f, s("--output"), p(&dir.join("groups"))]),
        ("adt", "validate") => {
            a.push(f);
            if opt == 1 {
                a.extend([s("--level"), s("strict"), s("--warnings")]);
            }
        }
        ("adt", "convert") => {
            a.extend([f, o.clone(), s("--to"), target_for(kind, variant, opt, "wotlk", "cataclysm")]);
            outs_paths.push((out.clone(), s("adt")));
        }
        ("wdt", "info") => {
            a.push(f);
            if opt == 1 {
                a.push(s("--detailed"));
            }
        }
        ("wdt", "validate") => {
            a.push(f);
            if opt == 1 {
                a.push(s("-w"));
            }
        }
        ("wdt", "tiles") => {
            a.push(f);
            if opt >= 1 {
                a.extend([s("--format"), s(if opt == 1 { "csv" } else { "json" })]);
            }
        }
        ("wdt", "convert") => {
            a.extend([f, o.clone(), s("--from-version"), s("WotLK"), s("--to-version"), s(match opt { 0 => "Cataclysm", 1 => "Classic", 2 => "WotLK", _ => "wrath" })]);
            outs_paths.push((out.clone(), s("wdt")));
        }
        ("wdl", "validate") => {
            a.push(f);
            if opt == 1 {
                a.extend([s("--version"), s("WotLK")]);
            }
        }
        ("wdl", "convert") => {
            if opt == 2 {
                // from == to, both given
                a.extend([f, o.clone(), s("--from"), s(source_version(kind, variant)), s("--to"), s(source_version(kind, variant))]);
            } else {
                // opt 3: auto-detected source, target = an alias of it
                a.extend([f, o.clone(), s("--to"), target_for(kind, variant, opt, "Legion", "WotLK")]);
            }
            outs_paths.push((out.clone(), s("wdl")));
        }
        _ => tool_error(&format!("no argv rule for {fam} {cmd}")),
    }
    // pre-state of the output location (producers only)
    if pre == "samelen" {
        // what the command produces into a fresh location tells the length; an older generation of that file is planted
        if let Some((path, _)) = outs_paths.first() {
            let gen0 = dir.join(format!("gen0-{}", path.file_name().unwrap().to_string_lossy()));
            let af: Vec<String> = a.iter().map(|x| if *x == p(path) { p(&gen0) } else { x.clone() }).collect();
            let _ = run_cli(cli, dir, &af);
            if let Ok(b) = std::fs::read(&gen0) {
                plant_samelen(path, &b);
            }
            let _ = std::fs::remove_file(&gen0);
        }
    } else if pre != "empty" {
        if let Some((path, _)) = outs_paths.first() {
            plant(path, &pre, 2 << 20);
        }
    }
    let r = run_cli(cli, dir, &a);
    let mut outs = Vec::new();
    for (path, k) in &outs_paths {
        match std::fs::read(path) {
            Err(_) => outs.push(s("missing")),
            Ok(b) => outs.push(match k.as_str() {
                "text" => s("ok"), // an export of zero records may legitimately be empty: existence is what exit 0 promises
                "png" => s(if b.starts_with(&[0x89, b'P', b'N', b'G']) && b.len() > 50 { "ok" } else { "err" }),
                k => lib_verdicts(k, path, &tmp).0,
            }),
        }
    }
    let need = !outs_paths.is_empty();
    // what the listing sub-commands printed, to be compared with the library's view
    let mut view: Vec<String> = Vec::new();
    match (fam, cmd) {
        ("wdt", "tiles") if r.exit == 0 => {
            view = match opt {
                1 => r.stdout.lines().filter_map(|l| { let f: Vec<&str> = l.trim().split(',').collect(); if f.len() == 3 && f[0].parse::<u32>().is_ok() { Some(format!("{},{}", f[0], f[1])) } else { None } }).collect(),
                2 => serde_json::from_str::<Value>(&r.stdout).ok().and_then(|v| v.as_array().cloned()).unwrap_or_default().iter()
                        .map(|t| format!("{},{}", t["x"], t["y"])).collect(),
                _ => r.stdout.lines().filter_map(|l| { let l = l.trim(); l.strip_prefix('[').and_then(|x| x.split(']').next()).map(|xy| xy.split(',').map(|q| q.trim().to_string()).collect::<Vec<_>>().join(",")) }).collect(),
            };
            view.sort();
        }
        // (only for undamaged input: a header the library tolerates need not describe the decoded image)
        ("blp", "convert") if r.exit == 0 && sel_level >= 0 && input == "valid" => {
            let b = outs_paths.first().and_then(|(pth, _)| std::fs::read(pth).ok()).unwrap_or_default();
            view = if b.len() > 24 { vec![format!("dims:{}x{}", u32::from_be_bytes([b[16], b[17], b[18], b[19]]), u32::from_be_bytes([b[20], b[21], b[22], b[23]]))] } else { vec![s("dims:none")] };
            let want = format!("dim:{sel_level}:");
            libview = libview.iter().filter_map(|l| l.strip_prefix(&want).map(|d| format!("dims:{d}"))).collect();
        }
        ("dbc", "export") if r.exit == 0 => {
            let text = outs_paths.first().and_then(|(pth, _)| std::fs::read_to_string(pth).ok()).unwrap_or_default();
            let rows = if opt == 1 {
                text.lines().filter(|l| !l.trim().is_empty()).count().saturating_sub(1)
            } else {
                match serde_json::from_str::<Value>(&text) {
                    Ok(Value::Array(v)) => v.len(),
                    Ok(Value::Object(m)) => m.get("records").and_then(|x| x.as_array()).map(|x| x.len()).unwrap_or(usize::MAX),
                    _ => usize::MAX,
                }
            };
            view = vec![format!("rows:{rows}")];
        }
        _ => libview.clear(),
    }
    if r.exit != 0 {
        libview.clear();
    }
    // the same command into a fresh location: exit 0 must mean the same file whatever was there before
    let mut rt = Rt { pre: pre.clone(), sel: sel_class.clone(), ..Rt::default() };
    if pre != "empty" && need && r.exit == 0 {
        let (outp, ok) = (&outs_paths[0].0, &outs_paths[0].1);
        let fresh = dir.join(format!("fresh-{}", outp.file_name().unwrap().to_string_lossy()));
        let af: Vec<String> = a.iter().map(|x| if *x == p(outp) { p(&fresh) } else { x.clone() }).collect();
        let r2 = run_cli(cli, dir, &af);
        if r2.exit == 0 {
            // parsed-object token where the library has a Debug-able object; raw bytes for images; text exports (JSON object
            // key order varies between processes) are compared as a multiset of bytes
            let tk = |f: &Path| match ok.as_str() {
                "png" | "blp" => std::fs::read(f).map(|b| tok(&b)).unwrap_or_default(),
                "text" => std::fs::read(f).map(|mut b| { b.sort_unstable(); tok(&b) }).unwrap_or_default(),
                k => lib_token(k, f),
            };
            rt.out_tok = tk(outp);
            rt.fresh_tok = tk(&fresh);
            rt.out_len = std::fs::metadata(outp).map(|m| m.len()).unwrap_or(0);
            rt.fresh_len = std::fs::metadata(&fresh).map(|m| m.len()).unwrap_or(0);
            if rt.fresh_tok.is_empty() {
                rt.fresh_tok = s("unparseable");
            }
        }
    }
    // conversions of valid input: convert the result back to the source version and compare the parsed objects' tokens
    let convert = matches!(cmd, "convert" | "skin-convert" | "anim-convert") && kind != "blp";
    if convert && opt <= 1 && input == "valid" && pre == "empty" && r.exit == 0 && outs == [s("ok")] {
        let target = a.last().cloned().unwrap_or_default();
        let src = source_version(kind, variant);
        let back = dir.join(format!("back.{ext}"));
        let mut b: Vec<String> = vec![s(fam), s(cmd), p(&outs_paths[0].0), p(&back)];
        match fam {
            "adt" | "wdl" => b.extend([s("--to"), s(src)]),
            "wdt" => b.extend([s("--from-version"), target.clone(), s("--to-version"), s(src)]),
            _ => b.extend([s("--version"), s(src)]),
        }
        let r2 = run_cli(cli, dir, &b);
        rt.dir = format!("{}>{}>{}", src.to_lowercase(), target.to_lowercase(), src.to_lowercase());
        rt.back_exit = r2.exit;
        rt.tok_in = lib_token(kind, &file);
        if r2.exit == 0 {
            rt.tok_back = lib_token(kind, &back);
        }
    }
    vec![reset, run_event_rt(&id, fam, cmd, kind, input, &lib, &libval, false, false, opt, &r, &[], &[], &outs, need, &view, &libview, &rt)]
}

// --------------------------------------------------------------------------------------------------
// mpq
// --------------------------------------------------------------------------------------------------
/// Upper bound of pipeline / archive member sizes: `VERIF_C20_MAXFILE` (default 4000 = below one 16 KB sector even when stored
/// raw, so that C01's findings on multi-sector files do not resurface here; lift it, e.g. to 100000, once they are fixed).
fn max_file() -> u64 {
    std::env::var("VERIF_C20_MAXFILE").ok().and_then(|v| v.trim().parse::<u64>().ok()).filter(|v| *v >= 64).unwrap_or(4000)
}

fn content(rng: &mut Rng, i: usize) -> Vec<u8> {
    let m = max_file();
    match i % 4 {
        0 => gen_content("text", (m / 20 + rng.below(m * 3 / 4)) as usize, rng),
        // with a lifted limit the incompressible member spans several sectors and is stored raw
        1 => gen_content("random", if m > 20000 { (m / 2 + rng.below(m / 2)) as usize } else { 1 + rng.below(m / 2) as usize }, rng),
        2 => Vec::new(),
        _ => gen_content("mixed", (64 + rng.below(m * 7 / 8)) as usize, rng),
    }
}

/// The library's view of an archive: (names as listed, (name, token) of every readable listed file, unreadable count)
fn lib_view(path: &Path) -> Result<(Vec<String>, Vec<(String, String)>, usize, usize), String> {
    // Archive::open on a directory never returns (its header search retries the failing read forever): not asked
    if !path.is_file() {
        return Err(s(if path.exists() { "err:NotAFile" } else { "err:Missing" }));
    }
    match guarded(|| -> Result<_, wow_mpq::Error> {
        let mut ar = Archive::open(path)?;
        let names: Vec<String> = ar.list()?.into_iter().map(|e| e.name).collect();
        let count = ar.get_info()?.file_count;
        let mut files = Vec::new();
        let mut bad = 0;
        for n in &names {
            match ar.read_file(n) {
                Ok(b) => files.push((n.clone(), tok(&b))),
                Err(_) => bad += 1,
            }
        }
        Ok((names, files, bad, count))
    }) {
        Outcome::Done(Ok(v)) => Ok(v),
        Outcome::Done(Err(e)) => Err(format!("err:{}", variant_name(&e))),
        Outcome::Panic(m) => Err(format!("panic:{m}")),
        Outcome::Hang => Err(s("hang")),
    }
}

/// names the LIBRARY reports as encrypted
fn encrypted_names(path: &Path) -> Vec<String> {
    if !path.is_file() {
        return Vec::new();
    }
    match guarded(|| -> Result<Vec<String>, wow_mpq::Error> {
        let mut ar = Archive::open(path)?;
        let names: Vec<String> = ar.list()?.into_iter().map(|e| e.name).collect();
        Ok(names.into_iter().filter(|n| ar.find_file(n).ok().flatten().map(|f| f.is_encrypted()).unwrap_or(false)).collect())
    }) {
        Outcome::Done(Ok(v)) => v,
        _ => Vec::new(),
    }
}

/// scale classes: archives of `count` tiny files around the window / batch constants of the bulk commands
fn scale_case(cli: &Path, dir: &Path, c: &Value, seed: u64) -> Vec<Value> {
    let id = gi(c, "id").to_string();
    let cmd = gs(c, "cmd");
    let count = gi(c, "count") as usize;
    let opt = gi(c, "opt");
    let mut rng = Rng::derive(seed, &format!("c20:scale:{count}"));
    let reset = json!({"ev":"Reset","case":id,"mode":"scale","fam":"mpq","cmd":cmd,"kind":"mpq","input":"valid","count":count,"opt":opt});
    let arch = dir.join("many.mpq");
    let mut b = ArchiveBuilder::new().version(FormatVersion::V2);
    for i in 0..count {
        let data: Vec<u8> = (0..1 + rng.below(3)).map(|k| (i as u8).wrapping_add(k as u8)).collect();
        b = b.add_file_data(data, &format!("d{}\\f{i}.x", i % 7));
    }
    if let Err(e) = b.build(&arch) {
        tool_error(&format!("cannot build the {count}-file archive: {e}"));
    }
    let view = lib_view(&arch);
    let (lib, libval) = match &view {
        Ok((_, _, bad, _)) => (s("ok"), s(if *bad > 0 { "fail" } else { "ok" })),
        Err(e) => (s(lib3(e)), s("n/a")),
    };
    let af = p(&arch);
    let outd = dir.join("out");
    let preserve = opt == 1;
    let mut a: Vec<String> = vec![s("mpq"), s(cmd), af];
    match cmd {
        "extract" => {
            a.extend([s("-o"), p(&outd)]);
            if preserve {
                a.push(s("--preserve-paths"));
            }
        }
        "rebuild" => a.push(p(&dir.join("rebuilt.mpq"))),
        "list" | "validate" => {}
        _ => tool_error(&format!("no scale rule for mpq {cmd}")),
    }
    let r = run_cli(cli, dir, &a);
    let (mut want, mut got, mut outs, mut need) = (Vec::new(), Vec::new(), Vec::new(), false);
    let (mut vw, mut lv) = (Vec::new(), Vec::new());
    match cmd {
        "extract" => {
            if let Ok((_, files, _, _)) = &view {
                want = files.iter().map(|(n, t)| (on_disk_name(n, preserve), t.clone())).collect();
            }
            dir_files(&outd, Path::new(""), &mut got);
        }
        "rebuild" => {
            need = true;
            if let Ok((_, files, _, _)) = &view {
                want = files.iter().filter(|(n, _)| !n.starts_with('(')).cloned().collect();
            }
            let t = dir.join("rebuilt.mpq");
            match lib_view(&t) {
                Ok((_, files, _, _)) => {
                    got = files;
                    outs.push(s("ok"));
                }
                Err(e) => outs.push(if t.exists() { s(lib3(&e)) } else { s("missing") }),
            }
        }
        "list" => {
            vw = view_of_list(&r.stdout);
            if let Ok((n, _, _, _)) = &view {
                lv = n.clone();
                lv.sort();
            }
        }
        _ => {}
    }
    // keep the trace small: only the tokens that differ matter to TLC; log want/got as they are (<= ~10k pairs)
    vec![reset, run_event(&id, "mpq", cmd, "mpq", "valid", &lib, &libval, false, false, opt, &r, &want, &got, &outs, need, &vw, &lv)]
}

fn dir_files(root: &Path, rel: &Path, out: &mut Vec<(String, String)>) {
    if let Ok(rd) = std::fs::read_dir(root.join(rel)) {
        for e in rd.flatten() {
            let r = rel.join(e.file_name());
            if e.path().is_dir() {
                dir_files(root, &r, out);
            } else if let Ok(b) = std::fs::read(e.path()) {
                out.push((r.to_string_lossy().replace('/', "\\"), tok(&b)));
            }
        }
    }
}

fn on_disk_name(mpq_name: &str, preserve: bool) -> String {
    if preserve {
        mpq_name.replace('/', "\\")
    } else {
        mpq_name.rsplit(['\\', '/']).next().unwrap_or(mpq_name).to_string()
    }
}

fn view_of_list(stdout: &str) -> Vec<String> {
    let mut v: Vec<String> = stdout.lines().map(|l| l.trim().to_string()).filter(|l| !l.is_empty()).collect();
    v.sort();
    v
}
/// first column of the `--long` table
fn view_of_long_list(stdout: &str) -> Vec<String> {
    let mut v: Vec<String> = stdout
        .lines()
        .filter(|l| l.starts_with('|'))
        .filter_map(|l| l.split('|').nth(1).map(|c| c.trim().to_string()))
        .filter(|c| !c.is_empty() && c != "File")
        .collect();
    v.sort();
    v
}
fn view_of_info(stdout: &str) -> Vec<String> {
    stdout.lines().filter_map(|l| l.trim().strip_prefix("Number of files: ").map(|n| format!("count:{}", n.trim()))).collect()
}

fn mpq1_case(cli: &Path, dir: &Path, c: &Value, seed: u64) -> Vec<Value> {
    let id = gi(c, "id").to_string();
    let (cmd, input) = (gs(c, "cmd"), gs(c, "input"));
    let opt = gi(c, "opt");
    let variant = gi(c, "variant");
    let mut rng = Rng::derive(seed, &format!("c20:mpq1:{variant}:{input}:{cmd}"));
    let reset = json!({"ev":"Reset","case":id,"mode":"mpq1","fam":"mpq","cmd":cmd,"kind":"mpq","input":input,"variant":variant,"opt":opt,
        "pre":c.get("pre").and_then(|x| x.as_str()).unwrap_or("empty")});
    let arch = dir.join("a.mpq");
    // name classes: lower, UPPER, MiXed, nested directories, with spaces, non-ASCII
    let names = ["readme.txt", "UPPER\\DATA.BIN", "Interface\\Icons\\MiXed.blp", "data\\sub\\deep\\empty.dat", "my dir\\a file.txt", "donn\u{e9}es\\\u{e9}t\u{e9}.txt", "zz.txt",
        // near-misses of the filter shapes: extension letters without the dot, longer extension, prefix inside the name, ...
        "changelog_txt", "notes.text", "mydata\\x.bin", "dat", "zz.txt2", "azz.txt"];
    let nfiles = names.len();
    // --filter patterns by index: every shape of the filter contract (Cli.tla GlobMatch)
    // round 5: patterns of three and more literals (the same literal twice, literals that occur in some names only in another order)
    const PATTERNS: [&str; 12] = ["", "*", "*.txt", "data*", "*sub*", "zz.txt", "zz?txt", "*.TXT", "*a*t*a*", "*t*x*t*", "*e*p*e*", "*z*.*z*"];
    let pre = c.get("pre").and_then(|x| x.as_str()).unwrap_or("empty").to_string();
    let mut b = ArchiveBuilder::new().version(if variant % 2 == 0 { FormatVersion::V1 } else { FormatVersion::V2 });
    // file classes: encrypted, fix-key encrypted, multi-sector (compressible), special files ((listfile) + (attributes))
    b = b
        .attributes_option(wow_mpq::AttributesOption::GenerateCrc32)
        .add_file_data_with_options(gen_content("text", 900 + rng.below(600) as usize, &mut rng), "secret\\enc.dat", wow_mpq::compression::flags::ZLIB, true, 0)
        .add_file_data_with_encryption(gen_content("text", 700 + rng.below(600) as usize, &mut rng), "secret\\fix.dat", wow_mpq::compression::flags::ZLIB, true, 0)
        .add_file_data(gen_content("text", 40_000 + rng.below(9000) as usize, &mut rng), "big\\multi.txt");
    let mut members: Vec<(String, Vec<u8>)> = Vec::new();
    for (i, n) in names.iter().take(nfiles).enumerate() {
        let data = if i == 0 { gen_content("text", (max_file() * 3 / 8 + rng.below(max_file() * 3 / 8)) as usize, &mut rng) } else { content(&mut rng, i) };
        members.push((n.to_string(), data.clone()));
        b = b.add_file_data(data, n);
    }
    if let Err(e) = b.build(&arch) {
        tool_error(&format!("cannot build the reference archive: {e}"));
    }
    let mut bytes = std::fs::read(&arch).unwrap();
    let pristine = bytes.clone();
    if input.starts_with("cut_") {
        bytes = cut_in_table(&bytes, input, &mut rng);
    } else if input == "flagged" {
        // ruin the stored (zlib) data of readme.txt: the archive opens and lists, that file cannot be read
        let info = Archive::open(&arch).and_then(|a| a.find_file("readme.txt")).ok().flatten();
        let Some(fi) = info else { tool_error("reference archive lacks readme.txt") };
        let (st, len) = (fi.file_pos as usize, fi.compressed_size as usize);
        for x in bytes[st + 1..st + len].iter_mut() {
            *x = 0xFF;
        }
    } else if input != "valid" && input != "nonexistent" {
        bytes = damage(&bytes, input, &mut rng);
    }
    if input == "nonexistent" {
        let _ = std::fs::remove_file(&arch);
    } else {
        std::fs::write(&arch, &bytes).unwrap();
    }
    let view = if input == "nonexistent" { Err(s("n/a")) } else { lib_view(&arch) };
    let (lib, libval) = match &view {
        Ok((_, _, bad, _)) => (s("ok"), s(if *bad > 0 { "fail" } else { "ok" })),
        Err(e) if e == "n/a" => (s("n/a"), s("n/a")),
        Err(e) => (s(lib3(e)), s("n/a")),
    };
    let af = p(&arch);
    let outd = dir.join("out");
    let mut a: Vec<String> = vec![s("mpq"), s(cmd)];
    let mut want = Vec::new();
    let mut got = Vec::new();
    let mut outs = Vec::new();
    let mut need = false;
    let (mut vw, mut lv) = (Vec::new(), Vec::new());
    let mut rtx = Rt::default();
    let preserve = opt == 1;
    // pre-state of the producers' output locations
    if pre != "empty" && input == "valid" {
        match cmd {
            // samelen: the directory holds an older generation of every member (same names, same lengths, other bytes)
            "extract" if pre == "samelen" => {
                for (n, d) in &members {
                    plant_samelen(&outd.join(on_disk_name(n, preserve).replace('\\', "/")), d);
                }
            }
            "extract" => plant(&outd.join(if preserve { "my dir/a file.txt" } else { "a file.txt" }), &pre, 9000 + max_file() as usize),
            "rebuild" if pre != "samelen" => plant(&dir.join("rebuilt.mpq"), &pre, 2 << 20),
            _ => {}
        }
    }
    match cmd {
        "info" => {
            a.push(af);
            if opt == 1 {
                a.push(s("--show-hash-table"));
            }
        }
        "validate" => {
            a.push(af);
            if opt == 1 {
                a.push(s("--check-checksums"));
            }
        }
        "list" => {
            a.push(af);
            if opt & 1 == 1 {
                a.push(s("--long"));
            }
            if opt >> 1 > 0 {
                a.extend([s("--filter"), s(PATTERNS[(opt >> 1) as usize % 12])]);
            }
        }
        "tree" => {
            a.extend([af, s("--no-color")]);
            if opt > 0 {
                a.extend([s("--filter"), s(PATTERNS[opt as usize % 12])]);
            }
        }
        "debug" => {
            a.push(af);
            if opt == 1 {
                a.push(s("--all"));
            }
        }
        "patch-chain" => {
            a.push(af);
            if opt == 1 {
                a.push(s("--detailed"));
            }
        }
        "extract" => {
            a.extend([af, s("-o"), p(&outd)]);
            if preserve {
                a.push(s("--preserve-paths"));
            }
        }
        "rebuild" => {
            a.extend([af, p(&dir.join("rebuilt.mpq"))]);
            if opt & 1 == 1 {
                a.push(s("--verify"));
            }
            if opt & 2 == 2 {
                a.push(s("--skip-encrypted"));
            }
        }
        "compare" => {
            // a damaged archive is compared with its intact original, in the first (opt 0) or the second (opt 1) position
            let other = dir.join("b.mpq");
            let is_damaged = input != "valid" && input != "flagged" && input != "nonexistent";
            if input != "nonexistent" {
                std::fs::write(&other, if is_damaged { &pristine } else { &bytes }).unwrap();
            }
            if is_damaged && opt == 1 {
                a.extend([p(&other), af]);
            } else {
                a.extend([af, p(&other)]);
            }
            if opt == 1 {
                a.push(s("--content-check"));
            }
        }
        "create" => {
            // `input` describes the file to add
            let src = dir.join("payload.bin");
            if input == "valid" {
                std::fs::write(&src, content(&mut rng, 1)).unwrap();
            }
            let _ = std::fs::remove_file(&arch);
            if pre != "empty" && pre != "samelen" && input == "valid" {
                plant(&arch, &pre, 2 << 20);
            }
            a.extend([af, s("--add"), p(&src)]);
            if opt == 1 {
                a.push(s("--with-listfile"));
            }
        }
        _ => tool_error(&format!("no argv rule for mpq {cmd}")),
    }
    // samelen for the archive-producing sub-commands: the same command into a fresh path tells the length
    if pre == "samelen" && input == "valid" && (cmd == "create" || cmd == "rebuild") {
        let target = if cmd == "create" { arch.clone() } else { dir.join("rebuilt.mpq") };
        let gen0 = dir.join("gen0.mpq");
        let af0: Vec<String> = a.iter().map(|x| if *x == p(&target) { p(&gen0) } else { x.clone() }).collect();
        let _ = run_cli(cli, dir, &af0);
        if let Ok(b) = std::fs::read(&gen0) {
            plant_samelen(&target, &b);
        }
        let _ = std::fs::remove_file(&gen0);
    }
    let r = run_cli(cli, dir, &a);
    match cmd {
        "list" => {
            vw = if opt & 1 == 1 { view_of_long_list(&r.stdout) } else { view_of_list(&r.stdout) };
            if let Ok((n, _, _, _)) = &view {
                lv = n.clone();
                lv.sort();
                // "No files found matching pattern" is the tool's rendering of an empty list
                vw.retain(|l| !l.starts_with("No files found matching pattern"));
                rtx.filt = s(PATTERNS[(opt >> 1) as usize % 12]);
                rtx.libnames = lv.clone();
            }
        }
        "tree" => {
            // leaves of the tree (basenames), special files aside; the filter applies to full names
            vw = r.stdout.lines().filter_map(|l| l.split("\u{1f4c4} ").nth(1)).map(|x| x.rsplit_once(" (").map(|(a, _)| a).unwrap_or(x).trim().to_string())
                .filter(|x| !x.starts_with('(')).collect();
            vw.sort();
            if let Ok((n, _, _, _)) = &view {
                let mut full: Vec<String> = n.iter().filter(|x| !x.starts_with('(')).cloned().collect();
                full.sort();
                lv = full.iter().map(|x| x.rsplit(['\\', '/']).next().unwrap_or(x).to_string()).collect();
                rtx.filt = s(if opt == 0 { "*" } else { PATTERNS[opt as usize % 12] });
                rtx.libnames = full;
            }
        }
        "info" => {
            vw = view_of_info(&r.stdout);
            if let Ok((_, _, _, cnt)) = &view {
                lv = vec![format!("count:{cnt}")];
            }
        }
        "extract" => {
            if let Ok((_, files, _, _)) = &view {
                want = files.iter().map(|(n, t)| (on_disk_name(n, preserve), t.clone())).collect();
            }
            dir_files(&outd, Path::new(""), &mut got);
        }
        "rebuild" => {
            need = true;
            let t = dir.join("rebuilt.mpq");
            if let Ok((_, files, _, _)) = &view {
                // every readable file of the source except the special ones; encrypted ones only leave with --skip-encrypted
                let enc = encrypted_names(&arch);
                want = files.iter().filter(|(n, _)| !n.starts_with('(') && !(opt & 2 == 2 && enc.contains(n))).cloned().collect();
            }
            match lib_view(&t) {
                Ok((_, files, _, _)) => {
                    got = files;
                    outs.push(s("ok"));
                }
                Err(e) => outs.push(if t.exists() { s(lib3(&e)) } else { s("missing") }),
            }
        }
        "create" => {
            need = true;
            match lib_view(&arch) {
                Ok((_, files, _, _)) => {
                    got = files;
                    outs.push(s("ok"));
                }
                Err(e) => outs.push(if arch.exists() { s(lib3(&e)) } else { s("missing") }),
            }
            if input == "valid" {
                want.push((s("payload.bin"), tok(&std::fs::read(dir.join("payload.bin")).unwrap())));
            }
        }
        _ => {}
    }
    let (lib, libval) = if cmd == "create" { (s(if input == "valid" { "ok" } else { "n/a" }), s("n/a")) } else { (lib, libval) };
    let rt = Rt { pre: pre.clone(), ..rtx };
    vec![reset, run_event_rt(&id, "mpq", cmd, "mpq", input, &lib, &libval, false, false, opt, &r, &want, &got, &outs, need, &vw, &lv, &rt)]
}

fn pipe_case(cli: &Path, dir: &Path, c: &Value, seed: u64) -> Vec<Value> {
    let id = gi(c, "id").to_string();
    let (files, version, compression, explicit) = (gs(c, "files"), gs(c, "version"), gs(c, "compression"), gs(c, "explicit"));
    let (listfile, preserve, skip, threads) = (gb(c, "listfile"), gb(c, "preserve"), gb(c, "skip"), gi(c, "threads"));
    let chain = c.get("chain").and_then(|x| x.as_bool()).unwrap_or(false);
    let pre = c.get("pre").and_then(|x| x.as_str()).unwrap_or("empty").to_string();
    let mut rng = Rng::derive(seed, &format!("c20:pipe:{id}"));
    let mut evs = vec![json!({"ev":"Reset","case":id,"mode":"pipe","fam":"mpq","cmd":"pipeline","kind":"mpq","input":"valid","files":files,
        "version":version,"compression":compression,"listfile":listfile,"threads":threads,"preserve":preserve,"explicit":explicit,"skip":skip,"chain":chain,"pre":pre})];
    let ind = dir.join("in");
    std::fs::create_dir_all(&ind).unwrap();
    let n = match files {
        "one" => 1,
        "few" => 4,
        _ => 13,
    };
    let mut inputs: Vec<(String, String)> = Vec::new();
    let mut datas: Vec<(String, Vec<u8>)> = Vec::new();
    let arch = dir.join("made.mpq");
    let mut a: Vec<String> = vec![s("mpq"), s("create"), p(&arch)];
    for i in 0..n {
        let name = format!("{}{i:02}{}", ["f", "UPPER", "MiXed", "\u{e9}t\u{e9}", "with space"][i % 5], [".txt", ".BIN", ".dat", ".blp"][i % 4]);
        let data = content(&mut rng, if n == 1 { 3 } else { i });
        std::fs::write(ind.join(&name), &data).unwrap();
        inputs.push((name.clone(), tok(&data)));
        datas.push((name.clone(), data));
        a.extend([s("--add"), p(&ind.join(&name))]);
    }
    a.extend([s("--version"), s(version), s("--compression"), s(compression)]);
    if listfile {
        a.push(s("--with-listfile"));
    }
    let none: [String; 0] = [];
    // create
    let r = run_cli(cli, dir, &a);
    let view = lib_view(&arch);
    let (got, outs) = match &view {
        Ok((_, f, _, _)) => (f.clone(), vec![s("ok")]),
        Err(e) => (Vec::new(), vec![if arch.exists() { s(lib3(e)) } else { s("missing") }]),
    };
    evs.push(run_event(&id, "mpq", "create", "mpq", "valid", "ok", "n/a", false, false, 0, &r, &inputs, &got, &outs, true, &none, &none));
    let Ok((names, libfiles, bad, count)) = view else { return evs };
    let libval = if bad > 0 { "fail" } else { "ok" };
    // list, info
    let r = run_cli(cli, dir, &[s("mpq"), s("list"), p(&arch)]);
    let mut lv = names.clone();
    lv.sort();
    evs.push(run_event(&id, "mpq", "list", "mpq", "valid", "ok", libval, false, false, 0, &r, &[], &[], &none, false, &view_of_list(&r.stdout), &lv));
    let r = run_cli(cli, dir, &[s("mpq"), s("list"), p(&arch), s("--long")]);
    evs.push(run_event(&id, "mpq", "list", "mpq", "valid", "ok", libval, false, false, 1, &r, &[], &[], &none, false, &view_of_long_list(&r.stdout), &lv));
    let r = run_cli(cli, dir, &[s("mpq"), s("info"), p(&arch)]);
    evs.push(run_event(&id, "mpq", "info", "mpq", "valid", "ok", libval, false, false, 0, &r, &[], &[], &none, false, &view_of_info(&r.stdout), &[format!("count:{count}")]));
    // patch archive for chain runs: overrides the first input file, adds a new one (made with the CLI's own `create`)
    let patch = dir.join("patch.mpq");
    let mut libfiles = libfiles;
    if chain {
        let pd = dir.join("pin");
        std::fs::create_dir_all(&pd).unwrap();
        let over = inputs[0].0.clone();
        std::fs::write(pd.join(&over), gen_content("text", 300 + rng.below(900) as usize, &mut rng)).unwrap();
        std::fs::write(pd.join("added.bin"), gen_content("random", 100 + rng.below(900) as usize, &mut rng)).unwrap();
        let pa = vec![s("mpq"), s("create"), p(&patch), s("--add"), p(&pd.join(&over)), s("--add"), p(&pd.join("added.bin")),
                      s("--version"), s(version), s("--compression"), s(compression)];
        let r = run_cli(cli, dir, &pa);
        let pin: Vec<(String, String)> = [over.as_str(), "added.bin"].iter().map(|n| (n.to_string(), tok(&std::fs::read(pd.join(n)).unwrap()))).collect();
        let pv = lib_view(&patch);
        let (got, outs) = match &pv {
            Ok((_, f, _, _)) => (f.clone(), vec![s("ok")]),
            Err(e) => (Vec::new(), vec![if patch.exists() { s(lib3(e)) } else { s("missing") }]),
        };
        evs.push(run_event(&id, "mpq", "create", "mpq", "valid", "ok", "n/a", false, false, 1, &r, &pin, &got, &outs, true, &none, &none));
        if pv.is_err() {
            return evs;
        }
        // the library's view of the chain: highest priority first
        let view = guarded(|| -> Result<Vec<(String, String)>, wow_mpq::Error> {
            let mut ch = wow_mpq::PatchChain::new();
            ch.add_archive(&arch, 0)?;
            ch.add_archive(&patch, 100)?;
            let mut v = Vec::new();
            for e in ch.list()? {
                if let Ok(b) = ch.read_file(&e.name) {
                    v.push((e.name.clone(), tok(&b)));
                }
            }
            Ok(v)
        });
        match view {
            Outcome::Done(Ok(v)) => libfiles = v,
            _ => return evs,
        }
    }
    // extract
    let outd = dir.join("x");
    let mut a: Vec<String> = vec![s("mpq"), s("extract"), p(&arch), s("-o"), p(&outd)];
    if chain {
        a.extend([s("--patch"), p(&patch)]);
    }
    if preserve {
        a.push(s("--preserve-paths"));
    }
    if skip {
        a.push(s("--skip-errors"));
    }
    if threads > 0 {
        a.extend([s("--threads"), threads.to_string()]);
    }
    let mut requested: Vec<String> = Vec::new();
    let mut missing = false;
    if explicit != "all" {
        let k = (inputs.len() + 1) / 2;
        requested = inputs.iter().take(k).map(|(n, _)| n.clone()).collect();
        if explicit == "missing" {
            requested.insert(requested.len() / 2, s("no\\such\\file.bin"));
            missing = true;
        }
        a.extend(requested.iter().cloned());
    }
    // pre-state: something is already where the first requested (whole archive: first input) file will be written
    if pre == "samelen" {
        // an older generation of every packed file is already there (same names, same lengths, other bytes)
        for (n, d) in &datas {
            plant_samelen(&outd.join(on_disk_name(n, preserve).replace('\\', "/")), d);
        }
    } else if pre != "empty" {
        let first = if explicit == "all" { inputs[0].0.clone() } else { requested.iter().find(|q| !q.contains("such")).cloned().unwrap_or_default() };
        if !first.is_empty() {
            plant(&outd.join(on_disk_name(&first, preserve).replace('\\', "/")), &pre, 9000 + max_file() as usize);
        }
    }
    let r = run_cli(cli, dir, &a);
    // whole archive: files appear under the listed names; explicit: under the spelling that was requested
    let want: Vec<(String, String)> = if explicit == "all" {
        libfiles.iter().map(|(n, t)| (on_disk_name(n, preserve), t.clone())).collect()
    } else {
        requested
            .iter()
            .filter_map(|q| libfiles.iter().find(|(n, _)| n.eq_ignore_ascii_case(q)).map(|(_, t)| (on_disk_name(q, preserve), t.clone())))
            .collect()
    };
    let mut got = Vec::new();
    dir_files(&outd, Path::new(""), &mut got);
    let rt = Rt { pre: pre.clone(), ..Rt::default() };
    evs.push(run_event_rt(&id, "mpq", "extract", "mpq", "valid", "ok", libval, missing, skip, threads, &r, &want, &got, &none, false, &none, &none, &rt));
    evs
}

/// Library verdicts are computed in a child process (`c20 worker <kind> <file> <tmpdir>`): damaged input can make the
/// library abort (huge allocation) or overflow the stack, which must not take the driver down.
fn worker(kind: &str, file: &str, tmp: &str) -> ! {
    install_quiet_panic_hook();
    unsafe {
        let lim = libc::rlimit { rlim_cur: 6 << 30, rlim_max: 6 << 30 };
        libc::setrlimit(libc::RLIMIT_AS, &lim);
    }
    let bytes = std::fs::read(file).unwrap_or_default();
    let tmp = Path::new(tmp);
    // `wmo convert` reads root files with WmoParser::parse_root (not parse_wmo_with_metadata): its own entry point is the reference
    let l = if kind == "wmo_conv" {
        match guarded(|| wow_wmo::WmoParser::new().parse_root(&mut std::io::Cursor::new(&bytes)).map(|_| ())) {
            Outcome::Done(Ok(())) => s("ok"),
            Outcome::Done(Err(_)) => s("err"),
            _ => s("panic"),
        }
    } else {
        valid::lib_parse(kind, &bytes, tmp)
    };
    let (st, n) = if l == "ok" { valid::lib_validate(kind, &bytes, tmp) } else { (s("n/a"), 0) };
    println!("VERDICT {} {} {}", lib3(&l), st.split(':').next().unwrap_or("n/a"), n);
    if let Ok(flag) = std::env::var("C20_FLAG") {
        if l == "ok" && !flag.is_empty() {
            println!("FLAGVERDICT {}", valid::lib_validate_flag(kind, &flag, &bytes, tmp));
        }
    }
    // the library's view for listing sub-commands
    if l == "ok" && kind == "wdt" {
        if let Ok(w) = wow_wdt::WdtReader::new(std::io::Cursor::new(&bytes), wow_wdt::version::WowVersion::WotLK).read() {
            for y in 0..64 {
                for x in 0..64 {
                    if w.get_tile(x, y).map(|t| t.has_adt).unwrap_or(false) {
                        println!("VIEW {x},{y}");
                    }
                }
            }
        }
    }
    if l == "ok" && kind == "blp" {
        let tf = tmp.join(format!("view-{}.blp", std::process::id()));
        if std::fs::write(&tf, &bytes).is_ok() {
            if let Ok(b) = wow_blp::parser::load_blp(&tf) {
                let n = b.image_count();
                println!("VIEW levels:{n}");
                for lv in 0..n {
                    println!("VIEW dim:{lv}:{}x{}", (b.header.width >> lv).max(1), (b.header.height >> lv).max(1));
                }
            }
            let _ = std::fs::remove_file(&tf);
        }
    }
    if l == "ok" && kind == "dbc" {
        if let Ok(pz) = wow_cdbc::DbcParser::parse(&mut std::io::Cursor::new(&bytes)) {
            println!("VIEW rows:{}", pz.header().record_count);
        }
    }
    std::process::exit(0);
}

/// Token (digest of the Debug rendering) of the object the library parses from a file, or "" if it does not parse.
/// Runs in the worker child (`c20 token <kind> <file>`).
fn token_worker(kind: &str, file: &str) -> ! {
    install_quiet_panic_hook();
    let p = PathBuf::from(file);
    let open = |p: &Path| std::fs::File::open(p).map(std::io::BufReader::new);
    let t: Option<String> = match guarded(|| -> Option<String> {
        match kind {
            "m2" => wow_m2::M2Model::load(&p).ok().map(|m| format!("{m:#?}")),
            "skin" => wow_m2::SkinFile::load(&p).ok().map(|m| format!("{m:#?}")),
            "anim" => wow_m2::AnimFile::load(&p).ok().map(|m| format!("{m:#?}")),
            "wmo_root" | "wmo_group" => open(&p).ok().and_then(|mut r| wow_wmo::parse_wmo_with_metadata(&mut r).ok()).map(|m| format!("{m:#?}")),
            "adt" => open(&p).ok().and_then(|mut r| wow_adt::parse_adt_with_metadata(&mut r).ok()).map(|(a, _)| format!("{a:#?}")),
            "wdt" => open(&p).ok().and_then(|r| wow_wdt::WdtReader::new(r, wow_wdt::version::WowVersion::WotLK).read().ok()).map(|m| format!("{m:#?}")),
            "wdl" => open(&p).ok().and_then(|mut r| wow_wdl::parser::WdlParser::new().parse(&mut r).ok()).map(|m| format!("{m:#?}")),
            _ => None,
        }
    }) {
        Outcome::Done(v) => v,
        _ => None,
    };
    if let (Ok(d), Some(text)) = (std::env::var("C20_DUMP"), &t) {
        let _ = std::fs::write(d, text);
    }
    // several parsed types hold HashMaps (iteration order varies per process): the token is the digest of the SORTED lines of the
    // pretty Debug rendering, i.e. of the multiset of rendered fields
    println!(
        "TOKEN {}",
        t.map(|x| {
            let mut l: Vec<&str> = x.lines().collect();
            l.sort_unstable();
            tok(l.join("\n").as_bytes())
        })
        .unwrap_or_default()
    );
    std::process::exit(0);
}

fn lib_token(kind: &str, file: &Path) -> String {
    let exe = std::env::current_exe().unwrap_or_else(|e| tool_error(&format!("current_exe: {e}")));
    let out = Command::new(exe).args(["token", kind, &p(file)]).stdin(Stdio::null()).stderr(Stdio::null()).output();
    match out {
        Ok(o) => String::from_utf8_lossy(&o.stdout).lines().find_map(|l| l.strip_prefix("TOKEN ").map(|t| t.trim().to_string())).unwrap_or_default(),
        Err(_) => String::new(),
    }
}

/// (lib, validate status, count) for a file, via the worker child.
fn lib_verdicts(kind: &str, file: &Path, tmp: &Path) -> (String, String, i64) {
    let (a, b, c, _, _) = lib_verdicts_flag(kind, file, tmp, "");
    (a, b, c)
}

/// as lib_verdicts, plus the verdict for a validate flag ("" = none) and the library's view lines
fn lib_verdicts_flag(kind: &str, file: &Path, tmp: &Path, flag: &str) -> (String, String, i64, String, Vec<String>) {
    let (a, b, c, t) = lib_verdicts_raw(kind, file, tmp, flag);
    let fv = t.lines().find_map(|l| l.strip_prefix("FLAGVERDICT ").map(|x| x.trim().to_string())).unwrap_or_else(|| s("n/a"));
    let mut view: Vec<String> = t.lines().filter_map(|l| l.strip_prefix("VIEW ").map(|x| x.trim().to_string())).collect();
    view.sort();
    (a, b, c, fv, view)
}

fn lib_verdicts_raw(kind: &str, file: &Path, tmp: &Path, flag: &str) -> (String, String, i64, String) {
    let exe = std::env::current_exe().unwrap_or_else(|e| tool_error(&format!("current_exe: {e}")));
    let out = Command::new(exe)
        .args(["worker", kind, &p(file), &p(tmp)])
        .env("C20_FLAG", flag)
        .stdin(Stdio::null())
        .stderr(Stdio::null())
        .output()
        .unwrap_or_else(|e| tool_error(&format!("cannot start worker: {e}")));
    let text = String::from_utf8_lossy(&out.stdout);
    for l in text.lines() {
        if let Some(rest) = l.strip_prefix("VERDICT ") {
            let f: Vec<&str> = rest.split_whitespace().collect();
            if f.len() == 3 {
                return (s(f[0]), s(f[1]), f[2].parse().unwrap_or(0), text.to_string());
            }
        }
    }
    (s("panic"), s("n/a"), 0, String::new()) // abort / signal / stack overflow of the library
}

fn main() {
    let raw: Vec<String> = std::env::args().collect();
    if raw.len() == 5 && raw[1] == "worker" {
        worker(&raw[2], &raw[3], &raw[4]);
    }
    if raw.len() == 4 && raw[1] == "token" {
        token_worker(&raw[2], &raw[3]);
    }
    let a = args();
    install_quiet_panic_hook();
    if a.extra.is_empty() {
        tool_error("usage: c20 <cases> <trace> <warcraft-rs binary>");
    }
    let cli = PathBuf::from(&a.extra[0]);
    if !cli.is_file() {
        tool_error(&format!("CLI binary {cli:?} not found"));
    }
    let cases = read_cases(&a.cases);
    let trace = Trace::create(&a.trace);
    let scratch = Scratch::new("c20");
    let seed = seed();
    par_for(cases.len(), ncpu().clamp(2, 10), |ci| {
        let c = &cases[ci];
        let dir = scratch.path.join(format!("k{}", gi(c, "id")));
        std::fs::create_dir_all(&dir).unwrap();
        GLOB.with(|g| *g.borrow_mut() = c.get("glob").and_then(|x| x.as_str()).unwrap_or("").to_string());
        let evs = match gs(c, "mode") {
            "scale" => scale_case(&cli, &dir, c, seed),
            "fmt" => fmt_case(&cli, &dir, c, seed),
            "mpq1" => mpq1_case(&cli, &dir, c, seed),
            "pipe" => pipe_case(&cli, &dir, c, seed),
            m => tool_error(&format!("unknown case mode {m}")),
        };
        trace.block(evs);
        if std::env::var("VERIF_KEEP").is_err() {
            let _ = std::fs::remove_dir_all(&dir);
        }
    });
    trace.flush();
}
