------------------------------ MODULE ParExtract ------------------------------
(***************************************************************************)
(* C09 -- the parallel extraction interfaces of wow-mpq                    *)
(* (single_archive_parallel.rs, parallel.rs) as a state machine over       *)
(* rayon-style workers.                                                    *)
(*                                                                         *)
(* A call gets a request list req (names; duplicates and names that are    *)
(* not in the archive allowed), T workers, and either one task per name    *)
(* (unbatched: read_file_with_new_handle) or one task per chunk of B names *)
(* (batched: one Archive handle per chunk).  Workers take any task that is *)
(* still to do (work stealing: no order is assumed), open a PRIVATE handle,*)
(* position it (Seek) and read (ReadOne) -- two steps, so that a handle    *)
(* shared between workers would be visible -- and Put the result into slot *)
(* i of the output (indexed collect / chunk-ordered flatten).  Without     *)
(* skip_errors the first failing read fails the task (FailFast), rayon may *)
(* then drop tasks that have not started (SkipTask) and the whole call     *)
(* returns Err; with skip_errors the error is the slot's value.            *)
(*                                                                         *)
(* The property: for EVERY schedule the call returns Expected(req, skip):  *)
(* one slot per request, in request order, slot i = SeqRead(req[i]).       *)
(* SharedHandle = TRUE is the mutant design (one handle for all workers),  *)
(* kept to show that the model can tell the difference.                    *)
(*                                                                         *)
(* Generations.  One process makes several calls on the same path; between *)
(* two calls the archive at that path may be replaced by another one with  *)
(* other contents and another file set (ReplaceAndCall: vgen + 1).  Worker *)
(* threads -- and whatever they keep -- survive from call to call.  Every  *)
(* handle therefore carries the generation it was opened on; the code      *)
(* opens a fresh handle per task (handle generation = vgen, HandleFresh).  *)
(* StaleReuse = TRUE is the NAMED DEVIATION StaleHandleReuse: a worker     *)
(* keeps the handle it opened in an earlier call (a per-thread cache keyed *)
(* by path only); TLC refutes it (MC_ParExtract_stale.cfg).                *)
(***************************************************************************)
EXTENDS Integers, Sequences, FiniteSets, TLC

CONSTANTS PresentAt,      \* generation -> names the archive at the path contains in that generation
          SharedHandle,   \* FALSE: the code's design
          StaleReuse      \* FALSE: the code's design (TRUE = deviation StaleHandleReuse)
VARIABLES vreq, vthreads, vbatch, vskip,     \* the call's arguments (vbatch = 0: unbatched)
          vtask,          \* task id -> "todo" | "run" | "done" | "failed" | "dropped"
          vwk,            \* worker -> [task, pos, ph]  ph in idle | opened | sought
          vgen,           \* generation of the archive that is at the path now (1, 2, ..)
          vhandle,        \* handle id -> [gen: generation it was opened on (0 = never), at: name it is positioned at]
          vout,           \* slot -> result | NoRes
          vret            \* the call's return value, NoRes while running
pxvars == <<vreq, vthreads, vbatch, vskip, vtask, vwk, vgen, vhandle, vout, vret>>

NoRes == [kind |-> "none"]
Ok(n)  == [kind |-> "ok", of |-> n]         \* the content of file n (an opaque token)
ErrR   == [kind |-> "err", of |-> ""]
\* the sequential reference: Archive::read_file on a handle opened on generation g (contents differ per generation)
SeqReadAt(g, n) == IF g \in DOMAIN PresentAt /\ n \in PresentAt[g] THEN Ok(<<n, g>>) ELSE ErrR
SeqRead(n) == SeqReadAt(vgen, n)

\* what every interface must return, for a given sequential reference sr(_)
ExpectedFrom(sr(_), req, skip) ==
  IF ~skip /\ \E i \in 1..Len(req) : sr(req[i]).kind = "err"
  THEN [kind |-> "err", slots |-> <<>>]
  ELSE [kind |-> "ok", slots |-> [i \in 1..Len(req) |-> [name |-> req[i], res |-> sr(req[i])]]]
Expected(req, skip) == ExpectedFrom(SeqRead, req, skip)     \* ... of the archive that is at the path NOW

\* ---- tasks ---------------------------------------------------------------------------------------
NTasks(n, b)  == IF b = 0 THEN n ELSE (n + b - 1) \div b                 \* `chunks(b)`
First(t, b)   == IF b = 0 THEN t ELSE (t - 1) * b + 1
Last(t, n, b) == IF b = 0 THEN t ELSE IF t * b < n THEN t * b ELSE n
Tasks   == 1..NTasks(Len(vreq), vbatch)
Workers == 1..vthreads
HandleOf(w) == IF SharedHandle THEN 1 ELSE w
Idle == [task |-> 0, pos |-> 0, ph |-> "idle"]

Start(req, t, b, skip) ==
  /\ vreq = req /\ vthreads = t /\ vbatch = b /\ vskip = skip
  /\ vtask = [k \in 1..NTasks(Len(req), b) |-> "todo"]
  /\ vwk = [w \in 1..t |-> Idle]
  /\ vgen = 1
  /\ vhandle = [w \in 1..t |-> [gen |-> 0, at |-> ""]]
  /\ vout = [i \in 1..Len(req) |-> NoRes]
  /\ vret = NoRes

Failing == \E k \in Tasks : vtask[k] = "failed"
Args == <<vreq, vthreads, vbatch, vskip>>

\* a worker takes any task that has not started; it opens its own handle (Archive::open)
TakeTask(w, k) ==
  /\ vret = NoRes /\ vwk[w].ph = "idle" /\ vtask[k] = "todo"
  /\ vtask' = [vtask EXCEPT ![k] = "run"]
  /\ vwk' = [vwk EXCEPT ![w] = [task |-> k, pos |-> First(k, vbatch), ph |-> "opened"]]
  \* Archive::open: a fresh handle on what is at the path now (StaleHandleReuse: keep an earlier one)
  /\ vhandle' = [vhandle EXCEPT ![HandleOf(w)] =
                    [gen |-> IF StaleReuse /\ @.gen # 0 THEN @.gen ELSE vgen, at |-> ""]]
  /\ UNCHANGED <<vout, vret, vgen>> /\ UNCHANGED Args
\* read_file, step 1: find the entry and seek the handle
Seek(w) ==
  /\ vwk[w].ph = "opened"
  /\ vhandle' = [vhandle EXCEPT ![HandleOf(w)].at = vreq[vwk[w].pos]]
  /\ vwk' = [vwk EXCEPT ![w].ph = "sought"]
  /\ UNCHANGED <<vtask, vout, vret, vgen>> /\ UNCHANGED Args
\* read_file, step 2: read at the handle's position; Put the result into the slot of this request
Advance(w, k) ==
  IF vwk[w].pos < Last(k, Len(vreq), vbatch)
  THEN /\ vwk' = [vwk EXCEPT ![w].pos = @ + 1, ![w].ph = "opened"] /\ vtask' = vtask
  ELSE /\ vwk' = [vwk EXCEPT ![w] = Idle] /\ vtask' = [vtask EXCEPT ![k] = "done"]
ReadOne(w) ==
  /\ vwk[w].ph = "sought"
  /\ LET k == vwk[w].task
         i == vwk[w].pos
         r == SeqReadAt(vhandle[HandleOf(w)].gen, vhandle[HandleOf(w)].at)   \* what the handle is positioned at
     IN  /\ (r.kind = "ok" \/ vskip)
         /\ vout' = [vout EXCEPT ![i] = r]             \* Put(i, r)
         /\ Advance(w, k)
  /\ UNCHANGED <<vhandle, vret, vgen>> /\ UNCHANGED Args
\* without skip_errors an error ends the task (the `?`); the rest of its chunk is not read
FailFast(w) ==
  /\ vwk[w].ph = "sought" /\ ~vskip
  /\ SeqReadAt(vhandle[HandleOf(w)].gen, vhandle[HandleOf(w)].at).kind = "err"
  /\ vtask' = [vtask EXCEPT ![vwk[w].task] = "failed"]
  /\ vwk' = [vwk EXCEPT ![w] = Idle]
  /\ UNCHANGED <<vhandle, vout, vret, vgen>> /\ UNCHANGED Args
\* collecting into Result lets rayon drop work that has not started once some task failed
SkipTask(k) ==
  /\ vret = NoRes /\ Failing /\ vtask[k] = "todo"
  /\ vtask' = [vtask EXCEPT ![k] = "dropped"]
  /\ UNCHANGED <<vwk, vhandle, vout, vret, vgen>> /\ UNCHANGED Args
\* the call returns when no task is to do or running
Collect ==
  /\ vret = NoRes
  /\ \A k \in Tasks : vtask[k] \in {"done", "failed", "dropped"}
  /\ vret' = IF Failing THEN [kind |-> "err", slots |-> <<>>]
             ELSE [kind |-> "ok", slots |-> [i \in 1..Len(vreq) |-> [name |-> vreq[i], res |-> vout[i]]]]
  /\ UNCHANGED <<vtask, vwk, vhandle, vout, vgen>> /\ UNCHANGED Args
\* after a call has returned: the archive at the path is replaced (next generation) and the same process makes the
\* next call with the same pool (workers and their handles survive)
ReplaceAndCall(req) ==
  /\ vret # NoRes /\ (vgen + 1) \in DOMAIN PresentAt
  /\ vgen' = vgen + 1
  /\ vreq' = req
  /\ vtask' = [k \in 1..NTasks(Len(req), vbatch) |-> "todo"]
  /\ vout' = [i \in 1..Len(req) |-> NoRes]
  /\ vret' = NoRes
  /\ UNCHANGED <<vthreads, vbatch, vskip, vwk, vhandle>>

PxNext == \/ \E w \in Workers : \/ (\E k \in Tasks : TakeTask(w, k)) \/ Seek(w) \/ ReadOne(w) \/ FailFast(w)
          \/ \E k \in Tasks : SkipTask(k)
          \/ Collect

\* ---- the property ----------------------------------------------------------------------------------
ScheduleIndependent == vret # NoRes => vret = Expected(vreq, vskip)
\* no slot is ever written with something else than the sequential answer (also in calls that fail)
SlotsRight == \A i \in 1..Len(vreq) : vout[i] = NoRes \/ vout[i] = SeqRead(vreq[i])
\* a read at generation g uses a handle of generation g
HandleFresh == \A w \in Workers : vwk[w].ph \in {"opened", "sought"} => vhandle[HandleOf(w)].gen = vgen
\* the call always returns: some step is possible until it has
Returns == vret = NoRes => ENABLED PxNext
=============================================================================
