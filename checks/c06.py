"""C06 -- in-place modification through MutableArchive behaves as a persistent name->bytes map."""
import json
import os
import re

from vlib import core

META = {
    "disabled": False,
    "level": "model_checking",
    "level_text": "Two-level TLA+ specification. MpqMap (abstract: disk, session view, open, dirty, capacity; one action per MutableArchive call, "
                  "refusals as Fail actions that change nothing and are enabled only where a plain map with capacity refuses) is the verdict spec. "
                  "MpqHashTable (hash slots Empty/Deleted/Occupied with chosen home slots, block table, append cursor, listfile content, name-derived "
                  "encryption keys, probe loops as micro-steps, flush = WriteTables+UpdateHeader, in-session reads) is checked by TLC to refine MpqMap "
                  "call by call on a 4-slot table with colliding names for all histories up to the bound, with probe termination (incl. full table), "
                  "table/data disjointness and listfile exactness as invariants and termination as a liveness property. The machine of the code as it is "
                  "now satisfies the same (with and without listfile); every former behaviour of the code (11 fix commits) is kept as a named deviation "
                  "action in a configuration that TLC must refute. TLC generates the operation histories from the as-coded machine (bounded-exhaustive "
                  "short ones incl. a substring-name class, seed-rotated random 4/5-call and long ones incl. more additions than free slots) with the "
                  "predicted result of every call, session read and post-close map. They are replayed on real MutableArchive objects over V1-V4 starting "
                  "archives (with/without listfile, attributes, all add options, contents from 1 byte to several sectors); after every close a fresh "
                  "Archive::open reads EVERY name of the universe and lists the archive; TLC validates the recorded trace against MpqMap (failed call => "
                  "unchanged, refusal only where legitimate, reads and listing equal the model's disk, in-session reads equal the session view, untouched "
                  "names keep their tokens, every call returns). Growth round 4: the special files are an explicit sub-machine (MpqMapSpecials, layered on MpqMap: "
                  "listfile as a sequence of lines with spellings, attributes rows per block, session bookkeeping, the view of the session's Archive object; "
                  "maintenance steps as the code does them; design invariants model-checked, every deviation of the code refuted by TLC) that Trace_MpqMap runs "
                  "next to MpqMap: after every close the raw (listfile) lines (complete, no stale line, no duplicate) and the parsed (attributes) rows (row of the "
                  "block of every file = CRC32/MD5 of its current content) are verdict conjuncts; spellings of names, empty contents, long names (listfile above "
                  "512 bytes), compression method x encryption x fix_key x replace and a near-full 16-slot table reached through a forced prologue (canonical "
                  "enumeration of all 4-call histories over 4 names) are generator dimensions; the stored form of added files is a diagnostic conjunct.",
    "level_note": "Model-checking results are statements about the models; the binding to the code is replay + trace validation on the generated histories "
                  "(long histories are sampled; the exhaustive classes are replayed as seed-rotated residue classes). Contents are compared as SHA-1 tokens. "
                  "list() and the raw listfile are verdict conjuncts only for archives that carry a listfile; FILETIME values are compared as zero / set only; "
                  "compact() dropping the (attributes) file is modelled as coded and not judged. Crash atomicity of flush / rename is not part of C06.",
    "technique": "TLA+ refinement (MpqHashTable => MpqMap) model-checked with TLC, former code behaviours refuted by TLC; TLC-generated histories with predictions replayed on MutableArchive; TLC trace validation against MpqMap",
    "design_ref": "DESIGN.md section 5, C06",
    "crates": ["c06"],
}

GEN = "Gen_MpqHashTable"


def _classes(ctx):
    """Generation classes: (class id, environment of Gen_MpqHashTable, simulate spec or None for exhaustive BFS)."""
    t = ctx.thorough
    s = ctx.seed
    cl = []
    n4 = 4 if t else 1

    def add(cls, mode, num=0, **kw):
        env = {"C06_CLASS": cls, "C06_MODE": mode}
        env.update({"C06_" + k.upper(): str(v) for k, v in kw.items()})
        cl.append((cls, env, num))

    # bounded-exhaustive: every history of <= L calls over 3 names (two colliding), V1 with listfile / V2 without
    add("xa", "bfs", ver=1, lf=1, slack=31, names=3, init=1, minlen=1, maxlen=4 if t else 3)
    add("xb", "bfs", ver=2, lf=0, slack=31, names=3, init=2, minlen=1, maxlen=3 if t else 2)
    # the same with a name whose spelling is contained in another's (listfile maintenance)
    add("sb", "bfs", ver=1 + s % 2, lf=1, slack=31, names=3, init=1, minlen=1, maxlen=4 if t else 3, sub=1)
    # near-full table (growth round 4): a forced prologue of 11 additions through MutableArchive leaves 2 free slots of 16; every
    # history of <= 4 further calls over 4 names in canonical form (Gen_MpqHashTable: GCanon), a seed-rotated residue class of
    # which is replayed (quick ~900, thorough ~6000 of 40 904)
    # (5 further calls = ~570 000 canonical histories: beyond the budget of both tiers - measured 40 904 histories / 263 515 states for 4)
    add("x5", "bfs", ver=1 + s % 2, lf=1, slack=31, names=4, init=1, minlen=1, maxlen=4, ballast=11, canon=1)
    # histories of exactly 4 / 5 calls over the same 3 names (wrapped probe chain): a seed-rotated random sample of the
    # 194 481 / 4 084 101 histories the exhaustive classes stop short of in quick
    add("r4", "sim", num=500 * n4, ver=1 + s % 4, lf=1, slack=31, names=3, init=1, minlen=4, maxlen=4, enc=1)
    add("r5", "sim", num=200 * n4, ver=1 + (s + 2) % 4, lf=(s + 1) % 2, slack=31, names=3, init=2, minlen=5, maxlen=5, enc=1)
    # random long histories on the 16-slot table, 18 names, all add options
    n = 4 if t else 1
    add("lg", "sim", num=12 * n, ver=1 + s % 2, lf=1, slack=31, names=18, init=2, minlen=40, maxlen=40, enc=1)
    add("lh", "sim", num=6 * n, ver=2 - s % 2, lf=0, slack=31, names=18, init=3, minlen=60 if t else 30, maxlen=60 if t else 30, enc=0)
    # more additions than free slots
    add("fl", "sim", num=5 * n, ver=1 + s % 2, lf=1, slack=31, names=18, init=2, minlen=45, maxlen=45, fill=1)
    add("fm", "sim", num=3 * n, ver=2 - s % 2, lf=0, slack=31, names=18, init=1, minlen=45, maxlen=45, fill=1)
    # small slack between block table and first append position: growth of the block table
    for i, (sl, lf) in enumerate([(0, 1), (1, 0), (2, 1), (5, 0), (9, 1)]):
        add("s%d" % sl, "sim", num=8 * n, ver=1 + (s + i) % 2, lf=lf, slack=sl, names=5, init=1, minlen=3 + sl, maxlen=3 + sl)
    # attributes file present
    add("at", "sim", num=10 * n, ver=1 + s % 2, lf=1, at=1, slack=31, names=5, init=2, minlen=6, maxlen=6)
    # ... with all three columns (CRC32, FILETIME, MD5): rows of untouched files across several dirty flushes of one session
    add("af", "sim", num=16 * n, ver=2 - s % 2, lf=1, at=2, slack=31, names=4, init=2, minlen=7, maxlen=7, kinds="fl")
    add("ag", "sim", num=6 * n, ver=1 + s % 2, lf=0, at=2, slack=31, names=4, init=2, minlen=5, maxlen=5, kinds="fl")
    # rename chains a -> b -> a, remove + add of the same name across flush / reopen, compact in between (2 and 3 names, all spellings)
    # name-length class "long" ((listfile) above one 512-byte unit): every history of <= 3 calls, and rename / add / remove chains
    add("xl", "bfs", ver=1 + (s + 1) % 2, lf=1, slack=31, names=3, init=1, minlen=2, maxlen=3 if t else 2, long=1)
    add("rl", "sim", num=24 * n, ver=1 + s % 2, lf=1, at=(s % 3), slack=31, names=3, init=1, minlen=6, maxlen=6, kinds="rc", long=1)
    add("rc", "sim", num=40 * n, ver=1 + s % 2, lf=1, slack=31, names=2, init=1, minlen=8, maxlen=8, kinds="rc", enc=1)
    add("rd", "sim", num=20 * n, ver=2 - s % 2, lf=1, at=1 + s % 2, slack=31, names=3, init=2, minlen=10, maxlen=10, kinds="rc")
    # encryption / fix_key options on short histories
    add("en", "sim", num=16 * n, ver=2 - s % 2, lf=1, slack=31, names=4, init=1, minlen=4, maxlen=4, enc=2)
    # V3 / V4 starting archives
    for v in (3, 4):
        for lf in (1, 0):
            add("v%d%s" % (v, "l" if lf else "n"), "sim", num=5 * n, ver=v, lf=lf, slack=31, names=4, init=2, minlen=3, maxlen=3)
    only = os.environ.get("C06_ONLY")          # development / self-test aid: restrict to some classes
    if only:
        cl = [c for c in cl if c[0] in only.split(",")]
    return cl


def _gen_one(ctx, item):
    k, (cls, env, num) = item
    if num:
        maxlen = int(env["C06_MAXLEN"])
        rc, text = ctx.tlc(GEN, env=env, workers=1, timeout=900, simulate=f"num={num}", heap="2g",
                           extra=("-depth", str(maxlen * 45 + 100), "-seed", str(ctx.seed * 7919 + k)), tag="gen-" + cls)
    else:
        rc, text = ctx.tlc(GEN, env=env, workers=2 if cls == "x5" else 1, timeout=1500, tag="gen-" + cls, heap="6g")
    lines = [l.strip() for l in text.splitlines() if l.startswith('"CASE ')]
    if not lines or (not num and "No error has been found" not in text):
        raise core.ToolError(f"stage B: generator class {cls} failed rc={rc}:\n" + core._tail(text))
    out = []
    allc = sorted(set(json.loads(l)[5:] for l in lines))
    x5mod = max(1, len(allc) // (6000 if ctx.thorough else 900))
    for i, r in enumerate(allc):
        if cls == "x5" and (i + ctx.seed) % x5mod:
            continue            # seed-rotated residue class of the canonical enumeration
        if not num and cls in ("xa", "sb") and (i + ctx.seed + (cls == "sb")) % ((6 if cls == "xa" else 12) if ctx.thorough else (3 if cls == "xa" else 6)):
            # ... but every history with a flush immediately followed by compact / reopen+compact stays in
            # (compact() must take its view from the file as flushed, not from an older snapshot)
            seq = [o["op"] for o in json.loads(r)["ops"]]
            if not any(x in ("flush", "reopen") and y == "compact" for x, y in zip(seq, seq[1:])):
                continue            # a seed-rotated residue class of the exhaustive enumeration: quick 1/3 of the
                                # histories of <= 3 calls, thorough 1/6 of those of <= 4 calls (budget)
        c = json.loads(r)
        c["id"] = f"{cls}{i}"
        # in-session reads are an observation that changes the object (read_file writes pending changes out and
        # refreshes its view): every other history is replayed without them
        seq = [o["op"] for o in c["ops"]]
        c["sread"] = (i + ctx.seed) % 2 == 0 and not any(x in ("flush", "reopen") and y == "compact" for x, y in zip(seq, seq[1:]))
        out.append(c)
    return cls, out


def generate(ctx):
    """Stage (B): one TLC run of Gen_MpqHashTable per starting-archive class (run in parallel)."""
    res = core._parallel_map(lambda it: _gen_one(ctx, it), list(enumerate(_classes(ctx))))
    cases = []
    per = {}
    for cls, out in res:
        per[cls] = len(out)
        cases += out
    path = ctx.path("cases.ndjson")
    with open(path, "w") as f:
        for c in cases:
            f.write(json.dumps(c, sort_keys=True) + "\n")
    core.log(f"(B) {GEN}: {len(cases)} histories " + " ".join(f"{k}={v}" for k, v in per.items()))
    return path, cases, per


def expect_violation(ctx, cfg, what, module="MC_MpqHashTable"):
    """The implementation machine must violate the design invariant (TLC exhibits the defect on the model)."""
    rc, text = ctx.tlc(module, cfg, workers=2, timeout=300, tag="mc-" + cfg)
    if what not in text:
        raise core.ToolError(f"stage A: {cfg}: expected `{what}`:\n" + core._tail(text))
    adds = len(re.findall(r'^State \d+: <Begin\("add"', text, re.M))
    steps = len(re.findall(r"^State \d+: <", text, re.M))
    ctx.notes.append(f"{cfg}: TLC exhibits `{what}` on the implementation machine after {adds} add calls ({steps} states)")
    return adds


def _norm(res):
    """Observed result class in the vocabulary of the model (`lastres` of MpqHashTable)."""
    res = str(res)
    return "full" if res.startswith("err:") else res


def sig(b):
    """Class-level signature of a rejected event, computed from the case (Reset record = case attributes and
    the predictions TLC made with the implementation machine of MpqHashTable) and the event kind."""
    r = b.get("reset") or {}
    rec = b.get("rec") or {}
    why = [x.strip().strip('"') for x in str(b.get("why", "")).split(",")]
    s = {"ev": b.get("ev"), "ver": "v12" if r.get("ver", 1) <= 2 else "v34", "lf": bool(r.get("lf")), "devs": r.get("devs", ""),
         "why": why[0], "model": why[1] if len(why) > 1 else "", "res": str(rec.get("res", "")).split(":")[0],
         "msg": rec.get("msg", ""), "cause": (why[2].split(":")[-1] if len(why) > 2 else ""),
         # options of the call that stored the content this Read is about (class attributes of the case)
         "addopts": "+".join((b.get("lastadd") or {}).get(k, "") for k in ("comp", "enc")) if b.get("lastadd") else ""}
    if b.get("ev") == "Check":
        kinds = [p.get("kind") for p in (r.get("preds") or [])]
        ck = rec.get("ck", 0)
        s["model"] = "asmodel" if 0 < ck <= len(kinds) and kinds[ck - 1] == "unopenable" else "notmodel"
    elif b.get("ev") not in ("Read", "List", "SRead", "LfRaw", "Attrs"):
        # a call whose result no map operation explains: is it the result the model of the code predicted?
        pres = r.get("pres") or []
        oi = rec.get("oi", 0)
        obs = _norm(rec.get("res"))
        if b.get("ev") == "Compact" and obs != "ok":
            obs = "refused"             # compact() returning any error = the model's refusal
        s["model"] = "asmodel" if 0 < oi <= len(pres) and pres[oi - 1] == obs else "notmodel"
    return s


def run(ctx, cases_override=None):
    thorough = ctx.thorough
    giveup = ("InsertGiveUp", "CompactRefuse")
    stage_a = [
        # the design: refinement, invariants, liveness
        lambda: ctx.mc("MC_MpqHashTable", cfg="MC_MpqHashTable_T" if thorough else "MC_MpqHashTable", timeout=1500,
                       allow_uncovered=giveup, workers=4),
        lambda: ctx.mc("MC_MpqHashTable", cfg="MC_MpqHashTable_LT" if thorough else "MC_MpqHashTable_L", timeout=900, workers=2,
                       allow_uncovered=("InsertGiveUp", "AddRefuseFull", "RenameRefuseDst")),
        # the implementation as it is now (encryption, fix_key, substring names; with / without listfile) satisfies the same
        lambda: ctx.mc("MC_MpqHashTable", cfg="MC_MpqHashTable_codeOK", timeout=900, workers=2,
                       allow_uncovered=("InsertGiveUp", "CompactRefuse", "CompactRefuseNow")),
        lambda: ctx.mc("MC_MpqHashTable", cfg="MC_MpqHashTable_codeF", timeout=900, workers=2,
                       allow_uncovered=("InsertGiveUp", "CompactRefuse", "AddRefuseFull")),
        # every former behaviour of the implementation stays refuted by TLC
        lambda: expect_violation(ctx, "MC_MpqHashTable_codeA", "Invariant NoDamage is violated"),                 # c4da446
        lambda: expect_violation(ctx, "MC_MpqHashTable_codeB", "Invariant ProbeBounded is violated"),             # 20d617c
        lambda: expect_violation(ctx, "MC_MpqHashTable_codeC", "Action property AtomicRefines is violated"),      # 5040b10
        lambda: expect_violation(ctx, "MC_MpqHashTable_codeD", "Invariant ListfileExact is violated"),            # 6cf538f
        lambda: expect_violation(ctx, "MC_MpqHashTable_codeE", "Action property OpRefines is violated"),          # 8390629
        lambda: expect_violation(ctx, "MC_MpqHashTable_codeG", "Invariant AbsClean is violated"),                 # 22716d7
        lambda: expect_violation(ctx, "MC_MpqHashTable_codeH", "Invariant SessionReadStaleAgrees is violated"),   # 9c6ca29
        lambda: expect_violation(ctx, "MC_MpqHashTable_codeI", "Invariant CursorBehindImage is violated"),        # hypothetical (seeded s7)
        # growth round 4: the special-file sub-machine (MpqMap x MpqMapSpecials): the design satisfies the listfile / attributes
        # invariants; each deviation of the code as it is now is refuted by TLC
        lambda: ctx.mc("MC_MpqMapSpecials", cfg="MC_MpqMapSpecials_T" if thorough else "MC_MpqMapSpecials", timeout=1500, workers=4),
        lambda: expect_violation(ctx, "MC_MpqMapSpecials_devA", "Invariant ListfileNoStale is violated", "MC_MpqMapSpecials"),
        lambda: expect_violation(ctx, "MC_MpqMapSpecials_devB", "Invariant AttrRowsDescribe is violated", "MC_MpqMapSpecials"),
        lambda: expect_violation(ctx, "MC_MpqMapSpecials_devC", "Action property AttrUntouchedRowsKept is violated", "MC_MpqMapSpecials"),
        # hypothetical deviations (round-4 seeded changes 3 and 2): stale view of a big listfile; compact() skipping stored size 0
        lambda: expect_violation(ctx, "MC_MpqMapSpecials_devD", "Invariant ListfileComplete is violated", "MC_MpqMapSpecials"),
        lambda: expect_violation(ctx, "MC_MpqHashTable_codeJ", "Action property AtomicRefines is violated"),
    ]
    # stage A runs concurrently with generation, build and replay; it is joined before the verdict
    import concurrent.futures as cf
    pool = cf.ThreadPoolExecutor(max_workers=len(stage_a) + 1)
    if os.environ.get("C06_NO_MC"):
        ctx.mc_stats.append({"module": "MC_MpqHashTable", "cfg": "skipped (C06_NO_MC)", "states": 1, "transitions": 1, "actions": {}, "wall_s": 0})
    if os.environ.get("C06_NO_MC"):            # development / self-test aid: binding stages only
        stage_a = []
    futs = [pool.submit(f) for f in stage_a]
    if cases_override:
        cases_path = cases_override
        cases = [json.loads(l) for l in open(cases_path)]
        per = {}
    else:
        cases_path, cases, per = generate(ctx)
    binary = ctx.build("c06")
    trace = ctx.harness(binary, cases_path, timeout=1500)
    for f in futs:
        f.result()
    pool.shutdown()
    res = ctx.validate("Trace_MpqMap", trace, timeout=900)
    # attach to every rejected Read the Add call that stored the content of that name (signature attribute)
    if res["bad"]:
        lines = open(trace).read().splitlines()
        for b in res["bad"]:
            if b.get("ev") != "Read":
                continue
            n = (b.get("rec") or {}).get("n")
            for k in range(b["line"] - 2, b.get("reset_line", 1) - 1, -1):
                if '"ev":"Add"' in lines[k]:
                    r = json.loads(lines[k])
                    if r.get("n") == n and r.get("res") == "ok":
                        b["lastadd"] = {"comp": r.get("comp"), "enc": r.get("enc")}
                        break
    # coverage numbers from what was actually replayed
    kinds = {}
    hist_len = {}
    samples = []
    devs_seen = {}
    with open(trace) as f:
        for line in f:
            r = json.loads(line)
            kinds[r["ev"]] = kinds.get(r["ev"], 0) + 1
            if r["ev"] == "Reset":
                hist_len[r["nops"]] = hist_len.get(r["nops"], 0) + 1
                devs_seen[r["devs"]] = devs_seen.get(r["devs"], 0) + 1
                if len(samples) < 2:
                    samples.append({k: r[k] for k in ("case", "cls", "ver", "lf", "at", "slack", "hsize", "devs", "universe")})
            elif len(samples) < 8 and r["ev"] in ("Add", "Read", "Rename"):
                samples.append(r)
    pred_drift = sum(1 for d in ctx.drift if "pred" in d["what"])
    attrs_drift = sum(1 for d in ctx.drift if "atmodel" in d["what"])
    lf_drift = sum(1 for d in ctx.drift if "lfmodel" in d["what"])
    if attrs_drift or lf_drift:
        ctx.notes.append(f"D-level: the special files a fresh open finds differ from the prediction of the as-coded sub-machine (MpqMapSpecials) at "
                         f"{lf_drift} LfRaw and {attrs_drift} Attrs checkpoints although the property-level conjuncts hold there")
    cov = {
        "traces_validated_against_impl": res["traces"],
        "samples": samples,
        "evaluations": res["events"],
        "events_by_kind": kinds,
        "histories_by_class": per,
        "histories_by_length": {str(k): v for k, v in sorted(hist_len.items())},
        "histories_by_predicted_deviation": devs_seen,
        "distinct_nontrivial": sum(v for k, v in hist_len.items() if k >= 2),
        "rule": "one case = one operation history (TLC-generated, with a starting-archive class) replayed on a real MutableArchive; non-trivial = at least two calls; histories are distinct within a class by construction (set of TLC CASE lines)",
        "exhaustive": False,
        "exhaustive_part": "class x5: TLC enumerates every canonical history of <= 4 calls over 4 names behind a forced prologue that leaves 2 free hash slots (40 904), a seed-rotated residue class is replayed; class xl: every history of <= 2 (thorough 3) calls with long names; classes xa/xb: TLC enumerates every history up to the length bound over 3 names x {add(rep),add(norep),remove,rename,compact,flush,reopen}; xb is replayed completely, xa as a seed-rotated residue class (quick 1/3 of <= 3 calls plus every history with flush/reopen directly followed by compact, thorough 1/6 of <= 4 calls); class sb likewise with a substring name pair; r4/r5 are random samples of the 4- and 5-call histories",
        "code_model_prediction_drift": pred_drift,
        "specials_model_drift": {"listfile": lf_drift, "attributes": attrs_drift},
    }
    ctx.drift = [d for d in ctx.drift if "list" not in d["what"]][:17] + [d for d in ctx.drift if "list" in d["what"]][:3]
    assumptions = ["single process, no concurrent writer; the file system does not fail",
                   "starting archives are produced by ArchiveBuilder (16-slot hash table, tables behind the data)",
                   "a call that does not return within 5 s (normal: < 5 ms) is recorded as a hang"]
    return core.finish(ctx, "model_checking", cov, assumptions, res["bad"], sig_fn=sig, trace=trace)


def replay(ctx, payload):
    """Re-run the history of a replay file (the generator is deterministic for (tier, seed): regenerate and select)."""
    ctx.seed = payload.get("seed", ctx.seed)
    ctx.env["VERIF_SEED"] = str(ctx.seed)
    want = payload.get("case")
    _, cases, _ = generate(ctx)
    sel = [c for c in cases if c["id"] == want]
    if not sel:
        raise core.ToolError(f"replay: case {want} not generated for tier={ctx.tier} seed={ctx.seed}")
    p = ctx.path("replay-cases.ndjson")
    with open(p, "w") as f:
        f.write(json.dumps(sel[0], sort_keys=True) + "\n")
    return run(ctx, cases_override=p)
