--------------------------- MODULE Gen_AdtLayout ---------------------------
(* Stage (B) for C14: TLC enumerates the shape space of ADT tiles.                                 *)
(*   shape == [ver, ntex, nmdl, nwmo, nddf, nmodf, dtex, dmdl, dwmo, mcnk, where, mcvt, mcnr, nly, mcrf, mcal, mcsh,  *)
(*             mclq, mccv, mcse, mclv, water, wlay, wbase, mfbo, mtxf, mamp, mtxp, bmesh,          *)
(*             vals, pcls, pbit, route]                                                             *)
(* The full product has ~5*10^9 elements, so both tiers use the reduced product: deterministic     *)
(* low-dimensional slices through the baseline shape (every version x every optional top-level     *)
(* kind alone / all together; every optional sub-chunk alone; MCNK population x placement of the   *)
(* optional sub-chunks; list cardinalities 0/1/3; water placement) plus seeded draws from the same *)
(* set expression (a small LCG over IOEnv.VERIF_SEED selects one value per dimension).  The driver  *)
(* concretises a shape deterministically from (shape, VERIF_SEED).  Every case carries `lay`: the  *)
(* MCNK header size and field positions and the MHDR field order of the FORMAT (AdtLayout.tla),    *)
(* which is all the driver's chunk walker knows beyond the framing rule.                            *)
EXTENDS AdtLayout, SequencesExt, Json, IOUtils

Thorough == IOEnv.VERIF_TIER = "thorough"
Seed     == atoi(IOEnv.VERIF_SEED)

Lay == [mcnk_hdr |-> McnkHdr, mcnk_fields |-> McnkFields, mhdr_fields |-> MhdrFields]

Base == [ver |-> 0, ntex |-> 1, nmdl |-> 0, nwmo |-> 0, nddf |-> 0, nmodf |-> 0, dtex |-> "none", dmdl |-> "none", dwmo |-> "none", mcnk |-> "one00", where |-> "all",
         mcvt |-> TRUE, mcnr |-> TRUE, nly |-> 1, mcrf |-> FALSE, mcal |-> FALSE, mcsh |-> FALSE, mclq |-> FALSE,
         mccv |-> FALSE, mcse |-> FALSE, mclv |-> FALSE, water |-> "none", wlay |-> 1, wbase |-> 0, mfbo |-> FALSE, mtxf |-> FALSE,
         mamp |-> FALSE, mtxp |-> FALSE, bmesh |-> FALSE,
         vals |-> "rand", pcls |-> "rand", pbit |-> 0, route |-> "root"]

Vers    == 0..5
Cards   == <<0, 1, 3>>
McnkCls == <<"auto", "one00", "one1515", "n17", "n256">>
Wheres  == <<"all", "first", "last">>
Waters  == <<"none", "c0", "c255", "all">>
TopKinds == <<"mfbo", "water", "mtxf", "mamp", "mtxp", "bmesh">>
SubKinds == <<"mcrf", "mcal", "mcsh", "mclq", "mccv", "mcse", "mclv">>
MinVerOf(kd) == CASE kd = "mfbo" -> 2 [] kd \in {"water", "mtxf"} -> 3 [] kd = "mamp" -> 4 [] OTHER -> 5

WithTop(sh, kd) == IF kd = "water" THEN [sh EXCEPT !.water = "c0"] ELSE [sh EXCEPT ![kd] = TRUE]
WithSub(sh, kd) == [sh EXCEPT ![kd] = TRUE]
AllSubs(sh) == FoldLeft(LAMBDA acc, kd : WithSub(acc, kd), sh, SubKinds)
\* every optional top-level kind the version may carry
AllTop(sh) == FoldLeft(LAMBDA acc, kd : IF sh.ver >= MinVerOf(kd) THEN WithTop(acc, kd) ELSE acc, sh, TopKinds)

\* S1: version x (nothing | one optional kind, admissible or not | everything admissible), lists populated
S1 == {[Base EXCEPT !.ver = v, !.ntex = 3, !.nmdl = 1, !.nddf = 1] : v \in Vers}
      \cup {WithTop([Base EXCEPT !.ver = v, !.ntex = 3], TopKinds[q]) : v \in Vers, q \in 1..Len(TopKinds)}
      \cup {AllTop([Base EXCEPT !.ver = v, !.ntex = 3, !.nmdl = 3, !.nwmo = 1, !.nddf = 3, !.nmodf = 1, !.nly = 2]) : v \in Vers}
      \cup {AllSubs(AllTop([Base EXCEPT !.ver = v, !.ntex = 3, !.nmdl = 3, !.nwmo = 3, !.nddf = 3, !.nmodf = 3, !.nly = 4, !.mcnk = "n17"])) : v \in Vers}
\* S2: every optional sub-chunk alone, layers 0..4, heights / normals missing
S2 == {WithSub([Base EXCEPT !.ver = v], SubKinds[q]) : v \in {0, 3, 5}, q \in 1..Len(SubKinds)}
      \cup {[Base EXCEPT !.ver = v, !.nly = y] : v \in {1, 4}, y \in 0..4}
      \cup {[Base EXCEPT !.ver = v, !.mcvt = a, !.mcnr = b] : v \in {0, 2}, a \in BOOLEAN, b \in BOOLEAN}
\* S3: MCNK population x where the optional sub-chunks sit
S3 == {[Base EXCEPT !.ver = v, !.mcnk = McnkCls[c], !.where = Wheres[w], !.mclq = lq, !.mccv = TRUE, !.mcal = TRUE, !.nly = 2] :
          v \in {1, 4}, c \in 1..Len(McnkCls), w \in 1..Len(Wheres), lq \in BOOLEAN}
\* S4: list cardinalities (0 textures / placements without names are rejected by the builder: allowed)
S4 == {[Base EXCEPT !.ver = 2, !.ntex = Cards[a], !.nmdl = Cards[b], !.nddf = Cards[c], !.nwmo = Cards[d], !.nmodf = Cards[d]] :
          a \in 1..3, b \in 1..3, c \in 1..3, d \in 1..3}
\* S5: water placement x version x population
S5 == {[Base EXCEPT !.ver = v, !.water = Waters[w], !.wlay = y, !.mcnk = k, !.mtxp = (v = 5)] :
          v \in {3, 4, 5}, w \in 1..Len(Waters), k \in {"auto", "one00", "n17"}, y \in 1..3}

\* S6: MH2O layer product {exists bitmap on/off} x {vertex data on/off} x LVF 0..3 x rectangle
\*     {8x8@(0,0), 2x3@(1,2), 5x8@(3,0), 1x1@(7,7)} = 64 configurations, deterministic in every tier and seed.
\*     LayerCfg(k) is how the driver decodes a configuration index; layer l of the q-th watered chunk of a tile
\*     uses configuration (wbase + 5*q + 21*l) % 64: water on one chunk = exactly the named configurations,
\*     water on all chunks = every configuration four times per layer position.
LayerCfg(k) == [bm |-> k % 2 = 1, vd |-> (k \div 2) % 2 = 1, lvf |-> (k \div 4) % 4, rect |-> (k \div 16) % 4]
S6 == {[Base EXCEPT !.ver = 3, !.water = w, !.wlay = 2, !.wbase = b] : w \in {"c0", "c255"}, b \in 0..63}
      \cup {[Base EXCEPT !.ver = v, !.water = "all", !.wlay = y, !.wbase = b, !.mtxp = (v = 5)] : v \in {3, 4, 5}, y \in 1..3, b \in {0, 37}}

\* S7: duplicate names.  Element multiplicity is part of a list: for each of the three name lists a pattern
\*     {all distinct, first = second, first = last, all equal} on 3 names; 3 placements per placement list, which
\*     the driver points at EVERY index (last index first), so an index shift or a shortened list shows.
Dups == <<"none", "first2", "firstlast", "all">>
S7 == {[Base EXCEPT !.ver = 2, !.ntex = 3, !.nmdl = 3, !.nwmo = 3, !.nddf = 3, !.nmodf = 3, !.dtex = Dups[a], !.dmdl = Dups[b], !.dwmo = Dups[c]] :
          a \in 1..4, b \in 1..4, c \in 1..4}
      \cup {[Base EXCEPT !.ver = 5, !.ntex = 3, !.nmdl = 3, !.nwmo = 3, !.nddf = 3, !.nmodf = 3, !.dtex = Dups[a], !.dmdl = Dups[a], !.dwmo = Dups[a],
                          !.mtxf = TRUE, !.mtxp = TRUE, !.mcnk = "n17"] : a \in 1..4}

\* S8: value classes of scalar fields (vals): degenerate ranges (min = max: MCLQ / MH2O heights, bounding boxes, MFBO
\*     planes), zero / negative zero, extremes -- on a tile that carries MCLQ, MH2O (2 layers), MFBO, placements
ValCls == <<"flat", "zero", "extreme">>
S8 == {AllTop([Base EXCEPT !.ver = v, !.vals = ValCls[a], !.mclq = TRUE, !.mccv = lastq, !.wlay = 2, !.nmdl = 1, !.nddf = 3, !.nwmo = 1, !.nmodf = 3]) :
          v \in {1, 3, 5}, a \in 1..3, lastq \in BOOLEAN}
\* S9: every rebuild route x every optional top-level kind (alone at each admissible version, and all together)
S9 == {AllTop([Base EXCEPT !.ver = v, !.route = rt, !.ntex = 3, !.nmdl = 1, !.nddf = 1, !.nwmo = 1, !.nmodf = 1, !.mclq = TRUE]) : v \in Vers, rt \in {"root", "builder"}}
      \cup {WithTop([Base EXCEPT !.ver = v, !.route = "builder", !.ntex = 3], TopKinds[q]) : v \in Vers, q \in {j \in 1..Len(TopKinds) : TRUE}}
      \cup {AllSubs(AllTop([Base EXCEPT !.ver = v, !.route = "builder", !.mcnk = "n17", !.nly = 3, !.ntex = 3])) : v \in {2, 4}}
\* S10: placement field classes: lo (ids / flags / sets 0, WMO scale 0, doodad scale 1), hi (all ones), bits (one id bit and
\*      one flag bit per placement, rotating from pbit), name_id last..first; 3 + 3 placements
S10 == {[Base EXCEPT !.ver = v, !.pcls = pc, !.nmdl = 3, !.nddf = 3, !.nwmo = 3, !.nmodf = 3] : v \in {0, 3}, pc \in {"lo", "hi"}}
       \cup {[Base EXCEPT !.ver = 2, !.pcls = "bits", !.pbit = b, !.nmdl = 3, !.nddf = 3, !.nwmo = 3, !.nmodf = 3] : b \in 0..15}

\* ---- seeded draws from the full product
Lcg(x) == (x * 75 + 74) % 65537
DrawBool(x)    == (x \div 7) % 2 = 1
DrawOf(sq, x)  == sq[((x \div 7) % Len(sq)) + 1]
Draw(m) ==
    LET x1 == Lcg((Seed * 7919 + m * 10473 + 1) % 65537)   x2 == Lcg(x1)   x3 == Lcg(x2)   x4 == Lcg(x3)
        x5 == Lcg(x4)   x6 == Lcg(x5)   x7 == Lcg(x6)   x8 == Lcg(x7)   x9 == Lcg(x8)   x10 == Lcg(x9)
        x11 == Lcg(x10) x12 == Lcg(x11) x13 == Lcg(x12) x14 == Lcg(x13) x15 == Lcg(x14) x16 == Lcg(x15)
        x17 == Lcg(x16) x18 == Lcg(x17) x19 == Lcg(x18) x20 == Lcg(x19) x21 == Lcg(x20) x22 == Lcg(x21)
        x23 == Lcg(x22) x24 == Lcg(x23) x25 == Lcg(x24)
        v == (x1 \div 7) % 6
        \* optional kinds: mostly admissible for the drawn version (an inadmissible one ends at Build)
        adm(kd, x) == DrawBool(x) /\ (v >= MinVerOf(kd) \/ x % 8 = 0)
        nm == DrawOf(Cards, x3)   nw == DrawOf(Cards, x4)
    IN [vals |-> DrawOf(<<"rand", "rand", "rand", "flat", "zero", "extreme">>, x9 \div 11),
        pcls |-> DrawOf(<<"rand", "rand", "lo", "hi", "bits">>, x10 \div 11), pbit |-> (x11 \div 13) % 16,
        route |-> IF (x12 \div 11) % 2 = 0 THEN "root" ELSE "builder",
        dtex |-> Dups[((x22 \div 29) % 4) + 1], dmdl |-> Dups[((x23 \div 29) % 4) + 1], dwmo |-> Dups[((x24 \div 29) % 4) + 1],
        ver |-> v, ntex |-> IF x2 % 16 = 0 THEN 0 ELSE DrawOf(<<1, 3>>, x2), nmdl |-> nm, nwmo |-> nw,
        nddf |-> IF nm = 0 /\ x5 % 8 # 0 THEN 0 ELSE DrawOf(Cards, x5),
        nmodf |-> IF nw = 0 /\ x6 % 8 # 0 THEN 0 ELSE DrawOf(Cards, x6),
        mcnk |-> DrawOf(<<"auto", "one00", "one00", "one1515", "one1515", "n17", "n17", "n256">>, x7),
        where |-> DrawOf(Wheres, x8), mcvt |-> x9 % 8 # 0, mcnr |-> x10 % 8 # 0, nly |-> (x11 \div 7) % 5,
        mcrf |-> DrawBool(x12), mcal |-> DrawBool(x13), mcsh |-> DrawBool(x14), mclq |-> DrawBool(x15),
        mccv |-> DrawBool(x16), mcse |-> DrawBool(x17), mclv |-> DrawBool(x18),
        water |-> IF adm("water", x19) THEN DrawOf(<<"c0", "c255", "all">>, x20) ELSE "none", wlay |-> 1 + ((x20 \div 64) % 3), wbase |-> (x19 \div 5) % 64,
        mfbo |-> adm("mfbo", x21), mtxf |-> adm("mtxf", x22), mamp |-> adm("mamp", x23), mtxp |-> adm("mtxp", x24),
        bmesh |-> adm("bmesh", x25)]
NDraw == IF Thorough THEN 3000 ELSE 250
Draws == [m \in 1..NDraw |-> Draw(m)]

\* thorough adds the slices at every version
T1 == IF Thorough
      THEN {WithSub([Base EXCEPT !.ver = v, !.mcnk = k], SubKinds[q]) : v \in Vers, q \in 1..Len(SubKinds), k \in {"one1515", "n17"}}
           \cup {[sh EXCEPT !.ver = v] : sh \in S3 \cup S5, v \in Vers}
      ELSE {}

Shapes == SetToSeq(S1) \o SetToSeq(S2 \ S1) \o SetToSeq(S3 \ (S1 \cup S2)) \o SetToSeq(S4 \ (S1 \cup S2 \cup S3))
          \o SetToSeq(S5 \ (S1 \cup S2 \cup S3 \cup S4)) \o SetToSeq(S6 \ (S1 \cup S2 \cup S3 \cup S4 \cup S5))
          \o SetToSeq(S7 \ (S1 \cup S2 \cup S3 \cup S4 \cup S5 \cup S6))
          \o SetToSeq((S8 \cup S9 \cup S10) \ (S1 \cup S2 \cup S3 \cup S4 \cup S5 \cup S6 \cup S7))
          \o SetToSeq(T1 \ (S1 \cup S2 \cup S3 \cup S4 \cup S5 \cup S6 \cup S7 \cup S8 \cup S9 \cup S10)) \o Draws
Cases == [j \in 1..Len(Shapes) |-> [fld \in DOMAIN Shapes[j] \cup {"lay", "id", "wl"} |->
             IF fld = "lay" THEN Lay ELSE IF fld = "id" THEN j ELSE IF fld = "wl" THEN LayerCfg(Shapes[j].wbase) ELSE Shapes[j][fld]]]
\* the generator is a constant-level computation; the behaviour spec is a single stuttering-free state
GenInit == Init /\ aver = 0 /\ aopts = {} /\ ank = 0 /\ asubs = {}
GenNext == FALSE /\ UNCHANGED avars
ASSUME ndJsonSerialize(IOEnv.CASES, Cases)
ASSUME PrintT(<<"GENERATED", Len(Cases)>>)
=============================================================================
