//! C05 seeds, field inventory and entry points for M2 models (wow_m2::parse_m2).
//!
//! Legacy (MD20) seeds: an `M2Model` is filled in memory with non-empty arrays in every section
//! the library's writer serialises (name, global sequences, sequences, bones with animated tracks,
//! vertices, textures, materials, lookup tables, bounding data, embedded skin views (<= 263),
//! particle/ribbon emitters, texture/colour/transparency animations, events, attachments, cameras,
//! lights) and written with `M2Model::write`. Key-frame data travels through the writer's
//! "raw animation data + offset relocation" path (`raw_data.*_animation_data` keyed by placeholder
//! offsets). The written file is parsed back with the library; the inventory is computed from the
//! header layout of header.rs and the element layouts of chunks/*.rs and every registered
//! count/offset position is cross-checked against the values the library parsed (assert).
//!
//! Three things the writer cannot produce are added afterwards by appending data to the file and
//! patching the referring (count, offset) pair, which is legal in an offset-addressed format:
//!   * texture file names (the writer computes the position of a texture definition from
//!     `size_of::<M2Header>()`, the in-memory size of the Rust struct (376 bytes; the file header is
//!     304 bytes for 264 and 328 for 256), patches the wrong place and the name is lost),
//!   * the inner per-sequence arrays of WotLK+ tracks (the writer copies the outer array verbatim),
//!   * the small u16 / string / vec2 arrays referenced from ribbon and particle emitters.
//! The first event carries one `ranges` entry and two time stamps (both relocated by the writer).
//!
//! Variants inside every legacy seed: vertices with all-zero bone weights (with valid and with
//! out-of-range bone indices: the two arms of the Permissive repair in chunks/vertex.rs), one
//! animated block each with interpolation None / Bezier / Hermite (all others are Linear).
//! "md20-bfa-280" adds what only BfA+ records have (multi-texture parameters of the particle
//! emitter) plus the PHYSICS flag on the first of two particle emitters (five extra floats at the
//! end of the record, i.e. a variable record size inside the array).
//! "md20-legion-276-hdropt" carries the three optional header arrays (blend_map_overrides for flag
//! 0x08000000, texture_combiner_combos for USE_TEXTURE_COMBINERS, texture_transforms for Legion+).
//! `M2Model::write` clears these three fields before it writes the header (model.rs, "Clear
//! post-BC optional fields we don't serialize") but keeps the flags word, so the pairs cannot come
//! from the writer: the model is written without a name and with six leading placeholder entries
//! in `global_sequences`, which the writer places directly behind the fixed header; afterwards the
//! header's global_sequences pair is moved behind those 24 bytes, the 24 bytes become the three
//! (count, offset) pairs pointing at appended data, and the name is appended like the texture name.
//!
//! Chunked (MD21) seed: no writer exists in the crate; the file is "MD21" <size> <library-written
//! MD20 payload> followed by the chunks `parse_chunked` knows (payloads laid out after the chunk
//! parsers of chunks/rendering_enhancements.rs and model.rs; the WFV2 / WFV3 payloads come from the
//! library's `WaterfallEffect::write`) and one unknown chunk. Note that
//! `parse_chunked` skips the MD21 payload altogether (parse_md21_simple), so only a handful of
//! header fields of the embedded MD20 are registered there.
use crate::seed::{add_chunk_seq, Aux, Seed};
use crate::worker::{errname, Runner};
use std::io::Cursor;
use wow_m2::chunks::animation::{M2Animation, M2AnimationBlock, M2AnimationTrack, M2InterpolationType, M2Range};
use wow_m2::chunks::bone::{M2Bone, M2BoneFlags};
use wow_m2::chunks::color_animation::{M2Color, M2ColorAnimation};
use wow_m2::chunks::m2_track::{M2Track, M2TrackBase};
use wow_m2::chunks::material::{M2BlendMode, M2Material};
use wow_m2::chunks::ribbon_emitter::M2RibbonEmitter;
use wow_m2::chunks::texture::{M2Texture, M2TextureFlags, M2TextureType};
use wow_m2::chunks::texture_animation::{M2TextureAnimation, M2TextureAnimationType};
use wow_m2::chunks::transparency_animation::M2TransparencyAnimation;
use wow_m2::chunks::rendering_enhancements::{WaterfallEffect, WaterfallParameters};
use wow_m2::chunks::{M2Attachment, M2Camera, M2Event, M2Light, M2LightType, M2ParticleEmitter, M2ParticleFlags, M2Vertex};
use wow_m2::common::{C2Vector, C3Vector, M2Array, M2ArrayString, M2Parse, M2Vec};
use wow_m2::header::{M2Header, M2ModelFlags};
use wow_m2::model::{
    AttachmentAnimationRaw, AttachmentTrackType, BoneAnimationRaw, CameraAnimationRaw, CameraTrackType, ColorAnimationRaw, ColorTrackType,
    EmbeddedSkinRaw, EventRaw, LightAnimationRaw, LightTrackType, ParticleAnimationRaw, ParticleTrackType, RibbonAnimationRaw, RibbonTrackType,
    TextureAnimationRaw, TextureTrackType, TrackType, TransparencyAnimationRaw, TransparencyTrackType,
};
use wow_m2::{M2Model, M2Version};

pub fn seed_names(thorough: bool) -> Vec<String> {
    let mut v = vec!["wotlk-264".to_string(), "md21-legion".to_string()];
    if thorough {
        v.push("classic-256".into());
        v.push("tbc-260".into());
        v.push("tbc-263".into());
        v.push("cata-272".into());
        v.push("md20-legion-276".into());
        v.push("wotlk-264-min".into());
        v.push("md20-bfa-280".into());
        v.push("md20-legion-276-hdropt".into());
    }
    v
}

// --------------------------------------------------------------------------------------------
// building the in-memory model
// --------------------------------------------------------------------------------------------

/// Placeholder ("original") offsets for the writer's relocation maps.
struct Fake(u32);
impl Fake {
    fn next(&mut self) -> u32 {
        self.0 += 0x100;
        self.0
    }
}

struct Keys {
    ranges: Vec<u8>,
    ts: Vec<u8>,
    vals: Vec<u8>,
    ro: u32,
    to: u32,
    vo: u32,
}

fn stamps(n: u32) -> Vec<u8> {
    (0..n).flat_map(|k| (k * 100).to_le_bytes()).collect()
}

/// An animated `M2AnimationBlock` with n keys plus the raw bytes the writer has to emit for it.
fn block<T: M2Parse>(fake: &mut Fake, n: u32, vsz: usize) -> (M2AnimationBlock<T>, Keys) {
    block_i(fake, n, vsz, M2InterpolationType::Linear)
}

/// Same with an explicit interpolation type (the selector of M2InterpolationType::from_u16).
fn block_i<T: M2Parse>(fake: &mut Fake, n: u32, vsz: usize, interp: M2InterpolationType) -> (M2AnimationBlock<T>, Keys) {
    let k = Keys {
        ranges: [0u32.to_le_bytes(), (n - 1).to_le_bytes()].concat(),
        ts: stamps(n),
        vals: vec![0x3C; n as usize * vsz],
        ro: fake.next(),
        to: fake.next(),
        vo: fake.next(),
    };
    let t = M2AnimationTrack {
        interpolation_type: interp,
        global_sequence: -1,
        interpolation_ranges: M2Array::new(1, k.ro),
        timestamps: M2Array::new(n, k.to),
        values: M2Vec { array: M2Array::new(n, k.vo), data: Vec::new() },
    };
    (M2AnimationBlock::new(t), k)
}

fn bone_track<T>(fake: &mut Fake, vnum: u32, n: u32, vsz: usize, bone: usize, tt: TrackType, raws: &mut Vec<BoneAnimationRaw>) -> M2Track<T> {
    let (to, vo) = (fake.next(), fake.next());
    if vnum < 264 {
        let ro = fake.next();
        raws.push(BoneAnimationRaw {
            bone_index: bone,
            track_type: tt,
            timestamps: stamps(n),
            values: vec![0x3C; n as usize * vsz],
            ranges: Some([0u32.to_le_bytes(), (n - 1).to_le_bytes(), 0u32.to_le_bytes(), 0u32.to_le_bytes()].concat()),
            original_timestamps_offset: to,
            original_values_offset: vo,
            original_ranges_offset: Some(ro),
        });
        M2Track {
            base: M2TrackBase { interpolation_type: M2InterpolationType::Linear, global_sequence: 65535 },
            ranges: Some(M2Array::new(2, ro)),
            timestamps: M2Array::new(n, to),
            values: M2Array::new(n, vo),
        }
    } else {
        // WotLK+: the outer arrays hold one M2Array per sequence (2 sequences); the inner arrays
        // are filled in after writing (see patch_inner_tracks)
        raws.push(BoneAnimationRaw {
            bone_index: bone,
            track_type: tt,
            timestamps: vec![0; 16],
            values: vec![0; 16],
            ranges: None,
            original_timestamps_offset: to,
            original_values_offset: vo,
            original_ranges_offset: None,
        });
        M2Track {
            base: M2TrackBase { interpolation_type: M2InterpolationType::Linear, global_sequence: 65535 },
            ranges: None,
            timestamps: M2Array::new(2, to),
            values: M2Array::new(2, vo),
        }
    }
}

fn vec3(k: usize) -> C3Vector {
    C3Vector { x: k as f32, y: 0.5 * k as f32, z: 1.0 }
}

/// What a legacy seed contains besides the version-dependent layout.
#[derive(Clone, Copy, PartialEq, Eq, Debug)]
enum Variant {
    /// every section the writer serialises
    Full,
    /// header, name and vertices only
    Minimal,
    /// `Full` plus the optional header arrays (see the module comment)
    HdrOpt,
}

/// Flag 0x08000000 of the header ("USE_BLEND_MAP_OVERRIDES" in header.rs, no named constant).
const FLAG_BLEND_MAP_OVERRIDES: u32 = 0x0800_0000;
/// Number of u32 placeholders at the start of `global_sequences` of a `HdrOpt` model: three pairs.
const HDROPT_PLACEHOLDERS: usize = 6;

fn build_model(vnum: u32, variant: Variant) -> M2Model {
    let minimal = variant == Variant::Minimal;
    let ver = M2Version::from_header_version(vnum).expect("m2: version");
    let mut fake = Fake(0x0100_0000);
    let mut m = M2Model::default();
    m.header = M2Header::new(ver);
    m.header.version = vnum;
    m.header.flags = M2ModelFlags::TILT_X | M2ModelFlags::HAS_BONES;
    if variant == Variant::HdrOpt {
        assert!(ver >= M2Version::Legion, "m2: the hdropt variant expects all three optional header arrays");
        m.header.flags |= M2ModelFlags::USE_TEXTURE_COMBINERS | M2ModelFlags::from_bits_retain(FLAG_BLEND_MAP_OVERRIDES);
    }
    if vnum > 263 {
        m.header.num_skin_profiles = Some(2);
    }
    m.header.bounding_box_min = [-1.0, -1.0, 0.0];
    m.header.bounding_box_max = [1.0, 1.0, 2.0];
    m.header.bounding_sphere_radius = 2.5;
    // hdropt: no name, so that the writer places global_sequences directly behind the fixed header
    m.name = if variant == Variant::HdrOpt { None } else { Some("C05Seed".to_string()) };
    for i in 0..6usize {
        // vertices 4 and 5 have all-zero bone weights: 4 with valid bone indices (weights are kept
        // when the model has bones), 5 with an out-of-range bone index (repaired to weight 255 on
        // bone 0); in the minimal model (no bones) every index is out of range
        let (w, bi) = match i {
            4 => ([0u8; 4], [1u8, 0, 0, 0]),
            5 => ([0u8; 4], [200u8, 0, 0, 0]),
            _ => ([255u8, 0, 0, 0], [(i % 3) as u8, 0, 0, 0]),
        };
        m.vertices.push(M2Vertex {
            position: vec3(i),
            bone_weights: w,
            bone_indices: bi,
            normal: C3Vector { x: 0.0, y: 1.0, z: 0.0 },
            tex_coords: C2Vector { x: 0.25 * i as f32, y: 0.5 },
            tex_coords2: Some(C2Vector { x: 0.0, y: 0.0 }),
        });
    }
    if minimal {
        return m;
    }

    m.global_sequences = vec![100, 2000];
    if variant == Variant::HdrOpt {
        m.global_sequences.splice(0..0, [0u32; HDROPT_PLACEHOLDERS]);
    }
    for i in 0..2u16 {
        m.animations.push(M2Animation {
            animation_id: i * 4,
            sub_animation_id: 0,
            start_timestamp: 1000 * (i as u32 + 1),
            end_timestamp: Some(1000 * (i as u32 + 2)),
            movement_speed: 0.0,
            flags: 0x20,
            frequency: 0x7FFF,
            padding: 0,
            replay: Some(M2Range { minimum: 0.0, maximum: 0.0 }),
            minimum_extent: Some([-1.0, -1.0, 0.0]),
            maximum_extent: Some([1.0, 1.0, 2.0]),
            extent_radius: Some(2.5),
            next_animation: Some(-1),
            aliasing: Some(i),
        });
    }
    m.animation_lookup = vec![0, 1, 0xFFFF, 0xFFFF];

    // bones: 0 fully animated, 1 static, 2 translation only
    let mut braw = Vec::new();
    for i in 0..3usize {
        let mut b = M2Bone::new(i as i32 - 1, i as i16 - 1);
        b.flags = M2BoneFlags::TRANSFORMED;
        b.bone_name_crc = if vnum >= 260 { Some(0xC05C_0DE0 + i as u32) } else { None };
        b.pivot = vec3(i);
        if i == 0 {
            b.translation = bone_track(&mut fake, vnum, 3, 12, i, TrackType::Translation, &mut braw);
            b.rotation = bone_track(&mut fake, vnum, 3, 8, i, TrackType::Rotation, &mut braw);
            b.scale = bone_track(&mut fake, vnum, 2, 12, i, TrackType::Scale, &mut braw);
        } else if i == 2 {
            b.translation = bone_track(&mut fake, vnum, 2, 12, i, TrackType::Translation, &mut braw);
        }
        m.bones.push(b);
    }
    m.raw_data.bone_animation_data = braw;
    m.key_bone_lookup = vec![0, 1, 0xFFFF, 2];

    // textures: the file names are appended after writing (see the module comment)
    m.textures.push(M2Texture { texture_type: M2TextureType::Hardcoded, flags: M2TextureFlags::WRAP_X | M2TextureFlags::WRAP_Y, filename: M2ArrayString::default() });
    m.textures.push(M2Texture { texture_type: M2TextureType::Body, flags: M2TextureFlags::empty(), filename: M2ArrayString::default() });
    m.materials.push(M2Material::new(M2BlendMode::OPAQUE));
    m.materials.push(M2Material::new(M2BlendMode::ALPHA));

    m.raw_data.bone_lookup_table = vec![0, 1, 2, 0];
    m.raw_data.texture_lookup_table = vec![0, 1];
    m.raw_data.texture_units = vec![0, 0xFFFF];
    m.raw_data.transparency_lookup_table = vec![0, 0];
    m.raw_data.texture_animation_lookup = vec![0, 0xFFFF];
    m.raw_data.bounding_triangles = [0u16, 1, 2].iter().flat_map(|v| v.to_le_bytes()).collect();
    m.raw_data.bounding_vertices = vec![0x3C; 36];
    m.raw_data.bounding_normals = vec![0x3C; 12];
    m.raw_data.attachment_lookup_table = vec![0, 0xFFFF, 1];
    m.raw_data.camera_lookup_table = vec![0, 0xFFFF];

    if vnum <= 263 {
        let mut view = vec![0u8; 44];
        view[40..44].copy_from_slice(&21u32.to_le_bytes());
        let sub = if vnum < 260 { 32 } else { 48 };
        let mut submesh = vec![0u8; sub];
        submesh[6..8].copy_from_slice(&4u16.to_le_bytes()); // vertex_count
        submesh[10..12].copy_from_slice(&6u16.to_le_bytes()); // triangle_count
        m.raw_data.embedded_skins.push(EmbeddedSkinRaw {
            model_view: view,
            indices: (0..4u16).flat_map(|v| v.to_le_bytes()).collect(),
            triangles: [0u16, 1, 2, 1, 2, 3].iter().flat_map(|v| v.to_le_bytes()).collect(),
            properties: vec![0; 16],
            submeshes: submesh,
            batches: vec![0; 96],
            original_model_view_offset: 0,
            original_indices_offset: 0,
            original_triangles_offset: 0,
            original_properties_offset: 0,
            original_submeshes_offset: 0,
            original_batches_offset: 0,
        });
    }

    // particle emitter (default values obtained by parsing an all-zero record), two animated tracks
    let mut pe = M2ParticleEmitter::parse(&mut Cursor::new(vec![0u8; 1024]), vnum).expect("m2: zero particle emitter");
    pe.id = 1;
    pe.flags = M2ParticleFlags::BILLBOARDED;
    pe.bone_index = 1;
    pe.texture_index = 1;
    pe.lifetime = 1.5;
    if vnum >= 280 {
        // BfA+: multi-texture parameters; PHYSICS (MoP+) appends five floats to this record only
        pe.flags |= M2ParticleFlags::PHYSICS;
        pe.physics_parameters = Some([0.125, 0.25, 0.5, 1.0, 2.0]);
        pe.multi_texture_param0 = Some([1, 2, 3, 4]);
        pe.multi_texture_param1 = Some([5, 6, 7, 8]);
    }
    let (b1, k1) = block::<f32>(&mut fake, 2, 4);
    let (b2, k2) = block::<M2Color>(&mut fake, 2, 12);
    pe.emission_speed_animation = b1;
    pe.color_animation = b2;
    for (k, tt) in [(k1, ParticleTrackType::EmissionSpeed), (k2, ParticleTrackType::Color)] {
        m.raw_data.particle_animation_data.push(ParticleAnimationRaw {
            emitter_index: 0,
            track_type: tt,
            interpolation_ranges: k.ranges,
            timestamps: k.ts,
            values: k.vals,
            original_ranges_offset: k.ro,
            original_timestamps_offset: k.to,
            original_values_offset: k.vo,
        });
    }
    m.particle_emitters.push(pe);
    if vnum >= 280 {
        // a second, static emitter without PHYSICS: its position depends on the size of the first
        let mut pe2 = M2ParticleEmitter::parse(&mut Cursor::new(vec![0u8; 1024]), vnum).expect("m2: zero particle emitter");
        pe2.id = 2;
        pe2.flags = M2ParticleFlags::BILLBOARDED;
        pe2.bone_index = 2;
        pe2.lifetime = 0.75;
        m.particle_emitters.push(pe2);
    }

    let mut re = M2RibbonEmitter::parse(&mut Cursor::new(vec![0u8; 512]), vnum).expect("m2: zero ribbon emitter");
    re.bone_index = 2;
    re.edges_per_second = 10.0;
    re.texture_rows = 1;
    re.texture_cols = 1;
    re.id = 7;
    let (b1, k1) = block::<M2Color>(&mut fake, 2, 12);
    let (b2, k2) = block::<f32>(&mut fake, 3, 4);
    re.color_animation = b1;
    re.height_above_animation = b2;
    for (k, tt) in [(k1, RibbonTrackType::Color), (k2, RibbonTrackType::HeightAbove)] {
        m.raw_data.ribbon_animation_data.push(RibbonAnimationRaw {
            emitter_index: 0,
            track_type: tt,
            interpolation_ranges: k.ranges,
            timestamps: k.ts,
            values: k.vals,
            original_ranges_offset: k.ro,
            original_timestamps_offset: k.to,
            original_values_offset: k.vo,
        });
    }
    m.ribbon_emitters.push(re);

    let mut ta = M2TextureAnimation::new(M2TextureAnimationType::Scroll);
    let (b1, k1) = block::<f32>(&mut fake, 2, 4);
    let (b2, k2) = block_i::<f32>(&mut fake, 2, 4, M2InterpolationType::None);
    ta.translation_u = b1;
    ta.scale_v = b2;
    for (k, tt) in [(k1, TextureTrackType::TranslationU), (k2, TextureTrackType::ScaleV)] {
        m.raw_data.texture_animation_data.push(TextureAnimationRaw {
            animation_index: 0,
            track_type: tt,
            interpolation_ranges: k.ranges,
            timestamps: k.ts,
            values: k.vals,
            original_ranges_offset: k.ro,
            original_timestamps_offset: k.to,
            original_values_offset: k.vo,
        });
    }
    m.texture_animations.push(ta);

    let (b1, k1) = block::<M2Color>(&mut fake, 2, 12);
    let (b2, k2) = block::<u16>(&mut fake, 2, 2);
    m.color_animations.push(M2ColorAnimation { color: b1, alpha: b2 });
    for (k, tt) in [(k1, ColorTrackType::Color), (k2, ColorTrackType::Alpha)] {
        m.raw_data.color_animation_data.push(ColorAnimationRaw {
            animation_index: 0,
            track_type: tt,
            interpolation_ranges: k.ranges,
            timestamps: k.ts,
            values: k.vals,
            original_ranges_offset: k.ro,
            original_timestamps_offset: k.to,
            original_values_offset: k.vo,
        });
    }

    let (b1, k) = block::<f32>(&mut fake, 2, 4);
    m.transparency_animations.push(M2TransparencyAnimation { alpha: b1 });
    m.raw_data.transparency_animation_data.push(TransparencyAnimationRaw {
        animation_index: 0,
        track_type: TransparencyTrackType::Alpha,
        interpolation_ranges: k.ranges,
        timestamps: k.ts,
        values: k.vals,
        original_ranges_offset: k.ro,
        original_timestamps_offset: k.to,
        original_values_offset: k.vo,
    });

    // events: first with one range and two time stamps, second static
    let mut e0 = M2Event::new(*b"$CAH", 1);
    let (ero, eo) = (fake.next(), fake.next());
    e0.ranges = M2Array::new(1, ero);
    e0.times = M2Array::new(2, eo);
    m.events.push(e0);
    m.events.push(M2Event::new(*b"$FSD", 0));
    m.raw_data.event_data.push(EventRaw {
        event_index: 0,
        ranges: [0u32.to_le_bytes(), 1u32.to_le_bytes()].concat(),
        original_ranges_offset: ero,
        timestamps: stamps(2),
        original_timestamps_offset: eo,
    });

    let mut a0 = M2Attachment::new(11, 1);
    let (b1, k) = block::<f32>(&mut fake, 2, 4);
    a0.scale_animation = b1;
    m.attachments.push(a0);
    m.attachments.push(M2Attachment::new(0, 0));
    m.raw_data.attachment_animation_data.push(AttachmentAnimationRaw {
        attachment_index: 0,
        track_type: AttachmentTrackType::Scale,
        interpolation_ranges: k.ranges,
        timestamps: k.ts,
        values: k.vals,
        original_ranges_offset: k.ro,
        original_timestamps_offset: k.to,
        original_values_offset: k.vo,
    });

    let mut cam = M2Camera::new(0);
    let (b1, k1) = block::<C3Vector>(&mut fake, 2, 12);
    let (b2, k2) = block_i::<f32>(&mut fake, 2, 4, M2InterpolationType::Hermite);
    cam.position_animation = b1;
    cam.roll_animation = b2;
    m.cameras.push(cam);
    for (k, tt) in [(k1, CameraTrackType::Position), (k2, CameraTrackType::Roll)] {
        m.raw_data.camera_animation_data.push(CameraAnimationRaw {
            camera_index: 0,
            track_type: tt,
            interpolation_ranges: k.ranges,
            timestamps: k.ts,
            values: k.vals,
            original_ranges_offset: k.ro,
            original_timestamps_offset: k.to,
            original_values_offset: k.vo,
        });
    }

    let mut li = M2Light::new(M2LightType::Point, 1, 3);
    let (b1, k1) = block::<M2Color>(&mut fake, 2, 12);
    let (b2, k2) = block_i::<f32>(&mut fake, 2, 4, M2InterpolationType::Bezier);
    li.ambient_color_animation = b1;
    li.visibility_animation = b2;
    m.lights.push(li);
    for (k, tt) in [(k1, LightTrackType::AmbientColor), (k2, LightTrackType::Visibility)] {
        m.raw_data.light_animation_data.push(LightAnimationRaw {
            light_index: 0,
            track_type: tt,
            interpolation_ranges: k.ranges,
            timestamps: k.ts,
            values: k.vals,
            original_ranges_offset: k.ro,
            original_timestamps_offset: k.to,
            original_values_offset: k.vo,
        });
    }
    m
}

// --------------------------------------------------------------------------------------------
// byte helpers
// --------------------------------------------------------------------------------------------

fn rd32(b: &[u8], o: usize) -> u32 {
    u32::from_le_bytes([b[o], b[o + 1], b[o + 2], b[o + 3]])
}

fn put32(b: &mut [u8], o: usize, v: u32) {
    b[o..o + 4].copy_from_slice(&v.to_le_bytes());
}

/// Append `data` (4-byte aligned) and point the (count, offset) pair at `pair` to it.
fn append_array(b: &mut Vec<u8>, pair: usize, count: u32, data: &[u8]) {
    while b.len() % 4 != 0 {
        b.push(0);
    }
    let o = b.len() as u32;
    b.extend_from_slice(data);
    put32(b, pair, count);
    put32(b, pair + 4, o);
}

fn parse_legacy(bytes: &[u8]) -> M2Model {
    M2Model::parse(&mut Cursor::new(bytes)).expect("m2: the library-written model parses back")
}

/// Size of one serialised element.
fn esize(f: impl FnOnce(&mut Vec<u8>)) -> usize {
    let mut v = Vec::new();
    f(&mut v);
    v.len()
}

// --------------------------------------------------------------------------------------------
// header layout (header.rs)
// --------------------------------------------------------------------------------------------

#[derive(Clone)]
struct HArr {
    name: &'static str,
    pos: usize,
    unit: usize,
    count: u32,
    offset: u32,
}

struct Layout {
    arrays: Vec<HArr>,
    skin_profiles_pos: Option<usize>,
    end: usize,
}

fn layout(h: &M2Header, sizes: &Sizes) -> Layout {
    let v = h.version;
    let mut arrays: Vec<HArr> = Vec::new();
    let mut p = 8usize;
    let mut skin = None;
    macro_rules! a {
        ($n:expr, $arr:expr, $u:expr) => {{
            arrays.push(HArr { name: $n, pos: p, unit: $u, count: $arr.count, offset: $arr.offset });
            p += 8;
        }};
    }
    a!("name", h.name, 1);
    p += 4; // flags
    a!("global_sequences", h.global_sequences, 4);
    a!("animations", h.animations, sizes.animation);
    a!("animation_lookup", h.animation_lookup, 2);
    if (256..=263).contains(&v) {
        let x = h.playable_animation_lookup.expect("m2: playable_animation_lookup");
        a!("playable_animation_lookup", x, 2);
    }
    a!("bones", h.bones, sizes.bone);
    a!("key_bone_lookup", h.key_bone_lookup, 2);
    a!("vertices", h.vertices, 48);
    if v <= 263 {
        a!("views", h.views, 44);
    } else {
        skin = Some(p);
        p += 4;
    }
    a!("color_animations", h.color_animations, 56);
    a!("textures", h.textures, 16);
    a!("transparency_lookup", h.transparency_lookup, 28);
    if v <= 263 {
        let x = h.texture_flipbooks.expect("m2: texture_flipbooks");
        a!("texture_flipbooks", x, 1);
    }
    a!("texture_animations", h.texture_animations, 144);
    a!("color_replacements", h.color_replacements, 1);
    a!("render_flags", h.render_flags, 4);
    a!("bone_lookup_table", h.bone_lookup_table, 2);
    a!("texture_lookup_table", h.texture_lookup_table, 2);
    a!("texture_units", h.texture_units, 2);
    a!("transparency_lookup_table", h.transparency_lookup_table, 2);
    a!("texture_animation_lookup", h.texture_animation_lookup, 2);
    p += 14 * 4; // bounding box, sphere, collision box, sphere
    a!("bounding_triangles", h.bounding_triangles, 2);
    a!("bounding_vertices", h.bounding_vertices, 12);
    a!("bounding_normals", h.bounding_normals, 12);
    a!("attachments", h.attachments, 48);
    a!("attachment_lookup_table", h.attachment_lookup_table, 2);
    a!("events", h.events, 44);
    a!("lights", h.lights, sizes.light);
    a!("cameras", h.cameras, sizes.camera);
    a!("camera_lookup_table", h.camera_lookup_table, 2);
    a!("ribbon_emitters", h.ribbon_emitters, sizes.ribbon);
    a!("particle_emitters", h.particle_emitters, sizes.particle);
    if let Some(x) = h.blend_map_overrides {
        a!("blend_map_overrides", x, 1);
    }
    if let Some(x) = h.texture_combiner_combos {
        a!("texture_combiner_combos", x, 2);
    }
    if let Some(x) = h.texture_transforms {
        // present for Legion+ headers; the writer does not emit it, the parser then reads the
        // first 8 bytes of the data section as this pair (never dereferenced). Only the hdropt
        // seed has a well-formed pair here (see patch_hdropt)
        a!("texture_transforms", x, 1);
    }
    Layout { arrays, skin_profiles_pos: skin, end: p }
}

struct Sizes {
    animation: usize,
    bone: usize,
    light: usize,
    camera: usize,
    ribbon: usize,
    particle: usize,
}

fn sizes(vnum: u32) -> Sizes {
    let zero_pe = M2ParticleEmitter::parse(&mut Cursor::new(vec![0u8; 1024]), vnum).expect("m2: zero particle emitter");
    let zero_re = M2RibbonEmitter::parse(&mut Cursor::new(vec![0u8; 512]), vnum).expect("m2: zero ribbon emitter");
    Sizes {
        animation: if vnum <= 256 { 32 } else { 52 },
        bone: esize(|v| M2Bone::new(0, -1).write(v, vnum).unwrap()),
        light: esize(|v| M2Light::new(M2LightType::Point, 0, 0).write(v, vnum).unwrap()),
        camera: esize(|v| M2Camera::new(0).write(v, vnum).unwrap()),
        ribbon: esize(|v| zero_re.write(v, vnum).unwrap()),
        particle: esize(|v| zero_pe.write(v, vnum).unwrap()),
    }
}

// --------------------------------------------------------------------------------------------
// post-write patches
// --------------------------------------------------------------------------------------------

const TEX_NAME: &[u8] = b"World\\C05\\Seed.blp\0";

/// Offsets of the three tracks inside a bone record.
fn bone_track_offsets(vnum: u32) -> [usize; 3] {
    let head = if vnum >= 260 { 16 } else { 12 };
    let t = if vnum < 264 { 28 } else { 20 };
    [head, head + t, head + 2 * t]
}

fn patch(bytes: &mut Vec<u8>, vnum: u32) {
    let m = parse_legacy(bytes);
    // texture file name of the second texture
    if m.textures.len() >= 2 {
        let pair = m.header.textures.offset as usize + 16 + 8;
        append_array(bytes, pair, TEX_NAME.len() as u32, TEX_NAME);
    }
    // inner per-sequence arrays of WotLK+ bone tracks
    if vnum >= 264 {
        for (bi, b) in m.bones.iter().enumerate() {
            let tracks = [(b.translation.timestamps, b.translation.values.convert::<u32>(), 12usize), (b.rotation.timestamps, b.rotation.values.convert::<u32>(), 8), (b.scale.timestamps, b.scale.values.convert::<u32>(), 12)];
            for (ts, vals, vsz) in tracks {
                if ts.count == 0 {
                    continue;
                }
                assert_eq!(ts.count, 2, "m2: bone {bi} outer track arrays");
                for s in 0..2usize {
                    let n = 2 + s as u32;
                    append_array(bytes, ts.offset as usize + 8 * s, n, &stamps(n));
                    append_array(bytes, vals.offset as usize + 8 * s, n, &vec![0x3C; n as usize * vsz]);
                }
            }
        }
    }
    // small arrays referenced from the emitters
    if !m.ribbon_emitters.is_empty() {
        let r = m.header.ribbon_emitters.offset as usize;
        append_array(bytes, r + 16, 1, &1u16.to_le_bytes());
        append_array(bytes, r + 24, 1, &0u16.to_le_bytes());
    }
    if !m.particle_emitters.is_empty() {
        let p = m.header.particle_emitters.offset as usize;
        append_array(bytes, p + 24, 10, b"Spell.mdx\0");
        let tile = particle_tile_pair(vnum);
        append_array(bytes, p + tile, 1, &[0x3C; 8]);
    }
}

const MODEL_NAME: &[u8] = b"C05SeedOpt\0";

/// The `HdrOpt` step described in the module comment: turn the six placeholder words behind the
/// fixed header into the blend_map_overrides / texture_combiner_combos / texture_transforms pairs.
/// Hand patch because `M2Model::write` sets the three header fields to None before writing.
fn patch_hdropt(bytes: &mut Vec<u8>) {
    let m = parse_legacy(bytes);
    let gs = m.header.global_sequences;
    let hs = gs.offset as usize;
    assert_eq!(gs.count as usize, HDROPT_PLACEHOLDERS + 2, "m2: hdropt global sequences");
    assert_eq!(m.header.name.count, 0);
    // the parser has read the placeholders as the three optional pairs: that is where they are
    assert_eq!(
        (m.header.blend_map_overrides, m.header.texture_combiner_combos, m.header.texture_transforms),
        (Some(M2Array::new(0, 0)), Some(M2Array::new(0, 0)), Some(M2Array::new(0, 0))),
        "m2: hdropt placeholders"
    );
    assert!(bytes[hs..hs + 4 * HDROPT_PLACEHOLDERS].iter().all(|b| *b == 0));
    // global_sequences: (8, hs) -> (2, hs + 24)
    assert_eq!((rd32(bytes, 20), rd32(bytes, 24)), (gs.count, gs.offset));
    put32(bytes, 20, 2);
    put32(bytes, 24, (hs + 4 * HDROPT_PLACEHOLDERS) as u32);
    append_array(bytes, hs, 4, &[1, 0, 2, 0]); // blend_map_overrides (bytes)
    append_array(bytes, hs + 8, 3, &[0, 0, 1, 0, 2, 0]); // texture_combiner_combos (u16)
    append_array(bytes, hs + 16, 8, &[0x3C; 8]); // texture_transforms (bytes)
    append_array(bytes, 8, MODEL_NAME.len() as u32, MODEL_NAME);
}

/// Offset of `texture_tile_coordinates` inside a particle emitter record (particle_emitter.rs).
fn particle_tile_pair(vnum: u32) -> usize {
    let ver = M2Version::from_header_version(vnum).expect("m2: version");
    let mut p = 36; // id flags position bone texture model_filename parent unknown
    if ver >= M2Version::Legion {
        p += 8 + 4 + 8; // fallback model, 4 type bytes, texture file data ids
        if ver >= M2Version::WoD {
            p += 1;
        }
        if ver >= M2Version::BfA {
            p += 8;
        }
    } else if ver >= M2Version::WoD {
        p += 5;
    } else {
        p += 4;
    }
    p
}

// --------------------------------------------------------------------------------------------
// inventory
// --------------------------------------------------------------------------------------------

struct Inv<'a> {
    s: &'a mut Seed,
    /// what offsets are relative to (0 for MD20 files, start of the MD21 payload for chunked ones)
    base0: usize,
    prefix: String,
}

impl Inv<'_> {
    fn u32(&self, rel: usize) -> u32 {
        self.s.u32_at(self.base0 + rel)
    }
    fn f(&mut self, rel: usize, width: u8, role: &'static str, name: String) {
        let o = self.base0 + rel;
        let nm = format!("{}{}", self.prefix, name);
        self.s.field_ex(o, width, role, nm, o + width as usize, 1, None);
    }
    /// (count, offset) pair at `rel`; returns (count, offset)
    fn arr(&mut self, rel: usize, name: &str, unit: usize, expect: Option<(u32, u32)>) -> (u32, u32) {
        let (c, o) = (self.u32(rel), self.u32(rel + 4));
        if let Some(e) = expect {
            assert_eq!((c, o), e, "m2: {name} at {rel}: file and parsed values differ");
        }
        if c != 0 && !name.ends_with("texture_transforms") {
            assert!(o as usize + c as usize * unit <= self.s.bytes.len() - self.base0 + unit * 3, "m2: {name} points outside the file ({c} x {unit} at {o})");
        }
        let p = self.base0 + rel;
        let nm = format!("{}{}", self.prefix, name);
        self.s.field_ex(p, 4, "count", format!("{nm}.count"), self.base0 + o as usize, unit, None);
        self.s.field_ex(p + 4, 4, "offset", format!("{nm}.offset"), self.base0, 1, None);
        (c, o)
    }
    /// M2AnimationBlock (28 bytes) at `rel`
    fn block<T: M2Parse>(&mut self, rel: usize, name: &str, vsz: usize, b: &M2AnimationBlock<T>, full: bool) {
        let t = &b.track;
        if full {
            self.f(rel, 2, "index", format!("{name}.interpolation"));
            self.f(rel + 2, 2, "index", format!("{name}.global_sequence"));
            self.arr(rel + 4, &format!("{name}.ranges"), 8, Some((t.interpolation_ranges.count, t.interpolation_ranges.offset)));
            self.arr(rel + 12, &format!("{name}.timestamps"), 4, Some((t.timestamps.count, t.timestamps.offset)));
            self.arr(rel + 20, &format!("{name}.values"), vsz, Some((t.values.array.count, t.values.array.offset)));
        } else {
            assert_eq!((self.u32(rel + 12), self.u32(rel + 20), self.u32(rel + 24)), (t.timestamps.count, t.values.array.count, t.values.array.offset));
            if t.timestamps.count == 0 && t.values.array.count == 0 {
                // an empty block goes through the same parser code as the fully inventoried first
                // block of the element; keep the inventory (and the quick tier) small
                return;
            }
            if t.interpolation_type != M2InterpolationType::Linear {
                // the seed's None / Bezier / Hermite variants: register the selector
                assert_eq!(self.u32(rel) & 0xFFFF, t.interpolation_type as u32);
                self.f(rel, 2, "index", format!("{name}.interpolation"));
            }
            let p = self.base0 + rel;
            let nm = format!("{}{}", self.prefix, name);
            let vo = self.u32(rel + 24) as usize;
            let to = self.u32(rel + 16) as usize;
            self.s.field_ex(p + 12, 4, "count", format!("{nm}.timestamps.count"), self.base0 + to, 4, None);
            self.s.field_ex(p + 20, 4, "count", format!("{nm}.values.count"), self.base0 + vo, vsz, None);
            self.s.field_ex(p + 24, 4, "offset", format!("{nm}.values.offset"), self.base0, 1, None);
        }
    }
    /// M2Track of a bone at `rel` (20 bytes for 264+, 28 before)
    fn track<T>(&mut self, rel: usize, name: &str, vsz: usize, t: &M2Track<T>, vnum: u32) {
        self.f(rel, 2, "index", format!("{name}.interpolation"));
        self.f(rel + 2, 2, "index", format!("{name}.global_sequence"));
        let mut p = rel + 4;
        if vnum < 264 {
            let r = t.ranges.expect("m2: pre-264 track has ranges");
            self.arr(p, &format!("{name}.ranges"), 8, Some((r.count, r.offset)));
            p += 8;
        }
        let (tc, to) = self.arr(p, &format!("{name}.timestamps"), 4, Some((t.timestamps.count, t.timestamps.offset)));
        let (vc, vo) = self.arr(p + 8, &format!("{name}.values"), vsz, Some((t.values.count, t.values.offset)));
        if vnum >= 264 && tc > 0 && vc > 0 {
            // first inner (per-sequence) arrays
            self.arr(to as usize, &format!("{name}.timestamps[0]"), 4, None);
            self.arr(vo as usize, &format!("{name}.values[0]"), vsz, None);
        }
    }
}

fn u16_entries(inv: &mut Inv, a: &HArr, label: &str) {
    if a.count == 0 {
        return;
    }
    let o = a.offset as usize;
    inv.f(o, 2, "index", format!("{label}[0]"));
    if a.count > 1 {
        let k = a.count as usize - 1;
        inv.f(o + 2 * k, 2, "index", format!("{label}[{k}]"));
    }
}

fn inventory_legacy(s: &mut Seed, base0: usize, prefix: &str, m: &M2Model, nested: bool) {
    let vnum = m.header.version;
    let sz = sizes(vnum);
    let lay = layout(&m.header, &sz);
    assert!(base0 + lay.end <= s.bytes.len());
    let mut inv = Inv { s, base0, prefix: prefix.to_string() };
    assert_eq!(inv.u32(4), vnum);
    assert_eq!(inv.u32(16), m.header.flags.bits());
    inv.f(0, 4, "index", "hdr.magic".into());
    inv.f(4, 4, "index", "hdr.version".into());
    inv.f(16, 4, "index", "hdr.flags".into());
    if let Some(p) = lay.skin_profiles_pos {
        assert_eq!(Some(inv.u32(p)), m.header.num_skin_profiles);
        inv.f(p, 4, "count", "hdr.num_skin_profiles".into());
    }
    if !nested {
        // chunked seed: the payload is never interpreted by parse_chunked; keep a handful
        for a in lay.arrays.iter().filter(|a| ["name", "bones", "vertices", "textures"].contains(&a.name)) {
            inv.arr(a.pos, &format!("hdr.{}", a.name), a.unit, Some((a.count, a.offset)));
        }
        return;
    }
    for a in &lay.arrays {
        if a.name == "name" {
            assert_eq!((inv.u32(a.pos), inv.u32(a.pos + 4)), (a.count, a.offset));
            let p = base0 + a.pos;
            inv.s.field_ex(p, 4, "strlen", format!("{prefix}hdr.name.count"), base0 + a.offset as usize, 1, None);
            inv.s.field_ex(p + 4, 4, "stroff", format!("{prefix}hdr.name.offset"), base0, 1, None);
            if a.count > 0 {
                let t = a.offset as usize + a.count as usize - 1;
                assert_eq!(inv.s.bytes[base0 + t], 0);
                inv.f(t, 1, "term", "name.nul".into());
            }
            continue;
        }
        inv.arr(a.pos, &format!("hdr.{}", a.name), a.unit, Some((a.count, a.offset)));
    }
    let h = |n: &str| lay.arrays.iter().find(|a| a.name == n).cloned().unwrap_or_else(|| panic!("m2: no header array {n}"));

    // sequences
    let a = h("animations");
    if a.count > 0 {
        let o = a.offset as usize;
        inv.f(o, 2, "index", "seq[0].id".into());
        inv.f(o + 2, 2, "index", "seq[0].sub_id".into());
        if vnum > 256 {
            inv.f(o + 48, 2, "index", "seq[0].next_animation".into());
            inv.f(o + 50, 2, "index", "seq[0].aliasing".into());
        }
        let k = a.count as usize - 1;
        if k > 0 && vnum > 256 {
            inv.f(o + a.unit * k + 50, 2, "index", format!("seq[{k}].aliasing"));
        }
    }
    u16_entries(&mut inv, &h("animation_lookup"), "animation_lookup");
    u16_entries(&mut inv, &h("key_bone_lookup"), "key_bone_lookup");
    u16_entries(&mut inv, &h("bone_lookup_table"), "bone_lookup_table");
    u16_entries(&mut inv, &h("texture_lookup_table"), "texture_lookup_table");
    u16_entries(&mut inv, &h("texture_units"), "texture_units");
    u16_entries(&mut inv, &h("transparency_lookup_table"), "transparency_lookup_table");
    u16_entries(&mut inv, &h("texture_animation_lookup"), "texture_animation_lookup");
    u16_entries(&mut inv, &h("attachment_lookup_table"), "attachment_lookup_table");
    u16_entries(&mut inv, &h("camera_lookup_table"), "camera_lookup_table");
    u16_entries(&mut inv, &h("bounding_triangles"), "bounding_triangles");

    // bones: first (all tracks) and last (translation)
    let a = h("bones");
    let to = bone_track_offsets(vnum);
    for (bi, b) in m.bones.iter().enumerate() {
        if bi != 0 && bi + 1 != m.bones.len() {
            continue;
        }
        let o = a.offset as usize + a.unit * bi;
        inv.f(o, 4, "index", format!("bone[{bi}].bone_id"));
        inv.f(o + 4, 4, "index", format!("bone[{bi}].flags"));
        inv.f(o + 8, 2, "index", format!("bone[{bi}].parent_bone"));
        inv.f(o + 10, 2, "index", format!("bone[{bi}].submesh_id"));
        inv.track(o + to[0], &format!("bone[{bi}].translation"), 12, &b.translation, vnum);
        if bi == 0 {
            inv.track(o + to[1], &format!("bone[{bi}].rotation"), 8, &b.rotation, vnum);
            inv.track(o + to[2], &format!("bone[{bi}].scale"), 12, &b.scale, vnum);
        }
    }
    // vertices: bone indices of the first vertex
    let a = h("vertices");
    if a.count > 0 {
        inv.f(a.offset as usize + 16, 1, "index", "vertex[0].bone_index[0]".into());
        inv.f(a.offset as usize + 12, 1, "index", "vertex[0].bone_weight[0]".into());
        // the zero-weight vertices (file values; the parser repairs vertex 5 in memory)
        for vi in [4usize, 5] {
            if (a.count as usize) > vi {
                let o = a.offset as usize + 48 * vi;
                assert_eq!(inv.u32(o + 12), 0, "m2: vertex {vi} has zero weights in the file");
                inv.f(o + 12, 1, "index", format!("vertex[{vi}].bone_weight[0]"));
                inv.f(o + 16, 1, "index", format!("vertex[{vi}].bone_index[0]"));
            }
        }
    }
    // textures
    let a = h("textures");
    for (ti, t) in m.textures.iter().enumerate() {
        let o = a.offset as usize + 16 * ti;
        inv.f(o, 4, "index", format!("texture[{ti}].type"));
        inv.f(o + 4, 4, "index", format!("texture[{ti}].flags"));
        let (c, fo) = (inv.u32(o + 8), inv.u32(o + 12));
        assert_eq!((c, fo), (t.filename.array.count, t.filename.array.offset));
        let p = base0 + o;
        inv.s.field_ex(p + 8, 4, "strlen", format!("{prefix}texture[{ti}].filename.count"), base0 + fo as usize, 1, None);
        inv.s.field_ex(p + 12, 4, "stroff", format!("{prefix}texture[{ti}].filename.offset"), base0, 1, None);
        if c > 0 {
            let t = fo as usize + c as usize - 1;
            assert_eq!(inv.s.bytes[base0 + t], 0);
            inv.f(t, 1, "term", format!("texture[{ti}].filename.nul"));
        }
    }
    // materials
    let a = h("render_flags");
    if a.count > 0 {
        inv.f(a.offset as usize, 2, "index", "material[0].flags".into());
        inv.f(a.offset as usize + 2, 2, "index", "material[0].blend_mode".into());
    }
    // embedded skin views (<= 263)
    if vnum <= 263 {
        let a = h("views");
        if a.count > 0 {
            let o = a.offset as usize;
            let sub = if vnum < 260 { 32 } else { 48 };
            inv.arr(o, "view[0].indices", 2, None);
            inv.arr(o + 8, "view[0].triangles", 2, None);
            inv.arr(o + 16, "view[0].properties", 4, None);
            let (sc, so) = inv.arr(o + 24, "view[0].submeshes", sub, None);
            inv.arr(o + 32, "view[0].batches", 24, None);
            inv.f(o + 40, 4, "index", "view[0].bone_count_max".into());
            if sc > 0 {
                let so = so as usize;
                inv.f(so + 4, 2, "index", "view[0].submesh[0].vertex_start".into());
                inv.f(so + 6, 2, "count", "view[0].submesh[0].vertex_count".into());
                inv.f(so + 8, 2, "index", "view[0].submesh[0].triangle_start".into());
                inv.f(so + 10, 2, "count", "view[0].submesh[0].triangle_count".into());
            }
        }
    }
    // attachments
    let a = h("attachments");
    if let Some(x) = m.attachments.first() {
        let o = a.offset as usize;
        inv.f(o, 4, "index", "attachment[0].id".into());
        inv.f(o + 4, 4, "index", "attachment[0].bone".into());
        inv.block(o + 20, "attachment[0].scale", 4, &x.scale_animation, true);
    }
    // events
    let a = h("events");
    if let Some(x) = m.events.first() {
        let o = a.offset as usize;
        inv.f(o + 4, 4, "index", "event[0].data".into());
        inv.f(o + 8, 2, "index", "event[0].bone".into());
        inv.f(o + 24, 2, "index", "event[0].interpolation".into());
        inv.f(o + 26, 2, "index", "event[0].global_sequence".into());
        inv.arr(o + 28, "event[0].ranges", 8, Some((x.ranges.count, x.ranges.offset)));
        inv.arr(o + 36, "event[0].times", 4, Some((x.times.count, x.times.offset)));
    }
    // lights
    let a = h("lights");
    if let Some(x) = m.lights.first() {
        let o = a.offset as usize;
        inv.f(o, 1, "index", "light[0].type".into());
        inv.f(o + 1, 2, "index", "light[0].bone".into());
        inv.block(o + 16, "light[0].ambient_color", 12, &x.ambient_color_animation, true);
        inv.block(o + 44, "light[0].diffuse_color", 12, &x.diffuse_color_animation, false);
        inv.block(o + 72, "light[0].attenuation_start", 4, &x.attenuation_start_animation, false);
        inv.block(o + 100, "light[0].attenuation_end", 4, &x.attenuation_end_animation, false);
        inv.block(o + 128, "light[0].visibility", 4, &x.visibility_animation, false);
    }
    // cameras
    let a = h("cameras");
    if let Some(x) = m.cameras.first() {
        let o = a.offset as usize;
        inv.f(o, 4, "index", "camera[0].type".into());
        inv.block(o + 16, "camera[0].position", 12, &x.position_animation, true);
        inv.block(o + 56, "camera[0].target_position", 12, &x.target_position_animation, false);
        inv.block(o + 96, "camera[0].roll", 4, &x.roll_animation, false);
    }
    // ribbon emitters
    let a = h("ribbon_emitters");
    if let Some(x) = m.ribbon_emitters.first() {
        let o = a.offset as usize;
        inv.f(o, 4, "index", "ribbon[0].bone".into());
        inv.arr(o + 16, "ribbon[0].texture_indices", 2, Some((x.texture_indices.count, x.texture_indices.offset)));
        inv.arr(o + 24, "ribbon[0].material_indices", 2, Some((x.material_indices.count, x.material_indices.offset)));
        inv.block(o + 32, "ribbon[0].color", 12, &x.color_animation, true);
        inv.block(o + 60, "ribbon[0].alpha", 4, &x.alpha_animation, false);
        inv.block(o + 88, "ribbon[0].height_above", 4, &x.height_above_animation, false);
        inv.block(o + 116, "ribbon[0].height_below", 4, &x.height_below_animation, false);
    }
    // particle emitters
    let a = h("particle_emitters");
    if let Some(x) = m.particle_emitters.first() {
        let o = a.offset as usize;
        let ver = M2Version::from_header_version(vnum).expect("m2: version");
        let tail = if ver >= M2Version::Legion { 12 } else { 0 };
        let blocks = o + a.unit - tail - 280;
        inv.f(o + 4, 4, "index", "particle[0].flags".into());
        inv.f(o + 20, 2, "index", "particle[0].bone".into());
        inv.f(o + 22, 2, "index", "particle[0].texture".into());
        inv.arr(o + 24, "particle[0].model_filename", 1, Some((x.model_filename.count, x.model_filename.offset)));
        inv.arr(o + particle_tile_pair(vnum), "particle[0].tile_coordinates", 8, Some((x.texture_tile_coordinates.count, x.texture_tile_coordinates.offset)));
        inv.block(blocks, "particle[0].emission_speed", 4, &x.emission_speed_animation, true);
        inv.block(blocks + 28, "particle[0].emission_rate", 4, &x.emission_rate_animation, false);
        inv.block(blocks + 56, "particle[0].emission_area", 4, &x.emission_area_animation, false);
        inv.block(blocks + 84, "particle[0].xy_scale", 8, &x.xy_scale_animation, false);
        inv.block(blocks + 112, "particle[0].z_scale", 4, &x.z_scale_animation, false);
        inv.block(blocks + 140, "particle[0].color", 12, &x.color_animation, false);
        inv.block(blocks + 168, "particle[0].transparency", 4, &x.transparency_animation, false);
        inv.block(blocks + 196, "particle[0].size", 4, &x.size_animation, false);
        inv.block(blocks + 224, "particle[0].intensity", 4, &x.intensity_animation, false);
        inv.block(blocks + 252, "particle[0].z_source", 4, &x.z_source_animation, false);
        if let (Some(p0), Some(p1)) = (x.multi_texture_param0, x.multi_texture_param1) {
            // BfA+: 2 x 4 selector bytes in front of the tile coordinates pair
            let mt = o + particle_tile_pair(vnum) - 8;
            assert_eq!((inv.u32(mt), inv.u32(mt + 4)), (u32::from_le_bytes(p0), u32::from_le_bytes(p1)));
            inv.f(mt, 1, "index", "particle[0].multi_texture_param0[0]".into());
            inv.f(mt + 4, 1, "index", "particle[0].multi_texture_param1[0]".into());
        }
        // further emitters: records have a variable size (PHYSICS adds 20 bytes), so the position
        // of emitter i is the sum of the sizes the library writes for its predecessors
        let mut eo = o;
        for (pi, e) in m.particle_emitters.iter().enumerate() {
            if pi > 0 {
                assert_eq!((inv.u32(eo), inv.u32(eo + 4)), (e.id, e.flags.bits()), "m2: particle emitter {pi} position");
                inv.f(eo + 4, 4, "index", format!("particle[{pi}].flags"));
                inv.f(eo + 20, 2, "index", format!("particle[{pi}].bone"));
                inv.arr(eo + particle_tile_pair(vnum), &format!("particle[{pi}].tile_coordinates"), 8, Some((e.texture_tile_coordinates.count, e.texture_tile_coordinates.offset)));
            }
            eo += esize(|v| e.write(v, vnum).unwrap());
        }
    }
    // texture / colour / transparency animations
    let a = h("texture_animations");
    if let Some(x) = m.texture_animations.first() {
        let o = a.offset as usize;
        inv.f(o, 2, "index", "texanim[0].type".into());
        inv.block(o + 4, "texanim[0].translation_u", 4, &x.translation_u, true);
        inv.block(o + 32, "texanim[0].translation_v", 4, &x.translation_v, false);
        inv.block(o + 60, "texanim[0].rotation", 4, &x.rotation, false);
        inv.block(o + 88, "texanim[0].scale_u", 4, &x.scale_u, false);
        inv.block(o + 116, "texanim[0].scale_v", 4, &x.scale_v, false);
    }
    let a = h("color_animations");
    if let Some(x) = m.color_animations.first() {
        let o = a.offset as usize;
        inv.block(o, "coloranim[0].color", 12, &x.color, true);
        inv.block(o + 28, "coloranim[0].alpha", 2, &x.alpha, false);
    }
    let a = h("transparency_lookup");
    if let Some(x) = m.transparency_animations.first() {
        inv.block(a.offset as usize, "transparency[0].alpha", 4, &x.alpha, true);
    }
}

// --------------------------------------------------------------------------------------------
// seeds
// --------------------------------------------------------------------------------------------

fn legacy_bytes(vnum: u32, variant: Variant) -> Vec<u8> {
    let model = build_model(vnum, variant);
    let mut out = Cursor::new(Vec::new());
    model.write(&mut out).expect("m2: M2Model::write");
    let mut bytes = out.into_inner();
    if variant != Variant::Minimal {
        patch(&mut bytes, vnum);
    }
    if variant == Variant::HdrOpt {
        patch_hdropt(&mut bytes);
    }
    bytes
}

/// The variants a seed exists for really went through the parser branches they are meant for:
/// checked on the model the library parsed back from the final seed bytes.
/// These are statements about what the PARSER makes of the seed (not about the writer's output), so they must not
/// fail a check run: a /repo change that alters, say, the bone-weight repair without crashing is not a C05 violation.
/// `build_legacy` therefore evaluates them only in the builders' `seeds` listing (C05_VERBOSE) and reports a WARNING.
fn self_check(m: &M2Model, variant: Variant) {
    let vnum = m.header.version;
    let ver = M2Version::from_header_version(vnum).expect("m2: version");
    // vertex.rs validate_bone_data, total_weight == 0: kept with valid indices, repaired otherwise
    assert_eq!(m.vertices.len(), 6);
    let kept = if m.bones.is_empty() { [255, 0, 0, 0] } else { [0, 0, 0, 0] };
    assert_eq!((m.vertices[4].bone_weights, m.vertices[5].bone_weights, m.vertices[5].bone_indices), (kept, [255, 0, 0, 0], [0, 0, 0, 0]), "m2: zero-weight vertices");
    if variant == Variant::Minimal {
        return;
    }
    // animation.rs from_u16: one block each with None / Bezier / Hermite
    assert_eq!(
        (
            m.texture_animations[0].scale_v.track.interpolation_type,
            m.lights[0].visibility_animation.track.interpolation_type,
            m.cameras[0].roll_animation.track.interpolation_type,
            m.texture_animations[0].translation_u.track.interpolation_type,
        ),
        (M2InterpolationType::None, M2InterpolationType::Bezier, M2InterpolationType::Hermite, M2InterpolationType::Linear),
        "m2: interpolation types"
    );
    // model.rs collect_event_data: ranges.count > 0
    assert_eq!((m.events[0].ranges.count, m.events[0].times.count), (1, 2));
    let er = &m.raw_data.event_data[0];
    assert_eq!((er.ranges.as_slice(), er.timestamps.len()), (&[0u8, 0, 0, 0, 1, 0, 0, 0][..], 8), "m2: event ranges");
    let pe = &m.particle_emitters[0];
    assert_eq!(pe.multi_texture_param0, if ver >= M2Version::BfA { Some([1, 2, 3, 4]) } else { None });
    if vnum >= 280 {
        assert_eq!(pe.physics_parameters, Some([0.125, 0.25, 0.5, 1.0, 2.0]), "m2: PHYSICS parameters");
        assert_eq!((m.particle_emitters.len(), m.particle_emitters[1].id, m.particle_emitters[1].bone_index, m.particle_emitters[1].physics_parameters), (2, 2, 2, None));
    } else {
        assert_eq!(pe.physics_parameters, None);
    }
    let h = &m.header;
    if variant == Variant::HdrOpt {
        assert_eq!((h.blend_map_overrides.map(|a| a.count), h.texture_combiner_combos.map(|a| a.count), h.texture_transforms.map(|a| a.count)), (Some(4), Some(3), Some(8)));
        assert_eq!((m.global_sequences.as_slice(), m.name.as_deref()), (&[100u32, 2000][..], Some("C05SeedOpt")));
    } else {
        assert_eq!((h.blend_map_overrides, h.texture_combiner_combos), (None, None));
    }
}

fn build_legacy(name: &str, vnum: u32, variant: Variant) -> Seed {
    let bytes = legacy_bytes(vnum, variant);
    let m = parse_legacy(&bytes);
    if std::env::var("C05_VERBOSE").is_ok() {
        if let Err(e) = std::panic::catch_unwind(std::panic::AssertUnwindSafe(|| self_check(&m, variant))) {
            let msg = e.downcast_ref::<String>().cloned().or_else(|| e.downcast_ref::<&str>().map(|x| x.to_string())).unwrap_or_default();
            println!("      WARNING m2/{name}: a seed variant is not reached by the baseline: {}", msg.replace('\n', " "));
        }
    }
    let mut s = Seed::new("m2", name, bytes);
    inventory_legacy(&mut s, 0, "", &m, true);
    s
}

fn chunk(out: &mut Vec<u8>, tag: &[u8; 4], payload: &[u8]) -> usize {
    let at = out.len();
    out.extend_from_slice(tag);
    out.extend_from_slice(&(payload.len() as u32).to_le_bytes());
    out.extend_from_slice(payload);
    at + 8
}

fn le32s(v: &[u32]) -> Vec<u8> {
    v.iter().flat_map(|x| x.to_le_bytes()).collect()
}

fn f32s(v: &[f32]) -> Vec<u8> {
    v.iter().flat_map(|x| x.to_le_bytes()).collect()
}

fn build_chunked(name: &str) -> Seed {
    let md20 = legacy_bytes(276, Variant::Full);
    let model = parse_legacy(&md20);
    let mut b = Vec::new();
    // (payload start, field list: (offset in payload, width, role, name, base in payload or usize::MAX, unit))
    let mut inner: Vec<(usize, usize, u8, &'static str, String, usize, usize)> = Vec::new();
    let md21 = chunk(&mut b, b"MD21", &md20);
    chunk(&mut b, b"SFID", &le32s(&[1001, 1002, 1003]));
    chunk(&mut b, b"AFID", &le32s(&[0x0004_0000, 2001, 0x0005_0000, 2002]));
    chunk(&mut b, b"TXID", &le32s(&[0, 3001]));
    chunk(&mut b, b"PFID", &le32s(&[4001]));
    chunk(&mut b, b"SKID", &le32s(&[5001]));
    chunk(&mut b, b"BFID", &le32s(&[6001, 6002]));
    // LDV1: 14 bytes per level (distance f32, skin index u16, vertex count u32, triangle count u32)
    let mut ldv = Vec::new();
    for i in 0..2u32 {
        ldv.extend_from_slice(&(10.0f32 * (i + 1) as f32).to_le_bytes());
        ldv.extend_from_slice(&(i as u16).to_le_bytes());
        ldv.extend_from_slice(&(4 - i).to_le_bytes());
        ldv.extend_from_slice(&(2 - i).to_le_bytes());
    }
    let p = chunk(&mut b, b"LDV1", &ldv);
    inner.push((p, 4, 2, "index", "LDV1.level[0].skin_file_index".into(), usize::MAX, 1));
    inner.push((p, 6, 4, "count", "LDV1.level[0].vertex_count".into(), usize::MAX, 1));
    // EXPT: typed records; type 0 = enhanced emitter (12 bytes), 1 = particle system (21 bytes),
    // anything else = u32 size + bytes to skip
    let mut ex = vec![0u8];
    ex.extend_from_slice(&[1, 2]);
    ex.extend_from_slice(&1.0f32.to_le_bytes());
    ex.extend_from_slice(&[1, 0]);
    ex.extend_from_slice(&0.5f32.to_le_bytes());
    ex.push(1);
    ex.extend_from_slice(&le32s(&[1, 64]));
    ex.push(2);
    ex.extend_from_slice(&f32s(&[0.1, 0.2, 0.3]));
    ex.push(7);
    let skip_at = ex.len();
    ex.extend_from_slice(&3u32.to_le_bytes());
    ex.extend_from_slice(&[9, 9, 9]);
    let p = chunk(&mut b, b"EXPT", &ex);
    inner.push((p, 0, 1, "index", "EXPT.record[0].type".into(), usize::MAX, 1));
    inner.push((p, skip_at - 1, 1, "index", "EXPT.record[2].type".into(), usize::MAX, 1));
    inner.push((p, skip_at, 4, "bsize", "EXPT.record[2].skip_size".into(), skip_at + 4, 1));
    inner.push((p, 14, 4, "index", "EXPT.record[1].system_id".into(), usize::MAX, 1));
    inner.push((p, 18, 4, "count", "EXPT.record[1].max_particles".into(), usize::MAX, 1));
    // EXP2: emitter_count, system_count, 13-byte emitters, 25-byte systems
    let mut e2 = le32s(&[1, 1]);
    e2.extend_from_slice(&[1, 2]);
    e2.extend_from_slice(&1.0f32.to_le_bytes());
    e2.extend_from_slice(&[1, 0]);
    e2.extend_from_slice(&0.5f32.to_le_bytes());
    e2.push(1);
    e2.extend_from_slice(&le32s(&[1, 64]));
    e2.push(2);
    e2.extend_from_slice(&f32s(&[0.1, 0.2, 0.3, 0.4]));
    let p = chunk(&mut b, b"EXP2", &e2);
    inner.push((p, 0, 4, "count", "EXP2.emitter_count".into(), 8, 13));
    inner.push((p, 4, 4, "count", "EXP2.system_count".into(), 8 + 13, 25));
    chunk(&mut b, b"PABC", &[4, 0, 5, 0, 0xFF, 0xFF]);
    // PADC: weight_count x (u16 f32 u8), mode_count x (u8 u8 f32)
    let mut pa = le32s(&[2]);
    for i in 0..2u16 {
        pa.extend_from_slice(&i.to_le_bytes());
        pa.extend_from_slice(&0.5f32.to_le_bytes());
        pa.push(1);
    }
    let mode_at = pa.len();
    pa.extend_from_slice(&le32s(&[1]));
    pa.extend_from_slice(&[1, 2]);
    pa.extend_from_slice(&0.25f32.to_le_bytes());
    let p = chunk(&mut b, b"PADC", &pa);
    inner.push((p, 0, 4, "count", "PADC.weight_count".into(), 4, 7));
    inner.push((p, 4, 2, "index", "PADC.weight[0].texture_index".into(), usize::MAX, 1));
    inner.push((p, mode_at, 4, "count", "PADC.mode_count".into(), mode_at + 4, 6));
    chunk(&mut b, b"WFV1", &f32s(&[1.0, 0.5, 0.25]));
    // WFV2 (5 floats) and WFV3 (8 floats): payloads from the library's writer; parse_chunked accepts
    // all three variants in one file (each replaces `waterfall_effect`)
    for (tag, version, n) in [(b"WFV2", 2u8, 2usize), (b"WFV3", 3, 5)] {
        let wf = WaterfallEffect {
            version,
            parameters: WaterfallParameters { flow_velocity: 1.0, turbulence: 0.5, foam_intensity: 0.25, additional_params: (0..n).map(|k| 0.5 + k as f32).collect() },
        };
        let mut pl = Vec::new();
        wf.write(&mut pl).expect("m2: WaterfallEffect::write");
        assert_eq!(pl.len(), 12 + 4 * n);
        chunk(&mut b, tag, &pl);
    }
    let mut ed = le32s(&[2]);
    ed.extend_from_slice(&f32s(&[10.0, 20.0]));
    ed.extend_from_slice(&le32s(&[2]));
    ed.extend_from_slice(&f32s(&[0.5, 1.0]));
    let p = chunk(&mut b, b"EDGF", &ed);
    inner.push((p, 0, 4, "count", "EDGF.distance_count".into(), 4, 4));
    inner.push((p, 12, 4, "count", "EDGF.factor_count".into(), 16, 4));
    let mut nerf = f32s(&[0.5]);
    nerf.push(1);
    let p = chunk(&mut b, b"NERF", &nerf);
    inner.push((p, 4, 1, "index", "NERF.blend_mode".into(), usize::MAX, 1));
    chunk(&mut b, b"DETL", &f32s(&[0.3, 0.6, 0.1]));
    chunk(&mut b, b"RPID", &le32s(&[7001, 7002]));
    chunk(&mut b, b"GPID", &le32s(&[8001]));
    // TXAC: count x (M2TextureAnimation 144 bytes + 5 floats + 4 mode bytes = 168); the first block's
    // values array points at the floats inside the chunk (offsets are chunk relative)
    let mut tx = le32s(&[1]);
    let mut ta = vec![0u8; 144];
    ta[0] = 1;
    put32(&mut ta, 4 + 12, 1); // translation_u.timestamps (count, offset)
    put32(&mut ta, 4 + 16, 4 + 144);
    put32(&mut ta, 4 + 20, 1); // translation_u.values (count, offset)
    put32(&mut ta, 4 + 24, 4 + 144 + 4);
    tx.extend_from_slice(&ta);
    tx.extend_from_slice(&f32s(&[1.0, 0.0, 0.0, 1.0, 0.0]));
    tx.extend_from_slice(&[1, 0, 0, 0]);
    let p = chunk(&mut b, b"TXAC", &tx);
    inner.push((p, 0, 4, "count", "TXAC.count".into(), 4, 168));
    inner.push((p, 4, 2, "index", "TXAC.anim[0].type".into(), usize::MAX, 1));
    inner.push((p, 4 + 4 + 12, 4, "count", "TXAC.anim[0].translation_u.timestamps.count".into(), 4 + 144, 4));
    inner.push((p, 4 + 4 + 20, 4, "count", "TXAC.anim[0].translation_u.values.count".into(), 4 + 144 + 4, 4));
    inner.push((p, 4 + 4 + 24, 4, "offset", "TXAC.anim[0].translation_u.values.offset".into(), 0, 1));
    inner.push((p, 4 + 144 + 20, 1, "index", "TXAC.anim[0].animation_mode".into(), usize::MAX, 1));
    inner.push((p, 4 + 144 + 21, 1, "index", "TXAC.anim[0].loop_behavior".into(), usize::MAX, 1));
    inner.push((p, 4 + 144 + 22, 1, "index", "TXAC.anim[0].blend_mode".into(), usize::MAX, 1));
    chunk(&mut b, b"PGD1", &[1, 0, 2, 0]);
    chunk(&mut b, b"DBOC", &[1, 2, 3, 4, 5, 6, 7, 8]);
    chunk(&mut b, b"AFRA", &[8, 7, 6, 5]);
    // DPIV: four (count, offset) pairs (offsets chunk relative), then the arrays
    let mut dp = vec![0u8; 32];
    for (i, (n, data)) in [(2u32, f32s(&[0.0, 0.0, 0.0, 1.0, 1.0, 1.0])), (1, f32s(&[0.0, 0.0, 1.0])), (3, vec![0, 0, 1, 0, 2, 0]), (1, vec![1, 0])].into_iter().enumerate() {
        let o = dp.len() as u32;
        put32(&mut dp, 8 * i, n);
        put32(&mut dp, 8 * i + 4, o);
        dp.extend_from_slice(&data);
    }
    let p = chunk(&mut b, b"DPIV", &dp);
    for (i, (nm, unit)) in [("vertex_pos", 12usize), ("face_norm", 12), ("index", 2), ("flags", 2)].into_iter().enumerate() {
        let o = rd32(&dp, 8 * i + 4) as usize;
        inner.push((p, 8 * i, 4, "count", format!("DPIV.{nm}_count"), o, unit));
        inner.push((p, 8 * i + 4, 4, "offset", format!("DPIV.{nm}_offset"), 0, 1));
    }
    chunk(&mut b, b"PSBC", &f32s(&[-1.0, -1.0, 0.0, 1.0, 1.0, 2.0, 2.5]));
    // PEDC: records (event_id, data_size, timestamp, data)
    let mut pe = le32s(&[1, 3, 100]);
    pe.extend_from_slice(&[1, 2, 3]);
    pe.extend_from_slice(&le32s(&[2, 0, 200]));
    let p = chunk(&mut b, b"PEDC", &pe);
    inner.push((p, 4, 4, "bsize", "PEDC.entry[0].data_size".into(), 12, 1));
    inner.push((p, 15 + 4, 4, "bsize", "PEDC.entry[1].data_size".into(), 15 + 12, 1));
    // PCOL: vertex_count, face_count, material_count, vertices (12), faces (8), materials (12)
    let mut pc = le32s(&[3, 1, 1]);
    pc.extend_from_slice(&f32s(&[0.0, 0.0, 0.0, 1.0, 0.0, 0.0, 0.0, 1.0, 0.0]));
    pc.extend_from_slice(&[0, 0, 1, 0, 2, 0, 0, 0]);
    pc.extend_from_slice(&le32s(&[1]));
    pc.extend_from_slice(&f32s(&[0.5, 0.5]));
    let p = chunk(&mut b, b"PCOL", &pc);
    inner.push((p, 0, 4, "count", "PCOL.vertex_count".into(), 12, 12));
    inner.push((p, 4, 4, "count", "PCOL.face_count".into(), 12 + 36, 8));
    inner.push((p, 8, 4, "count", "PCOL.material_count".into(), 12 + 36 + 8, 12));
    inner.push((p, 12 + 36 + 6, 2, "index", "PCOL.face[0].material_index".into(), usize::MAX, 1));
    let mut pf = f32s(&[1.0, 0.0, 0.0, 0.0, 1.0, 0.0, 0.0, 0.0, 1.0, 0.0, 0.0, 0.0, 1.0]);
    pf.extend_from_slice(&le32s(&[3]));
    pf.extend_from_slice(&[0xAA; 6]);
    chunk(&mut b, b"PFDC", &pf);
    chunk(&mut b, b"ZZZZ", &[0; 12]);

    let mut s = Seed::new("m2", name, b);
    let end = s.bytes.len();
    let chunks = add_chunk_seq(&mut s, "top", 0, end, Vec::new(), false);
    assert_eq!(chunks.len(), 30, "m2: chunk walk of the MD21 seed");
    assert_eq!(chunks.last().map(|c| c.0 + c.1), Some(end));
    for (p, rel, w, role, nm, base, unit) in inner {
        let o = p + rel;
        let base = if base == usize::MAX { o + w as usize } else { p + base };
        s.field_ex(o, w, role, nm, base, unit, None);
    }
    inventory_legacy(&mut s, md21, "MD21/", &model, false);
    s
}

pub fn build(name: &str) -> Seed {
    match name {
        "wotlk-264" => build_legacy(name, 264, Variant::Full),
        "wotlk-264-min" => build_legacy(name, 264, Variant::Minimal),
        "classic-256" => build_legacy(name, 256, Variant::Full),
        "tbc-260" => build_legacy(name, 260, Variant::Full),
        "tbc-263" => build_legacy(name, 263, Variant::Full),
        "cata-272" => build_legacy(name, 272, Variant::Full),
        "md20-legion-276" => build_legacy(name, 276, Variant::Full),
        "md20-bfa-280" => build_legacy(name, 280, Variant::Full),
        "md20-legion-276-hdropt" => build_legacy(name, 276, Variant::HdrOpt),
        "md21-legion" => build_chunked(name),
        _ => wverif_common::tool_error(&format!("m2: unknown seed {name}")),
    }
}

pub fn run(r: &mut Runner, bytes: &[u8], _aux: &Aux) {
    r.call("parse_m2", || wow_m2::parse_m2(&mut Cursor::new(bytes)).map(|_| ()).map_err(errname));
}
