CONSTANTS
  DecoderScope <- ScopeThread
INIT HInit
NEXT HNext
CONSTRAINT HBound
INVARIANT CallIndependent
CHECK_DEADLOCK FALSE
