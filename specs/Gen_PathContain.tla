---------------------------- MODULE Gen_PathContain ----------------------------
(* Stage (B) for C11: TLC enumerates the entry names of the grammar (every name of <= 3 components;  *)
(* every 4-component name in thorough, a seed-rotated residue class (1/8) of them in quick), classifies   *)
(* them with the model, packs them into archives and crosses the archives with the option product   *)
(* preserve-paths x patch chain x {whole archive, explicit names}.                                   *)
(*                                                                                                  *)
(* Packing: an entry the model says stops the run when extracted alone (AbortsAlone, checked against *)
(* the step machine in stage A) gets an archive of its own -- otherwise the names behind it would    *)
(* never be tried; all other names go into archives of <= GroupSize names.  Archives are homogeneous *)
(* in the syntactic class (has a leading separator, has a `..`) the known-finding signature uses.    *)
EXTENDS PathContain, Json, IOUtils

Thorough == IOEnv.VERIF_TIER = "thorough"
SeedN == atoi(IOEnv.VERIF_SEED)
GroupSize == 200
Modulus == 8

Code(k) == CASE k = "P" -> 0 [] k = "D" -> 1 [] k = "E" -> 2 [] k = "a" -> 3 [] k = "C" -> 4 [] k = "L" -> 5 [] k = "U" -> 6
           [] k = "f" -> 0 [] k = "b" -> 1
Weight == <<1, 7, 49, 343>>
Hash(n) == LET cc == n.c ss == n.s IN
           (FoldLeft(LAMBDA acc, i : acc + Weight[i] * Code(cc[i]), 0, [i \in 1..Len(cc) |-> i])
            + FoldLeft(LAMBDA acc, i : acc + (2 * i + 1) * Code(ss[i]), 0, [i \in 1..Len(ss) |-> i])) % Modulus

Small == NamesOf(3)
Four  == {n \in NamesOf(4) : Len(n.c) = 4}
Chosen == IF Thorough THEN Small \cup Four ELSE Small \cup {n \in Four : Hash(n) = SeedN % Modulus}

\* probe options for the classification: the answer must not depend on where `out` is or whether it exists
ProbeOpt(pres) == [preserve |-> pres, explicit |-> TRUE, chain |-> FALSE, form |-> "rel", preout |-> FALSE]
SelfErr(n)   == \E pres \in BOOLEAN : AbortsAlone(n.c, ProbeOpt(pres), Guard)
HasRootN(n)  == HasRoot(n.c)
HasParentN(n) == HasParentDir(n.c)

Class(r, p) == {n \in Chosen : ~SelfErr(n) /\ HasRootN(n) = r /\ HasParentN(n) = p}
Chunks(S) == LET q == SetToSeq(S) k == (Len(q) + GroupSize - 1) \div GroupSize IN
             {SubSeq(q, (j - 1) * GroupSize + 1, IF j * GroupSize < Len(q) THEN j * GroupSize ELSE Len(q)) : j \in 1..k}
Groups == UNION {{[names |-> g, hasroot |-> r, hasparent |-> p, selferr |-> FALSE] : g \in Chunks(Class(r, p))}
                 : r \in BOOLEAN, p \in BOOLEAN}
          \cup {[names |-> <<n>>, hasroot |-> HasRootN(n), hasparent |-> HasParentN(n), selferr |-> TRUE]
                 : n \in {m \in Chosen : SelfErr(m)}}

\* thorough: the full option product for every archive.  quick: full product for the packed archives; a
\* single-entry archive gets both preserve values x two of the four (chain, explicit) pairs, which two
\* rotating with the name and the seed.
Parity(g) == (Hash(g.names[1]) + Len(g.names[1].c) + SeedN) % 2
Wanted(g, ch, ex) == Thorough \/ ~g.selferr \/ (IF Parity(g) = 0 THEN ch = ex ELSE ch # ex)
Product == {[names |-> g.names, hasroot |-> g.hasroot, hasparent |-> g.hasparent, selferr |-> g.selferr,
             preserve |-> pres, chain |-> ch, explicit |-> ex]
            : g \in Groups, pres \in BOOLEAN, ch \in BOOLEAN, ex \in BOOLEAN} 
Selected == {c \in Product : Wanted(c, c.chain, c.explicit)}
Numbered == LET q == SetToSeq(Selected) IN [i \in 1..Len(q) |-> [id |-> i] @@ q[i]]

ASSUME ndJsonSerialize(IOEnv.CASES, Numbered)
ASSUME PrintT(<<"GENERATED", Len(Numbered), "cases", Cardinality(Chosen), "names", Cardinality(Groups), "archives">>)

\* the generator module has no behaviour of its own
GInit == InitWith(<<>>, ProbeOpt(FALSE))
GNext == UNCHANGED vars
=============================================================================
