CONSTANT SectorBase = 8
INIT Init
NEXT Next
INVARIANT LayoutOk
INVARIANT RoundTrip
INVARIANT AbsentNotFound
INVARIANT DeviationsBreak
CHECK_DEADLOCK FALSE
INVARIANT DeviationsBreakX
INVARIANT DeviationsBreakXL
