"""C10 -- corruption of protected data is detected; intact data verifies."""
import json

from vlib import core

META = {
    "level": "fault_enumeration",
    "level_text": "Integrity.tla models an archive as byte regions with, per configuration, the detectors covering them (sector adler32 via read, "
                  "attributes CRC32/MD5 via SFileVerifyFile, version-4 digests, weak signature); TLC checks for every configuration x region kind x effect "
                  "that the intended coverage map (= the code since 48c5310 / 5c764f6 / 7734a50 / da9094c) is sound, and that each named deviation "
                  "(legacy code: sector checksums read but not compared, failed sector decompression zero-filled; code at 7734a50 before da9094c: an altered sector offset table could "
                  "switch the verification of its file off) is sound exactly up to its predicted gap and violates plain soundness. Binding: for every configuration enumerated by TLC a real "
                  "archive is built with the library and altered at EVERY byte offset (flip bit 0 / bit 7 / set 00 / set FF, 4-byte zeroing, sector swaps); "
                  "after each alteration every detector of the real code is run (Archive::open, read_file, get_info md5_status/signature_status, storm-ffi "
                  "SFileVerifyFile) and Trace_Integrity decides: intact => all pass; altered protected region => some detector fails or all content tokens are "
                  "the originals. Signatures: generate_weak_signature over byte strings, every bit of data and signature flipped; the signature area at every "
                  "alignment relative to the 64 KiB digest unit (all 71 straddling placements) with the 16 bytes before and 128 bytes after it flipped; signed archives "
                  "> 64 KiB whose (signature) entry straddles the unit boundary; >= 2000 distinct signed messages verified intact; intact-only verification (every digest valid, every table loaded, every file reads back "
                  "and passes SFileVerifyFile) over version-4 archives with 1022..2049 files, V3/V4 x compress_tables on/off x 1/4/23/60/150 files, archives that start "
                  "behind a 512/1024-byte prefix (also swept: signed V1 and V4), content-length classes from EMPTY to 3.x sectors in every (version, attributes, "
                  "sector-crc, encrypted+compressed) configuration, and archives with attributes that went through an in-place MutableArchive session (add, replace, "
                  "remove, rename; V1..V4; two of them also swept).",
    "level_note": "Single contiguous alterations only (one byte, 4 bytes, or two sectors swapped). Archives are 3-4 KB with one single-unit, one 3-sector (compressed/raw/compressed) and one stored 3-sector file; "
                  "a stored (uncompressed) multi-sector file is included since 9cf2783. Signed archives: V1 without sector CRCs "
                  "(signature patched in by the harness with generate_weak_signature). A digest of the v4 header counts as a detector only if it verified on the "
                  "intact archive. Panics / aborts / hangs of a detector on altered input count as 'reported' here (C05 owns totality).",
    "technique": "TLA+ coverage-map specification (Integrity.tla) model-checked with TLC; exhaustive byte-offset fault enumeration on real archives; "
                 "trace validation of the detector observations against the specification",
    "design_ref": "DESIGN.md section 5, C10",
    "crates": ["c10"],
}


def sig(b):
    r = b.get("reset") or {}
    cfg = r.get("cfg") or {}
    rec = b.get("rec") or {}
    why = str(b.get("why", "")).strip('"')
    regs = [rec.get("region", ""), rec.get("region_end", "")]
    hit = "multi" if any(x.startswith("multi_") for x in regs) else \
          "single" if any(x in ("single_raw", "single_comp", "listfile") for x in regs) else regs[0]
    label = str(r.get("case", ""))
    import re as _re
    session = label.endswith("-session") or _re.search(r"-s[1-9][a-z]+-lf", label) is not None
    s = {"ev": rec.get("ev"), "why": why, "hit": hit, "session": session, "ver": cfg.get("ver"), "crc": cfg.get("crc"), "attrs": cfg.get("attrs"),
         "enc": cfg.get("enc"), "comp": cfg.get("comp"), "signed": cfg.get("signed"),
         "region": rec.get("region", rec.get("place", "")), "region_end": rec.get("region_end", "")}
    return s


def run(ctx, cases_override=None):
    ctx.mc("MC_Integrity", timeout=600)
    # named deviations: the legacy code (before 48c5310 / 5c764f6) and the code at 7734a50 before da9094c (offset-table gate); both must be refuted
    ctx.mc("MC_Integrity", cfg="MC_Integrity_ascoded", timeout=600)
    ctx.mc("MC_Integrity", cfg="MC_Integrity_gatehole", timeout=600)
    for cfgname in ("MC_Integrity_ascoded_sound", "MC_Integrity_gatehole_sound"):
        rc, text = ctx.tlc("MC_Integrity", cfgname, workers=2, timeout=300)
        if "Invariant Sound is violated" not in text:
            raise core.ToolError(f"stage A: TLC did not refute Sound for {cfgname}:\n" + core._tail(text))
    core.log("(A) legacy and gate-hole coverage maps refuted against Sound, as required")
    if cases_override:
        cases, ncases = cases_override, sum(1 for _ in open(cases_override))
    else:
        cases, ncases = ctx.gen("Gen_Integrity")
    binary = ctx.build("c10")
    trace = ctx.harness(binary, cases, timeout=1700)
    res = ctx.validate("Trace_Integrity", trace, timeout=900)
    # evidence: measured numbers only
    alterations, archives, matrix, samples, sigflips = 0, set(), {}, [], 0
    sigmsgs, bigintact = 0, 0
    with open(trace) as f:
        for line in f:
            r = json.loads(line)
            if r["ev"] == "Corrupt":
                alterations += r["n"]
                archives.add(r["case"])
                k = f'{r["region"]}/{r["mkind"]}'
                matrix[k] = matrix.get(k, 0) + r["n"]
                if len(samples) < 6 and r["n"] == 1:
                    samples.append(r)
            elif r["ev"] == "SigFlip":
                sigflips += r["n"]
            elif r["ev"] == "SigIntact":
                sigmsgs += r.get("n", 1)
            elif r["ev"] == "Intact" and ":intact-" in r["case"]:
                bigintact += 1
            elif r["ev"] in ("Intact", "Regions", "SigIntact") and len(samples) < 10:
                samples.append(r)
    cov = {
        "evaluations": alterations + sigflips + sigmsgs + bigintact,
        "distinct_nontrivial": alterations + sigflips,
        "rule": "one evaluation = one alteration of a real archive (distinct (archive, offset, mutation kind) by construction) followed by a run of every "
                "detector, or one bit flip of a signed byte string followed by verify_weak_signature_stormlib (non-trivial: each changes at least one byte); "
                "evaluations additionally counts intact-only checks: signed messages that must verify (the ~1/256 class whose RSA value has a zero top byte is "
                "hit with probability 1-(255/256)^n, see zero_top_byte_miss_probability) and the intact-only archives (large tables, compressed HET/BET tables, archive behind a prefix, "
                "content-length classes incl. empty files) whose digests, tables, read-backs and SFileVerifyFile results must all pass",
        "samples": samples,
        "traces_validated_against_impl": res["traces"],
        "events": res["events"],
        "archives": len(archives),
        "alterations": alterations,
        "signature_bit_flips": sigflips,
        "signed_messages_verified_intact": sigmsgs,
        "intact_only_large_table_archives": bigintact,
        "zero_top_byte_miss_probability": "P(no RSA value with a zero top byte among n signed messages) = (255/256)^n; n = %d -> %.1e" % (sigmsgs, (255.0 / 256.0) ** max(sigmsgs, 1)),
        "alterations_by_region_and_kind": matrix,
        "configurations_generated_by_tlc": ncases,
        "exhaustive": False,
    }
    assumptions = ["region kinds are computed from the intact archive's header, tables and find_file data",
                   "one contiguous alteration at a time",
                   "content = bytes returned by Archive::read_file for the user files and the (listfile)"]
    return core.finish(ctx, "fault_enumeration", cov, assumptions, res["bad"], sig_fn=sig, trace=trace)


def replay(ctx, payload):
    cases, _ = ctx.gen("Gen_Integrity")
    idx = int(str(payload.get("case", "0:")).split(":")[0])
    lines = open(cases).read().splitlines()
    sel = ctx.path("replay-cases.ndjson")
    with open(sel, "w") as f:
        f.write(lines[idx] + "\n")
    return run(ctx, cases_override=sel)
