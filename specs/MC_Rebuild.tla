----------------------------- MODULE MC_Rebuild -----------------------------
(* Stage (A) for C07: the designed machine satisfies the property for every option set, every     *)
(* processing order, on a source with a plain, an encrypted, a signature and an empty file; the   *)
(* implementation machine (MC_Rebuild_code.cfg) must violate it: TLC exhibits the empty target of *)
(* a HET/BET source and the underflowing skipped count.                                           *)
EXTENDS Rebuild, Sequences
MFiles == {"plain", "secret", "(signature)", "empty", "(listfile)"}
\* round 4: a source whose (listfile) names neither itself nor (attributes) nor one ordinary file (MC_Rebuild_noself.cfg,
\* and the must-refute configurations _codeC / _codeD / _codeE)
MListedNoSelf == {"plain", "secret", "(signature)", "empty"}
MUnlisted     == {"(listfile)", "(attributes)", "hidden"}
MTok   == [f \in MFiles \cup MUnlisted |-> "t:" \o f]
DesignSpec == RInit /\ [][DesignNext]_rvars /\ WF_rvars(DesignNext)
CodeSpec   == RInit /\ [][CodeNext]_rvars
HeadSpec   == RInit /\ [][HeadNext]_rvars
NoLfSpec   == RInit /\ [][NoLfNext]_rvars
=============================================================================
