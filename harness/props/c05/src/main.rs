//! C05 driver -- parsers are total.
//!
//!   c05 <cases.ndjson> <trace.ndjson>      parent: expand the TLC fault plan over the field
//!                                          inventory of every seed file, run every mutated input
//!                                          in crash-isolated children, record one `Input` event
//!                                          per (input, entry point). Records only; the verdict is
//!                                          Trace_BoundedReader's.
//!   c05 worker <inputs.ndjson> <lo> <hi>   the child (see worker.rs)
//!   c05 seeds [fmt]                        list seeds / inventory sizes / baseline outcomes
mod alloc;
mod fmt_adt;
mod fmt_anim;
mod fmt_blp;
mod fmt_dbc;
mod fmt_m2;
mod fmt_mpq;
mod fmt_ptch;
mod fmt_skin;
mod fmt_wdl;
mod fmt_wdt;
mod fmt_wmo;
mod formats;
mod mutate;
mod seed;
mod worker;

use seed::{Field, Seed};
use std::collections::{BTreeMap, HashMap, HashSet};
use std::io::{BufRead, BufReader, Write};
use std::os::unix::process::ExitStatusExt;
use std::path::{Path, PathBuf};
use std::process::{Command, Stdio};
use std::sync::Mutex;
use wverif_common::*;

#[global_allocator]
static GLOBAL: alloc::Counting = alloc::Counting;

fn main() {
    let a: Vec<String> = std::env::args().collect();
    if a.len() >= 2 && a[1] == "worker" {
        worker::main(&a[2..]);
        return;
    }
    if a.len() >= 2 && a[1] == "seeds" {
        list_seeds(a.get(2).map(|s| s.as_str()));
        return;
    }
    parent();
}

// --------------------------------------------------------------------------------------------
// `seeds` mode: what the builders of the per-format modules use to validate their work
// --------------------------------------------------------------------------------------------

fn list_seeds(only: Option<&str>) {
    install_quiet_panic_hook();
    let sc = Scratch::new("c05seeds");
    for fmt in formats::FORMATS {
        if only.map(|o| o != *fmt).unwrap_or(false) {
            continue;
        }
        for th in [false, true] {
            let names = formats::seed_names(fmt, th);
            println!("{fmt}: {} seeds ({})", names.len(), if th { "thorough" } else { "quick" });
            if !th {
                continue;
            }
            for n in names {
                let s = formats::build(fmt, &n);
                let mut by: BTreeMap<&str, usize> = BTreeMap::new();
                for f in &s.fields {
                    *by.entry(f.role).or_default() += 1;
                    let v = mutate::read_field(&s.bytes, f);
                    if std::env::var("C05_VERBOSE").is_ok() {
                        println!("      {:>8} w{} {:<6} {:<40} = {} (base {}, unit {}{})", f.off, f.width, f.role, f.name, v, f.base, f.unit,
                                 if f.enc.is_some() { ", enc" } else { "" });
                    }
                }
                let mut names_seen = HashSet::new();
                for f in &s.fields {
                    if !names_seen.insert(&f.name) {
                        println!("      WARNING duplicate field name {}", f.name);
                    }
                }
                println!("  {fmt}/{n}: {} bytes, {} fields {:?}, {} chunk seqs {:?}", s.bytes.len(), s.fields.len(), by, s.seqs.len(),
                         s.seqs.iter().map(|q| q.items.len()).collect::<Vec<_>>());
                // baseline: run the entry points in-process on the unmutated seed
                let mut r = worker::Runner { idx: 0, len: s.bytes.len(), clean: true, scratch: sc.path.clone() };
                formats::run(fmt, &mut r, &s.bytes, &s.aux);
            }
        }
    }
}

// --------------------------------------------------------------------------------------------
// seed cache: the parent builds every seed once and stores it next to inputs.ndjson; a child
// (re)started in the middle of a batch loads it instead of rebuilding (deterministic and cheap)
// --------------------------------------------------------------------------------------------

fn seed_paths(inputs: &Path, fmt: &str, name: &str) -> (PathBuf, PathBuf) {
    let d = inputs.parent().unwrap_or(Path::new("."));
    (d.join(format!("seed-{fmt}-{name}.bin")), d.join(format!("seed-{fmt}-{name}.json")))
}

fn store_seed(inputs: &Path, s: &Seed) {
    let (pb, pj) = seed_paths(inputs, s.format, &s.name);
    std::fs::write(&pb, &s.bytes).unwrap_or_else(|e| tool_error(&format!("write {pb:?}: {e}")));
    let fields: Vec<Value> = s
        .fields
        .iter()
        .map(|f| json!([f.off, f.width, f.role, f.name, f.base, f.unit, f.enc.as_ref().map(|e| json!([e.start, e.len, e.key]))]))
        .collect();
    let seqs: Vec<Value> = s.seqs.iter().map(|q| json!([q.name, q.items, q.parent_size_fields])).collect();
    let aux = match &s.aux {
        seed::Aux::None => json!(null),
        seed::Aux::Names(v) => json!({"names": v}),
        seed::Aux::Base(b) => json!({"base": b}),
    };
    let tokens: Vec<Value> = s.tokens.iter().map(|t| json!([t.name, t.start, t.end, t.markers, t.ordinary])).collect();
    let regions: Vec<Value> = s.regions.iter().map(|r| json!([r.name, r.start, r.len, r.size_fields, r.arrays])).collect();
    std::fs::write(&pj, serde_json::to_vec(&json!({"fields": fields, "seqs": seqs, "tokens": tokens, "regions": regions, "aux": aux})).unwrap())
        .unwrap_or_else(|e| tool_error(&format!("write {pj:?}: {e}")));
}

pub fn load_seed(inputs: &Path, fmt: &str, name: &str) -> Seed {
    let (pb, pj) = seed_paths(inputs, fmt, name);
    let (Ok(bytes), Ok(meta)) = (std::fs::read(&pb), std::fs::read(&pj)) else {
        return formats::build(fmt, name);
    };
    let m: Value = serde_json::from_slice(&meta).unwrap_or_else(|e| tool_error(&format!("seed meta: {e}")));
    let fmt_static = formats::FORMATS.iter().find(|f| **f == fmt).copied().unwrap_or_else(|| tool_error("format"));
    let mut s = Seed::new(fmt_static, name, bytes);
    let us = |v: &Value| v.as_u64().unwrap_or(0) as usize;
    for f in ga(&m, "fields") {
        let role = seed::ROLES.iter().find(|r| Some(**r) == f[2].as_str()).copied().unwrap_or_else(|| tool_error("role"));
        let enc = if f[6].is_null() { None } else { Some(seed::Enc { start: us(&f[6][0]), len: us(&f[6][1]), key: us(&f[6][2]) as u32 }) };
        s.fields.push(Field { off: us(&f[0]), width: us(&f[1]) as u8, role, name: f[3].as_str().unwrap_or("").to_string(), base: us(&f[4]), unit: us(&f[5]), enc });
    }
    for q in ga(&m, "seqs") {
        s.seqs.push(seed::ChunkSeq {
            name: q[0].as_str().unwrap_or("").to_string(),
            items: q[1].as_array().map(|a| a.iter().map(|it| (us(&it[0]), us(&it[1]))).collect()).unwrap_or_default(),
            parent_size_fields: q[2].as_array().map(|a| a.iter().map(us).collect()).unwrap_or_default(),
        });
    }
    for t in m["tokens"].as_array().map(|a| a.as_slice()).unwrap_or(&[]) {
        s.tokens.push(seed::TokenSite {
            name: t[0].as_str().unwrap_or("").to_string(),
            start: us(&t[1]),
            end: us(&t[2]),
            markers: t[3].as_array().map(|a| a.iter().map(|x| (us(&x[0]) as u8, us(&x[1]))).collect()).unwrap_or_default(),
            ordinary: t[4].as_array().map(|a| a.iter().map(|x| us(x) as u8).collect()).unwrap_or_default(),
        });
    }
    for r in m["regions"].as_array().map(|a| a.as_slice()).unwrap_or(&[]) {
        s.regions.push(seed::Region {
            name: r[0].as_str().unwrap_or("").to_string(),
            start: us(&r[1]),
            len: us(&r[2]),
            size_fields: r[3].as_array().map(|a| a.iter().map(us).collect()).unwrap_or_default(),
            arrays: r[4].as_array().map(|a| a.iter().map(|x| (x[0].as_str().unwrap_or("").to_string(), us(&x[1]), us(&x[2]))).collect()).unwrap_or_default(),
        });
    }
    s.aux = if let Some(n) = m["aux"].get("names") {
        seed::Aux::Names(n.as_array().map(|a| a.iter().filter_map(|x| x.as_str().map(|y| y.to_string())).collect()).unwrap_or_default())
    } else if let Some(b) = m["aux"].get("base") {
        seed::Aux::Base(b.as_array().map(|a| a.iter().map(|x| x.as_u64().unwrap_or(0) as u8).collect()).unwrap_or_default())
    } else {
        seed::Aux::None
    };
    s
}

/// Resolve static code addresses to function names with one addr2line run (innermost inlined
/// frame first). Returns address -> list of function names.
fn resolve_addrs(exe: &Path, addrs: &[u64]) -> HashMap<u64, Vec<String>> {
    let mut out: HashMap<u64, Vec<String>> = HashMap::new();
    if addrs.is_empty() {
        return out;
    }
    let mut cmd = Command::new("addr2line");
    cmd.arg("-f").arg("-i").arg("-a").arg("-C").arg("-e").arg(exe);
    for a in addrs {
        // a return address: step back into the call instruction
        cmd.arg(format!("0x{:x}", a.saturating_sub(1)));
    }
    let o = match cmd.output() {
        Ok(o) if o.status.success() => o,
        _ => return out,
    };
    let text = String::from_utf8_lossy(&o.stdout);
    let mut cur: Option<u64> = None;
    let mut expect_fn = false;
    for line in text.lines() {
        if let Some(h) = line.strip_prefix("0x") {
            if let Ok(a) = u64::from_str_radix(h.trim(), 16) {
                cur = Some(a + 1);
                expect_fn = true;
                continue;
            }
        }
        if expect_fn {
            if let Some(a) = cur {
                out.entry(a).or_default().push(line.trim().to_string());
            }
            expect_fn = false;
        } else {
            // the file:line of the previous function name; the next line is a function again
            expect_fn = true;
        }
    }
    out
}

/// "ADDR:<hex> <hex> ..." -> the first library (wow_*) function on the stack, digits normalised
fn site_name(key: &str, table: &HashMap<u64, Vec<String>>) -> String {
    let list = key.trim_start_matches("ADDR:");
    let mut first_other = String::new();
    for h in list.split_whitespace() {
        let Ok(a) = u64::from_str_radix(h, 16) else { continue };
        for name in table.get(&a).map(|v| v.as_slice()).unwrap_or(&[]) {
            let mut n = name.as_str();
            // strip the legacy-mangling hash suffix
            if let Some(p) = n.rfind("::h") {
                if n.len() - p == 19 && n[p + 3..].chars().all(|c| c.is_ascii_hexdigit()) {
                    n = &n[..p];
                }
            }
            let t = n.trim_start_matches('<');
            if t.starts_with("wow_") {
                return normalise_digits(n);
            }
            if first_other.is_empty() && !(t.starts_with("std::") || t.starts_with("core::") || t.starts_with("alloc::") || t.starts_with("c05::")
                || t.starts_with("__rust") || t.starts_with("__rdl") || t.starts_with("__rg") || t == "??" || t.starts_with("rust_") || t.contains("GlobalAlloc"))
            {
                first_other = normalise_digits(n);
            }
        }
    }
    if first_other.is_empty() {
        "alloc-site-unresolved".to_string()
    } else {
        first_other
    }
}

// --------------------------------------------------------------------------------------------
// parent
// --------------------------------------------------------------------------------------------

#[derive(Clone)]
struct Input {
    fmt: &'static str,
    seed_idx: usize,
    op: Value,
    plan: i64,
    arch: String,
    role: String,
    val: String,
    field: String,
    cval: String,
    len: usize,
    /// concrete value, field width, original value, rem (elements that fit), unit -- re-computed by TLC
    cv: u64,
    w: u8,
    orig: u64,
    rem: u64,
    unit: u64,
}

#[derive(Clone, Debug, Default)]
struct EntryRes {
    entry: String,
    class: String,
    key: String,
    maxreq: usize,
    peak: usize,
}

fn rank(c: &str) -> u8 {
    match c {
        "ok" => 0,
        "err" => 1,
        "panic" => 2,
        "hugealloc" => 3,
        "timeout" => 4,
        "stackoverflow" => 5,
        _ => 6,
    }
}

fn mask(v: u64, width: u8) -> u64 {
    if width >= 8 {
        v
    } else {
        v & ((1u64 << (8 * width as u32)) - 1)
    }
}

/// Concrete value of a boundary symbol of the plan for one field of one seed file.
fn concretise(sym: &str, f: &Field, orig: u64, len: usize) -> Option<u64> {
    let w = f.width;
    let l = len as u64;
    let rem = (len.saturating_sub(f.base) / f.unit.max(1)) as u64;
    let top = |k: u32| -> u64 {
        // 2^(8w-1) and friends for the field's own width
        1u64 << (8 * w as u32 - k)
    };
    let v = match sym {
        "0" => 0,
        "1" => 1,
        "2" => 2,
        "len-1" => l.saturating_sub(1),
        "len" => l,
        "len+1" => l + 1,
        "rem-1" => rem.saturating_sub(1),
        "rem" => rem,
        "rem+1" => rem + 1,
        "orig-1" => orig.wrapping_sub(1),
        "orig+1" => orig.wrapping_add(1),
        "i31max" => {
            if w >= 4 {
                0x7FFF_FFFF
            } else {
                top(1) - 1
            }
        }
        "i31" => {
            if w >= 4 {
                0x8000_0000
            } else {
                top(1)
            }
        }
        "u32max" => {
            if w >= 4 {
                0xFFFF_FFFF
            } else {
                mask(u64::MAX, w)
            }
        }
        "u16max" => 0xFFFF,
        "u16max+1" => 0x1_0000,
        "mulwrap" => {
            if f.unit <= 1 || w < 4 {
                return None;
            }
            (1u64 << 32) / f.unit as u64 + 1
        }
        "i63max" => {
            if w < 8 {
                return None;
            }
            i64::MAX as u64
        }
        "i63" => {
            if w < 8 {
                return None;
            }
            1u64 << 63
        }
        "u64max" => {
            if w < 8 {
                return None;
            }
            u64::MAX
        }
        "u32max+1" => {
            if w < 8 {
                return None;
            }
            1u64 << 32
        }
        "nonzero" => 0x41,
        s => match s.parse::<u64>() {
            Ok(n) => n, // a literal (shift amounts, enum selectors)
            Err(_) => tool_error(&format!("unknown boundary symbol {s}")),
        },
    };
    let v = mask(v, w);
    if v == orig {
        None
    } else {
        Some(v)
    }
}

fn limbs(v: u64) -> Value {
    json!([(v >> 48) & 0xFFFF, (v >> 32) & 0xFFFF, (v >> 16) & 0xFFFF, v & 0xFFFF])
}

fn norm_field(name: &str) -> String {
    // "block[12].flags" -> "block[#].flags"
    normalise_digits(name)
}

fn sample<T: Clone>(v: Vec<T>, cap: usize) -> Vec<T> {
    if v.len() <= cap || cap == 0 {
        return v;
    }
    (0..cap).map(|i| v[i * v.len() / cap].clone()).collect()
}

fn expand(seeds: &[Seed], plan: &[Value], thorough: bool) -> Vec<Input> {
    let mut out = Vec::new();
    let cut_cap = if thorough { 0 } else { 160 };
    for (si, s) in seeds.iter().enumerate() {
        let len = s.bytes.len();
        let mk = |op: Value, p: &Value, field: String, cval: String, ilen: usize| Input {
            cv: u64::from_str_radix(&cval, 16).unwrap_or(0),
            w: 0,
            orig: 0,
            rem: 0,
            unit: 1,
            fmt: s.format,
            seed_idx: si,
            op,
            plan: gi(p, "id"),
            arch: gs(p, "arch").to_string(),
            role: gs(p, "role").to_string(),
            val: gs(p, "val").to_string(),
            field,
            cval,
            len: ilen,
        };
        let origs: Vec<u64> = s.fields.iter().map(|f| mutate::read_field(&s.bytes, f)).collect();
        let mut seen_set: HashSet<(usize, u64)> = HashSet::new();
        let mut seen_tag: HashSet<(usize, String)> = HashSet::new();
        let mut seen_tok: HashSet<(usize, usize, u8, usize, u8)> = HashSet::new();
        let mut seen_pair: HashSet<(usize, usize, u64, u64)> = HashSet::new();
        let mut cuts: BTreeMap<usize, (i64, String)> = BTreeMap::new(); // position -> (plan idx in `plan`, field)
        for (pi, p) in plan.iter().enumerate() {
            let arch = gs(p, "arch");
            let role = gs(p, "role");
            let val = gs(p, "val");
            match arch {
                "chunk" | "array" | "string" => {
                    for (fi, f) in s.fields.iter().enumerate() {
                        if f.role != role {
                            continue;
                        }
                        if role == "tag" {
                            if seen_tag.insert((fi, val.to_string())) {
                                out.push(mk(json!({"k":"tag","f":fi,"how":val}), p, norm_field(&f.name), val.to_string(), len));
                            }
                            continue;
                        }
                        if let Some(v) = concretise(val, f, origs[fi], len) {
                            if seen_set.insert((fi, v)) {
                                let mut i = mk(json!({"k":"set","f":fi,"val":v.to_string()}), p, norm_field(&f.name), format!("{v:x}"), len);
                                i.w = f.width;
                                i.orig = origs[fi];
                                i.rem = (len.saturating_sub(f.base) / f.unit.max(1)) as u64;
                                i.unit = f.unit.max(1) as u64;
                                out.push(i);
                            }
                        }
                    }
                }
                "prefix" => {
                    let add = |pos: usize, what: &str, cuts: &mut BTreeMap<usize, (i64, String)>| {
                        if pos < len {
                            cuts.entry(pos).or_insert((pi as i64, what.to_string()));
                        }
                    };
                    if let Ok(n) = val.parse::<usize>() {
                        add(n, "-", &mut cuts);
                        continue;
                    }
                    match val {
                        "len-1" => add(len.saturating_sub(1), "-", &mut cuts),
                        "len-2" => add(len.saturating_sub(2), "-", &mut cuts),
                        "len-4" => add(len.saturating_sub(4), "-", &mut cuts),
                        "half" => add(len / 2, "-", &mut cuts),
                        "field-start" | "field-mid" | "field-end" | "data-start" | "data-start+1" => {
                            let fs: Vec<&Field> = sample(s.fields.iter().collect(), cut_cap);
                            for f in fs {
                                let pos = match val {
                                    "field-start" => f.off,
                                    "field-mid" => f.off + (f.width as usize).div_ceil(2),
                                    "field-end" => f.off + f.width as usize,
                                    "data-start" => f.base,
                                    _ => f.base + 1,
                                };
                                add(pos, &norm_field(&f.name), &mut cuts);
                            }
                        }
                        "chunk-start" | "chunk-tag" | "chunk-hdr" | "chunk-mid" | "chunk-end-1" => {
                            let all: Vec<(usize, usize)> = s.seqs.iter().flat_map(|q| q.items.iter().cloned()).collect();
                            for (off, tot) in sample(all, cut_cap) {
                                let pos = match val {
                                    "chunk-start" => off,
                                    "chunk-tag" => off + 4,
                                    "chunk-hdr" => off + 8,
                                    "chunk-mid" => off + 8 + (tot - 8) / 2,
                                    _ => off + tot - 1,
                                };
                                add(pos, &seed::tag_at(&s.bytes, off), &mut cuts);
                            }
                        }
                        c => tool_error(&format!("unknown prefix class {c}")),
                    }
                }
                "chunkedit" => {
                    for (qi, q) in s.seqs.iter().enumerate() {
                        let n = q.items.len();
                        if n == 0 {
                            continue;
                        }
                        let need = if role == "swap" { 2 } else { 1 };
                        if n < need {
                            continue;
                        }
                        let p0 = if val == "last" {
                            n - need
                        } else {
                            match val.parse::<usize>() {
                                Ok(k) if k >= 1 && k - 1 + need <= n => k - 1,
                                _ => continue,
                            }
                        };
                        if val == "last" && p0 < 8 {
                            // already covered by the numbered positions
                            if n - need < 8 {
                                continue;
                            }
                        }
                        let what = format!("{}:{}", normalise_digits(&q.name), seed::tag_at(&s.bytes, q.items[p0].0));
                        out.push(mk(json!({"k":"chunk","seq":qi,"op":role,"pos":p0}), p, what, format!("{p0:x}"), len));
                    }
                }
                "pair" => {
                    // two fields edited together. PTCH (a dozen size fields that must agree with each other): every
                    // pair of fields, in both tiers. Other formats (thorough only): sibling fields = consecutive inventory
                    // entries whose names share the prefix up to the last '.' ("hdr.vertices.count" / ".offset").
                    let all_pairs = s.format == "ptch";
                    let prefix = |n: &str| n.rsplit_once('.').map(|x| x.0.to_string()).unwrap_or_default();
                    let usable = |f: &Field| f.role != "tag" && f.role != "term";
                    let mut pairs: Vec<(usize, usize)> = Vec::new();
                    if all_pairs {
                        for i in 0..s.fields.len() {
                            for j in 0..s.fields.len() {
                                if i != j && usable(&s.fields[i]) && usable(&s.fields[j]) {
                                    pairs.push((i, j));
                                }
                            }
                        }
                    } else {
                        // `extent` fields (offset / width / height of one rectangle): every pair inside the sibling group, both tiers
                        for i in 0..s.fields.len() {
                            for j in 0..s.fields.len() {
                                let (fa, fb) = (&s.fields[i], &s.fields[j]);
                                if i != j && fa.role == "extent" && fb.role == "extent" && i.abs_diff(j) < 8 && prefix(&fa.name) == prefix(&fb.name) {
                                    pairs.push((i, j));
                                }
                            }
                        }
                        for fi in 0..(if thorough { s.fields.len().saturating_sub(1) } else { 0 }) {
                            let pa = prefix(&s.fields[fi].name);
                            if usable(&s.fields[fi]) && usable(&s.fields[fi + 1]) && !pa.is_empty() && pa == prefix(&s.fields[fi + 1].name)
                                && !pairs.contains(&(fi, fi + 1))
                            {
                                pairs.push((fi, fi + 1));
                            }
                        }
                    }
                    for (fi, fj) in pairs {
                        let (fa, fb) = (&s.fields[fi], &s.fields[fj]);
                        // `role` carries the symbol for the first field, `val` the one for the second
                        let (Some(va), Some(vb)) = (concretise(role, fa, origs[fi], len), concretise(val, fb, origs[fj], len)) else { continue };
                        if !seen_pair.insert((fi, fj, va, vb)) {
                            continue;
                        }
                        let second = if all_pairs { norm_field(&fb.name) } else { norm_field(&fb.name).rsplit_once('.').map(|x| x.1.to_string()).unwrap_or_default() };
                        let what = format!("{}+{}", norm_field(&fa.name), second);
                        out.push(mk(json!({"k":"set2","f":fi,"val":va.to_string(),"g":fj,"val2":vb.to_string()}), p, what, format!("{va:x}"), len));
                    }
                }
                "resize" => {
                    // structured regions: the whole region (role tail) or one inner array (role array) shorter / longer
                    // by one byte (-1b / +1b) or one element (-1e / +1e); see mutate.rs "resize"
                    for (ri, r) in s.regions.iter().enumerate() {
                        let last_elem = r.arrays.last().map(|a| a.2).unwrap_or(1);
                        let sites: Vec<(String, usize, usize)> = if role == "tail" {
                            vec![("tail".to_string(), r.start + r.len, last_elem)]
                        } else {
                            r.arrays.iter().filter(|a| a.1 < r.start + r.len).cloned().collect()
                        };
                        for (an, at, elem) in sites {
                            let n = if val.ends_with('e') { elem } else { 1 };
                            if n == 0 || n >= r.len || (val.ends_with('e') && elem == 1) {
                                continue;
                            }
                            let grow = val.starts_with('+');
                            let what = format!("{}.{}", norm_field(&r.name), norm_field(&an));
                            let mut i = mk(json!({"k":"resize","r":ri,"at":at,"n":n,"grow":grow,"tail":role == "tail"}), p, what, format!("{n:x}"), len);
                            i.unit = elem as u64;
                            out.push(i);
                        }
                    }
                }
                "token" => {
                    // payload-level archetype: a run of `n` marker bytes followed by one ordinary token, written
                    // over the token stream at its start, middle and end; n from the boundary repetition counts
                    for (ti, t) in s.tokens.iter().enumerate() {
                        for &(mb, max) in &t.markers {
                            let n = match val {
                                "0" => 0,
                                "1" => 1,
                                "max-1" => max.saturating_sub(1),
                                "max" => max,
                                "max+1" => max + 1,
                                "2max" => 2 * max,
                                c => tool_error(&format!("unknown repetition count {c}")),
                            };
                            let span = t.end.saturating_sub(t.start);
                            if span < n + 1 {
                                continue;
                            }
                            for (pname, at) in [("start", t.start), ("mid", t.start + (span - n - 1) / 2), ("end", t.end - n - 1)] {
                                for &ob in &t.ordinary {
                                    if !seen_tok.insert((ti, at, mb, n, ob)) {
                                        continue;
                                    }
                                    let what = format!("{}@{}:{:02x}x{}+{:02x}", norm_field(&t.name), pname, mb, val, ob);
                                    let mut i = mk(json!({"k":"tok","at":at,"marker":mb,"n":n,"then":ob}), p, what, format!("{n:x}"), len);
                                    i.rem = max as u64;
                                    out.push(i);
                                }
                            }
                        }
                    }
                }
                "havoc" => {
                    let n: i64 = val.parse().unwrap_or(0);
                    for k in 0..n {
                        out.push(mk(json!({"k":"havoc","n":k}), p, "-".into(), format!("{k:x}"), len));
                    }
                }
                a => tool_error(&format!("unknown archetype {a}")),
            }
        }
        for (pos, (pi, what)) in cuts {
            let p = &plan[pi as usize];
            out.push(mk(json!({"k":"cut","at":pos}), p, what, format!("{pos:x}"), pos));
        }
    }
    out
}

struct ChildOut {
    /// per input index (absolute) the entry results observed
    res: HashMap<usize, Vec<EntryRes>>,
}

/// Run inputs [lo,hi) of `inputs_file` in children; a child that dies is replaced and the input it
/// was working on is attributed from the Begin record, the exit signal and its stderr.
fn run_range(exe: &Path, inputs_file: &Path, lo: usize, hi: usize, timeout_ms: u64, scratch: &Path) -> ChildOut {
    let mut out = ChildOut { res: HashMap::new() };
    let mut cur = lo;
    let errp = scratch.join(format!("child-{lo}-{hi}.err"));
    while cur < hi {
        let errf = std::fs::File::create(&errp).unwrap_or_else(|e| tool_error(&format!("create {errp:?}: {e}")));
        let mut ch = Command::new(exe)
            .arg("worker")
            .arg(inputs_file)
            .arg(cur.to_string())
            .arg(hi.to_string())
            .env("C05_TIMEOUT_MS", timeout_ms.to_string())
            .env("RUST_BACKTRACE", "0")
            .stdin(Stdio::null())
            .stdout(Stdio::piped())
            .stderr(Stdio::from(errf))
            .spawn()
            .unwrap_or_else(|e| tool_error(&format!("spawn worker: {e}")));
        let so = ch.stdout.take().unwrap();
        let mut begun: Option<(usize, String)> = None;
        let mut huge: Option<(usize, usize)> = None;
        let mut site: Option<(usize, String)> = None;
        let mut timed_out: Option<usize> = None;
        let mut done_upto = cur; // first input not yet finished
        for line in BufReader::new(so).split(b'\n') {
            let line = match line {
                Ok(l) => String::from_utf8_lossy(&l).to_string(),
                Err(_) => break,
            };
            let mut it = line.splitn(3, ' ');
            let tag = it.next().unwrap_or("");
            let i: usize = match it.next().and_then(|x| x.parse().ok()) {
                Some(i) => i,
                None => continue, // stray output of the code under test
            };
            let rest = it.next().unwrap_or("");
            match tag {
                "B" => begun = Some((i, rest.to_string())),
                "E" => {
                    let mut p = rest.splitn(5, ' ');
                    let entry = p.next().unwrap_or("").to_string();
                    let class = p.next().unwrap_or("").to_string();
                    let maxreq = p.next().and_then(|x| x.parse().ok()).unwrap_or(0);
                    let peak = p.next().and_then(|x| x.parse().ok()).unwrap_or(0);
                    let mut key = p.next().unwrap_or("").to_string();
                    if maxreq > worker::alloc_limit(0) && (class == "ok" || class == "err") {
                        // a refused request that the library survived: keep the requesting function
                        if let Some((si, s)) = &site {
                            if *si == i {
                                key = s.clone();
                            }
                        }
                    }
                    out.res.entry(i).or_default().push(EntryRes { entry, class, key, maxreq, peak });
                    begun = None;
                }
                "H" => huge = Some((i, rest.trim().parse().unwrap_or(0))),
                "S" => site = Some((i, format!("ADDR:{}", rest.trim()))),
                "T" => timed_out = Some(i),
                "D" => done_upto = i + 1,
                "X" => tool_error(&format!("worker thread died outside a guarded call at input {i}")),
                _ => {}
            }
        }
        let st = ch.wait().unwrap_or_else(|e| tool_error(&format!("wait: {e}")));
        let _ = std::fs::remove_file(scratch.join(format!("in-{}.bin", ch.id())));
        if let Some((i, entry)) = begun.take() {
            // the child died (or was stopped by its watchdog) inside entry point `entry` of input i
            let err_text = std::fs::read_to_string(&errp).unwrap_or_default();
            let first = err_text
                .lines()
                .map(|l| l.trim())
                .find(|l| !l.is_empty())
                .unwrap_or("")
                .to_string();
            let sig = st.signal();
            let (class, key) = if timed_out == Some(i) || sig == Some(libc::SIGALRM) {
                ("timeout".to_string(), String::new())
            } else if huge.map(|h| h.0 == i).unwrap_or(false) {
                ("hugealloc".to_string(), site.as_ref().filter(|s| s.0 == i).map(|s| s.1.clone()).unwrap_or_else(|| normalise_digits(&first)))
            } else if err_text.contains("overflowed its stack") || err_text.contains("stack overflow") {
                ("stackoverflow".to_string(), String::new())
            } else if sig.is_some() {
                ("abort".to_string(), format!("signal {}: {}", sig.unwrap(), normalise_digits(&first)))
            } else {
                // exited by itself in the middle of an entry point: process::exit inside the library
                ("abort".to_string(), format!("exit {}: {}", st.code().unwrap_or(-1), normalise_digits(&first)))
            };
            let maxreq = huge.filter(|h| h.0 == i).map(|h| h.1).unwrap_or(0);
            out.res.entry(i).or_default().push(EntryRes { entry, class, key, maxreq, peak: 0 });
            cur = i + 1;
        } else if done_upto > cur {
            cur = done_upto;
            if !st.success() && st.code() != Some(0) && cur < hi {
                // died between inputs: not attributable to the code under test
                tool_error(&format!("worker died between inputs at {cur}: {st:?}"));
            }
        } else {
            let err_text = std::fs::read_to_string(&errp).unwrap_or_default();
            tool_error(&format!("worker made no progress at input {cur}: {st:?}\n{err_text}"));
        }
    }
    let _ = std::fs::remove_file(&errp);
    out
}

fn parent() {
    let a = args();
    let plan = read_cases(&a.cases);
    let th = thorough();
    let sc = Scratch::new("c05");
    // children are started from (and return addresses are resolved against) a private copy of this
    // executable: a concurrent `cargo build` replacing target/debug/c05 must not mix two binaries
    let exe = {
        let me = std::env::current_exe().unwrap_or_else(|e| tool_error(&format!("current_exe: {e}")));
        let copy = sc.file("c05-worker");
        match std::fs::copy(&me, &copy) {
            Ok(_) => copy,
            Err(_) => me,
        }
    };
    let only: Option<HashSet<String>> = std::env::var("C05_FORMATS").ok().map(|s| s.split(',').map(|x| x.to_string()).collect());

    // 1. seeds
    let mut seed_ids: Vec<(&'static str, String)> = Vec::new();
    for fmt in formats::FORMATS {
        if only.as_ref().map(|o| !o.contains(*fmt)).unwrap_or(false) {
            continue;
        }
        for n in formats::seed_names(fmt, th) {
            seed_ids.push((fmt, n));
        }
    }
    let slots: Vec<Mutex<Option<Seed>>> = seed_ids.iter().map(|_| Mutex::new(None)).collect();
    par_for(seed_ids.len(), ncpu().min(8), |i| {
        let s = formats::build(seed_ids[i].0, &seed_ids[i].1);
        *slots[i].lock().unwrap() = Some(s);
    });
    let seeds: Vec<Seed> = slots.into_iter().map(|m| m.into_inner().unwrap().unwrap()).collect();

    // 2. inputs = one baseline per seed + the expanded plan
    let mut inputs: Vec<Input> = Vec::new();
    for (si, s) in seeds.iter().enumerate() {
        inputs.push(Input {
            fmt: s.format,
            seed_idx: si,
            op: json!({"k":"base"}),
            plan: 0,
            arch: "base".into(),
            role: "-".into(),
            val: "-".into(),
            field: "-".into(),
            cval: "0".into(),
            len: s.bytes.len(),
            cv: 0,
            w: 0,
            orig: 0,
            rem: 0,
            unit: 1,
        });
    }
    // C05_ARCH=havoc,prefix,... restricts the plan (used by the saturation runs of selftest/C05/saturate.py)
    let plan: Vec<Value> = match std::env::var("C05_ARCH") {
        Ok(a) => {
            let keep: HashSet<&str> = a.split(',').collect();
            plan.into_iter().filter(|p| keep.contains(gs(p, "arch"))).collect()
        }
        Err(_) => plan,
    };
    inputs.extend(expand(&seeds, &plan, th));
    // group by seed so that a child rebuilds a seed once
    inputs.sort_by_key(|i| i.seed_idx);
    let inputs_file = sc.file("inputs.ndjson");
    for s in &seeds {
        store_seed(&inputs_file, s);
    }
    {
        let mut w = std::io::BufWriter::new(std::fs::File::create(&inputs_file).unwrap());
        for i in &inputs {
            let s = &seeds[i.seed_idx];
            writeln!(w, "{}", json!({"fmt": i.fmt, "seed": s.name, "op": i.op})).unwrap();
        }
    }

    // 3. run in children, batches of consecutive inputs
    let timeout_ms: u64 = if th { 20_000 } else { 10_000 };
    let batch = 250usize;
    let nb = inputs.len().div_ceil(batch);
    let results: Mutex<HashMap<usize, Vec<EntryRes>>> = Mutex::new(HashMap::new());
    let workers = std::env::var("C05_WORKERS").ok().and_then(|s| s.parse().ok()).unwrap_or(ncpu().min(12));
    par_for(nb, workers, |b| {
        let lo = b * batch;
        let hi = ((b + 1) * batch).min(inputs.len());
        let o = run_range(&exe, &inputs_file, lo, hi, timeout_ms, &sc.path);
        results.lock().unwrap().extend(o.res);
    });
    let mut results = results.into_inner().unwrap();

    // 4. flakiness rule (DESIGN 2.2): a timeout is re-run once in isolation with a doubled budget
    let slow: Vec<usize> = results.iter().filter(|(_, v)| v.iter().any(|e| e.class == "timeout")).map(|(k, _)| *k).collect();
    for i in slow {
        let o = run_range(&exe, &inputs_file, i, i + 1, timeout_ms * 2, &sc.path);
        if let Some(v) = o.res.get(&i) {
            results.insert(i, v.clone());
        }
    }

    // 4b. allocation sites: resolve the distinct return addresses once
    {
        let mut addrs: HashSet<u64> = HashSet::new();
        for v in results.values() {
            for e in v {
                if let Some(l) = e.key.strip_prefix("ADDR:") {
                    addrs.extend(l.split_whitespace().filter_map(|h| u64::from_str_radix(h, 16).ok()));
                }
            }
        }
        let mut addrs: Vec<u64> = addrs.into_iter().collect();
        addrs.sort();
        let table = resolve_addrs(&exe, &addrs);
        let mut memo: HashMap<String, String> = HashMap::new();
        for v in results.values_mut() {
            for e in v.iter_mut() {
                if e.key.starts_with("ADDR:") {
                    let k = memo.entry(e.key.clone()).or_insert_with(|| site_name(&e.key, &table)).clone();
                    e.key = k;
                }
            }
        }
    }

    // 5. trace: one Reset per seed (and every 300 events), one Input event per (input, entry point)
    let tr = Trace::create(&a.trace);
    let mut summary: BTreeMap<String, usize> = BTreeMap::new();
    let mut cur_seed = usize::MAX;
    let mut since = 0usize;
    let mut baseline: HashMap<usize, Vec<EntryRes>> = HashMap::new();
    let agg = |v: &Vec<EntryRes>| -> Vec<EntryRes> {
        // worst outcome and largest request per entry point, in first-seen order
        let mut order: Vec<String> = Vec::new();
        let mut m: HashMap<String, EntryRes> = HashMap::new();
        for e in v {
            match m.get_mut(&e.entry) {
                None => {
                    order.push(e.entry.clone());
                    m.insert(e.entry.clone(), e.clone());
                }
                Some(x) => {
                    x.maxreq = x.maxreq.max(e.maxreq);
                    x.peak = x.peak.max(e.peak);
                    if rank(&e.class) > rank(&x.class) {
                        x.class = e.class.clone();
                        x.key = e.key.clone();
                    }
                }
            }
        }
        order.into_iter().map(|k| m.remove(&k).unwrap()).collect()
    };
    for (n, inp) in inputs.iter().enumerate() {
        let s = &seeds[inp.seed_idx];
        let res = agg(results.get(&n).unwrap_or(&Vec::new()));
        if inp.arch == "base" {
            // baseline = the best outcome per entry point on the unmutated seed (MPQ's read_file is
            // also called with an absent name, which is an error by design)
            let raw = results.get(&n).cloned().unwrap_or_default();
            let mut bl = res.clone();
            for b in bl.iter_mut() {
                if let Some(best) = raw.iter().filter(|e| e.entry == b.entry).min_by_key(|e| rank(&e.class)) {
                    b.class = best.class.clone();
                }
            }
            baseline.insert(inp.seed_idx, bl);
        }
        if inp.seed_idx != cur_seed || since >= 300 {
            cur_seed = inp.seed_idx;
            since = 0;
            let bl = baseline.get(&inp.seed_idx).cloned().unwrap_or_default();
            tr.ev(json!({"ev":"Reset","case":"-","format":s.format,"seed":s.name,"len":s.bytes.len(),
                "nfields":s.fields.len(),"nseqs":s.seqs.len(),
                "baseline": bl.iter().map(|e| json!([e.entry, e.class])).collect::<Vec<_>>()}));
        }
        if res.is_empty() {
            tool_error(&format!("no result recorded for input {n} ({}/{} {})", s.format, s.name, inp.op));
        }
        for e in res {
            since += 1;
            let kib = |b: usize| -> u64 { ((b as u64).div_ceil(1024)).min(0x7FFF_FFFF) };
            // error variants are a D-field only: the class is what the property speaks about
            let (key, detail) = if e.class == "err" { (String::new(), e.key.clone()) } else { (e.key.clone(), String::new()) };
            tr.ev(json!({"ev":"Input","case":inp.plan.to_string(),"n":n,"entry":e.entry,"format":s.format,"seed":s.name,
                "arch":inp.arch,"role":inp.role,"val":inp.val,"field":inp.field,"cval":inp.cval,
                "len":inp.len,"outcome":e.class,"key":key,"detail":detail,
                "cv":limbs(inp.cv),"w":inp.w,"orig":limbs(inp.orig),"rem":inp.rem.min(0x7FFF_FFFF),"unit":inp.unit.min(0x7FFF_FFFF),
                "slen":s.bytes.len(),
                "alloc":kib(e.maxreq),"peak":kib(e.peak)}));
            let huge = e.maxreq > worker::alloc_limit(inp.len);
            if rank(&e.class) >= 2 || huge {
                let outcome = if huge && rank(&e.class) < 2 { "hugealloc" } else { e.class.as_str() };
                // class key of the check's sig(): field roles for single-field items, the archetype otherwise
                let rolekey = if matches!(inp.arch.as_str(), "chunk" | "array" | "string") { inp.role.as_str() } else { inp.arch.as_str() };
                let k = json!([e.entry, outcome, e.key, rolekey, s.format, inp.field]).to_string();
                *summary.entry(k).or_default() += 1;
            }
        }
    }
    tr.flush();
    let sp = PathBuf::from(format!("{}.summary.json", a.trace.display()));
    let sm: Vec<Value> = summary
        .iter()
        .map(|(k, v)| {
            let a: Value = serde_json::from_str(k).unwrap();
            json!({"entry":a[0],"outcome":a[1],"key":a[2],"role":a[3],"format":a[4],"field":a[5],"n":v})
        })
        .collect();
    std::fs::write(&sp, serde_json::to_string_pretty(&json!({"inputs":inputs.len(),"seeds":seeds.len(),"nonok":sm})).unwrap()).unwrap();
    eprintln!("c05: {} seeds, {} inputs, {} distinct non-ok signatures", seeds.len(), inputs.len(), summary.len());
}
