//! Minimal reproductions of the three X04 findings against the real AnimationManager (cargo run -p x04 --bin repro [hang]).
use wow_m2::animation::{AnimSequence, AnimationManager, LcgRng};

fn seq(id: u16, duration: u32, replay: (u32, u32), blend_time: u32, variation_next: i16, frequency: u16) -> AnimSequence {
    AnimSequence { id, sub_id: 0, duration, movement_speed: 0.0, flags: 0, frequency, replay_min: replay.0, replay_max: replay.1,
                   blend_time, variation_next, alias_next: 0 }
}

fn main() {
    // X04-REPEAT-NO-REWIND
    let mut m = AnimationManager::new(vec![], vec![seq(0, 1000, (2, 2), 0, -1, 32767)], vec![]);
    m.update(1000.0);
    m.update(500.0);
    println!("repeat: duration 1000, replay 2..2: update(1000); update(500) -> current_time() = {}", m.current_time());
    // X04-ZERO-DURATION-NAN
    let mut m = AnimationManager::new(vec![], vec![seq(0, 0, (1, 1), 150, -1, 32767)], vec![]);
    m.update(10.0);
    println!("zero duration, replay 1..1, blend_time 150: update(10) -> current_time() = {}", m.current_time());
    m.update(10.0);
    println!("   update(10) -> current_time() = {}", m.current_time());
    // LcgRng::next_f32 documents [0.0, 1.0)
    let mut hit = None;
    for s in 0..200000u32 {
        if LcgRng::new(s).next_f32() >= 1.0 {
            hit = Some(s);
            break;
        }
    }
    println!("LcgRng::new({hit:?}).next_f32() = {:?} (documented range [0.0, 1.0))", hit.map(|s| LcgRng::new(s).next_f32()));
    // X04-VARIATION-CYCLE-HANG
    if std::env::args().nth(1).as_deref() == Some("hang") {
        let mut m = AnimationManager::new(vec![], vec![seq(0, 1000, (0, 0), 0, 0, 0)], vec![]);
        println!("variation_next 0 -> 0, frequency 0: update(1) ...");
        m.update(1.0);
        println!("returned");
    }
}
