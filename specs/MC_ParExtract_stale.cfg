CONSTANT PresentAt <- MCPresentAt
CONSTANT StaleReuse = TRUE
CONSTANT SharedHandle = FALSE
CONSTANT MaxLen = 3
CONSTANT MaxT = 2
CONSTANT MaxB = 2
INIT Init
NEXT Next
INVARIANT ScheduleIndependent
INVARIANT SlotsRight
INVARIANT HandleFresh
INVARIANT Returns
CHECK_DEADLOCK FALSE
