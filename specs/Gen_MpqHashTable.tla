--------------------------- MODULE Gen_MpqHashTable ---------------------------
(***************************************************************************************************)
(* Stage (B) for C06: TLC runs the AS-CODED machine of MpqHashTable (CodeSteps/CodeSyncs,          *)
(* real table size H = 16, real home slots of the special files) and emits operation histories as  *)
(* `CASE {json}` lines:                                                                            *)
(*   mode bfs : every history of MinLen..MaxLen calls over the op names (breadth-first, exhaustive)*)
(*   mode sim : random long histories (-simulate), op kind chosen first so that kinds are balanced *)
(* Each case carries what the model of the code predicts: `devs` = the named deviations that alter *)
(* the outcome of this history (empty: the real code is expected to behave like the design), and   *)
(* `preds` = for every close of the history (each reopen and the final one) the map a fresh open  *)
(* of the file should read according to the model of the code ("unopenable" / "hang" otherwise).   *)
(* Class parameters (version, listfile, attributes, slack, universe) come from the environment so  *)
(* that checks/c06.py can sweep starting-archive classes with one module.                          *)
(***************************************************************************************************)
EXTENDS MpqHashTable, Json, IOUtils

Env(k, dflt) == IF k \in DOMAIN IOEnv THEN IOEnv[k] ELSE dflt
GMode   == Env("C06_MODE", "bfs")
GVer    == atoi(Env("C06_VER", "1"))
GLF     == Env("C06_LF", "1") = "1"
GAT     == Env("C06_AT", "0") # "0"            \* 1: (attributes) with CRC32 only, 2: CRC32 + MD5 + FILETIME
GATFull == Env("C06_AT", "0") = "2"
GSlack  == atoi(Env("C06_SLACK", "31"))
GMinLen == atoi(Env("C06_MINLEN", "1"))
GMaxLen == atoi(Env("C06_MAXLEN", "3"))
GNames  == atoi(Env("C06_NAMES", "3"))          \* number of op names
GInit   == atoi(Env("C06_INIT", "1"))           \* how many of them are in the starting archive
GEnc    == atoi(Env("C06_ENC", "0"))            \* 0: no encryption, 1: + encrypt, 2: + fix_key
GSub    == Env("C06_SUB", "0") = "1"            \* the spelling of name "b" is contained in the spelling of name "a"
GFill   == Env("C06_FILL", "0") = "1"           \* sim: addition-heavy histories (more additions than free slots)
GLong   == Env("C06_LONG", "0") = "1"           \* name-length class: paths of 220..250 characters ((listfile) above 512 bytes)
GCls    == Env("C06_CLASS", "c")
GKinds  == Env("C06_KINDS", "")                 \* sim: directed kind mix ("fl": flush-heavy sessions, "rc": rename chains / compact)

\* near-full table (growth round 4): the builder sizes the hash table to twice the file count (minimum 16), so a table
\* with few free slots can only be reached THROUGH MutableArchive: a forced prologue of GBallast additions (names z1.., homes
\* chosen so that they fill slots 1 and 3..14 around pad (7) and the listfile (9)) precedes the enumerated calls; with a on the last
\* slot, 2 slots (0 and 2) stay free for b, d (home 15: wrapped chain) and c (home 0) - the regime of the 4-slot model of
\* MC_MpqHashTable (refusals for lack of space, Deleted markers on a full table) on the real 16-slot table.
GBallast == atoi(Env("C06_BALLAST", "0"))
\* canonical forms (exhaustive classes): histories that differ only by a call that cannot matter are enumerated once
\*  - a call the model predicts to FAIL changes nothing: it is only generated as the LAST call of a history (every
\*    (reachable state, failing call) pair is still replayed, as the end of the history that reaches the state)
\*  - replace_existing is irrelevant for an absent name: only TRUE is generated there
\*  - b and d are interchangeable (same home slot, both absent at the start): d is only used after b has been
GCanon   == Env("C06_CANON", "0") = "1"
BalNames == <<"z1", "z2", "z3", "z4", "z5", "z6", "z7", "z8", "z9", "z10", "z11">>
BalHome  == << 3,    4,    5,    6,    8,    10,   11,   12,   13,   14,    1>>
BalSet   == {BalNames[j] : j \in 1..GBallast}
GH == 16
\* op names with chosen home slots: clusters that collide, one cluster on the home slot of (listfile)
\* (9) and one next to (attributes) (14); a, b, d (and h, i) live on the LAST slot (15) and c on slot 0, so
\* the probe chains of the exhaustively enumerated names wrap around the end of the table
AllNames == <<"a", "b", "c", "d", "e", "f", "g", "h", "i", "j", "k", "l", "m", "n", "o", "p", "q", "r">>
HomeSeq  == << 15,  15,  0,   15,  9,   9,   14,  15,  15,  0,   0,   1,   8,   8,   12,  3,   4,   10>>
OpNames  == {AllNames[j] : j \in 1..GNames}
PadHome  == 7
GUNames  == OpNames \cup {"pad"} \cup BalSet
GHome    == [x \in GUNames \cup {LF, AT} |->
               IF x = LF THEN 59481 % GH            \* low half of HashString("(listfile)", TABLE_OFFSET) (MC_MpqCrypto V1)
               ELSE IF x = AT THEN 44494 % GH       \* low half of HashString("(attributes)", TABLE_OFFSET)
               ELSE IF x = "pad" THEN PadHome
               ELSE IF x \in BalSet THEN BalHome[CHOOSE j \in 1..GBallast : BalNames[j] = x]
               ELSE HomeSeq[CHOOSE j \in 1..GNames : AllNames[j] = x]]
GSubOf   == [x \in GUNames |-> IF GSub /\ x = "b" /\ "a" \in OpNames THEN {"a"} ELSE {}]
GInitSeq == [j \in 1..GInit |-> AllNames[j]] \o <<"pad">>
GInitTok == [x \in {GInitSeq[j] : j \in 1..Len(GInitSeq)} |-> "i:" \o x]

VARIABLES hist,      \* the calls so far: [op, n, m, rep, comp, enc]
          gkind,     \* sim mode: the kind chosen for the next call ("" = none yet)
          gres,      \* result class the model of the code predicts for each call of hist
          gsr,       \* what read_file(subject of the call) inside the session returns after each call ("-": n/a)
          gpreds,    \* what the model of the code predicts a fresh open reads after each close so far
          gdone
gvars == <<hslots, hblocks, hcursor, ddisk, wopen, wdirty, vlf, stale, staleMap, pc, opr, pidx, pcnt, hsnap, lastres, devs, vcalls, hist, gkind, gres, gsr, gpreds, gdone>>

OpRec(o, n, m, rep, comp, enc) == [op |-> o, n |-> n, m |-> m, rep |-> rep, comp |-> comp, enc |-> enc, big |-> FALSE, tok |-> "", sp |-> 0, spm |-> 0]
\* content VALUES: an add stores a fresh content or one this name held before (at the start, or by an earlier add): the
\* history v1 -> v2 -> v1 must end with v1 whatever the storage class of the copies
PrevToks(n) == {hist[j].tok : j \in {i \in 1..Len(hist) : hist[i].op = "add" /\ hist[i].n = n}}
               \cup (IF n \in DOMAIN GInitTok THEN {GInitTok[n]} ELSE {})
\* sim mode: an add may store a content larger than one sector
BigChoice == IF GMode = "sim" THEN BOOLEAN ELSE {FALSE}
Tok(k) == "o" \o ToString(k)
\* content CLASS "empty" (growth round 4): the content of length 0 is a value of its own (EmptyTok); random walks may store
\* it with any add, the exhaustive classes store it with every fourth call; starting files can be empty too (initcls 7, 8)
FreshToks(k) == IF GMode = "sim" THEN {Tok(k), EmptyTok} ELSE {IF k % 4 = 3 THEN EmptyTok ELSE Tok(k)}
CompOf(k, n) == IF (k + Len(n)) % 2 = 0 THEN "zlib" ELSE "none"
Encs == CASE GEnc = 0 -> {"none"} [] GEnc = 1 -> {"none", "enc"} [] OTHER -> {"none", "enc", "fix"}
\* compression METHOD of an add: none / zlib / bzip2 (random walks: free; exhaustive classes: by position)
Comps(k, n) == IF GMode = "sim" THEN {"zlib", "none", "bzip2"} ELSE {CompOf(k, n)}
K == Len(hist) + 1
\* SPELLING of the name a call uses (MPQ names are case-insensitive: 0 = the spelling the file was added under at the start,
\* 1 = upper case): free in the random walks; in the exhaustive classes the second and fifth call use the other spelling
\* (special-file maintenance compares spellings: MpqMapSpecials)
SpChoice == IF GMode = "sim" THEN {0, 1} ELSE {IF K % 3 = 2 THEN 1 ELSE 0}

\* fill mode: additions go to names that are not in the archive as long as there are any and the table has a free slot,
\* so that every fill history reaches a table without Empty slot, is refused there, and goes on with removes / re-adds
FillOK(n) == ~GFill \/ SessView[n] = None \/ NoFree(hslots) \/ \A x \in OpNames : SessView[x] # None
InPrologue == Len(hist) < GBallast
UsedName(x) == \E i \in 1..Len(hist) : hist[i].n = x \/ hist[i].m = x
CanonName(x) == ~GCanon \/ x # "d" \/ UsedName("b")
GPro    == /\ InPrologue /\ BeginAdd(BalNames[K], Tok(K), TRUE, "none", CompOf(K, "z"), FALSE)
           /\ hist' = Append(hist, [OpRec("add", BalNames[K], "", TRUE, CompOf(K, "z"), "none") EXCEPT !.tok = Tok(K)])
GAdd    == \E n \in {x \in OpNames : FillOK(x) /\ CanonName(x)}, rep \in BOOLEAN, enc \in Encs, big \in BigChoice, sp \in SpChoice : \E comp \in Comps(K, n), c \in FreshToks(K) \cup PrevToks(n) :
              (GCanon /\ SessView[n] = None => rep) /\ BeginAdd(n, c, rep, enc, comp, big)
              /\ hist' = Append(hist, [OpRec("add", n, "", rep, comp, enc) EXCEPT !.big = big, !.tok = c, !.sp = sp])
GRemove == \E n \in OpNames, sp \in SpChoice : BeginRemove(n) /\ hist' = Append(hist, [OpRec("remove", n, "", TRUE, "none", "none") EXCEPT !.sp = sp])
GRename == \E a \in OpNames, b \in {x \in OpNames : CanonName(x)}, sp \in SpChoice, spm \in SpChoice :
              BeginRename(a, b) /\ hist' = Append(hist, [OpRec("rename", a, b, TRUE, "none", "none") EXCEPT !.sp = sp, !.spm = spm])
GFlush  == (FlushClean \/ FlushRelocate) /\ hist' = Append(hist, OpRec("flush", "", "", TRUE, "none", "none"))
GCompact == (CompactNow \/ CompactRefuseNow) /\ hist' = Append(hist, OpRec("compact", "", "", TRUE, "none", "none"))
\* reopen = drop the MutableArchive (flush on drop) and open the file again
PredOf(img) == IF ~img.ok THEN [kind |-> "unopenable"]
               ELSE [kind |-> "map", map |-> View(img.slots, img.blocks, img.dmg), lf |-> img.lf,
                     list |-> IF img.lf /\ SlotOf(img.slots, LF) # {} THEN LFContent(img.slots, img.blocks) \cap GUNames ELSE {}]
GClose  == (CloseClean \/ CloseRelocate) /\ UNCHANGED hist /\ gpreds' = Append(gpreds, PredOf(ddisk'))
GReopen == ~wopen /\ Open /\ hist' = (IF vcalls = 0 THEN hist ELSE Append(hist, OpRec("reopen", "", "", TRUE, "none", "none")))

LastOk == IF Len(gres) = 0 THEN TRUE ELSE gres[Len(gres)] = "ok"
More == Len(hist) < GBallast + GMaxLen /\ ~gdone /\ pc = "idle" /\ (GCanon => LastOk)
\* bfs: any call; sim: first a kind (adds weighted), then its parameters
Kinds == IF GFill THEN {"add1", "add2", "add3", "add4", "add5", "add6", "add7", "remove", "flush", "reopen"}
         \* several dirty flushes inside ONE session with additions between them ((attributes) maintenance)
         ELSE IF GKinds = "fl" THEN {"add1", "add2", "add3", "flush", "flush2", "flush3", "remove", "rename", "reopen"}
         \* rename chains a -> b -> a over few names, remove + add of the same name across flush / reopen, compact between
         ELSE IF GKinds = "rc" THEN {"add1", "remove", "rename", "rename2", "rename3", "flush", "compact", "reopen"}
         ELSE {"add1", "add2", "add3", "add4", "remove", "rename", "compact", "flush", "reopen", "reopen2"}
PickKind == /\ GMode = "sim" /\ More /\ wopen /\ gkind = ""
            /\ gkind' \in Kinds /\ UNCHANGED <<hslots, hblocks, hcursor, ddisk, wopen, wdirty, vlf, stale, staleMap, pc, opr, pidx, pcnt, hsnap, lastres, devs, vcalls, hist, gres, gsr, gpreds, gdone>>
Allowed(kd) == GMode = "bfs" \/ gkind \in kd
Call == /\ More /\ (GMode = "bfs" \/ gkind # "") /\ gkind' = "" /\ UNCHANGED gdone
        /\ \/ GPro /\ UNCHANGED <<gres, gsr, gpreds>>
           \/ ~InPrologue /\ Allowed({"add1", "add2", "add3", "add4", "add5", "add6", "add7"}) /\ GAdd /\ UNCHANGED <<gres, gsr, gpreds>>
           \/ ~InPrologue /\ Allowed({"remove"}) /\ GRemove /\ UNCHANGED <<gres, gsr, gpreds>>
           \/ ~InPrologue /\ Allowed({"rename", "rename2", "rename3"}) /\ GRename /\ UNCHANGED <<gres, gsr, gpreds>>
           \/ ~InPrologue /\ Allowed({"flush", "flush2", "flush3"}) /\ GFlush /\ gres' = Append(gres, "ok") /\ gsr' = Append(gsr, "-") /\ UNCHANGED gpreds
           \/ ~InPrologue /\ Allowed({"compact"}) /\ GCompact /\ gres' = Append(gres, lastres') /\ gsr' = Append(gsr, "-") /\ UNCHANGED gpreds
           \/ ~InPrologue /\ Allowed({"reopen", "reopen2"}) /\ wopen /\ GClose /\ UNCHANGED <<gres, gsr>>
\* after a close the only thing to do is to open again (or to stop); the first open is implicit
Reopen == /\ ~gdone /\ pc = "idle" /\ ~wopen /\ ddisk.ok /\ gkind # "final" /\ (vcalls = 0 \/ Len(hist) < GBallast + GMaxLen)
          /\ GReopen /\ gres' = (IF vcalls = 0 THEN gres ELSE Append(gres, "ok"))
          /\ gsr' = (IF vcalls = 0 THEN gsr ELSE Append(gsr, "-")) /\ UNCHANGED <<gkind, gpreds, gdone>>
Step == /\ ~gdone /\ ~Hung /\ CodeSteps
        /\ gres' = (IF pc' = "idle" THEN Append(gres, lastres') ELSE gres)
        \* the subject of the call (opr is cleared by the completing step: bind the name first)
        /\ \E nm \in GUNames : /\ nm = (IF opr.k = "rename" THEN opr.m ELSE opr.n)
                               /\ gsr' = (IF pc' = "idle" THEN Append(gsr, SessionReadDesigned(nm)') ELSE gsr)
        /\ UNCHANGED <<hist, gkind, gpreds, gdone>>
\* the history is complete: the harness drops the archive (flush on drop) ...
FinalClose == /\ ~gdone /\ pc = "idle" /\ wopen /\ gkind = "" /\ Len(hist) >= GBallast + GMinLen /\ (GMode = "bfs" \/ Len(hist) >= GBallast + GMaxLen)
              /\ GClose /\ gkind' = "final" /\ UNCHANGED <<gres, gsr, gdone>>

\* one prediction per close (every reopen, then the final one); a spinning call ends the history
Preds == IF Hung THEN Append(gpreds, [kind |-> "hang"]) ELSE gpreds
CaseRec == [cls |-> GCls, ver |-> GVer, lf |-> GLF, at |-> GAT, atfull |-> GATFull, longnames |-> GLong, slack |-> IF GVer >= 3 THEN -1 ELSE GSlack,
            names |-> [j \in 1..GNames |-> [n |-> AllNames[j], home |-> HomeSeq[j]]] \o [j \in 1..GBallast |-> [n |-> BalNames[j], home |-> BalHome[j]]],
            padhome |-> PadHome, prologue |-> GBallast,
            init |-> [j \in 1..GInit |-> AllNames[j]], ops |-> hist,
            \* storage class of each starting file as the BUILDER writes it: 7 / 8 EMPTY (plain / encrypted); 0 small compressed; 1..6 longer than a sector
            \* (sectored) x {compressible, incompressible} x {plain, encrypted, fix-key}; rotated by TLC over the histories
            initcls |-> [j \in 1..GInit |-> (Len(hist) * 3 + Cardinality({i \in 1..Len(hist) : hist[i].op = "add"}) * 5
                                             + Cardinality({i \in 1..Len(hist) : hist[i].op = "rename"}) + atoi(Env("VERIF_SEED", "1")) + 2 * j) % 9],
            sub |-> IF GSub /\ GNames >= 2 THEN <<[n |-> "b", inside |-> "a"]>> ELSE <<>>, devs |-> devs, preds |-> Preds,
            pres |-> IF Hung THEN Append(gres, "hang") ELSE gres, psr |-> gsr]
\* ... and the case is printed
Emit == /\ ~gdone
        /\ \/ gkind = "final" /\ ~wopen
           \/ Hung
           \/ pc = "idle" /\ ~wopen /\ ~ddisk.ok /\ Len(hist) >= 1
        /\ PrintT("CASE " \o ToJson(CaseRec))
        /\ gdone' = TRUE
        /\ UNCHANGED <<hslots, hblocks, hcursor, ddisk, wopen, wdirty, vlf, stale, staleMap, pc, opr, pidx, pcnt, hsnap, lastres, devs, vcalls, hist, gkind, gres, gsr, gpreds>>

GInitState == HInit /\ hist = <<>> /\ gkind = "" /\ gres = <<>> /\ gsr = <<>> /\ gpreds = <<>> /\ gdone = FALSE
GNext == PickKind \/ Call \/ Reopen \/ Step \/ FinalClose \/ Emit
=============================================================================
