//! C17 driver: DBC tables.  A byte-level builder (driven by the record size / field count / field
//! offsets TLC emitted with the shape) produces the input file; the real crate parses it on four
//! access paths, looks keys up, writes it back with DbcWriter and re-parses.  Observations only.
use std::collections::HashMap;
use std::io::Cursor;
use std::sync::Arc;
use wow_cdbc::{
    DbcParser, DbcWriter, FieldType, LazyDbcParser, MmapDbcFile, Record, RecordSet, Schema, SchemaField,
    StringRef, Value as DVal,
};
use wverif_common::*;

#[derive(Clone, Debug)]
enum V {
    I32(i32),
    U32(u32),
    F32(f32),
    Str(usize, u32), // text id, byte offset used in the input table
    Bool(bool),
    U8(u8),
    I8(i8),
    U16(u16),
    I16(i16),
}

fn ftype(s: &str) -> FieldType {
    match s {
        "Int32" => FieldType::Int32,
        "UInt32" => FieldType::UInt32,
        "Float32" => FieldType::Float32,
        "String" => FieldType::String,
        "Bool" => FieldType::Bool,
        "UInt8" => FieldType::UInt8,
        "Int8" => FieldType::Int8,
        "UInt16" => FieldType::UInt16,
        "Int16" => FieldType::Int16,
        _ => tool_error(&format!("unknown field type {s}")),
    }
}

fn pool(cls: &str, rng: &mut Rng) -> Vec<String> {
    let mut p: Vec<String> = vec![String::new()];
    match cls {
        "dup" => {
            p.push("Stormwind".into());
            p.push("Storm".into());
        }
        "empty" => {
            p.push("x".into());
        }
        "nonascii" => {
            for s in ["Ярость", "élan vital", "火球术", "naïve\u{301}", "Zul'Gurub", "ß"] {
                p.push(s.into());
            }
        }
        "long" => {
            let mut l = String::new();
            while l.len() < 1024 {
                l.push((b'a' + rng.below(26) as u8) as char);
            }
            p.push(l.clone());
            l.push('!'); // shares a 1 KB prefix
            p.push(l);
            p.push("short".into());
        }
        _ => {
            for i in 0..8 {
                p.push(format!("Name_{}_{:x}", i, rng.next_u32()));
            }
            p.push("Name_0".into()); // prefix of another entry
        }
    }
    p
}

fn gen_val(ty: &str, is_key: bool, n: usize, npool: usize, cls: &str, rng: &mut Rng) -> V {
    if is_key {
        // small range so that duplicate keys occur; Int32 keys include negative values
        let k = rng.below((n as u64 / 2).max(3)) as u32 * 3 + 1;
        return if ty == "Int32" { V::I32(if rng.chance(1, 3) { -(k as i32) } else { k as i32 }) } else { V::U32(if rng.chance(1, 8) { 0xFFFF_FF00 | k } else { k }) };
    }
    match ty {
        "Int32" => V::I32(rng.next_u32() as i32),
        "UInt32" => V::U32(rng.next_u32()),
        "Float32" => V::F32(if rng.chance(1, 10) { -0.0 } else { (rng.f32() - 0.5) * 1.0e6 }),
        "String" => V::Str(if cls == "empty" && rng.chance(2, 3) { 0 } else { rng.below(npool as u64) as usize }, 0),
        "Bool" => V::Bool(rng.chance(1, 2)),
        "UInt8" => V::U8(rng.byte()),
        "Int8" => V::I8(rng.byte() as i8),
        "UInt16" => V::U16(rng.next_u32() as u16),
        "Int16" => V::I16(rng.next_u32() as i16),
        _ => unreachable!(),
    }
}

fn render_src(rec: &[Vec<V>], pool: &[String]) -> String {
    let mut s = String::new();
    for f in rec {
        s.push('[');
        for v in f {
            match v {
                V::I32(x) => s.push_str(&format!("i{x},")),
                V::U32(x) => s.push_str(&format!("u{x},")),
                V::F32(x) => s.push_str(&format!("f{:08x},", x.to_bits())),
                V::Str(i, _) => s.push_str(&format!("s{:?},", pool[*i])),
                V::Bool(x) => s.push_str(&format!("b{x},")),
                V::U8(x) => s.push_str(&format!("u8:{x},")),
                V::I8(x) => s.push_str(&format!("i8:{x},")),
                V::U16(x) => s.push_str(&format!("u16:{x},")),
                V::I16(x) => s.push_str(&format!("i16:{x},")),
            }
        }
        s.push(']');
    }
    s
}

fn render_val(v: &DVal, res: &dyn Fn(StringRef) -> String, s: &mut String) {
    match v {
        DVal::Int32(x) => s.push_str(&format!("i{x},")),
        DVal::UInt32(x) => s.push_str(&format!("u{x},")),
        DVal::Float32(x) => s.push_str(&format!("f{:08x},", x.to_bits())),
        DVal::StringRef(r) => s.push_str(&format!("s{},", res(*r))),
        DVal::Bool(x) => s.push_str(&format!("b{x},")),
        DVal::UInt8(x) => s.push_str(&format!("u8:{x},")),
        DVal::Int8(x) => s.push_str(&format!("i8:{x},")),
        DVal::UInt16(x) => s.push_str(&format!("u16:{x},")),
        DVal::Int16(x) => s.push_str(&format!("i16:{x},")),
        DVal::Array(vs) => {
            for x in vs {
                render_val(x, res, s)
            }
        }
    }
}
fn render_rec(r: &Record, res: &dyn Fn(StringRef) -> String) -> String {
    let mut s = String::new();
    for v in r.values() {
        s.push('[');
        render_val(v, res, &mut s);
        s.push(']');
    }
    s
}
fn render_all<'a>(recs: impl Iterator<Item = &'a Record>, res: &dyn Fn(StringRef) -> String) -> Vec<String> {
    recs.map(|r| render_rec(r, res)).collect()
}
/// digest of a whole record list
fn set_tok(rs: &[String]) -> String {
    let mut all = String::new();
    for r in rs {
        all.push_str(r);
        all.push('\n');
    }
    tok(all.as_bytes())
}
/// short per-record token (TLC compares them index by index)
fn tok8(r: &str) -> String {
    tok(r.as_bytes())[..8].to_string()
}
fn toks8(rs: &[String]) -> Vec<String> {
    rs.iter().map(|r| tok8(r)).collect()
}
fn render_set<'a>(recs: impl Iterator<Item = &'a Record>, res: &dyn Fn(StringRef) -> String) -> String {
    set_tok(&render_all(recs, res))
}
fn res_str<'a>(f: impl Fn(StringRef) -> wow_cdbc::Result<&'a str> + 'a) -> impl Fn(StringRef) -> String + 'a {
    move |r| match f(r) {
        Ok(s) => format!("{s:?}"),
        Err(e) => format!("<err:{}>", variant_name(&e)),
    }
}

fn key_u32(v: Option<&DVal>) -> Option<u32> {
    match v {
        Some(DVal::UInt32(k)) => Some(*k),
        Some(DVal::Int32(k)) => Some(*k as u32),
        _ => None,
    }
}

fn class<T, E: std::fmt::Debug>(o: Outcome<Result<T, E>>) -> (String, Option<T>) {
    match o {
        Outcome::Done(Ok(v)) => ("ok".into(), Some(v)),
        Outcome::Done(Err(e)) => (format!("err:{}", variant_name(&e)), None),
        Outcome::Panic(_) => ("panic".into(), None),
        Outcome::Hang => ("hang".into(), None),
    }
}

fn header_of(bytes: &[u8]) -> [u32; 4] {
    let mut h = [0u32; 4];
    if bytes.len() >= 20 {
        for (i, x) in h.iter_mut().enumerate() {
            let p = 4 + 4 * i;
            *x = u32::from_le_bytes([bytes[p], bytes[p + 1], bytes[p + 2], bytes[p + 3]]);
        }
    }
    h
}
fn clip(v: u32) -> u32 {
    v.min(0x7fff_0000)
}

fn run_case(case: &str, c: &Value, rng: &mut Rng, scratch: &Scratch) -> Vec<Value> {
    let mut evs = Vec::new();
    let fields: Vec<(String, usize)> =
        ga(c, "schema").iter().map(|f| (gs(f, "ty").to_string(), gi(f, "arr") as usize)).collect();
    let key = gi(c, "key") as usize; // 1-based, 0 = none
    let n = gi(c, "n") as usize;
    let cls = gs(c, "strcls");
    let rs = gi(c, "rs") as usize;
    let fc = gi(c, "fc") as u32;
    let offs: Vec<usize> = ga(c, "offs").iter().map(|x| x.as_u64().unwrap() as usize).collect();
    // column names and (for the ordered key classes) the key column itself come from the specification
    let fnames: Vec<String> = ga(c, "fnames").iter().map(|x| x.as_str().unwrap().to_string()).collect();
    let spec_keys: Vec<i64> = ga(c, "keys").iter().map(|x| x.as_i64().unwrap()).collect();
    let spec_absent: Vec<i64> = ga(c, "absent").iter().map(|x| x.as_i64().unwrap()).collect();
    let keyty = if key > 0 { fields[key - 1].0.clone() } else { "-".to_string() };
    let str_in_arr = fields.iter().any(|(t, a)| t == "String" && *a > 0);
    let arr_gt1 = fields.iter().any(|(_, a)| *a > 1);
    evs.push(json!({"ev":"Reset","case":case,"schema":c["schema"],"key":key,"keyty":keyty,"n":n,"strcls":cls,
        "nf":fields.len(),"strInArr":str_in_arr,"arrGt1":arr_gt1,"namecls":gs(c,"namecls"),"keyorder":gs(c,"keyorder")}));

    // ---- the table and its byte image (harness-owned encoder, layout numbers from TLC) ----
    let pool = pool(cls, rng);
    // string block of the input file: the empty string, then the pool in REVERSE order, used or not;
    // every second string is stored a SECOND time further on (legal input: the same text at two
    // offsets), and references pick either copy -- the writer has to fold them into one.
    let mut block = vec![0u8];
    let mut off_of = vec![0u32; pool.len()];
    let mut off_alt = vec![0u32; pool.len()];
    for i in (1..pool.len()).rev() {
        off_of[i] = block.len() as u32;
        block.extend_from_slice(pool[i].as_bytes());
        block.push(0);
    }
    for i in 1..pool.len() {
        off_alt[i] = off_of[i];
        if i % 2 == 1 {
            off_alt[i] = block.len() as u32;
            block.extend_from_slice(pool[i].as_bytes());
            block.push(0);
        }
    }
    // a second empty string at the very end of the block
    off_alt[0] = block.len() as u32;
    block.push(0);
    // texts the table refers to: pool entries and, for references that do not point at the start of a stored
    // string, their suffixes (kinds chosen by TLC: start / inside / nul / zero / last)
    let refkinds: Vec<String> = ga(c, "refkinds").iter().map(|k| k.as_str().unwrap().to_string()).collect();
    let mut texts: Vec<String> = pool.clone();
    let mut text_id: HashMap<String, usize> = texts.iter().enumerate().map(|(i, t)| (t.clone(), i)).collect();
    let mut nref = 0usize;
    let mut kinds_used: std::collections::BTreeSet<String> = Default::default();
    let mut table: Vec<Vec<Vec<V>>> = Vec::with_capacity(n);
    for ri in 0..n {
        let mut rec = Vec::new();
        for (fi, (ty, arr)) in fields.iter().enumerate() {
            let elems = if *arr == 0 { 1 } else { *arr };
            let mut cells = Vec::new();
            for _ in 0..elems {
                let v = gen_val(ty, fi + 1 == key, n, pool.len(), cls, rng);
                let v = if fi + 1 == key && !spec_keys.is_empty() {
                    if ty == "Int32" { V::I32(spec_keys[ri] as i32) } else { V::U32(spec_keys[ri] as u32) }
                } else {
                    v
                };
                let v = if let V::Str(i, _) = v {
                    let base = if rng.chance(1, 2) { off_of[i] } else { off_alt[i] };
                    let kind = refkinds[nref % refkinds.len()].as_str();
                    nref += 1;
                    let len = pool[i].len();
                    let (off, text): (u32, String) = match kind {
                        "inside" if len >= 2 => {
                            // a char boundary strictly inside the string
                            let mut sk = 1 + rng.below(len as u64 - 1) as usize;
                            while !pool[i].is_char_boundary(sk) {
                                sk += 1;
                            }
                            (base + sk as u32, pool[i][sk..].to_string())
                        }
                        "nul" => (base + len as u32, String::new()),
                        "zero" => (0, String::new()),
                        "last" => (block.len() as u32 - 1, String::new()),
                        _ => (base, pool[i].clone()),
                    };
                    kinds_used.insert(kind.to_string());
                    let tid = *text_id.entry(text.clone()).or_insert_with(|| {
                        texts.push(text);
                        texts.len() - 1
                    });
                    V::Str(tid, off)
                } else {
                    v
                };
                cells.push(v);
            }
            rec.push(cells);
        }
        table.push(rec);
    }
    let pool = texts; // from here on "pool" = every text the table can resolve to
    let mut bytes0 = Vec::with_capacity(20 + n * rs + block.len());
    bytes0.extend_from_slice(b"WDBC");
    for v in [n as u32, fc, rs as u32, block.len() as u32] {
        bytes0.extend_from_slice(&v.to_le_bytes());
    }
    for rec in &table {
        let mut rb = vec![0u8; rs];
        for (fi, f) in rec.iter().enumerate() {
            let mut p = offs[fi];
            for v in f {
                let b: Vec<u8> = match v {
                    V::I32(x) => x.to_le_bytes().to_vec(),
                    V::U32(x) => x.to_le_bytes().to_vec(),
                    V::F32(x) => x.to_le_bytes().to_vec(),
                    V::Str(_, off) => off.to_le_bytes().to_vec(),
                    V::Bool(x) => (*x as u32).to_le_bytes().to_vec(),
                    V::U8(x) => vec![*x],
                    V::I8(x) => vec![*x as u8],
                    V::U16(x) => x.to_le_bytes().to_vec(),
                    V::I16(x) => x.to_le_bytes().to_vec(),
                };
                if p + b.len() > rs {
                    tool_error("layout numbers from the generator do not fit the record");
                }
                rb[p..p + b.len()].copy_from_slice(&b);
                p += b.len();
            }
        }
        bytes0.extend_from_slice(&rb);
    }
    bytes0.extend_from_slice(&block);
    let src_rows: Vec<String> = table.iter().map(|rec| render_src(rec, &pool)).collect();
    let src_tok = set_tok(&src_rows);
    let small = n <= 128; // per-index events only for small tables
    let rtoks: Vec<String> = if small { toks8(&src_rows) } else { Vec::new() };
    let used: std::collections::HashSet<usize> =
        table.iter().flatten().flatten().filter_map(|v| if let V::Str(i, _) = v { Some(*i) } else { None }).collect();
    evs.push(json!({"ev":"Build","case":case,"len":bytes0.len(),"hdr":[n, fc, rs, block.len()],"rtok":src_tok,"nstr":used.len(),"hasEmpty":used.contains(&0),"rtoks":rtoks,"refkinds":kinds_used.iter().collect::<Vec<_>>()}));

    let mk_schema = || {
        let mut s = Schema::new("T");
        for (i, (ty, arr)) in fields.iter().enumerate() {
            if *arr == 0 {
                s.add_field(SchemaField::new(fnames[i].clone(), ftype(ty)));
            } else {
                s.add_field(SchemaField::new_array(fnames[i].clone(), ftype(ty), *arr));
            }
        }
        if key > 0 {
            s.set_key_field_index(key - 1);
        }
        s
    };
    let parse_eager = |bytes: &[u8]| -> (String, Option<(DbcParser, RecordSet)>) {
        let b = bytes.to_vec();
        class(guarded(move || {
            let p = DbcParser::parse_bytes(&b)?.with_schema(mk_schema())?;
            let r = p.parse_records()?;
            Ok::<_, wow_cdbc::Error>((p, r))
        }))
    };

    // ---- eager parse of the input file ----
    let (res0, parsed0) = parse_eager(&bytes0);
    let Some((parser0, set0)) = parsed0 else {
        evs.push(json!({"ev":"Parse0","case":case,"res":res0,"rtok":"-","hdr":[0,0,0,0]}));
        return evs;
    };
    let h = *parser0.header();
    let eager_rows = render_all(set0.records().iter(), &res_str(|r| set0.get_string(r)));
    let eager_tok = set_tok(&eager_rows);
    evs.push(json!({"ev":"Parse0","case":case,"res":res0,"rtok":eager_tok,
        "hdr":[clip(h.record_count), clip(h.field_count), clip(h.record_size), clip(h.string_block_size)]}));

    // ---- the other access paths on the same bytes ----
    let schema = mk_schema();
    let sb = Arc::new(set0.string_block().clone());
    let cached_rows: Vec<String> = {
        let mut s2 = set0.clone();
        match guarded(|| {
            s2.enable_string_caching();
            // reach every record through get_record(i)
            (0..s2.len()).map(|i| s2.get_record(i).map(|r| render_rec(r, &res_str(|q| s2.get_string(q)))).unwrap_or_else(|| "<none>".into())).collect::<Vec<String>>()
        }) {
            Outcome::Done(t) => t,
            _ => vec!["panic".into()],
        }
    };
    let cached = set_tok(&cached_rows);
    let mut lazy_rows: Vec<String> = Vec::new();
    let mut route_evs: Vec<Value> = Vec::new();
    let (lazy_idx, lazy_iter) = {
        let lp = LazyDbcParser::new(&bytes0, &h, Some(&schema), Arc::clone(&sb));
        let a = match guarded(|| {
            let mut recs = Vec::new();
            for i in 0..h.record_count {
                recs.push(lp.get_record(i)?);
            }
            Ok::<_, wow_cdbc::Error>(render_all(recs.iter(), &res_str(|r| lp.string_block().get_string(r))))
        }) {
            Outcome::Done(Ok(t)) => {
                let d = set_tok(&t);
                lazy_rows = t;
                d
            }
            Outcome::Done(Err(e)) => format!("err:{}", variant_name(&e)),
            _ => "panic".into(),
        };
        // every route TLC asked for, driven through the iterator's public adaptors
        if small {
            for r in ga(c, "routes") {
                let (kind, ra, rb) = (gs(r, "kind"), gi(r, "a") as usize, gi(r, "b") as usize);
                let got = guarded(|| {
                    let mut it = lp.record_iterator();
                    let items: Vec<wow_cdbc::Result<Record>> = match kind {
                        "iter" => it.collect(),
                        "nth" => it.nth(ra).into_iter().collect(),
                        "skip" => it.skip(ra).collect(),
                        "step" => it.step_by(ra).collect(),
                        "skipstep" => it.skip(ra).step_by(rb).collect(),
                        "last" => it.last().into_iter().collect(),
                        "nthnth" => {
                            let x = it.nth(ra);
                            let y = it.nth(rb);
                            x.into_iter().chain(y).collect()
                        }
                        _ => tool_error(&format!("unknown route kind {kind}")),
                    };
                    items
                        .iter()
                        .map(|x| match x {
                            Ok(rec) => tok8(&render_rec(rec, &res_str(|q| lp.string_block().get_string(q)))),
                            Err(e) => format!("err:{}", variant_name(e)),
                        })
                        .collect::<Vec<String>>()
                });
                let got = match got {
                    Outcome::Done(v) => v,
                    _ => vec!["panic".to_string()],
                };
                route_evs.push(json!({"kind":kind,"a":ra,"b":rb,"got":got}));
            }
        }
        let b = match guarded(|| {
            let recs: Result<Vec<Record>, _> = lp.record_iterator().collect();
            recs.map(|recs| render_set(recs.iter(), &res_str(|r| lp.string_block().get_string(r))))
        }) {
            Outcome::Done(Ok(t)) => t,
            Outcome::Done(Err(e)) => format!("err:{}", variant_name(&e)),
            _ => "panic".into(),
        };
        (a, b)
    };
    let mut mmap_rows: Vec<String> = Vec::new();
    let mmap_tok = {
        let path = scratch.file(&format!("{}.dbc", case.replace(':', "_")));
        std::fs::write(&path, &bytes0).unwrap_or_else(|e| tool_error(&format!("write scratch: {e}")));
        let r = match guarded(|| {
            let mm = MmapDbcFile::open(&path)?;
            let set = mm.parser_with_schema(mk_schema())?.parse_records()?;
            let sbm = mm.string_block()?;
            let t: Vec<String> = (0..set.len()).map(|i| set.get_record(i).map(|r| render_rec(r, &res_str(|q| sbm.get_string(q)))).unwrap_or_else(|| "<none>".into())).collect();
            Ok::<_, wow_cdbc::Error>(t)
        }) {
            Outcome::Done(Ok(t)) => {
                let d = set_tok(&t);
                mmap_rows = t;
                d
            }
            Outcome::Done(Err(e)) => format!("err:{}", variant_name(&e)),
            _ => "panic".into(),
        };
        let _ = std::fs::remove_file(&path);
        r
    };
    let mut par_rows: Vec<String> = Vec::new();
    let par_tok = match guarded(|| {
        let set = wow_cdbc::parse_records_parallel(&bytes0, &h, Some(&schema), Arc::clone(&sb))?;
        let t: Vec<String> = (0..set.len()).map(|i| set.get_record(i).map(|r| render_rec(r, &res_str(|q| set.get_string(q)))).unwrap_or_else(|| "<none>".into())).collect();
        Ok::<_, wow_cdbc::Error>(t)
    }) {
        Outcome::Done(Ok(t)) => {
            let d = set_tok(&t);
            par_rows = t;
            d
        }
        Outcome::Done(Err(e)) => format!("err:{}", variant_name(&e)),
        _ => "panic".into(),
    };
    evs.push(json!({"ev":"Paths","case":case,"eager":eager_tok,"cached":cached,"lazyIdx":lazy_idx,"lazyIter":lazy_iter,"mmap":mmap_tok,"par":par_tok}));
    if small {
        // record i as every path returns it through its by-index entry point, and the iterator routes
        evs.push(json!({"ev":"Gets","case":case,"eager":toks8(&eager_rows),"cached":toks8(&cached_rows),"lazy":toks8(&lazy_rows),
            "mmap":toks8(&mmap_rows),"par":toks8(&par_rows)}));
        evs.push(json!({"ev":"Routes","case":case,"routes":route_evs}));
    }

    // ---- key lookups ----
    if key > 0 {
        let mut present: Vec<u32> = table
            .iter()
            .map(|r| match &r[key - 1][0] {
                V::U32(k) => *k,
                V::I32(k) => *k as u32,
                _ => 0,
            })
            .collect();
        present.sort();
        present.dedup();
        let have: std::collections::HashSet<u32> = present.iter().copied().collect();
        let mut probe: Vec<(u32, bool)> = Vec::new();
        let step = (present.len() / 40).max(1);
        for k in present.iter().step_by(step).take(48) {
            probe.push((*k, true));
        }
        for k in [0u32, 2, 0x7fff_ffff, 0xdead_beef, 5].into_iter().chain(spec_absent.iter().map(|k| *k as i32 as u32)) {
            if !have.contains(&k) && !probe.iter().any(|(p, _)| *p == k) {
                probe.push((k, false));
            }
        }
        let mut sorted = set0.clone();
        let sres = match guarded(|| sorted.create_sorted_key_map()) {
            Outcome::Done(Ok(())) => "ok".to_string(),
            Outcome::Done(Err(e)) => format!("err:{}", variant_name(&e)),
            _ => "panic".into(),
        };
        let hx = |o: Option<u32>| o.map(hex32).unwrap_or_else(|| "-".into());
        let ents: Vec<Value> = probe
            .iter()
            .map(|(k, p)| {
                let hr = set0.get_record_by_key(*k).map(|r| key_u32(r.get_value(key - 1)).unwrap_or(!*k));
                let br = sorted.get_record_by_key_binary_search(*k).map(|r| key_u32(r.get_value(key - 1)).unwrap_or(!*k));
                json!([hex32(*k), *p, hx(hr), hx(br)])
            })
            .collect();
        evs.push(json!({"ev":"Keys","case":case,"sorted":sres,"ents":ents}));
    }

    // ---- write back with the crate's writer, look at the bytes, re-parse ----
    let (wres, wbytes) = class(guarded(|| {
        let mut cur = Cursor::new(Vec::new());
        DbcWriter::new(&mut cur).with_schema(mk_schema()).write_records(&set0).map(|_| cur.into_inner())
    }));
    let wbytes = wbytes.unwrap_or_default();
    let wh = header_of(&wbytes);
    let sid_of: HashMap<&str, usize> = pool.iter().enumerate().map(|(i, s)| (s.as_str(), i)).collect();
    let mut blk: Vec<Value> = Vec::new();
    let bstart = 20usize.saturating_add((wh[0] as usize).saturating_mul(wh[2] as usize));
    let bend = bstart.saturating_add(wh[3] as usize);
    let block_ok = wbytes.len() >= 20 && bend <= wbytes.len();
    if block_ok {
        let b = &wbytes[bstart..bend];
        let mut p = 0usize;
        while p < b.len() {
            let e = b[p..].iter().position(|x| *x == 0).map(|q| p + q).unwrap_or(b.len());
            let sid = std::str::from_utf8(&b[p..e]).ok().and_then(|s| sid_of.get(s).copied()).map(|x| x as i64).unwrap_or(-1);
            blk.push(json!([p, sid]));
            p = e + 1;
        }
    }
    evs.push(json!({"ev":"Write","case":case,"res":wres,"len":wbytes.len(),"tok":tok(&wbytes),
        "hdr":[clip(wh[0]), clip(wh[1]), clip(wh[2]), clip(wh[3])],"blockInFile":block_ok,"block":blk}));
    if wres == "ok" {
        let (rres, rp) = parse_eager(&wbytes);
        let (rtok, ctok) = match rp {
            Some((_, mut set)) => {
                let a = render_set(set.records().iter(), &res_str(|r| set.get_string(r)));
                let b = match guarded(|| {
                    set.enable_string_caching();
                    render_set(set.records().iter(), &res_str(|r| set.get_string(r)))
                }) {
                    Outcome::Done(t) => t,
                    _ => "panic".into(),
                };
                (a, b)
            }
            None => ("-".into(), "-".into()),
        };
        evs.push(json!({"ev":"Reparse","case":case,"res":rres,"rtok":rtok,"ctok":ctok}));
    }
    evs
}

fn main() {
    let a = args();
    install_quiet_panic_hook();
    let cases = read_cases(&a.cases);
    let trace = Trace::create(&a.trace);
    let seed = seed();
    let scratch = Scratch::new("c17");
    let results: Vec<std::sync::Mutex<Vec<Value>>> = (0..cases.len()).map(|_| std::sync::Mutex::new(Vec::new())).collect();
    par_for(cases.len(), ncpu().min(8), |ci| {
        let c = &cases[ci];
        let case = format!("{ci}:dbc");
        let mut rng = Rng::derive(seed, &case);
        *results[ci].lock().unwrap() = run_case(&case, c, &mut rng, &scratch);
    });
    for r in results {
        trace.block(r.into_inner().unwrap());
    }
    trace.flush();
}
