CONSTANT Dev = {"RepeatNoRewind", "ZeroDurNaN", "VarCycleHang"}
CONSTANT MaxOps = 12
INIT GInit
NEXT GNext
CHECK_DEADLOCK FALSE
