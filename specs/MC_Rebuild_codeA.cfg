CONSTANTS
  RFiles <- MFiles
  RTok <- MTok
  REnc = {"secret"}
  RSig = {"(signature)"}
  REmpty = {"empty"}
  RHetBet = TRUE
SPECIFICATION CodeSpec
INVARIANT TargetExact

CHECK_DEADLOCK FALSE
