#!/bin/sh
# Self-test of the C01 check: applies each mutant / refactor diff to a scratch worktree of /repo and runs the
# quick tier on it.  Usage: selftest/C01/run.sh   (needs: git -C /repo worktree add -f /var/tmp/wt-c01m HEAD)
WT=/var/tmp/wt-c01m
cd /verif || exit 2
OUT=selftest/C01/results.txt
: > $OUT
for d in selftest/C01/mutant-*.diff selftest/C01/refactor-*.diff; do
  git -C $WT checkout -- . && git -C $WT apply /verif/$d || { echo "$d: does not apply" >> $OUT; continue; }
  C01_SELFTEST_SKIP_A=1 VERIF_REPO=$WT bin/vcheck C01 --tier quick > /var/tmp/c01-selftest.log 2>&1
  rc=$?
  sigs=$(for r in $(grep -o 'replay=[^ ]*' /var/tmp/c01-selftest.log | cut -d= -f2); do python3 -c "import json,sys;p=json.load(open('$r'));print(p['sig']['why'],p['case'])"; done | tr '\n' ';')
  echo "$(basename $d): exit=$rc $(grep -c '^VIOLATION' /var/tmp/c01-selftest.log) violation signature(s): $sigs" >> $OUT
  git -C $WT checkout -- .
done
rm -f /var/tmp/c01-selftest.log
cat $OUT
