CONSTANTS
  SectorSize <- TrS
  TableSize = 16
  HetSize = 8
  UseHetBet = TRUE
  FlagFix <- TrFlagFix
  BetFix <- TrBetFix
  LibFileKey <- TrKey
  ListfileAttrSource = "attrs"
INIT Init
NEXT Next
INVARIANT HistoryDeterminesOpts
POSTCONDITION Accepted
CHECK_DEADLOCK FALSE
