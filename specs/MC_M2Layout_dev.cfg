\* named deviation: the cursor step skin.rs used before commit 1a36590 (40 bytes per 48-byte submesh); TLC is EXPECTED to report CursorIsEmitted violated
CONSTANT SubmeshStep = 40
INIT Init
NEXT Next
INVARIANT CursorIsEmitted
INVARIANT SegmentsTile
INVARIANT RegionsInsideFile
INVARIANT RegionsDisjoint
INVARIANT HeaderMatchesEmitted
INVARIANT RoundTrip
INVARIANT RewriteStable
INVARIANT ConvertSame
INVARIANT ConvertKeeps
CHECK_DEADLOCK FALSE
