--------------------------- MODULE Write_MpqFormat ---------------------------
(* Direction 2 of C02, reference side: TLC evaluates the reference writer (MpqFormat!RefWrite) on  *)
(* the concretised cases (file contents already cut into sectors and, where requested, compressed  *)
(* by Python's zlib/bz2) and emits the archive bytes in the standard format, plus -- where named   *)
(* deviations of the library can apply to some file -- variant archives in which every such file is *)
(* laid out under one combination of its deviations (variant j = each file's j-th combination).  Every archive is read back by the reference reader before it is handed to the library *)
(* (selfok): an archive the reference itself cannot read would be a defect of the model, not of    *)
(* the library.  TLC also picks the absent names to probe: one that collides with the first file's *)
(* home slot (if the pool has one), one arbitrary.                                                 *)
EXTENDS MpqFormatHB, Json, IOUtils, TLC

Rec == ndJsonDeserialize(IOEnv.WCASES)

Prefix(len, user) == IF user /\ len >= 16 THEN UserDataPrefix(len) ELSE [pi \in 1..len |-> (pi * 7) % 251]
CfgOf(r)   == [ver |-> r.cfg.ver, shift |-> r.cfg.shift, hcount |-> r.cfg.hcount, ndel |-> r.cfg.ndel,
               hibt |-> r.cfg.hibt, prefix |-> Prefix(r.cfg.prefixlen, r.cfg.userdata),
               \* growth round 4: HET/BET tables, V4 header
               hetbet |-> r.cfg.hetbet, classic |-> r.cfg.classic, ghost |-> r.cfg.ghost, hbits |-> r.cfg.hbits, hettotal |-> r.cfg.hettotal,
               iextra |-> r.cfg.iextra, hextra |-> r.cfg.hextra, slack |-> r.cfg.slack,
               hetstored |-> r.cfg.hetstored, betstored |-> r.cfg.betstored]
FileOf(f)  == [name |-> f.nb, locale |-> f.locale, crc |-> f.crc, fsize |-> f.fsize, enc |-> f.enc, single |-> f.single, cflag |-> f.cflag,
               sectors |-> [si \in 1..Len(f.sectors) |-> [m |-> f.sectors[si].m, p |-> f.sectors[si].p]]]

\* ---- growth round 4 --------------------------------------------------------------------------
\* Pass 1 (r.xpass = 1) of an archive whose HET/BET tables are to be stored compressed: the plain table bodies, for Python's
\* zlib/bz2; pass 2 receives them back as cfg.hetstored / cfg.betstored (method byte + stream).
BlocksOf(files, cfg) ==
  FoldLeft(LAMBDA st, fi : WAppendFile(st, files[fi], cfg, Std), WBeginX4(files, cfg), [fi \in 1..Len(files) |-> fi]).blocks
Bodies(r) ==
  LET cfg == CfgOf(r)
      files == [fi \in 1..Len(r.files) |-> FileOf(r.files[fi])]
  IN  [case |-> r.case, hetbody |-> HetBody(NamesOf(files), cfg, XStd), betbody |-> BetBody(NamesOf(files), BlocksOf(files, cfg), cfg, XStd)]

\* where Python's hashlib has to put the six digests of a V4 header: ranges in file coordinates, header digest last
Md5Plan(bytes) ==
  LET ar == OpenArchiveX(bytes)
      rgs == Md5Ranges(ar.hn, ar.hx)
  IN  [gi \in 1..Len(rgs) |-> [what |-> rgs[gi].what, lo |-> ar.base + rgs[gi].lo, len |-> rgs[gi].len, at |-> ar.base + rgs[gi].at]]

\* the reference reads its own V3/V4 archive back: header, tables (plain bodies as the writer made them), every file through
\* HET/BET and - where present - through the classic tables, both giving the same sectors
SelfOkX(std, files, cfg, ssize) ==
  LET ar == OpenArchiveX(std)
      et == XTablesOfArchive(std, ar)
      xt == XTables(HetBody(NamesOf(files), cfg, XStd), BetBody(NamesOf(files), BlocksOf(files, cfg), cfg, XStd))
      viaX(f) == RefReadFileX(std, ar.base, ar.hn.shift, xt, f.name, Std, XStd)
      ht == HashTableOf(std, ar.base, ar.hn)
      bt == BlockTableOf(std, ar.base, ar.hn)
      viaC(f) == RefReadFile(std, ar, ht, bt, f.name, Std)
      good(dec, f) == dec.res = "ok" /\ dec.crc \in {"none", "ok"} /\ dec.sectors = ExpectSectors(f, ssize) /\ dec.fsize = f.fsize
  IN  /\ ar.res = "ok" /\ ar.base = Len(cfg.prefix) /\ HeaderOkX(ar, XStd)
      /\ (cfg.hetbet =>
            /\ et.het.res = "ok" /\ et.bet.res = "ok"
            /\ (cfg.hetstored = <<>> => et.het.m = -1 /\ et.het.p = xt.hb) /\ (cfg.hetstored # <<>> => et.het.m = cfg.hetstored[1])
            /\ (cfg.betstored = <<>> => et.bet.m = -1 /\ et.bet.p = xt.bb) /\ (cfg.betstored # <<>> => et.bet.m = cfg.betstored[1])
            /\ HetConforms(xt.het, et.het.dsize, XStd) /\ BetConforms(xt.bet, et.bet.dsize, XStd) /\ HetBetAgree(xt.het, xt.bet, XStd)
            /\ XSlotsOk(xt, XStd)
            /\ \A fi \in 1..Len(files) : good(viaX(files[fi]), files[fi]))
      /\ (cfg.classic /\ ~cfg.ghost => \A fi \in 1..Len(files) : files[fi].locale = 0 => good(viaC(files[fi]), files[fi]))
      /\ (cfg.classic /\ cfg.ghost => \A fi \in 1..Len(files) : viaC(files[fi]).res = "notfound")

EncodeX(r) ==
  LET cfg   == CfgOf(r)
      ssize == SectorSize(cfg.shift)
      files == [fi \in 1..Len(r.files) |-> FileOf(r.files[fi])]
      wf    == \A fi \in 1..Len(files) : FileWellFormed(files[fi], ssize)
      std   == RefWriteX(files, cfg, Std, XStd)
      \* one variant archive: the same files with the tables and header as the library under test lays them out (x-dialect XLib)
      lib   == IF cfg.hetbet THEN << RefWriteX(files, [cfg EXCEPT !.hetstored = <<>>, !.betstored = <<>>], Std, XLib) >> ELSE <<>>
      pool   == r.absentpool
      \* absent names: one that starts its HET probe on the first file's start slot (if the pool has one), one arbitrary
      startOf(nm) == HetStart(MaskedHash(JenkinsBits(nm, XStd), cfg.hbits, XStd), cfg.hettotal, XStd)
      coll   == IF cfg.hetbet THEN {ai \in 1..Len(pool) : startOf(pool[ai]) = startOf(files[1].name)}
                ELSE {ai \in 1..Len(pool) : HomeSlot(pool[ai], cfg.hcount) = HomeSlot(files[1].name, cfg.hcount)}
      a1     == IF coll = {} THEN 1 ELSE CHOOSE ai \in coll : \A a2 \in coll : ai <= a2
      a2     == IF a1 = Len(pool) THEN 1 ELSE Len(pool)
  IN  [ case |-> r.case, selfok |-> wf /\ SelfOkX(std, files, cfg, ssize),
        std |-> std, vars |-> lib,
        labels |-> [fi \in 1..Len(files) |-> IF cfg.hetbet THEN << <<"libhetbet">> >> ELSE <<>>],
        absent |-> <<a1, a2>>,
        md5 |-> Md5Plan(std), varmd5 |-> [vj \in 1..Len(lib) |-> Md5Plan(lib[vj])] ]

Encode(r) ==
  LET cfg   == CfgOf(r)
      ssize == SectorSize(cfg.shift)
      files == [fi \in 1..Len(r.files) |-> FileOf(r.files[fi])]
      wf    == \A fi \in 1..Len(files) : FileWellFormed(files[fi], ssize)
      std   == RefWrite(files, cfg, Std)
      names == {files[fi].name : fi \in 1..Len(files)}
      neutral == {fi \in 1..Len(files) : files[fi].locale = 0}
      back  == RefRead(std, names, Std)
      selfok == /\ wf
                /\ OpenArchive(std).res = "ok" /\ OpenArchive(std).base = Len(cfg.prefix)
                /\ \A fi \in neutral :                     \* a neutral-locale lookup must find the neutral entry
                     /\ back[files[fi].name].res = "ok" /\ back[files[fi].name].locale = 0
                     /\ back[files[fi].name].crc \in {"none", "ok"}
                     /\ back[files[fi].name].sectors = ExpectSectors(files[fi], ssize)
                     /\ back[files[fi].name].fsize = files[fi].fsize
      \* per file: the combinations of reader-side deviations that can matter, smallest first
      tailp(f) == \E si \in 1..Len(f.sectors) : Len(UnitBytes(f.sectors[si])) % 4 # 0
      cands(f) == CandLabels(f.name, f.enc, f.single, f.cflag, f.crc, f.fsize, IF tailp(f) THEN 1 ELSE 0, Len(f.sectors), "r")
                  \ (IF tailp(f) THEN {} ELSE {"tail"})
      subs   == [fi \in 1..Len(files) |-> SubsetSeqs(cands(files[fi]))]
      nvar   == FoldLeft(LAMBDA acc, fi : IF Len(subs[fi]) > acc THEN Len(subs[fi]) ELSE acc, 0, [fi \in 1..Len(files) |-> fi])
      \* variant archive vj: file fi written under its vj-th combination (standard if it has fewer)
      variant(vj) == RefWriteD(files, cfg, [fi \in 1..Len(files) |->
                                 IF vj <= Len(subs[fi]) THEN DialectOf(subs[fi][vj]) ELSE Std])
      pool   == r.absentpool
      coll   == {ai \in 1..Len(pool) : HomeSlot(pool[ai], cfg.hcount) = HomeSlot(files[1].name, cfg.hcount)}
      a1     == IF coll = {} THEN 1 ELSE CHOOSE ai \in coll : \A a2 \in coll : ai <= a2
      a2     == IF a1 = Len(pool) THEN 1 ELSE Len(pool)
  IN  [ case |-> r.case, selfok |-> selfok,
        std |-> std,
        vars |-> [vj \in 1..nvar |-> variant(vj)],
        labels |-> [fi \in 1..Len(files) |-> [vj \in 1..Len(subs[fi]) |-> LabelSeq(subs[fi][vj])]],
        absent |-> <<a1, a2>> ]

EncodeAny(r) == IF r.xpass = 1 THEN Bodies(r)
                ELSE IF r.cfg.hetbet \/ r.cfg.ver = 3 THEN EncodeX(r)
                ELSE Encode(r) @@ [md5 |-> <<>>, varmd5 |-> <<>>]

Out == [ri \in 1..Len(Rec) |-> EncodeAny(Rec[ri])]
ASSUME ndJsonSerialize(IOEnv.OUT, Out)
ASSUME PrintT(<<"ENCODED", Len(Rec)>>)
=============================================================================
