CONSTANTS
  Names = {"n1"}
  Toks = {"t1"}
INIT TInit
NEXT TNext
POSTCONDITION Accepted
CHECK_DEADLOCK FALSE
