-------------------------- MODULE Trace_MpqFormat --------------------------
(* Stage (D) for C02: TLC decides both directions of the interoperability property on recorded     *)
(* traces.                                                                                         *)
(*                                                                                                *)
(* Direction 1 (library writes, reference reads).  Events of one archive:                          *)
(*   Reset{dir=1,ver,shift,names}  Build{res}  RefOpen{header as decoded by MpqFormat}              *)
(*   RefFile{name, want, std, devs, ...}*  RefLocFile{name, locale, want, std, entlocale, entplatform}*             *)
(*   RefAbsent{name,res}*  RefList{names,locnames}  Done                                             *)
(* `std` is what the reference reader (TLC evaluating RefReadFile under Std, payloads inflated by   *)
(* Python zlib/bz2) obtained; `devs` the same under every combination of the named deviations.     *)
(*                                                                                                *)
(* Direction 2 (reference writes, library reads).  Events of one archive:                          *)
(*   Reset{dir=2,...,files}  Open{std}  List{std}  Read{name,std,devs}*  Absent{name,std}*  Done   *)
(* `std` are the library's answers on the archive RefWrite laid out in the standard format, `devs` *)
(* its answers on variant archives with the file laid out under combinations of the deviations.    *)
(*                                                                                                *)
(* P-conjuncts (verdict): contents bit-identical (token and length) both ways, under every         *)
(* spelling; absent names not found; header conforms and says what was configured; listing equals   *)
(* the names put in; every file was compared.  A rejected event carries a reason:                  *)
(*   "dev:<labels>"  the standard form fails but the smallest combination <labels> of named          *)
(*                   deviations explains it exactly (a named regression: every one of them has     *)
(*                   been repaired in /repo; accepted only while its finding is listed as known)   *)
(*   "unexplained"   anything else                                                                 *)
EXTENDS MpqFormatHB, Json, IOUtils, TLC, TLCExt

Rec == ndJsonDeserialize(IOEnv.TRACE)

VARIABLES tl,        \* position in the trace
          vphase,    \* "idle" | "reset" | "built" | "open" | "listed" | "closed" (behaviour ended early)
          vdir, vcfg,\* direction and configured [ver, shift]
          vwant,     \* name -> [len, tok]  (what was put into the archive)
          vtwin,     \* [name, len, tok] of a same-name entry with locale 0x409 placed earlier in the probe chain ("" = none)
          vseen      \* names compared so far
tvars == <<tl, vphase, vdir, vcfg, vwant, vtwin, vseen>>

Ev == Rec[tl]
SeqSet(sq) == {sq[qi] : qi \in 1..Len(sq)}
ListfileName == "(listfile)"

Bad(why) == PrintT(<<"BAD", tl, why>>)

\* ---------------------------------------------------------------------------------------------
\* direction 1
\* ---------------------------------------------------------------------------------------------
T_Reset ==
  /\ Ev.ev = "Reset" /\ vphase \in {"idle", "closed"}
  /\ vphase' = "reset" /\ vdir' = Ev.dir /\ vcfg' = [ver |-> Ev.ver, shift |-> Ev.shift, hetbet |-> Ev.hetbet, classic |-> Ev.classic]
  /\ vwant' = [nm \in SeqSet(Ev.names) |-> [len |-> Ev.lens[CHOOSE qi \in 1..Len(Ev.names) : Ev.names[qi] = nm],
                                           tok |-> Ev.toks[CHOOSE qi \in 1..Len(Ev.names) : Ev.names[qi] = nm]]]
  /\ vseen' = {} /\ vtwin' = Ev.twin

\* a builder error ends the behaviour (that is C01's business); nothing was written
T_Build ==
  /\ Ev.ev = "Build" /\ vphase = "reset" /\ vdir = 1
  /\ vphase' = IF Ev.res = "ok" THEN "built" ELSE "closed"
  /\ IF Ev.res = "ok" THEN TRUE ELSE PrintT(<<"DRIFT", tl, "builder refused: " \o Ev.res>>)
  /\ UNCHANGED <<vdir, vcfg, vwant, vtwin, vseen>>

HeaderP(e) ==
  /\ e.open = "ok" /\ e.base = 0
  /\ HeaderConforms(e.hsize, e.asize, e.ver, e.shift, e.htpos, e.btpos, e.htcount, e.btcount, e.hibt, e.hthi, e.bthi, e.alen)
  /\ e.ver = vcfg.ver /\ e.shift = vcfg.shift
  /\ e.btcount >= Cardinality(DOMAIN vwant)
\* V3/V4 (growth round 4): the classic part as before, the rest by HeaderConformsX on the logged integers; every digest of a
\* V4 header equals the MD5 (computed by hashlib) of the byte range MpqFormatHB!Md5Ranges names for it
HeaderPX(e, xx) ==
  /\ e.open = "ok" /\ e.base = 0
  /\ \A fld \in {"hsize", "htpos", "btpos", "htcount", "btcount", "hibt"} : e[fld] >= 0
  /\ e.x.asize64 >= 0 /\ e.x.hetpos >= 0 /\ e.x.betpos >= 0
  /\ HeaderConformsX(e.ver, e.hsize, e.x.asize64, e.alen, e.shift, e.htpos, e.btpos, e.htcount, e.btcount, e.hibt, e.hthi, e.bthi,
                     e.x.hetpos, e.x.betpos, e.x.hetsz, e.x.betsz, e.x.htsz, e.x.btsz, e.x.hibtsz, e.x.rawchunk, xx)
  /\ \A gi \in 1..Len(e.x.md5) : e.x.md5[gi].got = e.x.md5[gi].want
  /\ (e.ver = 3 => Len(e.x.md5) >= 3 /\ \E gi \in 1..Len(e.x.md5) : e.x.md5[gi].what = "header")
  /\ e.ver = vcfg.ver /\ e.shift = vcfg.shift
  /\ e.btcount >= Cardinality(DOMAIN vwant)
T_RefOpen ==
  /\ Ev.ev = "RefOpen" /\ vphase = "built"
  /\ IF Ev.ver >= 2
     THEN IF HeaderPX(Ev, XStd) THEN vphase' = "open"
          ELSE IF HeaderPX(Ev, XLib) THEN Bad("dev:libhetbet") /\ vphase' = "open"      \* named deviation; the files are still compared
          ELSE Bad("unexplained") /\ vphase' = "closed"
     ELSE IF HeaderP(Ev) THEN vphase' = "open"
          ELSE Bad("unexplained") /\ vphase' = "closed"
  /\ UNCHANGED <<vdir, vcfg, vwant, vtwin, vseen>>

\* the HET and BET tables of a library-written V3/V4 archive conform (header arithmetic re-evaluated here on the logged
\* fields; slot-level facts as the reference reader found them under each x-dialect)
TablesP(e, xx, slotsok) ==
  /\ e.hetext.res = "ok" /\ e.betext.res = "ok"
  /\ HetConforms(e.het, e.hetext.dsize, xx) /\ BetConforms(e.bet, e.betext.dsize, xx) /\ HetBetAgree(e.het, e.bet, xx)
  /\ slotsok
  /\ e.bet.nfiles >= Cardinality(DOMAIN vwant)
T_RefTables ==
  /\ Ev.ev = "RefTables" /\ vphase = "open" /\ vdir = 1
  /\ IF TablesP(Ev, XStd, Ev.slots.std) THEN TRUE
     ELSE IF TablesP(Ev, XLib, Ev.slots.lib) THEN Bad("dev:libhetbet") ELSE Bad("unexplained")
  /\ (IF Ev.het.res = "ok" /\ Ev.het.tsize \notin {Ev.hetext.dsize} THEN PrintT(<<"DRIFT", tl, "HET table_size counts the extended header">>) ELSE TRUE)
  /\ UNCHANGED <<vphase, vdir, vcfg, vwant, vtwin, vseen>>

\* one decoded variant gives the file back: every sector has its expected plain length, the
\* concatenation has the token and length of what was added
\* ... and the sector checksums, where present and readable, verify
Gives(v, want) == /\ v.res = "ok" /\ v.len = want.len /\ v.tok = want.tok /\ v.plens = v.wants
                  /\ v.crc \in {"none", "ok", "unverified"}
RefFileP(e) ==
  /\ e.name \in DOMAIN vwant
  /\ Gives(e.std, vwant[e.name])
  /\ e.fsize = vwant[e.name].len
  /\ e.rawsame \in {"n/a", "same"}
  /\ e.locale = 0 /\ e.platform = 0             \* files were added with the neutral locale
\* the smallest combination of named deviations under which the reference gets the file back exactly
MinOf(st) == CHOOSE mi \in st : \A m2 \in st : mi <= m2
RefFileExpl(e) == IF e.name \notin DOMAIN vwant THEN {}
                  ELSE {di \in 1..Len(e.devs) : /\ Gives(e.devs[di].v, vwant[e.name]) /\ e.devs[di].rawsame \in {"n/a", "same"}
                                                  /\ e.fsize = vwant[e.name].len /\ e.locale = 0 /\ e.platform = 0}
T_RefFile ==
  /\ Ev.ev = "RefFile" /\ vphase = "open" /\ vdir = 1
  /\ IF RefFileP(Ev) THEN TRUE
     ELSE IF RefFileExpl(Ev) # {} THEN Bad("dev:" \o Ev.devs[MinOf(RefFileExpl(Ev))].labels) ELSE Bad("unexplained")
  /\ vseen' = vseen \cup {Ev.name}
  /\ UNCHANGED <<vphase, vdir, vcfg, vwant, vtwin>>

\* a file the library was asked to add under a NON-neutral locale (possibly next to a neutral file of the same
\* name): the reference looks it up by (name, locale); the hash entry must carry exactly that locale, platform 0,
\* and the content put in under that locale
T_RefLocFile ==
  /\ Ev.ev = "RefLocFile" /\ vphase = "open" /\ vdir = 1
  /\ IF /\ Gives(Ev.std, Ev.want) /\ Ev.fsize = Ev.want.len /\ Ev.rawsame \in {"n/a", "same"}
        /\ Ev.locale # 0 /\ Ev.entlocale = Ev.locale /\ Ev.entplatform = 0
     THEN TRUE ELSE Bad("unexplained")
  /\ UNCHANGED <<vphase, vdir, vcfg, vwant, vtwin, vseen>>

\* the same file looked up through the HET/BET tables (HET probe, BET hash verification, BET entry): must give the same content
XKey(nm) == "X:" \o nm
T_RefFileX ==
  /\ Ev.ev = "RefFileX" /\ vphase = "open" /\ vdir = 1
  /\ IF Ev.name \in DOMAIN vwant /\ Gives(Ev.std, vwant[Ev.name]) /\ Ev.stdraw \in {"n/a", "same"} THEN TRUE
     ELSE IF Ev.name \in DOMAIN vwant /\ Gives(Ev.lib, vwant[Ev.name]) /\ Ev.libraw \in {"n/a", "same"} THEN Bad("dev:libhetbet")
     ELSE Bad("unexplained")
  /\ vseen' = vseen \cup {XKey(Ev.name)}
  /\ UNCHANGED <<vphase, vdir, vcfg, vwant, vtwin>>
T_RefAbsentX ==
  /\ Ev.ev = "RefAbsentX" /\ vphase = "open" /\ vdir = 1
  /\ IF Ev.name \notin DOMAIN vwant /\ Ev.std = "notfound" THEN TRUE
     ELSE IF Ev.name \notin DOMAIN vwant /\ Ev.lib = "notfound" THEN Bad("dev:libhetbet")
     ELSE Bad("unexplained")
  /\ UNCHANGED <<vphase, vdir, vcfg, vwant, vtwin, vseen>>

T_RefAbsent ==
  /\ Ev.ev = "RefAbsent" /\ vphase = "open" /\ vdir = 1
  /\ IF Ev.name \notin DOMAIN vwant /\ Ev.res = "notfound" THEN TRUE ELSE Bad("unexplained")
  /\ UNCHANGED <<vphase, vdir, vcfg, vwant, vtwin, vseen>>

\* the (listfile) decoded by the reference names exactly the files put in (plus itself)
T_RefList ==
  /\ Ev.ev = "RefList" /\ vphase = "open" /\ vdir = 1
  /\ IF Ev.res = "ok" /\ SeqSet(Ev.names) = DOMAIN vwant \cup {ListfileName} \cup SeqSet(Ev.locnames) THEN TRUE ELSE Bad("unexplained")
  /\ UNCHANGED <<vphase, vdir, vcfg, vwant, vtwin, vseen>>

\* ---------------------------------------------------------------------------------------------
\* direction 2
\* ---------------------------------------------------------------------------------------------
\* a V4 archive: the library's own digest check (get_info().md5_status) accepts every digest the reference put in
Md5P(m) == m.res = "ok" /\ m.header /\ (vcfg.hetbet => m.het /\ m.bet) /\ (vcfg.classic => m.hash /\ m.block /\ m.hiblock)
T_Open ==
  /\ Ev.ev = "Open" /\ vphase = "reset" /\ vdir = 2
  /\ IF Ev.std = "ok" /\ (vcfg.ver = 3 => Md5P(Ev.md5)) THEN vphase' = "open"
     ELSE IF Ev.std = "ok" THEN Bad("md5") /\ vphase' = "open"
     ELSE IF vcfg.hetbet /\ Len(Ev.vars) >= 1 /\ Ev.vars[1] = "ok" THEN Bad("dev:libhetbet") /\ vphase' = "closed"
     \* named deviation `needsclassic`: an archive whose HET/BET tables replace the classic hash table (hash_table_count = 0) is refused
     ELSE IF vcfg.hetbet /\ ~vcfg.classic /\ Ev.std = "err:InvalidFormat" THEN Bad("dev:needsclassic") /\ vphase' = "closed"
     ELSE Bad("unexplained") /\ vphase' = "closed"
  /\ (IF vcfg.hetbet /\ Ev.std = "ok" /\ ~(Ev.tables.het /\ Ev.tables.bet) THEN PrintT(<<"DRIFT", tl, "HET/BET not loaded">>) ELSE TRUE)
  /\ UNCHANGED <<vdir, vcfg, vwant, vtwin, vseen>>

AllSpellings(v, want) ==
  \A qi \in 1..Len(v.res) : v.res[qi] = "ok" /\ v.len[qi] = want.len /\ v.tok[qi] = want.tok
ReadExpl(e) == IF e.name \notin DOMAIN vwant THEN {}
               ELSE {di \in 1..Len(e.devs) : Len(e.devs[di].r.res) = 4 /\ AllSpellings(e.devs[di].r, vwant[e.name])}
T_Read ==
  /\ Ev.ev = "Read" /\ vphase \in {"open", "listed"} /\ vdir = 2
  /\ IF Ev.name \in DOMAIN vwant /\ Len(Ev.std.res) = 4 /\ AllSpellings(Ev.std, vwant[Ev.name]) THEN TRUE
     ELSE IF ReadExpl(Ev) # {} THEN Bad("dev:" \o Ev.devs[MinOf(ReadExpl(Ev))].labels)
     \* named deviation `localefirst`: the first same-name entry of the probe chain is returned whatever its locale
     ELSE IF Ev.name = vtwin.name /\ Len(Ev.std.res) = 4 /\ AllSpellings(Ev.std, vtwin) THEN Bad("dev:localefirst")
     ELSE Bad("unexplained")
  /\ vseen' = vseen \cup {Ev.name}
  /\ UNCHANGED <<vphase, vdir, vcfg, vwant, vtwin>>

T_Absent ==
  /\ Ev.ev = "Absent" /\ vphase \in {"open", "listed"} /\ vdir = 2
  /\ IF Ev.name \notin DOMAIN vwant /\ \A qi \in 1..Len(Ev.std.res) : Ev.std.res[qi] = "notfound" THEN TRUE
     ELSE Bad("unexplained")
  /\ UNCHANGED <<vphase, vdir, vcfg, vwant, vtwin, vseen>>

\* listing through the reference-written (listfile): the names put in, with their sizes
ListP(v) ==
  /\ v.res = "ok"
  /\ SeqSet(v.names) = DOMAIN vwant
  /\ \A qi \in 1..Len(v.names) : v.names[qi] \in DOMAIN vwant => v.sizes[qi] = vwant[v.names[qi]].len
ListPT(v) ==        \* ... with the size of the localized twin reported for its name
  /\ v.res = "ok" /\ SeqSet(v.names) = DOMAIN vwant
  /\ \A qi \in 1..Len(v.names) : v.names[qi] \in DOMAIN vwant =>
        v.sizes[qi] = (IF v.names[qi] = vtwin.name THEN vtwin.len ELSE vwant[v.names[qi]].len)
T_List ==
  /\ Ev.ev = "List" /\ vphase = "open" /\ vdir = 2
  /\ IF ListP(Ev.std) THEN TRUE
     ELSE IF vtwin.name # "" /\ ListPT(Ev.std) THEN Bad("dev:localefirst")
     ELSE IF vcfg.hetbet /\ Len(Ev.vars) >= 1 /\ ListP(Ev.vars[1]) THEN Bad("dev:libhetbet")
     ELSE Bad("unexplained")
  /\ vphase' = "listed"
  /\ UNCHANGED <<vdir, vcfg, vwant, vtwin, vseen>>

\* ---------------------------------------------------------------------------------------------
\* every file of the archive was compared (no silent skipping); in a closed behaviour nothing is due
T_Done ==
  /\ Ev.ev = "Done" /\ vphase \in {"open", "listed", "closed"}
  /\ IF vphase = "closed" \/ vseen = DOMAIN vwant \cup (IF vdir = 1 /\ vcfg.hetbet THEN {XKey(nm) : nm \in DOMAIN vwant} ELSE {}) THEN TRUE
     ELSE Bad("unexplained")
  /\ vphase' = "idle"
  /\ UNCHANGED <<vdir, vcfg, vwant, vtwin, vseen>>

\* events after an early end of the behaviour are consumed without meaning
T_Skip ==
  /\ vphase = "closed" /\ Ev.ev \notin {"Reset", "Done"}
  /\ UNCHANGED <<vphase, vdir, vcfg, vwant, vtwin, vseen>>

Init == tl = 1 /\ vphase = "idle" /\ vdir = 0 /\ vcfg = [ver |-> -1, shift |-> -1, hetbet |-> FALSE, classic |-> TRUE] /\ vwant = <<>> /\ vseen = {}
        /\ vtwin = [name |-> "", len |-> -1, tok |-> ""]
Next == /\ tl <= Len(Rec)
        /\ tl' = tl + 1
        /\ \/ T_Reset \/ T_Build \/ T_RefOpen \/ T_RefTables \/ T_RefFile \/ T_RefFileX \/ T_RefAbsentX \/ T_RefLocFile \/ T_RefAbsent \/ T_RefList
           \/ T_Open \/ T_Read \/ T_Absent \/ T_List \/ T_Done \/ T_Skip

Accepted == LET d == TLCGet("stats").diameter IN
            IF d - 1 = Len(Rec) THEN PrintT(<<"CONSUMED", Len(Rec)>>) ELSE Print(<<"TRACE_STUCK_AT", d>>, FALSE)
=============================================================================
