CONSTANTS
  DevWrapRecord = FALSE
  DevMulOverflow = FALSE
  DevAMonZero = FALSE
INIT Init
NEXT Next
POSTCONDITION Accepted
CHECK_DEADLOCK FALSE
