------------------------ MODULE Trace_BoundedReader ------------------------
(* Stage (D) for C05: the recorded behaviour of the real parsers on the inputs of the fault plan.  *)
(*                                                                                                 *)
(* A trace is   Reset{format, seed, len, baseline}  Input*   -- all inputs derived from one seed    *)
(* file.  Every Input event is one call of one public entry point on one mutated input, executed   *)
(* in a crash-isolated child; it carries the outcome class observed by the parent (ok | err |      *)
(* panic | abort | stackoverflow | timeout | hugealloc), the largest single allocation request and *)
(* the peak live memory measured by the counting allocator (KiB), and the input length.            *)
(*                                                                                                 *)
(* P-conjuncts (BoundedReader's property at implementation scale):                                 *)
(*   OutcomeTotal  : outcome \in TotalOutcomes = {"ok", "err"}                                     *)
(*   AllocBounded  : alloc <= AllocLimitKiB(len)  (64 * input + 64 MiB, one request)               *)
(*                   peak  <= PeakLimitKiB(len)   (64 * input + 256 MiB, live at any time)         *)
(* Everything else (error variant, which plan item, baseline of the seed) is diagnostic.           *)
EXTENDS BoundedReader, Json, IOUtils, TLCExt

Rec == ndJsonDeserialize(IOEnv.TRACE)

VARIABLES tl,      \* position in the trace
          tseed    \* the seed file of the current trace: [format, seed, len]
tvars == <<tl, tseed>>

Formats == {"mpq", "ptch", "m2", "skin", "anim", "adt", "wmo", "blp", "dbc", "wdt", "wdl"}
PlanArchs == Archetypes \cup {"prefix", "chunkedit", "pair", "resize", "havoc", "base"}
PeakLimitKiB(lenBytes) == 64 * ((lenBytes + 1023) \div 1024) + 262144

WellFormed(e) == /\ e.outcome \in Vocabulary
                 /\ e.arch \in PlanArchs
                 /\ e.arch \in Archetypes => e.role \in Roles[e.arch]
                 /\ e.alloc >= 0 /\ e.peak >= 0 /\ e.len >= 0

\* D-conjunct (harness conformance, DRIFT only): the value written into the field is the value the plan's
\* boundary symbol denotes for this field (Conc of BoundedReader, re-computed here from the logged len, rem,
\* orig, width and unit); a prefix input is a proper prefix whose length is what its class says.
PlanValueOk(e) ==
  CASE e.arch = "token" -> e.cv = L4(RepCount(e.val, e.rem)) /\ e.len = e.slen      \* rem carries the marker's `max`
    [] e.arch \in {"chunk", "array", "string"} /\ e.role # "tag" ->
         e.cv = Mask4(Conc(e.val, e.slen, e.rem, e.orig, e.w, e.unit), e.w) /\ e.cv # e.orig /\ e.len = e.slen
    [] e.arch = "prefix" ->
         /\ e.len < e.slen /\ e.cv = L4(e.len)
         /\ CASE e.val = "len-1" -> e.len = e.slen - 1 [] e.val = "len-2" -> e.len = e.slen - 2
              [] e.val = "len-4" -> e.len = e.slen - 4 [] e.val = "half" -> e.len = e.slen \div 2
              [] OTHER -> TRUE
    [] e.arch = "base" -> e.len = e.slen
    [] OTHER -> TRUE
PlanValueNote(e) == IF PlanValueOk(e) THEN TRUE
                    ELSE PrintT(<<"DRIFT", tl, "not the plan value">>)     \* keep TLC's rendering on one line

OutcomeOk(e) == e.outcome \in TotalOutcomes
AllocOk(e)   == e.alloc <= AllocLimitKiB(e.len) /\ e.peak <= PeakLimitKiB(e.len)

\* the unmutated seed file must itself be accepted, otherwise the mutations stay shallow
BaselineNote(e) == IF \A i \in 1..Len(e.baseline) : e.baseline[i][2] = "ok" THEN TRUE
                   ELSE PrintT(<<"DRIFT", tl, "seed baseline not ok">>)

T_Reset == LET e == Rec[tl] IN
  /\ e.ev = "Reset"
  /\ e.format \in Formats
  /\ BaselineNote(e)
  /\ tseed' = [format |-> e.format, seed |-> e.seed, len |-> e.len]

T_Input == LET e == Rec[tl] IN
  /\ e.ev = "Input"
  /\ e.format = tseed.format /\ e.seed = tseed.seed        \* the event belongs to this trace
  /\ Assert(WellFormed(e), <<"malformed Input event", tl, e>>)
  /\ e.slen = tseed.len
  /\ PlanValueNote(e)
  /\ IF OutcomeOk(e)
       THEN IF AllocOk(e) THEN TRUE ELSE PrintT(<<"BAD", tl, "hugealloc">>)
       ELSE PrintT(<<"BAD", tl, e.outcome>>)
  /\ UNCHANGED tseed

TInit == /\ tl = 1 /\ tseed = [format |-> "-", seed |-> "-", len |-> 0]
         /\ Init /\ vflen = 0 /\ varch = "chunk"            \* the model's variables are not used here
TNext == /\ tl <= Len(Rec)
         /\ tl' = tl + 1
         /\ (T_Reset \/ T_Input)
         /\ UNCHANGED vars

Accepted == LET d == TLCGet("stats").diameter IN
            IF d - 1 = Len(Rec) THEN PrintT(<<"CONSUMED", Len(Rec)>>) ELSE Print(<<"TRACE_STUCK_AT", d>>, FALSE)
=============================================================================
