"""C08 -- patch chain returns the highest-priority version whatever the history; patches only MD5-verified."""
import json
import re

from vlib import core

META = {
    "disabled": False,
    "level": "model_checking",
    "level_text": "PatchChain.tla models the chain of patch_chain.rs (ordered insert with the code's tie rule, set_priority = remove + "
                  "re-insert, remove, clear, both parallel constructors, the or_insert map rebuild, patch-entry resolution) and states C08 "
                  "declaratively (Winner / PropRead / union); TLC checks Sorted, StableAmongEquals, MapIsWinner, ReadIsProp, ListIsUnion, "
                  "sequential = parallel construction on every chain of <= 3 entries without (thorough: <= 4 with) duplicate archives over 4 archives + a missing file, priorities {-1,0,5}; the three former deviations of the code are refuted on witness chains. "
                  "PatchChainInd.tla states the chain order (Sorted, StableAmongEquals, ranks a permutation) as an INDUCTIVE invariant over the same actions with "
                  "arbitrary integer priorities and archive ids, chains of <= 4 entries and histories of any length; Apalache discharges Init => IndInv, "
                  "IndInv => WinnerIsFirst, refutes the tie-goes-to-the-newcomer deviation (quick) and discharges IndInv /\\ Next => IndInv' (thorough). "
                  "Ptch.tla is a reference semantics of PTCH/COPY/BSD0 (signed seek, strict sizes) model-checked against a closed form; its RLE layer is "
                  "stated over the whole control-byte space 0x00..0xFF (RunLen, canonical RleEncode, decode o encode = id for one run per control byte and for over-long runs). "
                  "Contents carry one distinguished id, the content of length zero (EmptyC): an empty file is a version (winner, base, patch result); the deviation "
                  "'empty = not found' (d4) is refuted on witness chains. "
                  "TLC then enumerates every transition (state x operation) of the chain model and patch plans (shape x mutation); the driver "
                  "replays them on a real wow_mpq::PatchChain over real .mpq files and on apply_patch; TLC validates every recorded answer.",
    "level_note": "Trusted: TLC; SHA-1/MD5 digests computed by the driver as opaque tokens; the driver's PTCH *encoder* (every applied file is "
                  "re-evaluated from its bytes by Ptch.tla; Gen_Ptch certifies that the run plans use every RLE control byte, Trace_Ptch reports a non-canonical RLE stream as DRIFT). Histories are bounded (all transitions of the <= 2/3-entry model + random walks); "
                  "archives are V1..V4 (one each) with 4 KiB / 16 KiB sectors, listfile present; patch entries stored raw, single-unit compressed and sectored.",
    "technique": "TLA+ state machine + reference semantics; TLC model checking, Apalache inductive invariant for the chain order, TLC-generated histories / patch plans, TLC trace validation",
    "design_ref": "DESIGN.md section 5, C08",
    "crates": ["c08"],
}

TAG = re.compile(r'"([^"]+)"')


def expand(bad, part):
    """one rejected event may carry several tags (one per name / conjunct): one bad item per tag"""
    out = []
    for b in bad:
        tags = TAG.findall(b.get("why") or "") or ["unexplained"]
        for t in tags:
            nb = dict(b)
            nb["part"] = part
            nb["tag"] = t
            out.append(nb)
    return out


def sig(b):
    t = b["tag"]
    s = {"part": b["part"]}
    if b["part"] == "chain":
        # "read:d3:p2" -> conjunct "read:d3"; the operation kind that exposed it is not part of the class
        ps = t.split(":")
        s["tag"] = ":".join(ps[:2]) if ps[0] == "read" else t
        s["name"] = ps[2] if len(ps) > 2 else ""
    else:
        rec = b.get("rec") or {}
        s["tag"] = t.split(":")[0] if t.startswith("crash") else t
        s["shape"] = "copy" if rec.get("shape") == "copy" else "bsd0"
        if t.startswith("crash"):
            s["mut"] = (rec.get("mut") or {}).get("k")
            s["msg"] = rec.get("resv", "")
    return s


def gen_cases(ctx, only=None):
    th = ctx.thorough
    # every transition of the model with <= 2 (thorough: 3) entries, an archive may be in the chain twice:
    # 10 476 / 121 068 histories
    env = {"GEN_MAXLEN": 3 if th else 2, "GEN_DUPS": 1, "GEN_WALK": 0}
    cases, n = ctx.gen("Gen_PatchChain", env=env, timeout=900, heap="6g")
    # long random histories (duplicates allowed), deterministic in VERIF_SEED
    depth, num = (30, 400) if th else (14, 60)
    rc, text = ctx.tlc("Gen_PatchChain", "Gen_PatchChainWalk", env={"GEN_MAXLEN": 4, "GEN_DUPS": 1, "GEN_WALK": depth},
                       simulate=f"num={num}", extra=("-seed", str(ctx.seed)), timeout=600, tag="gen-walk")
    walks = 0
    with open(cases, "a") as f:
        for line in text.splitlines():
            if line.startswith('"CASE '):
                c = json.loads(json.loads(line)[5:])
                if c.get("kind") == "walk":
                    f.write(json.dumps(c) + "\n")
                    walks += 1
    if walks == 0:
        raise core.ToolError("stage B: no random walks generated:\n" + text[-800:])
    core.log(f"(B) Gen_PatchChain walks: {walks} x depth {depth}")
    plans, npl = ctx.gen("Gen_Ptch", cases_name="plans.ndjson")
    return cases, n + walks, plans, npl


def run(ctx, cases=None, plans=None):
    ctx.mc("MC_PatchChain", cfg="MC_PatchChain_deep" if ctx.thorough else "MC_PatchChain", timeout=1500)
    ctx.mc("MC_Ptch", timeout=600)
    ctx.mc("MC_Ptch", cfg="MC_Ptch_sat", timeout=600)
    # (A') symbolic, unbounded in history length and priorities: the chain order as an inductive invariant (Apalache)
    ctx.apalache("PatchChainInd", "IndInv", init="Init", length=0, cinit="ConstInit", timeout=600)
    ctx.apalache("PatchChainInd", "WinnerIsFirst", init="IndInit", length=0, cinit="ConstInit", timeout=600)
    ctx.apalache("PatchChainInd", "IndInv", init="IndInit", next_="NextDev", length=1, cinit="ConstInit", timeout=900, expect="cex")
    if ctx.thorough:
        ctx.apalache("PatchChainInd", "IndInv", init="IndInit", length=1, cinit="ConstInit", timeout=3600)
    if cases is None and plans is None:
        cases, ncases, plans, nplans = gen_cases(ctx)
    else:
        ncases = sum(1 for _ in open(cases)) if cases else 0
        nplans = sum(1 for _ in open(plans)) if plans else 0
    binary = ctx.build("c08")
    bad = []
    res1 = {"events": 0, "traces": 0}
    res2 = {"events": 0, "traces": 0}
    samples = []
    trace = None
    if cases:
        trace = ctx.harness(binary, cases, trace_name="trace.ndjson")
        res1 = ctx.validate("Trace_PatchChain", trace)
        bad += expand(res1["bad"], "chain")
        with open(trace) as f:
            for i, line in enumerate(f):
                if i == 0:
                    ctx.notes.append(f"verif_yield schedule perturbation active in the parallel constructors: {json.loads(line).get('hook')}")
                if i in (1, 2, 3):
                    r = json.loads(line)
                    samples.append({k: r[k] for k in ("ev", "case", "op", "a", "p", "res", "chain") if k in r})
    if plans:
        ptrace = ctx.harness(binary, plans, trace_name="ptrace.ndjson", extra=("plans",))
        res2 = ctx.validate("Trace_Ptch", ptrace, shards=8)
        bad += expand(res2["bad"], "ptch")
        with open(ptrace) as f:
            for i, line in enumerate(f):
                if i == 1:
                    r = json.loads(line)
                    samples.append({k: r[k] for k in ("ev", "case", "shape", "mut", "stage", "res", "resv") if k in r})
    drift = {}
    for d in ctx.drift:
        drift[d["what"]] = drift.get(d["what"], 0) + 1
    ctx.drift = [{"what": k, "count": v} for k, v in sorted(drift.items())]
    cov = {
        "traces_validated_against_impl": res1["traces"] + res2["traces"],
        "samples": samples,
        "evaluations": res1["events"] + res2["events"],
        "histories_replayed": ncases - 1 if cases else 0,
        "patch_plans_applied": nplans,
        "distinct_nontrivial": max(ncases - 1, 0) + nplans,
        "rule": "one case = one (reachable chain state, operation) pair of the model or one random walk or one patch plan (shape x content class x mutation); "
                "all are distinct by construction (TLC set enumeration); every case has >= 1 archive operation or a non-empty patch file",
        "exhaustive": False,
    }
    assumptions = ["archives carry a (listfile): the chain's map is built from Archive::list()",
                   "MD5/SHA-1 are collision free on the contents used",
                   "block tables of the world archives are stored uncompressed (the driver sets PATCH / COMPRESS / SINGLE_UNIT flags by re-encrypting them)"]
    return core.finish(ctx, "model_checking", cov, assumptions, bad, sig_fn=sig, trace=trace)


def replay(ctx, payload):
    idx = int(str(payload.get("case", "0")).split(":")[0])
    cases, _, plans, _ = gen_cases(ctx)
    if (payload.get("sig") or {}).get("part") == "ptch":
        lines = open(plans).read().splitlines()
        sel = ctx.path("replay-plans.ndjson")
        with open(sel, "w") as f:
            # the driver derives the rng stream from the case index: keep positions stable
            for i, l in enumerate(lines[:idx + 1]):
                f.write((l if i == idx else json.dumps({"kind": "skip"})) + "\n")
        return run(ctx, cases=None, plans=sel)
    lines = open(cases).read().splitlines()
    sel = ctx.path("replay-cases.ndjson")
    with open(sel, "w") as f:
        for i, l in enumerate(lines[:idx + 1]):
            f.write((l if i == idx or json.loads(l).get("kind") == "world" else json.dumps({"kind": "skip"})) + "\n")
    return run(ctx, cases=sel, plans=None)
