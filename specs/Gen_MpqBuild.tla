---------------------------- MODULE Gen_MpqBuild ----------------------------
(* Stage (B) for C01: TLC enumerates archive configurations.  Every archive carries the same abstract    *)
(* file set (7 length classes relative to the sector size x 4 compressibility classes, 3 names sharing   *)
(* a home slot, 2 absent names colliding with present ones); bytes and names are concretised by the      *)
(* driver from VERIF_SEED.  quick is a filter of the same set expression as thorough plus seed-rotated   *)
(* draws from the full product.                                                                          *)
EXTENDS Integers, Sequences, FiniteSets, SequencesExt, Json, IOUtils, TLC

Thorough == IOEnv.VERIF_TIER = "thorough"
SeedN    == atoi(IOEnv.VERIF_SEED)

Versions == 1..4
Shifts   == 0..8
\* none, zlib, pkware, bzip2, sparse, lzma, ADPCM mono / stereo alone and with zlib / bzip2 / pkware
Methods  == {0, 2, 8, 16, 32, 18, 64, 128, 66, 144, 130, 72}
Encs     == {"plain", "enc", "encfix"}
Attrs    == {"none", "crc32", "full"}

Base == [ver |-> 1, shift |-> 3, method |-> 2, enc |-> "plain", crc |-> FALSE, attrs |-> "none",
         listfile |-> TRUE, tablecomp |-> FALSE]

Full == {[ver |-> v, shift |-> sh, method |-> m, enc |-> en, crc |-> cr, attrs |-> at, listfile |-> lf, tablecomp |-> tc] :
           v \in Versions, sh \in Shifts, m \in Methods, en \in Encs, cr \in BOOLEAN, at \in Attrs,
           lf \in BOOLEAN, tc \in BOOLEAN}

Diff(c) == Cardinality({d \in {"method", "enc", "crc", "attrs", "listfile", "tablecomp"} : c[d] # Base[d]})
\* quick: shift in {0,3,8} x (base configuration for every version; one other dimension changed for V1 and V4)
InQuick(c) == c.shift \in {0, 3, 8} /\ Diff(c) <= 1 /\ (c.ver \in {1, 4} \/ Diff(c) = 0)
\* thorough: the full product of six of the eight dimensions (version x shift x method x enc x crc x attrs = 7 776
\* configurations); the pair (listfile, tablecomp) rotates through its four combinations with the coordinate sum +
\* VERIF_SEED, so that four runs with consecutive seeds enumerate the whole product of the property's quantifier
\* (31 104 configurations).  (The half product per run was measured: 15 552 archives = 589 139 events took 29 min in
\* the driver alone on the shared machine at load ~200 -- over the 30 min budget.)
Idx(c) == c.ver + c.shift + c.method + (CASE c.enc = "plain" -> 0 [] c.enc = "enc" -> 1 [] OTHER -> 2)
          + (IF c.crc THEN 1 ELSE 0) + (CASE c.attrs = "none" -> 0 [] c.attrs = "crc32" -> 1 [] OTHER -> 2)
Pair(c) == (IF c.listfile THEN 2 ELSE 0) + (IF c.tablecomp THEN 1 ELSE 0)
ThoroughSet == {c \in Full : Pair(c) = (Idx(c) + SeedN) % 4}
\* seed-rotated draws from the full product
FullSeq == SetToSeq(Full)
Draws(n) == {FullSeq[((((SeedN % 10007) * 7919) + (j * 104729)) % Len(FullSeq)) + 1] : j \in 1..n}

InQuickAllVersions(c) == c.shift \in {0, 3, 8} /\ Diff(c) <= 1
\* "table" cases (both tiers): V3/V4 x table compression x 1..40 small files, so that the lengths of the HET, BET, hash
\* and block tables (and of their compressed forms) run through every residue mod 4 -- the cipher treats the last
\* len mod 4 bytes of a table differently from the full words
TableCases == {[ver |-> v, shift |-> 3, method |-> 2, enc |-> "plain", crc |-> FALSE,
                attrs |-> IF n % 2 = 0 THEN "none" ELSE "crc32", listfile |-> (n % 3 # 0),
                tablecomp |-> tc, nfiles |-> n] : v \in {3, 4}, tc \in BOOLEAN, n \in 1..40}

CaseSet0 == IF Thorough THEN ThoroughSet \cup {c \in Full : InQuickAllVersions(c)} \cup Draws(100)
           ELSE {c \in Full : InQuick(c)} \cup Draws(24)
ASSUME CaseSet0 \subseteq Full
Cases == SetToSeq(CaseSet0) \o SetToSeq(TableCases)
ASSUME ndJsonSerialize(IOEnv.CASES, Cases)
ASSUME PrintT(<<"GENERATED", Len(Cases), "of", Cardinality(Full)>>)
=============================================================================
