---------------------------- MODULE Gen_Integrity ----------------------------
(* Stage (B) for C10: TLC enumerates the archive configurations (IntegrityDefs!Cfgs) and the fault  *)
(* plan for each: which mutation kinds are applied at which byte offsets.  The harness builds   *)
(* one real archive (1.5-3 KB) per configuration and applies every planned alteration.          *)
(*   byte mutations:  flip0 (xor 01), flip7 (xor 80), set00, setff  at every stride-th offset    *)
(*   multi-byte:      zero4 (4 bytes := 0) at every 4*stride-th offset, swap (two sectors of the *)
(*                    multi-sector file exchange their stored bytes)                             *)
(* quick: a covering subset of the configurations (every value of every dimension, every pair    *)
(* crc x attrs, all four versions, signed), every offset, ONE rotating mutation kind per offset  *)
(* (kind = (offset + seed) mod 4); thorough: all 108 configurations, every offset x two kinds    *)
(* (flip0+set00 or flip7+setff, alternating with the offset);                                    *)
(* plus "sigbytes" cases: generate_weak_signature over random byte strings and every bit flip.   *)
EXTENDS IntegrityDefs, Json, IOUtils, SequencesExt

Thorough == IOEnv.VERIF_TIER = "thorough"
SeedN == atoi(IOEnv.VERIF_SEED)

\* quick subset: all versions x (crc, attrs) pairs with enc/comp derived so that each value occurs
QuickCfgs ==
    {c \in Cfgs : /\ ~c.signed
                  /\ c.enc  = ((c.ver + (IF c.crc THEN 1 ELSE 0)) % 2 = 0)
                  /\ c.comp = ((c.ver + (IF c.attrs = "none" THEN 0 ELSE IF c.attrs = "crc32" THEN 1 ELSE 2)) % 2 = 1)
                  /\ (c.ver \in {2, 3} => (c.crc /\ c.attrs = "none") \/ (~c.crc /\ c.attrs = "full"))}
    \cup {c \in Cfgs : c.signed /\ c.attrs = "none" /\ ~c.enc /\ c.comp}

Chosen == IF Thorough THEN Cfgs ELSE QuickCfgs

ArchiveCase(c) ==
    [kind |-> "archive", ver |-> c.ver, crc |-> c.crc, attrs |-> c.attrs, enc |-> c.enc, comp |-> c.comp,
     signed |-> c.signed,
     mkinds |-> <<"flip0", "flip7", "set00", "setff">>,
     perbyte |-> IF Thorough THEN 2 ELSE 1,   \* how many of the four kinds per offset (rotating with offset + seed)
     stride |-> 1,
     zero4 |-> TRUE, swap |-> TRUE, big |-> 0, sweep |-> "all", prefix |-> 0, session |-> FALSE]

\* archive placement: the same sweep over a signed V1 archive / a V4 archive that starts behind a 512- or 1024-byte prefix
\* ("signed range / digests = the whole archive wherever it starts")
Placed(c, at) == [ArchiveCase(c) EXCEPT !.prefix = at]
\* the full alteration sweep over archives that went through an in-place session
SessionCases ==
    {[ArchiveCase([ver |-> 2, crc |-> FALSE, attrs |-> "full", enc |-> FALSE, comp |-> TRUE, signed |-> FALSE]) EXCEPT !.session = TRUE],
     [ArchiveCase([ver |-> 4, crc |-> TRUE, attrs |-> "crc32", enc |-> FALSE, comp |-> FALSE, signed |-> FALSE]) EXCEPT !.session = TRUE]}
PlacedCases ==
    {Placed([ver |-> 1, crc |-> FALSE, attrs |-> "none", enc |-> FALSE, comp |-> TRUE, signed |-> TRUE], at) : at \in {512, 1024}}
    \cup {Placed([ver |-> 4, crc |-> FALSE, attrs |-> "none", enc |-> FALSE, comp |-> FALSE, signed |-> FALSE], 512)}

\* signed archives larger than one 64 KiB digest unit whose (signature) entry starts k bytes before the unit boundary
\* (k = 1, 36, 71: straddling; 300: inside the first unit); only the neighbourhood of the entry is altered, all kinds
BigSigned(k) ==
    [kind |-> "archive", ver |-> 1, crc |-> FALSE, attrs |-> "none", enc |-> FALSE, comp |-> TRUE, signed |-> TRUE,
     mkinds |-> <<"flip0", "flip7", "set00", "setff">>, perbyte |-> 4, stride |-> 1,
     zero4 |-> TRUE, swap |-> FALSE, big |-> k, sweep |-> "around_sig", prefix |-> 0, session |-> FALSE]
BigCases == {BigSigned(k) : k \in {1, 36, 71, 300}}

\* intact => verifies, for tables around / above the 0x4000-byte raw chunk (block table = 16 bytes per file)
IntactBase == [kind |-> "intact_only", ver |-> 4, attrs |-> "none", crc |-> FALSE, enc |-> FALSE, comp |-> FALSE,
               ctables |-> FALSE, lens |-> FALSE, prefix |-> 0, nfiles |-> 1, nsess |-> 0, skind |-> "none", listfile |-> TRUE]
IntactCases ==
    \* (1) tables around / above the 0x4000-byte raw chunk (block table = 16 bytes per file)
    {[IntactBase EXCEPT !.nfiles = n] : n \in {1022, 1023, 1024, 1025, 1100, 2049}}
    \cup {[IntactBase EXCEPT !.attrs = "full", !.crc = TRUE, !.nfiles = 1100],
          [IntactBase EXCEPT !.ver = 2, !.attrs = "crc32", !.crc = TRUE, !.nfiles = 1025]}
    \* (2) HET/BET tables: compress_tables on/off x file counts where the tables do / do not shrink, V3 and V4,
    \*     at offset 0 and behind a prefix: every digest valid, every table loaded
    \cup {[IntactBase EXCEPT !.ver = v, !.ctables = ct, !.nfiles = n, !.prefix = at]
            : v \in {3, 4}, ct \in BOOLEAN, n \in {1, 4, 23, 60, 150}, at \in {0}}
    \cup {[IntactBase EXCEPT !.ver = 4, !.ctables = ct, !.nfiles = n, !.prefix = at, !.attrs = "full", !.crc = TRUE]
            : ct \in BOOLEAN, n \in {4, 60}, at \in {512, 1024}}
    \* (3) content-length classes (EMPTY, 1, 2, sector-1, sector, sector+1, ...) in every attributes configuration:
    \*     every file reads back and passes SFileVerifyFile SECTOR_CRC / FILE_CRC / FILE_MD5
    \cup {[IntactBase EXCEPT !.ver = v, !.attrs = a, !.crc = cr, !.enc = ec, !.comp = ec, !.lens = TRUE, !.nfiles = 2]
            : v \in 1..4, a \in {"none", "crc32", "full"}, cr \in BOOLEAN, ec \in BOOLEAN}
    \* (4) archives that went through 1, 2 or 3 separate in-place MutableArchive sessions (close / reopen between), each
    \*     session of one kind (add-only, replace-only, remove-only, rename-only, mixed), with and without a (listfile),
    \*     attributes none / crc32 / full, V1..V4: after EVERY session every detector passes for every file and every
    \*     version-4 digest is valid
    \cup {[IntactBase EXCEPT !.ver = v, !.attrs = a, !.crc = (a # "none"), !.lens = TRUE, !.nfiles = 2,
                             !.nsess = n, !.skind = k, !.listfile = lf]
            : v \in 1..4, a \in {"none", "crc32", "full"}, n \in 1..3,
              k \in {"add", "replace", "remove", "rename", "mixed"}, lf \in BOOLEAN}
    \cup {[IntactBase EXCEPT !.ver = v, !.attrs = "full", !.crc = TRUE, !.enc = TRUE, !.comp = TRUE, !.lens = TRUE,
                             !.nfiles = 2, !.nsess = 2, !.skind = "mixed"] : v \in {1, 4}}

\* signatures of many distinct messages verify (about 1 RSA value in 256 has a zero top byte and needs left padding:
\* P(no such value among n messages) = (255/256)^n : n = 2000 -> 4.0e-4, n = 8000 -> 2.5e-14)
SigManyCases == {[kind |-> "sigmany", count |-> IF Thorough THEN 8000 ELSE 2000]}
\* the signature area at every alignment relative to the 64 KiB digest unit (74 placements incl. all 71 straddling ones)
SigAlignCases == {[kind |-> "sigalign", unit |-> 65536, after |-> 128]}

SigCases == {[kind |-> "sigbytes", len |-> l, allbits |-> Thorough, start |-> st]
               : l \in IF Thorough THEN {1, 64, 300, 1000} ELSE {64, 300}, st \in {0, 512}}

Cases == SetToSeq({ArchiveCase(c) : c \in Chosen}) \o SetToSeq(BigCases) \o SetToSeq(PlacedCases) \o SetToSeq(SessionCases) \o SetToSeq(SigCases)
         \o SetToSeq(IntactCases) \o SetToSeq(SigManyCases) \o SetToSeq(SigAlignCases)
ASSUME ndJsonSerialize(IOEnv.CASES, Cases)
ASSUME PrintT(<<"GENERATED", Len(Cases), "archives", Cardinality(Chosen)>>)
=============================================================================
