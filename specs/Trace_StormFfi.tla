--------------------------- MODULE Trace_StormFfi ---------------------------
(* Stage (D) for C19.  The driver logs, per call of the real C API, an `Inv` event strictly before  *)
(* the call and a `Ret` event strictly after it (one global log, so the order of the events is    *)
(* consistent with real time).  This module searches for an execution of StormFfi -- the INTENDED  *)
(* machine, Dev = {} -- in which every call takes its critical-section steps somewhere between its *)
(* Inv and its Ret and returns exactly what was observed (linearisation search; for single-thread  *)
(* histories it is deterministic).  No such execution = the event that cannot be explained is     *)
(* rejected.  The initial archive contents and listing orders are what the Rust API (`Archive`)   *)
(* reported for the same files (Reset); `rres` is the Rust API's answer for the same operation on *)
(* a twin archive; `Sync` re-reads the twin through the Rust API after flush / compact.           *)
EXTENDS StormFfi, Json, IOUtils, TLCExt

Rec == ndJsonDeserialize(IOEnv.TRACE)
VARIABLES tl, tpend, tkind, tacq
tvars == <<vars, tl, tpend, tkind, tacq>>

\* the handle the pending call of thread t is going to return (see NextId in StormFfi)
TrNextId(t) ==
    LET W == tl..Min(Len(Rec), tl + 16) IN
    IF \E j \in W : Rec[j].ev = "Ret" /\ Rec[j].th = t
    THEN Rec[CHOOSE j \in W : Rec[j].ev = "Ret" /\ Rec[j].th = t].ret
    ELSE 0

TInit == Init /\ tl = 1 /\ tpend = [t \in Threads |-> FALSE] /\ tkind = "seq"
         /\ tacq = [t \in Threads |-> <<>>]

Ev == Rec[tl]
Advance == tl' = tl + 1 /\ TLCSet(1, Max(TLCGet(1), tl + 1))

T_Reset ==
    /\ Ev.ev = "Reset"
    /\ vdisk' = Ev.disk /\ vcap' = [f \in ArchFiles |-> 16] /\ vlist' = Ev.order
    /\ varch' = <<>> /\ vfiles' = <<>> /\ vfinds' = <<>> /\ vnext' = 1
    /\ vlock' = [l \in Locks |-> Free]
    /\ vpc' = [t \in Threads |-> "Idle"]
    /\ vfr' = [t \in Threads |-> NullFrame]
    /\ vret' = [t \in Threads |-> NoRet]
    /\ vlast' = [t \in Threads |-> "ok"]
    /\ vclosed' = {}
    /\ tpend' = [t \in Threads |-> FALSE]
    /\ tkind' = Ev.kind
    /\ tacq' = [t \in Threads |-> <<>>]
    /\ Advance

T_Inv ==
    /\ Ev.ev = "Inv" /\ ~tpend[Ev.th]
    /\ Invoke(Ev.th, Ev.fn, Ev.h, Ev.name, Ev.n1, IF Ev.fn = "OpenArchive" THEN 16 ELSE Ev.n2, Ev.dat)
    /\ tpend' = [tpend EXCEPT ![Ev.th] = TRUE]
    /\ tacq' = [tacq EXCEPT ![Ev.th] = <<>>]
    /\ Advance /\ UNCHANGED tkind

ToSet(q) == {q[i] : i \in 1..Len(q)}
\* ---- P-conjuncts on a returned call ------------------------------------------------------------
OutMatches(e, r) ==
    CASE e.fn \in {"ReadFile", "ExtractFile", "GetFileName", "GetArchiveName", "FindFirst", "FindNext"} -> e.out = r.out
      [] e.fn = "GetFileInfo" -> (r.out = <<>> \/ e.out = r.out)
      [] e.fn = "EnumFiles"   -> ToSet(e.out) = ToSet(r.out)
      [] OTHER -> TRUE
\* the C API and the Rust API (same operation on the twin archive) give the same answer
RustAgrees(e) ==
    CASE e.rres \in {"ok", "fail"} -> (e.ret = 1) = (e.rres = "ok")
      [] e.rres \in {"yes", "no"}  -> (e.ret = 1) = (e.rres = "yes")
      [] e.rres \in {"rd_ok", "rd_fail", "rd_none"} -> (e.ret > 0) = (e.rres = "rd_ok")   \* OpenFileEx / ExtractFile
      [] OTHER -> TRUE
\* Lock discipline observed on the real code (verif_sync hook, "lockorder" histories): at every lock acquisition of
\* the call the driver probed which table locks were held; each acquisition must respect StormFfi!LockOrder -- the
\* design invariant LockOrderInv that TLC checks on the model and that rules out wait cycles for EVERY interleaving,
\* without the race having to fire.
LockOrderRespected(e) ==
    e.lt => \A i \in 1..Len(e.locks) : AcqRespects(e.locks[i].l, ToSet(e.locks[i].held))
\* ... and the whole lock trace of the call EQUALS the spec's: tacq[t] collects, for every step the model took for this
\* call, the lock it requested and the locks the thread held at that moment (StormFfi!Requests / HeldBy).  A call that
\* releases a lock earlier than the spec says (e.g. SFileOpenFileEx dropping ARCHIVES before the insert into FILES) or
\* takes an extra one is rejected single-threaded, without any race having to fire.
LockHeldAcross(e) ==
    e.lt => /\ Len(e.locks) = Len(tacq[e.th])
            /\ \A i \in 1..Len(e.locks) : /\ e.locks[i].l = tacq[e.th][i].l
                                          /\ ToSet(e.locks[i].held) = tacq[e.th][i].held
RetOk(e) ==
    /\ e.st = "ok"                        \* no hang, abort or panic
    /\ e.canary                           \* nothing written outside the caller's buffer
    /\ e.nul                              \* every C string field is NUL-terminated inside its array
    /\ vret[e.th].fn = e.fn
    /\ e.ret = vret[e.th].ret
    /\ OutMatches(e, vret[e.th])
    /\ RustAgrees(e)
    /\ LockOrderRespected(e)
    /\ LockHeldAcross(e)
Why(e) == IF ~LockOrderRespected(e) THEN "lockorder" ELSE IF ~LockHeldAcross(e) THEN "lockheld" ELSE IF ~e.canary THEN "canary" ELSE IF ~e.nul THEN "nul" ELSE IF e.ret # vret[e.th].ret THEN "ret"
          ELSE IF ~OutMatches(e, vret[e.th]) THEN "out" ELSE IF ~RustAgrees(e) THEN "rust" ELSE "other"
T_Ret ==
    /\ Ev.ev = "Ret" /\ tpend[Ev.th] /\ vpc[Ev.th] = "Idle"
    /\ RetOk(Ev)
    /\ IF Ev.rres = "rd_fail" THEN PrintT(<<"DRIFT", tl, Ev.fn \o ": the Rust API cannot read a file of the session either (wow-mpq)">>) ELSE TRUE
    /\ IF Ev.err = vret[Ev.th].err THEN TRUE
       ELSE PrintT(<<"DRIFT", tl, Ev.fn \o ": last error " \o Ev.err \o ", model " \o vret[Ev.th].err>>)
    /\ tpend' = [tpend EXCEPT ![Ev.th] = FALSE]
    /\ Advance /\ UNCHANGED <<vars, tkind, tacq>>
\* Single-thread histories are deterministic except for the model's explicit choices: a returned call whose observation differs from the model's
\* result is reported (BAD) and the history continues from the MODEL's state, so that the remaining events
\* are examined too (the check counts only the first BAD of a history for the verdict; later ones may be
\* consequences and are listed as secondary).  Hangs / aborts end the process and stay unexplained.
T_RetBad ==
    /\ Ev.ev = "Ret" /\ tkind = "seq" /\ tpend[Ev.th] /\ vpc[Ev.th] = "Idle"
    /\ Ev.st = "ok" /\ vret[Ev.th].fn = Ev.fn /\ ~RetOk(Ev)
    \* not for the calls whose model outcome is a choice (seek before the start, read error on a writable archive,
    \* add over an existing name): there another branch may explain the event; they stay guard-style
    /\ Ev.fn \notin {"SetFilePointer", "OpenFileEx", "ExtractFile", "AddFile"}
    /\ PrintT(<<"BAD", tl, Why(Ev)>>)
    /\ tpend' = [tpend EXCEPT ![Ev.th] = FALSE]
    /\ Advance /\ UNCHANGED <<vars, tkind, tacq>>

\* the Rust API's view of a writable archive after flush / compact replaces the model's session map
\* (what the Rust API itself does with the file is C06's business, not C19's)
T_Sync ==
    /\ Ev.ev = "Sync"
    /\ IF Ev.h \in DOMAIN varch
       THEN /\ varch' = [varch EXCEPT ![Ev.h].sess = Ev.rmap]
            /\ IF varch[Ev.h].sess = Ev.rmap THEN TRUE
               ELSE PrintT(<<"DRIFT", tl, "Rust API view after flush/compact differs from the session map">>)
       ELSE UNCHANGED varch
    /\ Advance
    /\ UNCHANGED <<vdisk, vcap, vlist, vfiles, vfinds, vnext, vlock, vpc, vfr, vret, vlast, vclosed, tpend, tkind, tacq>>

\* the Rust API's listing of a writable archive just before a listing call of a single-thread history: names
\* obtained through the C API must equal it (when wow-mpq refreshes the read-only view behind a MutableArchive is
\* wow-mpq's business)
T_List ==
    /\ Ev.ev = "List"
    /\ IF Ev.h \in DOMAIN varch
       THEN /\ varch' = [varch EXCEPT ![Ev.h].lst = Ev.rl]
            /\ IF varch[Ev.h].lst = Ev.rl THEN TRUE
               ELSE PrintT(<<"DRIFT", tl, "Rust API listing of the writable archive differs from the modelled one">>)
       ELSE UNCHANGED varch
    /\ Advance
    /\ UNCHANGED <<vdisk, vcap, vlist, vfiles, vfinds, vnext, vlock, vpc, vfr, vret, vlast, vclosed, tpend, tkind, tacq>>

T_Step == /\ tl <= Len(Rec)
          /\ \E t \in Threads :
                /\ tpend[t] /\ vpc[t] # "Idle" /\ Step(t)
                /\ tacq' = [tacq EXCEPT ![t] = IF Requests(t) = "none" THEN @
                                                ELSE Append(@, [l |-> Requests(t), held |-> HeldBy(t)])]
          /\ UNCHANGED <<tl, tpend, tkind>>

TNext == \/ (tl <= Len(Rec) /\ (T_Reset \/ T_Inv \/ T_Ret \/ T_RetBad \/ T_Sync \/ T_List))
         \/ T_Step

ASSUME TLCSet(1, 1)
Accepted == LET m == TLCGet(1) IN
            IF m = Len(Rec) + 1 THEN PrintT(<<"CONSUMED", Len(Rec)>>) ELSE Print(<<"TRACE_STUCK_AT", m>>, FALSE)
=============================================================================
