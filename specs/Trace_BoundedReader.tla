------------------------ MODULE Trace_BoundedReader ------------------------
(* Stage (D) for C05: the recorded behaviour of the real parsers on the inputs of the fault plan.  *)
(*                                                                                                 *)
(* A trace is   Reset{format, seed, len, baseline}  Input*   -- all inputs derived from one seed    *)
(* file.  Every Input event is one call of one public entry point on one mutated input, executed   *)
(* in a crash-isolated child; it carries the outcome class observed by the parent (ok | err |      *)
(* panic | abort | stackoverflow | timeout | hugealloc), the largest single allocation request and *)
(* the peak live memory measured by the counting allocator (KiB), and the input length.            *)
(*                                                                                                 *)
(* P-conjuncts (BoundedReader's property at implementation scale):                                 *)
(*   OutcomeTotal  : outcome \in TotalOutcomes = {"ok", "err"}                                     *)
(*   AllocBounded  : alloc <= AllocLimitKiB(len)  (64 * input + 64 MiB, one request)               *)
(*                   peak  <= PeakLimitKiB(len)   (64 * input + 256 MiB, live at any time)         *)
(* Everything else (error variant, which plan item, baseline of the seed) is diagnostic.           *)
EXTENDS BoundedReader, Json, IOUtils, TLCExt

Rec == ndJsonDeserialize(IOEnv.TRACE)

VARIABLES tl,      \* position in the trace
          tseed    \* the seed file of the current trace: [format, seed, len]
tvars == <<tl, tseed>>

Formats == {"mpq", "ptch", "m2", "skin", "anim", "adt", "wmo", "blp", "dbc", "wdt", "wdl"}
PlanArchs == Archetypes \cup {"prefix", "chunkedit", "havoc", "base"}
PeakLimitKiB(lenBytes) == 64 * ((lenBytes + 1023) \div 1024) + 262144

WellFormed(e) == /\ e.outcome \in Vocabulary
                 /\ e.arch \in PlanArchs
                 /\ e.arch \in Archetypes => e.role \in Roles[e.arch]
                 /\ e.alloc >= 0 /\ e.peak >= 0 /\ e.len >= 0

OutcomeOk(e) == e.outcome \in TotalOutcomes
AllocOk(e)   == e.alloc <= AllocLimitKiB(e.len) /\ e.peak <= PeakLimitKiB(e.len)

\* the unmutated seed file must itself be accepted, otherwise the mutations stay shallow
BaselineNote(e) == IF \A i \in 1..Len(e.baseline) : e.baseline[i][2] = "ok" THEN TRUE
                   ELSE PrintT(<<"DRIFT", tl, "baseline of seed " \o e.format \o "/" \o e.seed \o " is not ok">>)

T_Reset == LET e == Rec[tl] IN
  /\ e.ev = "Reset"
  /\ e.format \in Formats
  /\ BaselineNote(e)
  /\ tseed' = [format |-> e.format, seed |-> e.seed, len |-> e.len]

T_Input == LET e == Rec[tl] IN
  /\ e.ev = "Input"
  /\ e.format = tseed.format /\ e.seed = tseed.seed        \* the event belongs to this trace
  /\ Assert(WellFormed(e), <<"malformed Input event", tl, e>>)
  /\ IF OutcomeOk(e)
       THEN IF AllocOk(e) THEN TRUE ELSE PrintT(<<"BAD", tl, "hugealloc">>)
       ELSE PrintT(<<"BAD", tl, e.outcome>>)
  /\ UNCHANGED tseed

TInit == /\ tl = 1 /\ tseed = [format |-> "-", seed |-> "-", len |-> 0]
         /\ Init /\ vflen = 0 /\ varch = "chunk"            \* the model's variables are not used here
TNext == /\ tl <= Len(Rec)
         /\ tl' = tl + 1
         /\ (T_Reset \/ T_Input)
         /\ UNCHANGED vars

Accepted == LET d == TLCGet("stats").diameter IN
            IF d - 1 = Len(Rec) THEN PrintT(<<"CONSUMED", Len(Rec)>>) ELSE Print(<<"TRACE_STUCK_AT", d>>, FALSE)
=============================================================================
