---------------------------- MODULE Trace_WdtWdl ----------------------------
(* Stage (D) for C18: the events recorded from the real wow-wdt / wow-wdl code are validated       *)
(* against WdtWdl.tla.  P-conjuncts (verdict, reported as BAD):                                    *)
(*   Write    the writer accepts every definition that is valid for its version                    *)
(*   Chunks   the produced bytes are a chunk sequence (cursor machine of ChunkFile)                *)
(*   WalkEnd  ... that ends exactly at the end of the file                                         *)
(*   Maof     WDL: 4096 entries; exactly the tiles of the definition are non-zero; entry y*64+x is *)
(*            the header offset of a MARE chunk whose payload is the height map of tile (x,y)      *)
(*   Chain    a conversion history (A->B->A, A->B->C, single steps through WdlFile::convert_to) ends  *)
(*            in an error only where the model's convert_wdl_file refuses                           *)
(*   Source   at the end of a history the tile data equal those of the starting object; the object   *)
(*            then goes through Write .. Rewrite like a freshly built one (MAOF stays the verdict)   *)
(*   Parse    per-section content tokens equal the tokens of the object that was written           *)
(*   Rewrite  the second write is byte-identical                                                   *)
(*   Convert  tile data (MAIN / height maps, holes where both versions have them) preserved, in     *)
(*            memory and after writing + parsing at the target version                             *)
(*   Coord    |3*world - exact| <= 0.03 yd and world_to_tile(tile_to_world(t)) = t                  *)
(* D-conjuncts (DRIFT only): chunk order / sizes / file size against the layout model, detected     *)
(* version against DetectVersion / DetectWdl, chunk presence and flags after convert_wdt against    *)
(* ConvertWdt, validate() against WdtValid.                                                        *)
EXTENDS WdtWdl, Json, IOUtils, TLCExt

Rec == ndJsonDeserialize(IOEnv.TRACE)
VARIABLES tl, tdef, tsrc, twr, tcf
tvars == <<tl, tdef, tsrc, twr, tcf>>


SeqToSet(tseq) == {tseq[ti] : ti \in 1..Len(tseq)}
TilesOf(tseq) == {<<tseq[ti][1], tseq[ti][2]>> : ti \in 1..Len(tseq)}
\* the object the trace is about: the case's definition, pushed through the conversion history (if any) by the
\* specification's own model of the conversions
BaseDefOf(e) ==
    IF e.fmt = "wdt"
    THEN [ver |-> e.ver, flags |-> SeqToSet(e.flags), hasMwmo |-> e.hasMwmo, names |-> e.names,
          hasModf |-> e.hasModf, nModf |-> e.nModf, hasMaid |-> e.hasMaid, nSec |-> e.nSec, tiles |-> TilesOf(e.tiles)]
    ELSE [ver |-> e.ver, tiles |-> TilesOf(e.tiles), holes |-> TilesOf(e.holes), names |-> e.names,
          nIdx |-> e.nIdx, nPlace |-> e.nPlace, nMldd |-> e.nMldd, nMlmd |-> e.nMlmd]
DefOf(e) ==
    IF e.fmt \in {"wdt", "wdl"}
    THEN LET tb == BaseDefOf(e)
             tf == IF e.fmt = "wdt" THEN WdtChainDef(tb, e.chain) ELSE WdlChainDef(e.api, tb, e.chain)
         IN tf @@ [fmt |-> e.fmt, mode |-> e.mode, chain |-> e.chain, api |-> e.api, base |-> tb]
    ELSE [fmt |-> e.fmt, mode |-> e.mode, chain |-> <<>>]

Wdt == tdef.fmt = "wdt"
Specs == IF Wdt THEN WdtChunkSpecs(tdef) ELSE WdlChunkSpecs(tdef)
\* a converted WDT may still carry an MWMO its new version forbids (the writer leaves it out): not compared
Sections == IF Wdt THEN (IF ShouldHave("MWMO", WmoOnly(tdef), tdef.ver) THEN WdtContentSections ELSE WdtContentSections \ {"mwmo"})
            ELSE WdlSections(tdef.ver)
TokEq(ta, tb, tsecs) == \A ts \in tsecs : ta[ts] = tb[ts]

\* ---- P-conjuncts: <<holds, why>> ------------------------------------------------------------------
\* a conversion history ends in an error only where the model says convert_wdl_file refuses (holes would be lost)
ChainP(e)   == <<e.res = "ok" \/ (~Wdt /\ WdlChainRefusesAt(tdef.api, tdef.base, tdef.chain, e.at)), "chain-failed">>
\* tile data at the end of a history = tile data of the object it started from (holes where every version has them)
SourceP(e)  == IF tdef.chain = <<>> THEN <<TRUE, "">>
               ELSE IF Wdt THEN <<e.toks.main = e.base.main, "chain-tiles">>
               ELSE << /\ e.toks.tiles = e.base.tiles
                       /\ (HolesSurviveChain(tdef.base.ver, tdef.chain) => e.toks.holes = e.base.holes), "chain-tiles">>
WriteP(e)   == <<e.res = "ok", "write-rejected">>
ChunksP(e)  == <<CF_FitsAll(tcf, e.cs), "framing">>
WalkEndP(e) == <<CF_Done(tcf) /\ e.cur = tcf.cur /\ e.len = Head(tcf.lim), "framing-end">>
MaofP(e) ==
    LET tsrcT == tsrc.tiles IN
    <<  /\ e.size = GridN * GridN
        /\ Len(e.ents) = Len(tsrcT)
        /\ \A ti \in 1..Len(e.ents) :
             LET tent == e.ents[ti]  ttile == tsrcT[ti] IN
             /\ tent[1] = TileIdx(ttile[1], ttile[2])                 \* entry index = y*64+x of the ti-th tile
             /\ CF_IsAt(tcf.seen, tent[3], tent[2], "MARE")           \* it is the header offset of a MARE chunk
             /\ tcf.seen[tent[3]].size = MARE_SIZE
             /\ tcf.seen[tent[3]].tok = ttile[3],                     \* ... carrying this tile's heights
       "maof">>
ParseP(e) == IF e.res # "ok" THEN <<FALSE, "parse-failed">>
             ELSE <<TokEq(e.toks, tsrc.toks, Sections), "content">>
RewriteP(e) == <<e.res = "ok" /\ e.tok = twr.tok /\ e.len = twr.len, "rewrite-differs">>
ConvertP(e) ==
    IF Wdt
    THEN << /\ e.res = "ok" /\ e.toks.main = tsrc.toks.main
            /\ e.wres = "ok" /\ e.ptoks.main = tsrc.toks.main, "convert-tiles">>
    ELSE IF e.res # "ok" THEN <<ConvertWdlRefuses(tdef, e.to), "convert-failed">>
    ELSE << /\ e.toks.tiles = tsrc.toks.tiles
            /\ (HolesPreserved(tdef.ver, e.to) => e.toks.holes = tsrc.toks.holes)
            /\ e.wres = "ok" /\ e.ptoks.tiles = tsrc.toks.tiles
            /\ (HolesPreserved(tdef.ver, e.to) => e.ptoks.holes = tsrc.toks.holes), "convert-tiles">>
CoordP(e) ==
    IF e.res # "ok" THEN <<FALSE, "coord-panic">>
    ELSE LET tw == TileToWorld3(e.tx, e.ty) IN
         IF ~(FwdOk(e.wxm, tw[1]) /\ FwdOk(e.wym, tw[2])) THEN <<FALSE, "coord-forward">>
         ELSE <<(<<e.bx, e.by>> = <<e.tx, e.ty>>) /\ WorldToTile3(tw[1], tw[2]) = <<e.tx, e.ty>>, "coord-inverse">>

PofEvent(e) == CASE e.ev = "Write"   -> WriteP(e)
                 [] e.ev = "Chunks"  -> ChunksP(e)
                 [] e.ev = "WalkEnd" -> WalkEndP(e)
                 [] e.ev = "Maof"    -> MaofP(e)
                 [] e.ev = "Parse"   -> ParseP(e)
                 [] e.ev = "Rewrite" -> RewriteP(e)
                 [] e.ev = "Convert" -> ConvertP(e)
                 [] e.ev = "Coord"   -> CoordP(e)
                 [] e.ev = "Chain"   -> ChainP(e)
                 [] e.ev = "Source"  -> SourceP(e)
                 [] e.ev = "Reset"   -> <<TRUE, "">>
                 [] OTHER -> Assert(FALSE, <<"unknown event", e.ev>>)

\* tags that decide version detection, without laying out the whole file
WdlTagsPresent(td) == LET th == WdlHeadSpecs(td) IN
                      [ti \in 1..Len(th) |-> th[ti][1]] \o (IF \E tt \in td.tiles : MahoWritten(td, tt) THEN <<"MAHO">> ELSE <<>>)

\* convert_wdl_file from a Legion+ object with MLMD placements to a WMO-chunk version invents file names
\* ("FileDataID_<id>"): their byte length is not a function of the shape, so the layout model stays silent
LayoutKnown ==
    \/ Wdt \/ tdef.chain = <<>> \/ tdef.api # "file"
    \/ LET tds == WdlChainDefs(tdef.api, tdef.base, tdef.chain) IN
       \A tk \in 1..Len(tdef.chain) : ~(HasMlChunks(tds[tk].ver) /\ HasWmoChunks(tdef.chain[tk]) /\ tds[tk].nMlmd > 0)

\* ---- D-conjuncts: <<holds, what>> ----------------------------------------------------------------
DofEvent(e) ==
    CASE e.ev = "Source"  -> <<~Wdt \/ tdef.chain # <<>> \/ ((e.warnings = 0) <=> WdtValid(tdef)), "validate-vs-WdtValid">>
      [] e.ev = "Write"   -> <<e.res # "ok" \/ ~LayoutKnown \/ e.len = CF_TotalSize(Specs), "file-size">>
      [] e.ev = "WalkEnd" -> LET tspecs == Specs  tseen == tcf.seen IN
                             <<~LayoutKnown \/ [ti \in 1..Len(tseen) |-> <<tseen[ti].tag, tseen[ti].size>>] = tspecs, "chunk-order-or-size">>
      [] e.ev = "Parse"   -> <<e.res # "ok" \/ ~LayoutKnown \/ e.det = (IF Wdt THEN DetectVersion(tdef.hasMaid, MwmoWritten(tdef), tdef.hasModf, tdef.flags, tdef.ver)
                                                      ELSE DetectWdl(WdlTagsPresent(tdef), IF tdef.mode = "latest" THEN "Latest" ELSE tdef.ver)),
                               "detected-version">>
      [] e.ev = "Convert" -> IF Wdt /\ e.res = "ok"
                             THEN LET tc == ConvertWdt(tdef, tdef.ver, e.to) IN
                                  <<e.hm = tc.hasMaid /\ e.hw = tc.hasMwmo /\ e.hd = tc.hasModf /\ e.fl = FlagBits(tc.flags), "convert-model">>
                             ELSE <<TRUE, "">>
      [] OTHER -> <<TRUE, "">>

\* ---- state ---------------------------------------------------------------------------------------
NoDef == [fmt |-> "-", mode |-> "-", chain |-> <<>>]
Init == /\ tl = 1 /\ tdef = NoDef /\ tsrc = 0 /\ twr = 0 /\ tcf = CF_Init(0, 0)
        /\ vfmt = "trace" /\ vdef = 0 /\ vpc = "" /\ vcf = 0 /\ vrd = 0 /\ vrpos = 0 /\ vmaof = 0

Step(e) ==
    /\ tdef' = IF e.ev = "Reset" THEN DefOf(e) ELSE tdef
    /\ tsrc' = IF e.ev = "Reset" THEN 0 ELSE IF e.ev = "Source" THEN [toks |-> e.toks, tiles |-> e.tiles] ELSE tsrc
    /\ twr'  = IF e.ev = "Reset" THEN 0 ELSE IF e.ev = "Write" THEN [len |-> e.len, tok |-> e.tok] ELSE twr
    /\ tcf'  = IF e.ev = "Reset" THEN CF_Init(0, 0)
               ELSE IF e.ev = "Write" THEN CF_Init(0, e.len)
               ELSE IF e.ev = "Chunks" /\ CF_FitsAll(tcf, e.cs) THEN CF_WalkAll(tcf, e.cs)
               ELSE tcf

Next == /\ tl <= Len(Rec)
        /\ tl' = tl + 1
        /\ LET e == Rec[tl]  tp == PofEvent(e)  td == DofEvent(e) IN
           /\ IF tp[1] THEN TRUE ELSE PrintT(<<"BAD", tl, tp[2]>>)
           /\ IF td[1] THEN TRUE ELSE PrintT(<<"DRIFT", tl, td[2]>>)
           /\ Step(e)
        /\ UNCHANGED mvars

Accepted == LET d == TLCGet("stats").diameter IN
            IF d - 1 = Len(Rec) THEN PrintT(<<"CONSUMED", Len(Rec)>>) ELSE Print(<<"TRACE_STUCK_AT", d>>, FALSE)
=============================================================================
