"""C05 -- parsers are total: bad input gives an error, never a crash, hang or huge allocation."""
import concurrent.futures as cf
import json
import re

from vlib import core

META = {
    "level": "fault_enumeration",
    "level_text": "BoundedReader.tla models the four reader archetypes behind every parser of the property (chunk walker, counted "
                  "array with nesting, terminated / length-prefixed strings, codec token stream with state markers / runs / back "
                  "references) over an adversarial file; TLC shows exhaustively (len 0..24, "
                  "boundary values per field) that the checked design is total (no read past the end, bounded allocation and work, loop "
                  "progress, table index / output / back-reference bounds, outcome ok|err, no stuck state, termination) and that each of twelve named unchecked deviations violates an "
                  "invariant. TLC then emits the fault plan (archetype x field role x boundary symbol, prefix classes, single chunk-sequence "
                  "edits, field pairs, marker-repetition counts on codec token streams, havoc budget in thorough); the harness applies every item to every matching field of the per-format field inventory "
                  "of valid seed files built with the library's own writers, runs each mutated input through every public entry point of "
                  "observe_at in a crash-isolated child (catch_unwind, counting allocator, 8 MB stack, watchdog), and TLC validates the recorded "
                  "outcomes against the specification (outcome in {ok, err}, single request <= 64*input + 64 MiB, peak <= 64*input + 256 MiB).",
    "level_note": "TLA+ contributes the fault space and the totality argument for the model reader; it proves nothing about the Rust parsers beyond "
                  "the inputs in plan + havoc. The harness build uses the dev profile (overflow checks on): arithmetic-overflow panics are reported as "
                  "panics. Genuine panics / huge allocations on the unchanged tree are listed in known_findings.d/C05.json keyed by "
                  "(entry point, source file, normalised message).",
    "technique": "TLA+ model of bounded readers (TLC exhaustive + deviation checks), TLC-generated fault plan replayed on the real parsers in crash-isolated children, TLC trace validation",
    "design_ref": "DESIGN.md section 5, C05",
    "crates": ["c05"],
}

DEVIATIONS = ["ChunkWrapAdd", "ChunkNoCheck", "ChunkNoProgress", "ArrayPrealloc", "ArrayMulWrap", "ArrayZeroEsize",
              "ArrayNoOffCheck", "StringNoCheck", "StringOffNoCheck", "StringScanPast"]
FAULTS = {  # deviation -> what TLC must report for it
    "wrapadd": "ReadInBounds", "nosizecheck": "ReadInBounds", "noprogress": "ChunkProgress", "prealloc": "AllocBounded",
    "mulwrap": "AllocBounded", "zeroesize": "WorkBounded", "nooffcheck": "ReadInBounds", "scanpast": "ReadInBounds",
    "stuck": "Deadlock", "marksat": "TableIndexInBounds", "runover": "OutputBounded", "backunder": "BackrefInBounds",
}


def sig(b):
    """Class-level signature of a rejected Input event: entry point + outcome class + normalised
    panic key (crate/src/file: message, digits -> #) + format/role/field of the mutated field."""
    r = b.get("rec", {})
    why = (b.get("why") or "").strip('"')
    outcome = r.get("outcome")
    if outcome in ("ok", "err"):
        outcome = why or "hugealloc"
    key = r.get("key", "")
    arch = r.get("arch")
    # role of the plan item that produced the input: the field role for single-field items, else the archetype
    # (prefix / chunkedit / pair / havoc). Huge-allocation findings are keyed by (requesting function, role), so
    # a second unchecked allocation in the same function reached through another kind of field is not masked.
    role = r.get("role") if arch in ("chunk", "array", "string", "token") else arch
    return {"entry": r.get("entry"), "outcome": outcome, "key": key, "format": r.get("format"),
            "role": role, "field": r.get("field"), "arch": arch}


def faulty_models(ctx):
    """Stage (A'), non-vacuity of the invariants: every named deviation must be caught by TLC."""
    def one(f):
        rc, text = ctx.tlc("MC_BoundedReader", "MC_BoundedReader_faulty", env={"FAULT": f}, workers=2, timeout=600,
                           tag="mcf-" + f)
        want = FAULTS[f]
        if want == "Deadlock":
            ok = "Deadlock reached" in text
        else:
            ok = re.search(r"(Invariant|Action property) %s is violated" % want, text) is not None
        return f, ok, core._tail(text, 15)
    # thorough: all nine deviations; quick: a seed-rotated third of them (each is a separate TLC run)
    todo = sorted(FAULTS) if ctx.thorough else sorted(FAULTS)[int(ctx.seed) % 3::3]
    with cf.ThreadPoolExecutor(max_workers=3) as ex:
        res = list(ex.map(one, todo))
    missed = [f for f, ok, _ in res if not ok]
    if missed:
        raise core.ToolError("stage A: deviations not detected by the model's invariants: %s\n%s" %
                             (missed, [t for f, ok, t in res if not ok][0]))
    core.log(f"(A') {len(res)} deviations of the reader design each violate the expected invariant: {', '.join(todo)}")
    return len(res)


def run(ctx, cases_override=None, only_formats=None):
    # stage A (exhaustive model check + the nine deviation models) runs beside stages B/C: they are independent
    pool = cf.ThreadPoolExecutor(max_workers=2)
    # quick: file lengths 0..16 (41 k states); thorough: 0..24 as in DESIGN (169 k states)
    mc_cfg = "MC_BoundedReader" if ctx.thorough else "MC_BoundedReader_quick"
    fut_mc = pool.submit(ctx.mc, "MC_BoundedReader", mc_cfg, 6, 1500, None, "8g", None, DEVIATIONS)
    fut = pool.submit(faulty_models, ctx)
    if cases_override:
        cases, ncases = cases_override, sum(1 for _ in open(cases_override))
    else:
        cases, ncases = ctx.gen("Gen_BoundedReader")
    binary = ctx.build("c05")
    env = {"C05_FORMATS": only_formats} if only_formats else None
    trace = ctx.harness(binary, cases, timeout=1700 if ctx.thorough else 600, env=env)
    fut_mc.result()
    ndev = fut.result()
    res = ctx.validate("Trace_BoundedReader", trace, timeout=900)
    by_out, by_fmt, by_arch, inputs, seeds, samples = {}, {}, {}, set(), set(), []
    weak = []
    with open(trace) as f:
        for line in f:
            r = json.loads(line)
            if r["ev"] == "Reset":
                seeds.add((r["format"], r["seed"]))
                if any(b[1] != "ok" for b in r["baseline"]):
                    weak.append(f'{r["format"]}/{r["seed"]}')
                continue
            by_out[r["outcome"]] = by_out.get(r["outcome"], 0) + 1
            by_fmt[r["format"]] = by_fmt.get(r["format"], 0) + 1
            by_arch[r["arch"]] = by_arch.get(r["arch"], 0) + 1
            if r["arch"] != "base":
                inputs.add(r["n"])
            if len(samples) < 6 and r["arch"] not in ("base",) and (r["outcome"] != "ok" or len(samples) < 2):
                samples.append(r)
    if weak:
        ctx.notes.append("seed files whose unmutated baseline is not ok on every entry point: " + ", ".join(sorted(set(weak))))
    summ = json.load(open(trace + ".summary.json"))
    cov = {
        "evaluations": res["events"] - res["traces"],
        "distinct_nontrivial": len(inputs),
        "rule": "one evaluation = one public entry point called on one mutated input in a crash-isolated child; distinct_nontrivial = "
                "distinct mutated inputs (seed file x plan item x field / field pair / chunk position / token site, deduplicated on the concrete value; "
                "the unmutated baselines are excluded)",
        "samples": samples,
        "traces_validated_against_impl": res["traces"],
        "plan_items_generated_by_tlc": ncases,
        "seed_files": len(seeds),
        "events_by_outcome": by_out,
        "events_by_format": by_fmt,
        "events_by_archetype": by_arch,
        "deviation_models_caught_by_tlc": ndev,
        "distinct_nonok_signatures": len(summ.get("nonok", [])),
        "exhaustive": False,
    }
    assumptions = ["inputs explored = TLC fault plan x harness field inventory of the seed files (+ seeded havoc in thorough); other inputs are not seen",
                   "dev-profile build (overflow checks on); a release build wraps where this build panics on arithmetic overflow",
                   "timeouts: 10 s (quick) / 20 s (thorough) per input, re-run once in isolation with a doubled budget before being recorded"]
    return core.finish(ctx, "fault_enumeration", cov, assumptions, res["bad"], sig_fn=sig, trace=trace)


def replay(ctx, payload):
    """Re-run every plan item on the format of the rejected event (the plan is small and seed-independent)."""
    fmt = (payload.get("event") or {}).get("format")
    return run(ctx, only_formats=fmt)
