CONSTANTS
  LegacyTrackerIsPerCall <- NegShared
INIT MCInit
NEXT MCNext
INVARIANT HistoryIndependent
CHECK_DEADLOCK FALSE
