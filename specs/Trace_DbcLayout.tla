--------------------------- MODULE Trace_DbcLayout ---------------------------
(* Stage (D) for C17.  P-conjuncts (BAD):                                                          *)
(*   Parse0   the eager parser accepts the table and returns the values / strings that were encoded *)
(*   Paths    eager, cached-strings, lazy (by index and by iterator), memory-mapped and parallel    *)
(*            access return the same records with the same resolved strings                         *)
(*   Gets     (n <= 128) record i through each path's by-index entry point (eager, cached strings,   *)
(*            lazy get_record, mmap, parallel) equals record i of the table, for every i             *)
(*   Routes   (n <= 128) every public route through the lazy iterator (next, nth, skip, step_by,     *)
(*            last, compositions; parameters chosen by TLC incl. 0, n-1, n) yields RouteIdx(route,n) *)
(*   Keys     hashed and binary-searched lookups return a record carrying the key; absent -> none   *)
(*   Write    accepted; len = 20 + n*rs + sb with the header fields read from the written bytes;    *)
(*            n and rs equal the spec's values; no string occurs twice in the block; offset 0 = ""  *)
(*   Reparse  the written bytes parse with the same schema to the same values / strings, also with   *)
(*            string caching enabled                                                                *)
(* Input tables use string references of every kind the format allows (start of a string, inside a   *)
(* string = shared suffix, a terminating NUL, offset 0, last byte of the block; kinds chosen by TLC); *)
(* the source token is rendered from the text each reference denotes (RefTextLen / Locate).          *)
(* D-conjuncts (DRIFT): the builder's own header against the spec, field_count of the written       *)
(* header against FieldCount, block order against Intern.                                          *)
EXTENDS DbcLayout, Json, IOUtils, TLCExt

Rec == ndJsonDeserialize(IOEnv.TRACE)
VARIABLES tl, tcase, tsrc
tvars == <<tl, tcase, tsrc>>

Sch == tcase.schema
ParseP(e) == IF e.res # "ok" THEN <<FALSE, "parse-failed">>
             ELSE IF e.hdr # <<tcase.n, FieldCount(Sch), RecordSize(Sch), tsrc.hdr[4]>> THEN <<FALSE, "header-misread">>
             ELSE <<e.rtok = tsrc.rtok, "values">>
PathsP(e) == LET tbad == {tp \in {"eager", "cached", "lazyIdx", "lazyIter", "mmap", "par"} : e[tp] # tsrc.rtok} IN
             <<tbad = {}, IF tbad = {} THEN "" ELSE "path-" \o (CHOOSE tp \in tbad : TRUE)>>
KeysP(e) == LET tbadH == \E ti \in 1..Len(e.ents) : e.ents[ti][3] # (IF e.ents[ti][2] THEN e.ents[ti][1] ELSE "-")
                tbadB == \E ti \in 1..Len(e.ents) : e.ents[ti][4] # (IF e.ents[ti][2] THEN e.ents[ti][1] ELSE "-")
            IN <<~tbadH /\ ~tbadB, IF tbadH THEN "key-hash" ELSE "key-binary">>
\* record i, reached by index on every path, is record i of the table
GetPaths == {"eager", "cached", "lazy", "mmap", "par"}
GetsP(e) == LET tbad == {tp \in GetPaths : e[tp] # tsrc.rtoks} IN
            <<tbad = {}, IF tbad = {} THEN "" ELSE "get-" \o (CHOOSE tp \in tbad : TRUE)>>
\* every iterator route yields exactly the records RouteIdx says, in order
RouteOk(tr) == LET tix == RouteIdx(tr, tcase.n) IN tr.got = [tj \in 1..Len(tix) |-> tsrc.rtoks[tix[tj] + 1]]
RoutesP(e) == LET tbad == {tk \in 1..Len(e.routes) : ~RouteOk(e.routes[tk])} IN
              <<tbad = {}, IF tbad = {} THEN "" ELSE "route-" \o e.routes[CHOOSE tk \in tbad : \A tj \in tbad : tk <= tj].kind>>
Sids(tblock) == [ti \in 1..Len(tblock) |-> tblock[ti][2]]
WriteP(e) == IF e.res # "ok" THEN <<FALSE, "write-rejected">>
             ELSE IF e.len # FileSize(e.hdr[1], e.hdr[3], e.hdr[4]) \/ ~e.blockInFile THEN <<FALSE, "size-arithmetic">>
             ELSE IF e.hdr[1] # tcase.n \/ e.hdr[3] # RecordSize(Sch) THEN <<FALSE, "header-count-or-record-size">>
             ELSE IF ~(Len(e.block) >= 1 /\ e.block[1] = <<0, 0>>) THEN <<FALSE, "block-offset0-not-empty">>
             ELSE <<\A ta, tb \in 1..Len(e.block) : (ta # tb /\ e.block[ta][2] # -1) => e.block[ta][2] # e.block[tb][2], "string-stored-twice">>
ReparseP(e) == IF e.res # "ok" THEN <<FALSE, "reparse-failed">>
               ELSE IF e.rtok # tsrc.rtok THEN <<FALSE, "reparse-values">>
               ELSE <<e.ctok = tsrc.rtok, "reparse-cached-strings">>

PofEvent(e) == CASE e.ev = "Parse0"  -> ParseP(e)
                 [] e.ev = "Paths"   -> PathsP(e)
                 [] e.ev = "Keys"    -> KeysP(e)
                 [] e.ev = "Gets"    -> GetsP(e)
                 [] e.ev = "Routes"  -> RoutesP(e)
                 [] e.ev = "Write"   -> WriteP(e)
                 [] e.ev = "Reparse" -> ReparseP(e)
                 [] e.ev \in {"Reset", "Build"} -> <<TRUE, "">>
                 [] OTHER -> Assert(FALSE, <<"unknown event", e.ev>>)
DofEvent(e) == CASE e.ev = "Routes" -> <<{[kind |-> e.routes[tk].kind, a |-> e.routes[tk].a, b |-> e.routes[tk].b] : tk \in 1..Len(e.routes)} = RoutesFor(tcase.n), "route-set">>
                 [] e.ev = "Build" -> IF ~(\A tk \in 1..Len(e.refkinds) : e.refkinds[tk] \in RefKinds) THEN <<FALSE, "ref-kinds">> ELSE <<e.hdr[2] = FieldCount(Sch) /\ e.hdr[3] = RecordSize(Sch) /\ e.len = FileSize(tcase.n, RecordSize(Sch), e.hdr[4]), "builder-layout">>
                 [] e.ev = "Write" -> IF e.res = "ok" /\ e.hdr[2] # FieldCount(Sch) THEN <<FALSE, "field-count-written">>
                                      ELSE <<e.res # "ok" \/ Len(e.block) = tsrc.nstr + (IF tsrc.hasEmpty THEN 0 ELSE 1), "block-string-count">>
                 [] OTHER -> <<TRUE, "">>

Init == /\ tl = 1 /\ tcase = 0 /\ tsrc = 0
        /\ vsch = 0 /\ vkey = 0 /\ vrecs = 0 /\ vlen = 0 /\ vhdr = 0 /\ vout = 0 /\ vblock = 0 /\ vrefs = 0 /\ vpc = "trace" /\ vdev = 0 /\ vread = 0 /\ vkmap = 0
Next == /\ tl <= Len(Rec)
        /\ tl' = tl + 1
        /\ LET e == Rec[tl]  tp == PofEvent(e)  td == DofEvent(e) IN
           /\ IF tp[1] THEN TRUE ELSE PrintT(<<"BAD", tl, tp[2]>>)
           /\ IF td[1] THEN TRUE ELSE PrintT(<<"DRIFT", tl, td[2]>>)
           /\ tcase' = IF e.ev = "Reset" THEN [schema |-> e.schema, key |-> e.key, n |-> e.n] ELSE tcase
           /\ tsrc' = IF e.ev = "Build" THEN [hdr |-> e.hdr, rtok |-> e.rtok, nstr |-> e.nstr, hasEmpty |-> e.hasEmpty, rtoks |-> e.rtoks] ELSE IF e.ev = "Reset" THEN 0 ELSE tsrc
        /\ UNCHANGED dvars
Accepted == LET d == TLCGet("stats").diameter IN
            IF d - 1 = Len(Rec) THEN PrintT(<<"CONSUMED", Len(Rec)>>) ELSE Print(<<"TRACE_STUCK_AT", d>>, FALSE)
=============================================================================
