\* implementation at b13f4b7: TLC must exhibit a (listfile) that misses a live name (substring test; fixed by 6cf538f)
CONSTANTS
  H = 4
  UNames <- MCNames
  Home <- MCHome
  InitSeq <- MCInit
  InitTok <- MCInitTok
  InitRaw = {}
  SubOf <- MCSub
  HasLF0 = TRUE
  HasAT0 = FALSE
  Slack = 2
  FU = 2
  Ver = 1
  MaxCalls = 4
  MCToks = {"t1"}
SPECIFICATION Code1Spec
INVARIANT ListfileExact
CHECK_DEADLOCK FALSE
