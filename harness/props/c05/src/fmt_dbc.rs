//! C05 seeds, field inventory and entry points for DBC (WDBC / WDB2 / WDB5 headers).
//!
//! "wdbc-writer" is produced by the library's own `DbcWriter` (from a record set obtained by
//! parsing a hand-assembled bootstrap table with a schema); "wdbc-mixed" likewise, with a second
//! schema that has the narrow field types (Bool, U8, I8, U16, I16) and an array field; the
//! WDB2/WDB5 variants have no writer in the crate and are assembled here from the header layouts
//! in versions.rs. `run` tries both schemas on every input (with_schema only accepts the one whose
//! field count and record size match the header).
use crate::seed::{Aux, Seed};
use crate::worker::{errname, Runner};
use std::io::Cursor;
use wow_cdbc::{DbcParser, DbcWriter, FieldType, Schema, SchemaField};

pub fn seed_names(thorough: bool) -> Vec<String> {
    let mut v = vec!["wdbc-writer".to_string(), "wdb2-ext".to_string()];
    if thorough {
        v.push("wdb2-basic".into());
        v.push("wdb5".into());
        v.push("wdbc-empty".into());
        v.push("wdb2-ext-noindex".into());
        v.push("wdbc-mixed".into());
    }
    v
}

fn schema() -> Schema {
    let mut s = Schema::new("Test");
    s.add_field(SchemaField::new("ID", FieldType::UInt32));
    s.add_field(SchemaField::new("Name", FieldType::String));
    s.add_field(SchemaField::new("Value", FieldType::Float32));
    s.add_field(SchemaField::new("Flags", FieldType::Int32));
    s.set_key_field("ID");
    s
}

/// Second schema: 24-byte records, 10 header fields (array elements count one by one).
fn schema_mixed() -> Schema {
    let mut s = Schema::new("Mixed");
    s.add_field(SchemaField::new("ID", FieldType::UInt32));
    s.add_field(SchemaField::new("Name", FieldType::String));
    s.add_field(SchemaField::new("Enabled", FieldType::Bool));
    s.add_field(SchemaField::new("Level", FieldType::UInt8));
    s.add_field(SchemaField::new("Delta", FieldType::Int8));
    s.add_field(SchemaField::new("Mask", FieldType::UInt16));
    s.add_field(SchemaField::new("Bias", FieldType::Int16));
    s.add_field(SchemaField::new_array("Slots", FieldType::UInt16, 3));
    s.set_key_field("ID");
    s
}

const MIXED_RECORD: usize = 24;

fn bootstrap_mixed(n: u32) -> Vec<u8> {
    let mut strings = vec![0u8];
    let mut recs = Vec::new();
    for i in 0..n {
        let off = strings.len() as u32;
        // (long names: the schema-less record reader takes field_count * 4 bytes per record whatever the record
        // size says, here 40 instead of 24, and must still find that much data in the file)
        strings.extend_from_slice(format!("Interface\\Icons\\Mixed_{:04}.blp", i * 3).as_bytes());
        strings.push(0);
        recs.extend_from_slice(&(100 + i).to_le_bytes());
        recs.extend_from_slice(&off.to_le_bytes());
        recs.extend_from_slice(&(i % 2).to_le_bytes());
        recs.push(200u8.wrapping_add(i as u8));
        recs.push((-(i as i8) - 1) as u8);
        recs.extend_from_slice(&(0x8000u16 + i as u16).to_le_bytes());
        recs.extend_from_slice(&(-300i16 - i as i16).to_le_bytes());
        for k in 0..3u16 {
            recs.extend_from_slice(&(i as u16 * 10 + k).to_le_bytes());
        }
    }
    let mut d = Vec::new();
    d.extend_from_slice(b"WDBC");
    for v in [n, 10, MIXED_RECORD as u32, strings.len() as u32] {
        d.extend_from_slice(&v.to_le_bytes());
    }
    d.extend_from_slice(&recs);
    d.extend_from_slice(&strings);
    d
}

fn records(n: u32) -> (Vec<u8>, Vec<u8>) {
    let mut strings = vec![0u8];
    let mut recs = Vec::new();
    for i in 0..n {
        let off = strings.len() as u32;
        strings.extend_from_slice(format!("Name{}", i * 7).as_bytes());
        strings.push(0);
        recs.extend_from_slice(&(i + 1).to_le_bytes());
        recs.extend_from_slice(&off.to_le_bytes());
        recs.extend_from_slice(&(i as f32 * 1.5).to_le_bytes());
        recs.extend_from_slice(&(-(i as i32)).to_le_bytes());
    }
    (recs, strings)
}

fn bootstrap_wdbc(n: u32) -> Vec<u8> {
    let (recs, strings) = records(n);
    let mut d = Vec::new();
    d.extend_from_slice(b"WDBC");
    for v in [n, 4, 16, strings.len() as u32] {
        d.extend_from_slice(&v.to_le_bytes());
    }
    d.extend_from_slice(&recs);
    d.extend_from_slice(&strings);
    d
}

fn common_fields(s: &mut Seed, hdr: usize, n: u32) {
    common_fields_sized(s, hdr, n, 16)
}

/// `rsz`: record size; the string reference is the second dword of every record
fn common_fields_sized(s: &mut Seed, hdr: usize, n: u32, rsz: usize) {
    s.field_ex(4, 4, "count", "hdr.record_count", hdr, rsz, None);
    s.field_ex(8, 4, "esize", "hdr.field_count", hdr, 4, None);
    s.field_ex(12, 4, "esize", "hdr.record_size", hdr, n.max(1) as usize, None);
    let sb = hdr + rsz * n as usize;
    s.field_ex(16, 4, "bsize", "hdr.string_block_size", sb, 1, None);
    // string offsets inside the records and the terminators inside the string block
    for i in 0..n as usize {
        if i < 2 || i + 1 == n as usize {
            s.field_ex(hdr + rsz * i + 4, 4, "stroff", format!("rec[{i}].name"), sb, 1, None);
        }
    }
    let len = s.bytes.len();
    if len > sb {
        s.field_ex(len - 1, 1, "term", "strings.last_nul", len, 1, None);
        s.field_ex(sb, 1, "term", "strings.first_nul", sb + 1, 1, None);
    }
}

pub fn build(name: &str) -> Seed {
    match name {
        "wdbc-writer" | "wdbc-empty" => {
            let n = if name == "wdbc-empty" { 0 } else { 5 };
            let boot = bootstrap_wdbc(n);
            let p = DbcParser::parse_bytes(&boot).expect("bootstrap parses").with_schema(schema()).expect("schema fits");
            let rs = p.parse_records().expect("bootstrap records");
            let mut out = Cursor::new(Vec::new());
            DbcWriter::new(&mut out).with_schema(schema()).write_records(&rs).expect("DbcWriter");
            let mut s = Seed::new("dbc", name, out.into_inner());
            common_fields(&mut s, 20, n);
            s
        }
        "wdbc-mixed" => {
            let n = 4u32;
            let boot = bootstrap_mixed(n);
            let p = DbcParser::parse_bytes(&boot).expect("bootstrap parses").with_schema(schema_mixed()).expect("mixed schema fits");
            let rs = p.parse_records().expect("bootstrap records");
            let mut out = Cursor::new(Vec::new());
            DbcWriter::new(&mut out).with_schema(schema_mixed()).write_records(&rs).expect("DbcWriter");
            let mut s = Seed::new("dbc", name, out.into_inner());
            common_fields_sized(&mut s, 20, n, MIXED_RECORD);
            s
        }
        "wdb2-basic" | "wdb2-ext" | "wdb2-ext-noindex" => {
            let n = 4u32;
            let (recs, strings) = records(n);
            let ext = name != "wdb2-basic";
            // max_index <= 0: the extended header is not followed by index / string-length arrays
            let noindex = name == "wdb2-ext-noindex";
            let mut d = Vec::new();
            d.extend_from_slice(b"WDB2");
            let build: u32 = if ext { 15595 } else { 12340 };
            // the parser places the record data of a basic header at offset 28 (Wdb2Header::BASIC_SIZE),
            // i.e. where it has just read `timestamp` from: the seed follows the parser's arithmetic
            for v in [n, 4, 16, strings.len() as u32, 0x1234_5678, build] {
                d.extend_from_slice(&v.to_le_bytes());
            }
            if ext {
                d.extend_from_slice(&0x4D00_0000u32.to_le_bytes());
            }
            let mut hdr = 28;
            if ext {
                // min_index, max_index, locale, copy_table_size, then (max-min+1) * (4 + 2) bytes
                for v in [if noindex { 0i32 } else { 1 }, if noindex { 0 } else { 4 }, 0, 0] {
                    d.extend_from_slice(&v.to_le_bytes());
                }
                if !noindex {
                    for i in 0..4u32 {
                        d.extend_from_slice(&i.to_le_bytes());
                    }
                    for _ in 0..4 {
                        d.extend_from_slice(&5u16.to_le_bytes());
                    }
                }
                hdr = d.len();
            }
            d.extend_from_slice(&recs);
            d.extend_from_slice(&strings);
            let mut s = Seed::new("dbc", name, d);
            common_fields(&mut s, hdr, n);
            s.field(24, 4, "index", "hdr.build");
            if ext {
                s.field_ex(32, 4, "index", "hdr.min_index", 48, 6, None);
                s.field_ex(36, 4, "count", "hdr.max_index", 48, 6, None);
                s.field_ex(44, 4, "bsize", "hdr.copy_table_size", s.bytes.len(), 1, None);
            }
            s
        }
        "wdb5" => {
            let n = 4u32;
            let (recs, strings) = records(n);
            let mut d = Vec::new();
            d.extend_from_slice(b"WDB5");
            for v in [n, 4, 16, strings.len() as u32, 0x1234_5678, 0x9ABC_DEF0, 1, 4, 0] {
                d.extend_from_slice(&v.to_le_bytes());
            }
            d.extend_from_slice(&0u16.to_le_bytes());
            d.extend_from_slice(&0u16.to_le_bytes());
            while d.len() < 48 {
                d.push(0);
            }
            d.extend_from_slice(&recs);
            d.extend_from_slice(&strings);
            let mut s = Seed::new("dbc", name, d);
            common_fields(&mut s, 48, n);
            s.field(28, 4, "index", "hdr.min_id");
            s.field(32, 4, "count", "hdr.max_id");
            s.field(40, 2, "index", "hdr.flags");
            s.field(42, 2, "index", "hdr.id_index");
            s
        }
        _ => wverif_common::tool_error(&format!("dbc: unknown seed {name}")),
    }
}

pub fn run(r: &mut Runner, bytes: &[u8], _aux: &Aux) {
    let p = r.call("DbcParser::parse_bytes", || DbcParser::parse_bytes(bytes).map_err(errname));
    if let Some(p) = p {
        r.call("DbcParser::parse_records", || p.parse_records().map(|_| ()).map_err(errname));
        // the same entry point with a schema attached (with_schema validates field_count/record_size)
        if let Ok(ps) = p.with_schema(schema()) {
            r.call("DbcParser::parse_records", || ps.parse_records().map(|_| ()).map_err(errname));
        }
        // ... and with the schema of narrow types and an array field (with_schema consumes the parser: the
        // bytes are parsed once more, which has just succeeded above)
        if let Some(ps) = DbcParser::parse_bytes(bytes).ok().and_then(|q| q.with_schema(schema_mixed()).ok()) {
            r.call("DbcParser::parse_records", || ps.parse_records().map(|_| ()).map_err(errname));
        }
    }
}
