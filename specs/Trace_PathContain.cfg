CONSTANTS
  Guard = TRUE
  Plat = "posix"
INIT TInit
NEXT TNext
POSTCONDITION Accepted
CHECK_DEADLOCK FALSE
