#!/usr/bin/env python3
"""Round-4 corrupted-trace self-test for C08 (content-length class, extract_files, RLE control-byte space): alter ONE logged
field of an accepted event of a kept run (VERIF_KEEP=1 bin/vcheck C08 -> /var/tmp/wverif.C08.<pid>/{trace,ptrace}.ndjson) and
validate again; each corruption must be rejected with the named tag.
usage: corrupt_trace_g4.py <scratch dir of the kept run>"""
import json, os, sys
sys.path.insert(0, os.path.dirname(os.path.dirname(os.path.dirname(os.path.abspath(__file__)))))
from vlib import core

d = sys.argv[1]
ctx = core.Ctx("C08", "quick", 1, {})
ok = True


def first_block(path, want):
    """the first trace (Reset .. next Reset) that holds an event satisfying `want`"""
    block = []
    for line in open(path):
        r = json.loads(line)
        if r["ev"] == "Reset" and block:
            if any(want(x) for x in block):
                return block
            block = []
        block.append(r)
    return block


try:
    names = None
    # 1..3: chain trace
    blk = first_block(os.path.join(d, "trace.ndjson"), lambda r: r["ev"] == "Op" and r["sw"])
    names = blk[0]["names"]
    ctok = blk[0]["ctok"]
    for kind in ("empty read -> notfound", "empty read -> other content", "extract_files answer differs"):
        recs = json.loads(json.dumps(blk))
        done = None
        for i, r in enumerate(recs):
            if r["ev"] != "Op" or not r["sw"]:
                continue
            for k, n in enumerate(names):
                o = r["obs"]["rd"][k]
                if kind.startswith("empty") and o[0] == "ok" and o[1] == ctok["E0"]:
                    new = ["notfound", "", ""] if "notfound" in kind else ["ok", ctok["c81"], ""]
                    for f in ("rd", "rd2", "rd3", "rdx"):
                        r["obs"][f][k] = new
                    done = i
                    break
                if kind.startswith("extract") and o[0] == "ok":
                    r["obs"]["rdx"][k] = ["notfound", "", ""]
                    done = i
                    break
            if done is not None:
                break
        p = ctx.path("corrupt.ndjson")
        with open(p, "w") as f:
            for r in recs:
                f.write(json.dumps(r) + "\n")
        res = ctx.validate("Trace_PatchChain", p, shards=1)
        hit = [b["why"] for b in res["bad"] if b["line"] == (done or -2) + 1]
        print(f"chain: {kind}: corrupted line {(done or -2) + 1} -> rejected: {bool(hit)} {hit}", flush=True)
        ok = ok and bool(hit)
    # 4..5: patch-plan trace, a run plan that holds the maximal literal run / the maximal zero run
    for kind, runs in (("0xFF plan reported as err", [[0, 1], [1, 128], [0, 1]]), ("0x7F plan returns other bytes", [[1, 1], [0, 128], [1, 1]])):
        plans = [json.loads(l) for l in open(os.path.join(d, "plans.ndjson"))]
        idx = [i for i, c in enumerate(plans) if c.get("runs") == runs and c["mut"]["k"] == "none" and c.get("blk") == "extra"][0]
        blk = first_block(os.path.join(d, "ptrace.ndjson"), lambda r: r["ev"] == "Apply" and r["case"].split(":")[0] == str(idx))
        recs = json.loads(json.dumps(blk))
        done = None
        for i, r in enumerate(recs):
            if r["ev"] == "Apply" and r["case"].split(":")[0] == str(idx):
                assert r["res"] == "ok"
                if "err" in kind:
                    r["res"], r["out"] = "err", []
                else:
                    r["out"][-1] ^= 1
                done = i
        p = ctx.path("pcorrupt.ndjson")
        with open(p, "w") as f:
            for r in recs:
                f.write(json.dumps(r) + "\n")
        res = ctx.validate("Trace_Ptch", p, shards=1)
        hit = [b["why"] for b in res["bad"] if b["line"] == done + 1]
        print(f"ptch: {kind}: corrupted line {done + 1} -> rejected: {bool(hit)} {hit}", flush=True)
        ok = ok and bool(hit)
finally:
    ctx.cleanup()
sys.exit(0 if ok else 1)
