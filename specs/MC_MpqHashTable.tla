--------------------------- MODULE MC_MpqHashTable ---------------------------
(***************************************************************************************************)
(* Stage (A) for C06: exhaustive check of the designed machine (Code = FALSE) on a 4-slot table    *)
(* with names whose home slots collide, for every history of at most MaxCalls calls:               *)
(*   - refinement  MpqHashTable => MpqMap   (PROPERTY AbsSpec), and call by call (OpRefines): a    *)
(*     call that returns ok IS the abstract operation, a refusal is one the abstract map allows    *)
(*     and leaves the map unchanged                                                                *)
(*   - TableInv (one entry per name, every entry reachable by the probe - through Deleted markers, *)
(*     after rename onto a just-deleted name, after re-add), ProbeBounded (both loops stop within  *)
(*     H slots, also on a full table), TablesDisjointFromData, ListfileExact                       *)
(* MC_MpqHashTable_code.cfg runs the same model with Code = TRUE: TLC must find the violations     *)
(* (table overrun after Slack+1 appended blocks, the spinning insertion) - see checks/c06.py.      *)
(***************************************************************************************************)
EXTENDS MpqHashTable

CONSTANTS MCToks

MCNames == {"a", "b", "c", "d"}
\* a b c collide on the LAST slot: their probe chain wraps around the end of the table (a at 3, b at 0, ...);
\* d's home is the slot the chain wraps into
MCHome  == [n \in MCNames \cup {LF, AT} |-> CASE n = "d" -> 0 [] n = LF -> 2 [] n = AT -> 1 [] OTHER -> 3]
\* spelling: "a" is a substring of "b" (e.g. data\\x.bin inside xdata\\x.bin)
MCSub   == [n \in MCNames |-> IF n = "a" THEN {"b"} ELSE {}]
MCInit  == <<"a", "b">>                              \* a probe chain exists from the start; 3 of 4 slots live
MCInitTok == [n \in {"a", "b"} |-> "t0"]
\* small layout model: two names, more calls, real-ish file size
LNames == {"a", "b"}
LHome  == [n \in LNames \cup {LF, AT} |-> 3]      \* everything collides on the last slot: wrapped chains
LSub   == [n \in LNames |-> IF n = "a" THEN {"b"} ELSE {}]
LInit  == <<"a">>
LInitTok == [n \in {"a"} |-> "t0"]

CallAdd    == \E n \in UNames, c \in MCToks, rep \in BOOLEAN, enc \in {"none", "enc"} : BeginAdd(n, c, rep, enc, "zlib", FALSE)
CallAddFix == \E n \in UNames, c \in MCToks : BeginAdd(n, c, TRUE, "fix", "none", FALSE)
\* a content larger than a sector, stored as one compressed unit (grows when compact() stores it sectored)
CallAddBig == \E n \in UNames, c \in MCToks : BeginAdd(n, c, TRUE, "none", "zlib", TRUE)
CallRemove == \E n \in UNames : BeginRemove(n)
CallRename == \E a \in UNames, b \in UNames : BeginRename(a, b)

DesignNext == CallAdd \/ CallAddBig \/ CallRemove \/ CallRename \/ DesignSteps \/ DesignSyncs
MCSpec     == HInit /\ [][DesignNext]_hvars
\* the implementation before the fix commits (TLC must keep refuting it: _codeA/B/C.cfg)
Code0Next  == CallAdd \/ CallAddFix \/ CallRemove \/ CallRename \/ Code0Steps \/ Code0Syncs
CodeSpec   == HInit /\ [][Code0Next]_hvars
\* the implementation at b13f4b7 (TLC must keep refuting it: _codeD/E/G/H.cfg)
Code1Next  == CallAdd \/ CallAddFix \/ CallRemove \/ CallRename \/ Code1Steps \/ Code1Syncs
Code1Spec  == HInit /\ [][Code1Next]_hvars
\* the implementation as it is now: must satisfy everything the design does (_codeOK.cfg, _codeF.cfg)
CodeNowNext == CallAdd \/ CallAddFix \/ CallAddBig \/ CallRemove \/ CallRename \/ CodeSteps \/ CodeSyncs
\* hypothetical: compact() that keeps the old append cursor (must violate CursorBehindImage: _codeI.cfg)
StaleCursorNext == CallAdd \/ CallAddBig \/ CallRemove \/ CallRename \/ CodeSteps \/ Open \/ FlushClean \/ CloseClean
                   \/ FlushRelocate \/ CloseRelocate \/ CompactKeepsCursor
StaleCursorSpec == HInit /\ [][StaleCursorNext]_hvars
CodeNowSpec == HInit /\ [][CodeNowNext]_hvars
\* hypothetical: compact() that skips entries of stored size 0 loses the files whose content is empty (must violate
\* AtomicRefines: _codeJ.cfg); for the design and the as-coded machine the empty content is a content value like any other
\* (their content tokens are opaque)
CallAddEmpty == \E n \in UNames, rep \in BOOLEAN, enc \in {"none", "enc"} : BeginAdd(n, EmptyTok, rep, enc, "none", FALSE)
SkipEmptyNext == CallAdd \/ CallAddEmpty \/ CallRemove \/ CallRename \/ CodeSteps \/ Open \/ FlushClean \/ CloseClean
                 \/ FlushRelocate \/ CloseRelocate \/ CompactSkipsEmpty
SkipEmptySpec == HInit /\ [][SkipEmptyNext]_hvars
\* ... and restricted to what is believed correct now (V1/V2, listfile present, no encryption, no name
\* spelled inside another): this machine must satisfy everything the design does (_codeOK.cfg)
NoSub == [n \in UNames |-> {}]
CallAddPlain == \E n \in UNames, c \in MCToks, rep \in BOOLEAN : BeginAdd(n, c, rep, "none", "zlib", FALSE)
CodeOkNext == CallAddPlain \/ CallRemove \/ CallRename \/ CodeSteps \/ CodeSyncs
CodeOkSpec == HInit /\ [][CodeOkNext]_hvars
\* every started call finishes (checked in the small configuration)
MCFairSpec == MCSpec /\ WF_hvars(DesignSteps)
CodeFairSpec == CodeNowSpec /\ WF_hvars(CodeSteps)
Termination == (pc # "idle") ~> (pc = "idle")

(* ---------------- refinement mapping ---------------- *)
SessBar  == IF pc = "idle" THEN SessView ELSE hsnap
ExtraBar == Cardinality({i \in Slots : hslots[i].st = "O" /\ hslots[i].nm \in {LF, AT}})
Abs == INSTANCE MpqMap WITH Names <- UNames, Toks <- MCToks \cup BadToks \cup {"t0"},
                            vdisk <- DiskView, vsess <- SessBar, vopen <- wopen, vdirty <- wdirty,
                            vcap <- H, vextra <- ExtraBar
AbsSpec == /\ Abs!MapInit(View(StartSlots, StartBlocks, {}), H, (IF HasLF0 THEN 1 ELSE 0) + (IF HasAT0 THEN 1 ELSE 0))
           /\ [][Abs!MapNext]_(Abs!mvars)

\* call-by-call: the step that completes a call is exactly the abstract action its result names
Completing == pc # "idle" /\ pc' = "idle"
OpRefines == [][ Completing =>
       CASE opr.k = "add" /\ lastres' = "ok"          -> Abs!Add(opr.n, opr.c, opr.rep)
         [] opr.k = "add" /\ lastres' = "exists"      -> Abs!AddFailExists(opr.n, opr.rep)
         [] opr.k = "add" /\ lastres' = "full"        -> Abs!AddFailFull(opr.n)
         [] opr.k = "remove" /\ lastres' = "ok"       -> Abs!Remove(opr.n)
         [] opr.k = "remove" /\ lastres' = "notfound" -> Abs!RemoveFail(opr.n)
         [] opr.k = "rename" /\ lastres' = "ok"       -> Abs!Rename(opr.n, opr.m)
         [] opr.k = "rename" /\ lastres' \in {"notfound", "exists"} -> Abs!RenameFail(opr.n, opr.m)
         [] OTHER -> FALSE ]_hvars
\* the calls without probing
AtomicRefines == [][ (pc = "idle" /\ pc' = "idle" /\ vcalls' # vcalls) =>
                         (Abs!Open \/ Abs!Flush \/ Abs!Close \/ IF lastres' = "refused" THEN Abs!CompactFail ELSE Abs!CompactAny) ]_hvars

AbsClean == Abs!CleanMeansEqual
=============================================================================
