--------------------------- MODULE MC_M2Layout ---------------------------
(* Stage (A) for C13: exhaustive check of the layout machine for EVERY subset of the sections in      *)
(* MCSecs (populated with 3 records + payload, or empty) x every version, for the three file kinds,    *)
(* each followed by Parse, then Rewrite or Convert(v2) for every target version.                       *)
EXTENDS M2Layout, IOUtils

Thorough == IOEnv.VERIF_TIER = "thorough"
\* sections whose sizes vary with the version or that carry payloads, plus fixed-size neighbours
MCSecs == IF Thorough
          THEN {"name", "animations", "bones", "textures", "views", "events", "cameras", "lights"}
          ELSE {"animations", "bones", "textures", "events", "cameras"}
KfChoices == IF Thorough THEN BOOLEAN ELSE {TRUE}
Many == 3
TailBytes(sec) == IF sec \in Tracked THEN Many * TracksOf(sec) * (2 * 4 + 2 * 12 + 2 * 8)
                  ELSE IF sec = "textures" THEN Many * 21
                  ELSE IF sec = "views" THEN Many * (6 + 6 + 4 + 48 + 96) ELSE 0

ShapeOf(pop)  == [sec \in AllSecs |-> IF sec \in pop THEN Many ELSE 0]
TailsOf(pop, kf) == [sec \in AllSecs |-> IF sec \in pop /\ (kf \/ sec \notin Tracked) THEN TailBytes(sec) ELSE 0]
\* MAOF sections: 16-byte section header + 4 bytes per bone + bone data
AnimShape(pop) == [sec \in AllSecs |-> IF sec \in pop THEN 16 + 4 * 2 + 76 ELSE 0]

InitWith(fmt, ver, shape, tails) ==
  /\ mfmt = fmt /\ mver = ver /\ mshape = shape /\ mtail = tails /\ mgen = 0
  /\ mfirst = [shape |-> shape, tails |-> tails, ver |-> ver, hdr |-> NoHdr, file |-> << >>, trk |-> ZeroFn]
  /\ mpc = "start" /\ msec = 1 /\ mcur = 0 /\ memit = 0
  /\ mhdr = NoHdr /\ mtrk = ZeroFn /\ mfile = << >> /\ mparsed = NoParse

Init == \/ \E ver \in VerSet, pop \in SUBSET MCSecs, kf \in KfChoices : InitWith("m2", ver, ShapeOf(pop), TailsOf(pop, kf))
        \/ \E fmt \in {"skin_old", "skin_new"}, pop \in SUBSET SecSet("skin_old") : InitWith(fmt, "WotLK", ShapeOf(pop), ZeroFn)
        \/ \E pop \in SUBSET SecSet("anim") : InitWith("anim", "MoP", AnimShape(pop), ZeroFn)
Next == Step

ASSUME SizesAgree
ASSUME PathsReachTarget
ASSUME ReaderWriterAgree
ASSUME RelocConsistent
ASSUME SaveYieldsBytes
ASSUME ArraysPreserved
=============================================================================
