CONSTANTS
  SectorSize = 4
  TableSize = 4
  FlagFix = FALSE
  NameHash <- MCNameHash
  LibFileKey <- MCFileKey
INIT MCInit
NEXT MCNextOnce
INVARIANT NegNoFlagDeviation
CHECK_DEADLOCK FALSE
