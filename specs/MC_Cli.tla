-------------------------------- MODULE MC_Cli --------------------------------
(* Stage (A) for C20: the obligation matrix is total / single-valued / not vacuous (ASSUMEs, evaluated over *)
(* every sub-command x input class x library verdict), and on the session model                            *)
(*   MC_Cli          the tool as coded: every run is Truthful; create;extract is the identity on tokens;   *)
(*                   exit 0 of extract means every requested readable file is there                        *)
(*   MC_Cli_deviant  with the deviation ValidateDeviant (validate before commit 01748b8) enabled: the only *)
(*                   untruthful runs are validate runs that printed a failure and exited 0                 *)
(*   MC_Cli_refuted  the same model against LastTruthful: TLC must find the violation                      *)
(*   MC_Cli_refuted2 / 3  the deviations ExtractKeepsStale / ExtractSkipsSameLen (a stale file / a stale file *)
(*                   of the member's length survives a successful extract): ExtractComplete must be refuted  *)
EXTENDS Cli
ASSUME MatrixTotal
ASSUME MatrixNotVacuous
ASSUME EveryFamilyHasAProducer
ASSUME RegionDamageBinds
ASSUME PrintT(<<"MATRIX", Cardinality(AllCmds), "sub-commands", Cardinality(Inputs), "input classes",
                Cardinality({<<fc, inp, lib>> \in AllCmds \X Inputs \X {"ok", "err"} :
                    FailureClass([Run0(fc[1], fc[2], inp) EXCEPT !.lib = lib])}), "must-fail cells">>)
\* the filter contract on the shapes the generator uses (near-misses must not match)
Ch(str) == str      \* tuples of one-character strings are written out literally below
GlobSanity ==
    /\ GlobMatch(<<"*", ".", "t", "x", "t">>, <<"a", ".", "t", "x", "t">>)
    /\ ~GlobMatch(<<"*", ".", "t", "x", "t">>, <<"l", "o", "g", "_", "t", "x", "t">>)
    /\ ~GlobMatch(<<"*", ".", "t", "x", "t">>, <<"a", ".", "t", "x", "t", "2">>)
    /\ GlobMatch(<<"d", "a", "*">>, <<"d", "a", "t">>) /\ ~GlobMatch(<<"d", "a", "*">>, <<"m", "d", "a">>)
    /\ GlobMatch(<<"*", "u", "b", "*">>, <<"s", "u", "b", "\\", "x">>) /\ ~GlobMatch(<<"*", "u", "b", "*">>, <<"s", "u">>)
    /\ GlobMatch(<<"z", "z">>, <<"a", "z", "z", "b">>) /\ ~GlobMatch(<<"z", "?", "z">>, <<"z", "a", "z">>)
    /\ GlobMatch(<<"*">>, <<>>) /\ GlobMatch(<<>>, <<"x">>)
ASSUME GlobSanity
OnlyKnownDefect == (HasRun /\ ~Truthful(vlast.r, vlast.o)) =>
                   (vlast.r.fam = "mpq" /\ vlast.r.cmd = "validate" /\ vlast.o.says_fail /\ vlast.o.exit = 0)
=============================================================================
