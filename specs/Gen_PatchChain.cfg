CONSTANT Cont <- StdWorld
INIT Init
NEXT Next
VIEW GView
CHECK_DEADLOCK FALSE
