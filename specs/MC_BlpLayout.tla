---------------------------- MODULE MC_BlpLayout ----------------------------
(* Stage (A) for C16: the layout machine on every (w,h) of a dimension set with powers of two, their  *)
(* neighbours and non-square pairs x versions x encodings x alpha depths x mipmaps on/off.            *)
EXTENDS BlpLayout
MDims == {1, 2, 3, 4, 5, 7, 8, 16, 17, 31, 32, 33, 64, 100, 255, 256, 257, 512}
MShapes == {[ver |-> v, enc |-> e, alpha |-> a, w |-> w, h |-> h, mips |-> m, jh |-> IF e = "jpeg" THEN 300 ELSE 0] :
            v \in Versions, e \in Encodings, a \in {0, 1, 4, 8}, w \in {1, 2, 3, 5, 8, 17, 64, 257, 512}, h \in {1, 2, 4, 7, 16, 33, 100, 256}, m \in BOOLEAN}
Init == \E s \in {ss \in MShapes : TargetOk(ss.ver, ss.enc) /\ AlphaOk(ss.enc, ss.alpha)} : BStart(s)
Next == BlpNext
ASSUME Vectors == /\ MipCount(512, 256, TRUE) = 10 /\ MipCount(8, 2, TRUE) = 4 /\ MipCount(1, 1, TRUE) = 1 /\ MipCount(100, 3, FALSE) = 1
                  /\ CodeMipCount(8, 2, TRUE) = 2 /\ CodeMipCount(8, 8, TRUE) = 4 /\ CodeMipCount(1, 8, TRUE) = 1
                  /\ Chain(8, 2, TRUE) = <<<<8, 2>>, <<4, 1>>, <<2, 1>>, <<1, 1>>>>
                  /\ LevelBytes("raw1", 1, <<3, 3>>) = 11 /\ LevelBytes("raw1", 4, <<3, 3>>) = 14 /\ LevelBytes("raw1", 0, <<5, 1>>) = 5
                  /\ LevelBytes("raw3", 8, <<5, 7>>) = 140
                  /\ LevelBytes("dxt1", 0, <<5, 5>>) = 32 /\ LevelBytes("dxt5", 8, <<1, 1>>) = 16 /\ LevelBytes("dxt3", 8, <<8, 4>>) = 32
                  /\ HeaderSize("Blp0") = 28 /\ HeaderSize("Blp1") = 156 /\ HeaderSize("Blp2") = 148
                  /\ DataStart("Blp2", "raw3", 0) = 1172 /\ DataStart("Blp1", "jpeg", 300) = 460
ASSUME DimsLaw == \A w \in MDims, h \in MDims : \A m \in BOOLEAN :
                    /\ Len(Chain(w, h, m)) = MipCount(w, h, m)
                    /\ (m => Chain(w, h, m)[MipCount(w, h, m)] = <<1, 1>>)
                    /\ CodeMipCount(w, h, m) <= MipCount(w, h, m)
                    /\ (CodeMipCount(w, h, m) = MipCount(w, h, m) <=> (~m \/ Log2Floor(w) = Log2Floor(h)))
ASSUME SaveLawHolds == SaveLaw
ASSUME QuantLaw == \A a \in 0..255 : QuantOk(4, a, Quant4(a)) /\ QuantOk(8, a, a) /\ QuantOk(1, a, IF a > 0 THEN 255 ELSE 0)
=============================================================================
