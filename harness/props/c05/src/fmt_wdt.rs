//! C05 seeds, field inventory and entry points for WDT (map tile table).
//!
//! All seeds are produced by the crate's own `WdtWriter` from a `WdtFile`: terrain maps of
//! several expansions (with the empty MWMO chunk before Cataclysm), WMO-only maps with MWMO +
//! MODF, and a BfA map with the MAID FileDataID table (8 sections of 64x64 ids). Chunk tags are
//! stored reversed on disk ("REVM"). `WdtReader::new` takes a version hint; the seed's own version
//! is passed through `Aux::Names` and WotLK is always tried as well.
//!
//! Two byte-level additions the writer cannot produce: "classic-terrain" ends with a chunk of an
//! unknown tag (the reader skips it), and the MWMO chunk of "classic-wmo-nomodf" has lost the NUL
//! behind its last name (the reader takes the unterminated rest as a name). The "tbc-*" and
//! "classic-wmo-nomodf" seeds exist for the arms of the reader's version detection (MPHD flag
//! ranges, WMO-only map without MODF).
use crate::seed::{add_chunk_seq, Aux, Seed};
use crate::worker::{errname, Runner};
use std::io::Cursor;
use wow_wdt::chunks::maid::MaidSection;
use wow_wdt::chunks::mphd::FileDataIds;
use wow_wdt::chunks::{MaidChunk, ModfChunk, ModfEntry, MphdFlags, MwmoChunk};
use wow_wdt::version::WowVersion;
use wow_wdt::{WdtFile, WdtReader, WdtWriter};

pub fn seed_names(thorough: bool) -> Vec<String> {
    let mut v = vec!["wotlk-wmo-only".to_string(), "bfa-maid".to_string()];
    if thorough {
        v.push("classic-terrain".into());
        v.push("wotlk-terrain".into());
        v.push("cata-terrain".into());
        v.push("mop-wmo-only".into());
        v.push("tbc-terrain".into());
        v.push("tbc-wmo-only".into());
        v.push("classic-wmo-nomodf".into());
    }
    v
}

fn version_of(name: &str) -> WowVersion {
    match name {
        "classic-terrain" | "classic-wmo-nomodf" => WowVersion::Classic,
        "tbc-terrain" | "tbc-wmo-only" => WowVersion::TBC,
        "wotlk-terrain" | "wotlk-wmo-only" => WowVersion::WotLK,
        "cata-terrain" => WowVersion::Cataclysm,
        "mop-wmo-only" => WowVersion::MoP,
        "bfa-maid" => WowVersion::BfA,
        _ => wverif_common::tool_error(&format!("wdt: unknown seed {name}")),
    }
}

fn vname(v: WowVersion) -> &'static str {
    match v {
        WowVersion::Classic => "Classic",
        WowVersion::TBC => "TBC",
        WowVersion::WotLK => "WotLK",
        WowVersion::Cataclysm => "Cataclysm",
        WowVersion::MoP => "MoP",
        WowVersion::WoD => "WoD",
        WowVersion::Legion => "Legion",
        WowVersion::BfA => "BfA",
        WowVersion::Shadowlands => "Shadowlands",
        WowVersion::Dragonflight => "Dragonflight",
    }
}

fn vparse(s: &str) -> WowVersion {
    WowVersion::from_expansion_name(s).unwrap_or(WowVersion::WotLK)
}

const TILES: [(usize, usize); 6] = [(0, 0), (1, 0), (31, 32), (32, 32), (10, 20), (63, 63)];

fn modf_entry(ver: WowVersion) -> ModfEntry {
    let mut e = ModfEntry::new();
    e.id = 0;
    e.unique_id = ver.expected_modf_unique_id();
    e.position = [17066.0, 100.0, 17066.0];
    e.rotation = [0.0, 90.0, 0.0];
    e.lower_bounds = [-500.0, -50.0, -500.0];
    e.upper_bounds = [500.0, 300.0, 500.0];
    e.flags = 0;
    e.doodad_set = 1;
    e.name_set = 0;
    e.scale = ver.expected_modf_scale();
    e
}

pub fn build(name: &str) -> Seed {
    let ver = version_of(name);
    let mut w = WdtFile::new(ver);
    let wmo_only = name.contains("-wmo-");
    if wmo_only {
        w.mphd.flags |= MphdFlags::WDT_USES_GLOBAL_MAP_OBJ;
        let mut m = MwmoChunk::new();
        m.add_filename("World\\wmo\\Dungeon\\KL_Instance\\KL_Instance.wmo".to_string());
        w.mwmo = Some(m);
        if name != "classic-wmo-nomodf" {
            // (without MODF the reader's version detection falls back to the version hint)
            let mut f = ModfChunk::new();
            f.add_entry(modf_entry(ver));
            w.modf = Some(f);
        }
        if ver >= WowVersion::Cataclysm {
            w.mphd.flags |= MphdFlags::UNK_FIRELANDS;
        }
        if name == "tbc-wmo-only" {
            // flags word 3: above 1 and not above 0xF, which the detection takes for TBC
            w.mphd.flags |= MphdFlags::ADT_HAS_MCCV;
        }
    } else {
        for (k, &(x, y)) in TILES.iter().enumerate() {
            let e = w.main.get_mut(x, y).expect("tile");
            e.set_has_adt(true);
            e.area_id = 100 + k as u32;
            if k == 2 {
                e.flags |= 0x2; // "loaded" runtime bit, seen in files
            }
        }
        match ver {
            WowVersion::Classic => {
                w.mwmo = Some(MwmoChunk::new());
            }
            WowVersion::TBC => {
                // flags word 0x10: above 1 with none of 0x2 / 0x4 / 0x8, terrain map with (empty) MWMO: TBC
                w.mphd.flags |= MphdFlags::ADT_HAS_LIGHTING_VERTICES;
                w.mwmo = Some(MwmoChunk::new());
            }
            WowVersion::WotLK => {
                w.mphd.flags |= MphdFlags::ADT_HAS_MCCV | MphdFlags::ADT_HAS_BIG_ALPHA | MphdFlags::ADT_HAS_DOODADREFS_SORTED_BY_SIZE_CAT;
                w.mwmo = Some(MwmoChunk::new());
            }
            WowVersion::Cataclysm => {
                w.mphd.flags |= MphdFlags::ADT_HAS_MCCV | MphdFlags::ADT_HAS_BIG_ALPHA | MphdFlags::UNK_FIRELANDS;
            }
            _ => {
                w.mphd.flags |= MphdFlags::ADT_HAS_BIG_ALPHA | MphdFlags::UNK_FIRELANDS | MphdFlags::ADT_HAS_HEIGHT_TEXTURING;
                w.mphd.set_file_data_ids(FileDataIds { lgt: 1_000_001, occ: 1_000_002, fogs: 1_000_003, mpv: 1_000_004, tex: 1_000_005, wdl: 1_000_006, pd4: 1_000_007 });
                let mut maid = MaidChunk::new();
                for (k, &(x, y)) in TILES.iter().enumerate() {
                    for (si, sec) in MaidSection::all().iter().enumerate() {
                        maid.set(*sec, x, y, 2_000_000 + (k * 16 + si) as u32).expect("maid.set");
                    }
                }
                w.maid = Some(maid);
            }
        }
    }
    let mut out = Vec::new();
    WdtWriter::new(&mut out).write(&w).expect("WdtWriter::write");
    if name == "classic-terrain" {
        // hand-assembled: the writer only emits the chunks it knows
        out.extend_from_slice(b"TSTX"); // 'XTST' reversed
        out.extend_from_slice(&12u32.to_le_bytes());
        out.extend_from_slice(&[0x11, 0x22, 0x33, 0x44, 0x55, 0x66, 0x77, 0x88, 0x99, 0xAA, 0xBB, 0xCC]);
    }
    if name == "classic-wmo-nomodf" {
        // byte patch: the writer terminates every MWMO name; drop the last NUL (MWMO is the last chunk here)
        let ch = crate::seed::walk_chunks(&out, 0, out.len());
        let &(o, tot) = ch.last().expect("chunks");
        assert!(&out[o..o + 4] == b"OMWM" && o + tot == out.len() && out[out.len() - 1] == 0, "MWMO is not the last chunk");
        let sz = (tot - 8 - 1) as u32;
        out[o + 4..o + 8].copy_from_slice(&sz.to_le_bytes());
        out.pop();
    }
    let len = out.len();
    let mut s = Seed::new("wdt", name, out);
    s.aux = Aux::Names(vec![vname(ver).to_string()]);
    let chunks = add_chunk_seq(&mut s, "top", 0, len, vec![], true);
    let find = |t: &str| chunks.iter().find(|c| c.2 == t).map(|c| (c.0, c.1));

    if let Some((o, _)) = find("MVER") {
        s.field(o + 8, 4, "index", "MVER.version");
    }
    if let Some((o, _)) = find("MPHD") {
        s.field(o + 8, 4, "index", "MPHD.flags");
        s.field(o + 12, 4, "index", "MPHD.something_or_lgt_id");
        for i in 0..6 {
            s.field(o + 16 + 4 * i, 4, "index", format!("MPHD.unused[{i}]"));
        }
    }
    if let Some((o, tot)) = find("MAIN") {
        let n = (tot - 8) / 8;
        let mut pick = vec![0usize, 1, n - 1];
        // the first populated tile that is not already listed
        if let Some(k) = (0..n).find(|&i| s.u32_at(o + 8 + 8 * i) != 0 && !pick.contains(&i)) {
            pick.push(k);
        }
        for i in pick {
            s.field(o + 8 + 8 * i, 4, "index", format!("MAIN[{i}].flags"));
            s.field(o + 8 + 8 * i + 4, 4, "index", format!("MAIN[{i}].area_id"));
        }
    }
    if let Some((o, tot)) = find("MAID") {
        let n = (tot - 8) / 4;
        for i in [0usize, 1, 4096, n - 1] {
            if i < n {
                s.field(o + 8 + 4 * i, 4, "index", format!("MAID[{i}]"));
            }
        }
    }
    if let Some((o, tot)) = find("MWMO") {
        if tot > 8 && s.bytes[o + tot - 1] == 0 {
            s.field_ex(o + tot - 1, 1, "term", "MWMO.last_nul", o + tot, 1, None);
        }
    }
    if let Some((o, tot)) = find("MODF") {
        if tot >= 8 + 64 {
            let e = o + 8;
            s.field(e, 4, "index", "MODF[0].name_id");
            s.field(e + 4, 4, "index", "MODF[0].unique_id");
            s.field(e + 56, 2, "index", "MODF[0].flags");
            s.field(e + 58, 2, "index", "MODF[0].doodad_set");
            s.field(e + 60, 2, "index", "MODF[0].name_set");
            s.field(e + 62, 2, "index", "MODF[0].scale");
        }
    }
    s
}

pub fn run(r: &mut Runner, bytes: &[u8], aux: &Aux) {
    let own = match aux {
        Aux::Names(v) if !v.is_empty() => vparse(&v[0]),
        _ => WowVersion::WotLK,
    };
    r.call("WdtReader::read", || WdtReader::new(Cursor::new(bytes), own).read().map(|_| ()).map_err(errname));
    if own != WowVersion::WotLK {
        r.call("WdtReader::read", || WdtReader::new(Cursor::new(bytes), WowVersion::WotLK).read().map(|_| ()).map_err(errname));
    } else {
        r.call("WdtReader::read", || WdtReader::new(Cursor::new(bytes), WowVersion::BfA).read().map(|_| ()).map_err(errname));
    }
}
