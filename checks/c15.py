"""C15 -- WMO root and group files survive write -> parse -> write; header counts = list lengths;
string-table offsets resolve; conversions keep representable content."""
import json
from vlib import core

META = {
    "level": "model_checking",
    "level_text": "WmoLayout.tla specifies the WMO root/group layout (record sizes, MOHD count fields, string tables, emission plan, "
                  "MOGP container with back-patched size) as a writer machine followed by an independent walker; TLC checks exhaustively, for every "
                  "combination of empty/populated lists x versions Classic..MoP, cursor bookkeeping, that the walker is never lost, tiling, "
                  "MOHD counts = list lengths = record counts, string offsets resolve (stage A, plus the generic framing model MC_ChunkFraming). "
                  "TLC enumerates the shape space (each list empty/one/many, string classes, extreme floats, every conversion pair); the real "
                  "WmoWriter / WmoParser / parse_wmo / WmoConverter run on each shape and TLC validates the recorded events: per-section content "
                  "tokens equal after parse, second write byte-identical, counts read out of the produced bytes by an independent chunk walker, "
                  "string-table references resolved in TLA+, Representable sections kept by conversion.",
    "level_note": "Payload bytes (floats, colours) are compared as opaque tokens (digest of the Debug rendering per section). Stage A is about "
                  "the model of the format writer; only stages C+D speak about the code. Versions Classic..MoP (the property's quantifier); "
                  "convex volume planes (MCVP) are not in the property's list and are not generated. Group files: the legacy group parser is a stub, "
                  "so group content can only be observed through parse_wmo (different object model; projections of geometry lists).",
    "technique": "TLA+ layout specification model-checked by TLC; TLC-generated shapes replayed on the real writer/parsers/converter; trace validation by TLC",
    "design_ref": "DESIGN.md section 5, C13-C18 recipe and the C15 paragraph",
    "crates": ["c15"],
}

DIMS = ("ntex", "nmat", "ngrp", "nport", "npref", "nvbl", "nlight", "ndd", "nds", "sky", "names", "xf")


def sig(b):
    rec = b.get("rec") or {}
    rs = b.get("reset") or {}
    sh = rs.get("shape") or {}
    s = {"ev": b.get("ev"), "why": str(b.get("why", "")).strip('"'), "kind": rs.get("kind"), "ver": rs.get("ver"),
         "to": rs.get("to"),
         # where the independent walker first lost the tiling; only deterministic (and only used) for root files
         "brk": rs.get("brk", "") if rs.get("kind") == "root" else ""}
    for k in ("phase", "name", "field", "what", "table", "api", "tag"):
        if k in rec:
            s[k] = rec[k]
    if "res" in rec:
        s["res"] = str(rec["res"])[:120]
    if rs.get("kind") in ("root", "rootconv"):
        for d in DIMS:
            if d in sh:
                s[d] = sh[d]
    else:
        for d in ("nvert", "nidx", "nnorm", "ntc", "ncol", "nbatch", "nbsp", "liq", "ndref", "xf"):
            if d in sh:
                s[d] = sh[d]
    return s


def run(ctx, cases_override=None):
    import os
    if not os.environ.get("C15_SKIP_MC"):          # self-test runs on mutants skip stage A (it does not depend on /repo)
        ctx.mc("MC_ChunkFraming", timeout=600)
        ctx.mc("MC_WmoLayout", timeout=1200)
    else:
        ctx.mc_stats.append({"module": "skipped", "cfg": "skipped", "states": 1, "transitions": 1, "actions": {}, "wall_s": 0})
    if cases_override:
        cases, ncases = cases_override, sum(1 for _ in open(cases_override))
    else:
        cases, ncases = ctx.gen("Gen_WmoLayout", timeout=900)
    binary = ctx.build("c15")
    trace = ctx.harness(binary, cases)
    res = ctx.validate("Trace_WmoLayout", trace, timeout=1500)
    kinds, by_kind, samples, classes = {}, {}, [], set()
    with open(trace) as f:
        for line in f:
            r = json.loads(line)
            kinds[r["ev"]] = kinds.get(r["ev"], 0) + 1
            if r["ev"] == "Reset":
                by_kind[r["kind"]] = by_kind.get(r["kind"], 0) + 1
                sh = r.get("shape", {})
                if any(isinstance(v, int) and v > 0 for k, v in sh.items() if k.startswith("n")):
                    classes.add(json.dumps({k: v for k, v in sh.items() if k != "id"}, sort_keys=True))
            if kinds[r["ev"]] <= 1:
                s = dict(r)
                for k in ("cs", "strs", "refs", "want"):
                    if k in s:
                        s[k] = s[k][:3]
                samples.append(s)
    cov = {
        "traces_validated_against_impl": res["traces"],
        "samples": samples,
        "events_by_kind": kinds,
        "cases_by_kind": by_kind,
        "cases_generated_by_tlc": ncases,
        "evaluations": res["events"] - res["traces"],
        "distinct_nontrivial": len(classes),
        "rule": "one evaluation = one recorded event judged by TLC (Write/Chunks/Count/StrRef/Parse/Sec/Rewrite/Convert/End); "
                "non-trivial = distinct shape records (kind, version, conversion target, list cardinalities, string class, extreme floats) "
                "with at least one non-empty list",
        "exhaustive": False,
    }
    assumptions = [
        "versions Classic..MoP (all store 17 in MVER); the version field of a parsed root is not content (the format cannot express it)",
        "root objects are consistent: bounding box = union of the group boxes, header counts = list lengths, texture offsets of materials point at texture names",
        "doodad-set names fit the 20-byte field; visible-block entries are not 0xFFFF (list terminator); no NaN",
        "flags carry only bits defined by the crate's bitflags types (the parser truncates unknown bits)",
        "HAS_SKYBOX is derived from the skybox field by the writer and is excluded from the header token",
    ]
    return core.finish(ctx, "model_checking", cov, assumptions, res["bad"], sig_fn=sig, trace=trace)


def replay(ctx, payload):
    """Re-run the single case of a replay file (the layout record + that case)."""
    cases, _ = ctx.gen("Gen_WmoLayout", timeout=900)
    want = str(payload.get("case", "")).split(":")[0]
    lines = open(cases).read().splitlines()
    sel = ctx.path("replay-cases.ndjson")
    with open(sel, "w") as f:
        f.write(lines[0] + "\n")
        for l in lines[1:]:
            if str(json.loads(l).get("id")) == want:
                f.write(l + "\n")
    return run(ctx, cases_override=sel)
