CONSTANTS
  Guard = FALSE
  Plat = "windows"
  MaxComps = 3
  MaxEntries = 1
  MCForms = {"rel", "abs", "dotrel", "trail"}
INIT Init
NEXT Next
CHECK_DEADLOCK FALSE
INVARIANTS
  TypeOK
  UnreadTouchesNothing
  PredictionMatchesMachine
  AbortCharacterised
  EscapeCharacterised
  FlattenContained
  GuardCoversEscapes
