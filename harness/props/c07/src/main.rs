//! C07 driver: build a source archive of the class TLC chose, call `rebuild_archive` with the
//! options TLC chose, and record what came out: the summary, the target's readable names and
//! contents (one TRead per listed source name), its listing and the result of `compare_archives`.
//! Observations only; Trace_Rebuild.tla decides.
use std::path::Path;
use wow_mpq::compression::flags as cflags;
use wow_mpq::{
    compare_archives, rebuild_archive, Archive, ArchiveBuilder, AttributesOption, Error, FormatVersion, ListfileOption,
    RebuildOptions,
};
use wverif_common::*;

fn version(v: i64) -> FormatVersion {
    match v {
        1 => FormatVersion::V1,
        2 => FormatVersion::V2,
        3 => FormatVersion::V3,
        _ => FormatVersion::V4,
    }
}
fn vernum(v: FormatVersion) -> i64 {
    v as i64 + 1
}

fn classify<T>(r: &Result<T, Error>) -> String {
    match r {
        Ok(_) => "ok".into(),
        Err(Error::FileNotFound(_)) => "notfound".into(),
        Err(e) => format!("err:{}", variant_name(e)),
    }
}

// Panic messages per thread (the shared hook of wverif_common keeps one global slot, which races when
// several worker threads panic at the same time; signatures must be deterministic).
static PANICS: std::sync::Mutex<Option<std::collections::HashMap<std::thread::ThreadId, String>>> = std::sync::Mutex::new(None);
fn install_hook() {
    std::panic::set_hook(Box::new(|info| {
        let file = info.location().map(|l| l.file().to_string()).unwrap_or_default();
        let file = file.rsplit_once("/src/").map(|(a, b)| format!("{}/src/{}", a.rsplit('/').next().unwrap_or(""), b)).unwrap_or(file);
        let msg = if let Some(s) = info.payload().downcast_ref::<&str>() {
            s.to_string()
        } else if let Some(s) = info.payload().downcast_ref::<String>() {
            s.clone()
        } else {
            "?".into()
        };
        let mut g = PANICS.lock().unwrap();
        g.get_or_insert_with(Default::default).insert(std::thread::current().id(), format!("{file}: {}", normalise_digits(&msg)));
    }));
}
static HANGS: std::sync::atomic::AtomicUsize = std::sync::atomic::AtomicUsize::new(0);
/// Run `f` on a helper thread; a call that does not return within 20 s (normal: milliseconds) is a `Hang`
/// (the thread is leaked). Panics are captured per thread.
fn timed<T: Send + 'static>(f: impl FnOnce() -> T + Send + 'static) -> Outcome<T> {
    let (tx, rx) = std::sync::mpsc::channel();
    std::thread::Builder::new()
        .stack_size(16 << 20)
        .spawn(move || {
            let _ = tx.send(guard(f));
        })
        .expect("spawn");
    match rx.recv_timeout(std::time::Duration::from_secs(20)) {
        Ok(r) => r,
        Err(_) => {
            HANGS.fetch_add(1, std::sync::atomic::Ordering::SeqCst);
            Outcome::Hang
        }
    }
}
fn guard<T>(f: impl FnOnce() -> T) -> Outcome<T> {
    match std::panic::catch_unwind(std::panic::AssertUnwindSafe(f)) {
        Ok(v) => Outcome::Done(v),
        Err(_) => {
            let m = PANICS.lock().unwrap().as_mut().and_then(|m| m.remove(&std::thread::current().id())).unwrap_or_else(|| "?".into());
            Outcome::Panic(m)
        }
    }
}

struct SrcFile {
    name: &'static str,
    data: Vec<u8>,
    comp: u8,
    enc: bool,
    fix: bool,
}

fn source_files(seed: u64, case: &str, with_empty: bool, with_sig: bool, edge: bool, pow: i64) -> Vec<SrcFile> {
    let mut rng = Rng::derive(seed, &format!("{case}:src"));
    let mut v = vec![
        SrcFile { name: "data\\plain.txt", data: gen_content("text", rng.range(200, 600) as usize, &mut rng), comp: cflags::ZLIB, enc: false, fix: false },
        SrcFile { name: "data\\raw.bin", data: gen_content("random", rng.range(100, 400) as usize, &mut rng), comp: 0, enc: false, fix: false },
        // sizes chosen so that the layout class (single unit / multi-sector) of each file class changes with the
        // sector sizes in use: 512 B, 4 KiB, 16 KiB in source and target
        SrcFile { name: "data\\secret.dat", data: gen_content("mixed", rng.range(1100, 1500) as usize, &mut rng), comp: cflags::ZLIB, enc: true, fix: false },
        SrcFile { name: "data\\fixkey.dat", data: gen_content("mixed", rng.range(2900, 3100) as usize, &mut rng), comp: cflags::ZLIB, enc: true, fix: true },
        SrcFile { name: "data\\fixraw.dat", data: gen_content("random", rng.range(5000, 6000) as usize, &mut rng), comp: 0, enc: true, fix: true },
        // larger than a sector (16 KiB sectors in the source): several compressed sectors
        SrcFile { name: "world\\big.adt", data: gen_content("text", rng.range(36_000, 44_000) as usize, &mut rng), comp: cflags::ZLIB, enc: false, fix: false },
    ];
    if with_empty {
        v.push(SrcFile { name: "data\\empty.bin", data: vec![], comp: cflags::ZLIB, enc: false, fix: false });
    }
    // a name with non-ASCII upper- and lower-case letters (name maps must not fold it differently in source and target)
    v.push(SrcFile { name: "data\\\u{c9}t\u{e9}_\u{c4}\u{d6}\u{dc}\u{d1}.txt", data: gen_content("text", rng.range(100, 300) as usize, &mut rng), comp: cflags::ZLIB, enc: false, fix: false });
    // a non-zero block of 129 / 257 / 385 bytes followed by zeros (run-length boundaries of the sparse codec), and a
    // literal run of 128 KiB + 1 followed by zeros (thorough only: size)
    for k in [129usize, 257, 385] {
        let mut d: Vec<u8> = (0..k).map(|_| 1 + rng.below(255) as u8).collect();
        d.extend(std::iter::repeat(0u8).take(700));
        let name: &'static str = Box::leak(format!("sp\\s{k}.bin").into_boxed_str());
        v.push(SrcFile { name, data: d, comp: cflags::ZLIB, enc: false, fix: false });
    }
    if thorough() && !with_empty && !with_sig && !edge && pow == 0 {
        let mut d: Vec<u8> = (0..(128 * 1024 + 1)).map(|_| 1 + rng.below(255) as u8).collect();
        d.extend(std::iter::repeat(0u8).take(5000));
        v.push(SrcFile { name: "sp\\lit128k.bin", data: d, comp: cflags::ZLIB, enc: false, fix: false });
    }
    if pow > 0 {
        // the largest file of this source: incompressible, 4 bytes below a power of two (see Gen_Rebuild)
        let len = match pow {
            1 => (1usize << 11) - 4,
            2 => (1usize << 14) - 4,
            _ => (1usize << 16) - 4,
        };
        v.retain(|f| f.data.len() < len);
        v.push(SrcFile { name: "rnd\\pow2.bin", data: gen_content("random", len, &mut rng), comp: cflags::ZLIB, enc: false, fix: false });
    }
    if edge {
        let base = rng.bytes(300);
        for k in 44..77usize {
            let mut d = base.clone();
            d.extend(std::iter::repeat(0u8).take(k));
            d[0] = k as u8; // all different
            let name: &'static str = Box::leak(format!("edge\\z{k}.bin").into_boxed_str());
            v.push(SrcFile { name, data: d, comp: 0, enc: false, fix: false });
        }
    }
    if with_sig {
        // a weak digital signature is a listed 72-byte file named (signature): 8 zero bytes + 64 signature bytes
        let mut d = vec![0u8; 8];
        d.extend(rng.bytes(64));
        v.push(SrcFile { name: "(signature)", data: d, comp: 0, enc: false, fix: false });
    }
    v
}

fn main() {
    let a = args();
    install_hook();
    let cases = read_cases(&a.cases);
    let trace = Trace::create(&a.trace);
    let seed = seed();
    let scratch = Scratch::new("c07");
    // traces are written in case order whatever the completion order of the worker threads
    let blocks: std::sync::Mutex<Vec<Option<Vec<Value>>>> = std::sync::Mutex::new(vec![None; cases.len()]);
    par_for(cases.len(), ncpu().min(12), |ci| {
        let c = &cases[ci];
        let src = &c["src"];
        let o = &c["opts"];
        let case = format!("r{ci}");
        let mut evs: Vec<Value> = vec![];
        let spath = scratch.file(&format!("{case}-src.mpq"));
        let tpath = scratch.file(&format!("{case}-dst.mpq"));
        let with_sig = src.get("sig").map(|x| x.as_bool() == Some(true)).unwrap_or(false);
        let edge = src.get("edge").map(|x| x.as_bool() == Some(true)).unwrap_or(false);
        let sbs = src.get("sbs").and_then(|x| x.as_i64()).unwrap_or(-1);
        let pow = src.get("pow").and_then(|x| x.as_i64()).unwrap_or(0);
        let mut files = source_files(seed, &case, gb(src, "empty"), with_sig, edge, pow);
        // provenance of the source (Gen_Rebuild `prov`): built | modified | emb512 | emb1024 | superset
        let prov = src.get("prov").and_then(|x| x.as_str()).unwrap_or("built").to_string();
        let mut removed_after_build: Option<&'static str> = None;
        if prov == "modified" {
            // two names with the same home slot: X is inserted first, Y collides and lands behind it; X is removed in
            // place afterwards, so Y sits behind a DELETED hash entry
            let count = files.len() + 1 + gb(src, "at") as usize;
            let hsize = ((count + 2) * 2).max(16).next_power_of_two() as u32;
            let home = |n: &str| wow_mpq::crypto::hash_string(n, wow_mpq::crypto::hash_type::TABLE_OFFSET) & (hsize - 1);
            let mut prng = Rng::derive(seed, &format!("{case}:mod"));
            let start = prng.below(1000);
            let x = format!("mod\\x{start}.bin");
            let y = (0..200_000u64).map(|k| format!("mod\\y{}.bin", start + k)).find(|y| home(y) == home(&x)).unwrap_or_else(|| tool_error("no colliding name"));
            let xs: &'static str = Box::leak(x.into_boxed_str());
            let ys: &'static str = Box::leak(y.into_boxed_str());
            files.insert(0, SrcFile { name: xs, data: gen_content("text", 300, &mut prng), comp: cflags::ZLIB, enc: false, fix: false });
            files.insert(1, SrcFile { name: ys, data: gen_content("text", 400, &mut prng), comp: cflags::ZLIB, enc: false, fix: false });
            removed_after_build = Some(xs);
        }
        // ---- source archive
        // composition of the source's (listfile) (Gen_Rebuild lfSelf / lfAttr / lfHide): does it name itself, does it name
        // (attributes), does it leave out ordinary files of the archive (two: one plain, one encrypted, chosen from the seed)
        let gbd = |k: &str, d: bool| src.get(k).and_then(|x| x.as_bool()).unwrap_or(d);
        let (lf_self, lf_attr, lf_hide) = (gbd("lfSelf", true), gbd("lfAttr", true), gbd("lfHide", false));
        let mut hidden: Vec<&'static str> = vec![];
        if lf_hide {
            let mut hrng = Rng::derive(seed, &format!("{case}:hide"));
            for want_enc in [false, true] {
                let cand: Vec<&'static str> = files.iter().filter(|f| f.enc == want_enc && !f.name.starts_with('(')).map(|f| f.name).collect();
                if !cand.is_empty() {
                    hidden.push(cand[hrng.below(cand.len() as u64) as usize]);
                }
            }
        }
        let generated_shape = lf_self && (lf_attr || !gb(src, "at")) && !lf_hide;
        let lfpath = scratch.file(&format!("{case}-listfile.txt"));
        let lfopt = if prov == "superset" || !generated_shape {
            // an external listfile; `superset`: it also names 300 files that are NOT in the archive
            let mut txt = String::new();
            for f in &files {
                if hidden.contains(&f.name) {
                    continue;
                }
                txt.push_str(f.name);
                txt.push_str("\r\n");
            }
            if prov == "superset" {
                for k in 0..300 {
                    txt.push_str(&format!("absent\\n{k:03}.dat\r\n"));
                }
            }
            if lf_self {
                txt.push_str("(listfile)\r\n");
            }
            if gb(src, "at") && lf_attr {
                txt.push_str("(attributes)\r\n");
            }
            std::fs::write(&lfpath, txt).unwrap_or_else(|e| tool_error(&format!("write listfile: {e}")));
            ListfileOption::External(lfpath.clone())
        } else {
            ListfileOption::Generate
        };
        let mut b = ArchiveBuilder::new()
            .version(version(gi(src, "ver")))
            .listfile_option(lfopt)
            .attributes_option(if gb(src, "at") { AttributesOption::GenerateCrc32 } else { AttributesOption::None });
        if sbs >= 0 {
            b = b.block_size(sbs as u16);
        }
        for f in &files {
            b = if f.enc && f.fix {
                b.add_file_data_with_encryption(f.data.clone(), f.name, f.comp, true, 0)
            } else {
                b.add_file_data_with_options(f.data.clone(), f.name, f.comp, f.enc, 0)
            };
        }
        if let Err(e) = b.build(&spath) {
            tool_error(&format!("case {case}: cannot build the source archive: {e:?}"));
        }
        let _ = std::fs::remove_file(&lfpath);
        if let Some(x) = removed_after_build {
            // modification history: remove X in place (leaves a deleted hash entry in front of Y), add one more file
            let r = guard(|| -> Result<(), Error> {
                let mut m = wow_mpq::MutableArchive::open(&spath)?;
                m.remove_file(x)?;
                m.add_file_data(b"added in place, after the build", "mod\\added.txt", wow_mpq::AddFileOptions::new())?;
                m.flush()
            });
            if !matches!(r, Outcome::Done(Ok(()))) {
                tool_error(&format!("case {case}: cannot modify the source archive in place (C06 territory)"));
            }
            files.retain(|f| f.name != x);
            files.push(SrcFile { name: "mod\\added.txt", data: b"added in place, after the build".to_vec(), comp: cflags::ZLIB, enc: false, fix: false });
        }
        if prov == "emb512" || prov == "emb1024" {
            // the archive starts behind a prefix (e.g. an executable stub): all positions are relative to its header
            let n = if prov == "emb512" { 512 } else { 1024 };
            let body = std::fs::read(&spath).unwrap_or_else(|e| tool_error(&format!("read source: {e}")));
            let mut whole = vec![0x55u8; n];
            whole.extend_from_slice(&body);
            std::fs::write(&spath, whole).unwrap_or_else(|e| tool_error(&format!("write source: {e}")));
        }
        // ground truth: the names the driver put into the archive (a listing that shows anything else is not as built)
        // LISTED = the names the source's (listfile) names; UNLISTED = names that are in the archive without being named there
        let mut truth: Vec<String> = files.iter().filter(|f| !hidden.contains(&f.name)).map(|f| f.name.to_string()).collect();
        let mut unlisted: Vec<String> = hidden.iter().map(|n| n.to_string()).collect();
        (if lf_self { &mut truth } else { &mut unlisted }).push("(listfile)".into());
        if gb(src, "at") {
            (if lf_attr { &mut truth } else { &mut unlisted }).push("(attributes)".into());
        }
        let lfcls = json!({"lfself": lf_self, "lfattr": lf_attr, "lfhide": lf_hide});
        // everything that touches the code under test runs under a watchdog: a call that does not return is data
        if HANGS.load(std::sync::atomic::Ordering::SeqCst) >= 6 {
            // several calls are already spinning in leaked threads: do not start more work on this tree
            evs.push(json!({"ev":"Reset","case":case,"ver":gi(src,"ver"),"at":gb(src,"at"),"empty":gb(src,"empty"),"sigfile":with_sig,"sbs":sbs,"edge":edge,
                "srcbad":["<not-run-after-hangs>"],"hetbet":false,"listed":[],"tok":{},"enc":[],"sig":[],"pow":pow,"prov":prov,"lf":lfcls,"unlisted":[]}));
            blocks.lock().unwrap()[ci] = Some(evs);
            return;
        }
        let expect: Vec<(String, String)> = files.iter().filter(|f| !hidden.contains(&f.name)).map(|f| (f.name.to_string(), tok(&f.data))).collect();
        let sp = spath.clone();
        let unl = unlisted.clone();
        let inspected = timed(move || -> Result<(Vec<String>, bool, Map<String, Value>, Vec<String>, Vec<String>), String> {
            let mut sa = Archive::open(&sp).map_err(|e| format!("open: {e:?}"))?;
            let shown: Vec<String> = sa.list().map_err(|e| format!("list: {e:?}"))?.into_iter().map(|e| e.name).collect();
            let listed: Vec<String> = truth.clone();
            let hetbet = sa.het_table().is_some() && sa.bet_table().is_some();
            // tokens of what the source archive itself reads for every listed name
            let mut toks = Map::new();
            let mut enc: Vec<String> = vec![];
            let mut srcbad: Vec<String> = vec![];
            {
                let a: std::collections::BTreeSet<&String> = shown.iter().collect();
                let b: std::collections::BTreeSet<&String> = listed.iter().collect();
                if a != b {
                    srcbad.push(format!("<listing differs from what was built: {} shown, {} built>", a.len(), b.len()));
                }
            }
            for n in &listed {
                match sa.read_file(n) {
                    Ok(d) => {
                        toks.insert(n.clone(), json!(tok(&d)));
                    }
                    Err(_) => {
                        toks.insert(n.clone(), json!("unreadable"));
                        srcbad.push(n.clone());
                    }
                }
                if let Ok(Some(fi)) = sa.find_file(n) {
                    if fi.is_encrypted() {
                        enc.push(n.clone());
                    }
                }
            }
            // the source archive must hold what was given to the builder; if it does not, that is recorded (the
            // trace spec rejects the case with reason `source-not-as-built`: the break is observable through the
            // rebuild pipeline although it originates in the builder / codec, i.e. overlaps C01 / C03)
            for (name, t) in &expect {
                if toks.get(name).and_then(|x| x.as_str()) != Some(t.as_str()) && !srcbad.iter().any(|x| x == name) {
                    srcbad.push(name.clone());
                }
            }
            // unlisted names are in the archive all the same (they are reachable by name)
            for n in &unl {
                if !matches!(sa.find_file(n), Ok(Some(_))) {
                    srcbad.push(format!("<unlisted name not in the archive: {n}>"));
                }
            }
            Ok((listed, hetbet, toks, enc, srcbad))
        });
        let (listed, hetbet, toks, enc, srcbad) = match inspected {
            Outcome::Done(Ok(v)) => v,
            other => {
                let why = match other {
                    Outcome::Done(Err(e)) => format!("<{e}>"),
                    Outcome::Panic(m) => format!("<panic {m}>"),
                    _ => "<hang>".to_string(),
                };
                evs.push(json!({"ev":"Reset","case":case,"ver":gi(src,"ver"),"at":gb(src,"at"),"empty":gb(src,"empty"),"sigfile":with_sig,"sbs":sbs,"edge":edge,
                    "srcbad":[why],"hetbet":false,"listed":[],"tok":{},"enc":[],"sig":[],"pow":pow,"prov":prov,"lf":lfcls,"unlisted":[]}));
                blocks.lock().unwrap()[ci] = Some(evs);
                return;
            }
        };
        let sig: Vec<String> = listed.iter().filter(|n| n.as_str() == "(signature)" || n.as_str() == "(strong signature)").cloned().collect();
        evs.push(json!({"ev":"Reset","case":case,"ver":gi(src,"ver"),"at":gb(src,"at"),"empty":gb(src,"empty"),"sigfile":with_sig,"sbs":sbs,"edge":edge,"pow":pow,"prov":prov,"srcbad":srcbad,"hetbet":hetbet,
            "listed":listed,"tok":Value::Object(toks),"enc":enc,"sig":sig,"lf":lfcls,"unlisted":unlisted}));
        // ---- rebuild
        let target = gi(o, "target");
        let comp = gs(o, "comp");
        let bs = gi(o, "bs");
        let opts = RebuildOptions {
            preserve_format: true,
            target_format: if target == 0 { None } else { Some(version(target)) },
            preserve_order: true,
            skip_encrypted: gb(o, "skipEnc"),
            skip_signatures: gb(o, "skipSig"),
            verify: gb(o, "verify"),
            override_compression: match comp {
                "none" => Some(0),
                "zlib" => Some(cflags::ZLIB),
                "bzip2" => Some(cflags::BZIP2),
                "sparse" => Some(cflags::SPARSE),
                "lzma" => Some(cflags::LZMA),
                "pkware" => Some(cflags::PKWARE),
                "huffman" => Some(cflags::HUFFMAN),
                "sparsezlib" => Some(cflags::SPARSE | cflags::ZLIB),
                "sparsebzip2" => Some(cflags::SPARSE | cflags::BZIP2),
                _ => None,
            },
            override_block_size: if bs < 0 { None } else { Some(bs as u16) },
            list_only: gb(o, "listOnly"),
        };
        let (sp, tp) = (spath.clone(), tpath.clone());
        let r = timed(move || rebuild_archive(&sp, &tp, opts, None));
        let texists = tpath.exists();
        let mut ev = json!({"ev":"Rebuild","case":case,"opts":o.clone(),"res":"","msg":"","source":-1,"extracted":-1,"skipped":-1,"verified":false,"tformat":0,"texists":texists,"tver":0});
        match &r {
            Outcome::Done(Ok(s)) => {
                ev["res"] = json!("ok");
                ev["source"] = json!(s.source_files as i64);
                ev["extracted"] = json!(s.extracted_files as i64);
                // a wrapped usize does not fit TLC's integers: clamp (any value >= 2^30 is wrong anyway)
                ev["skipped"] = json!((s.skipped_files.min(1 << 30)) as i64);
                ev["verified"] = json!(s.verified);
                ev["tformat"] = json!(vernum(s.target_format));
            }
            Outcome::Done(e) => ev["res"] = json!(classify(e)),
            Outcome::Panic(m) => {
                ev["res"] = json!("panic");
                ev["msg"] = json!(m);
            }
            Outcome::Hang => ev["res"] = json!("hang"),
        }
        // ---- what is in the target
        let src_listed: Vec<String> = evs[0]["listed"].as_array().unwrap().iter().map(|x| x.as_str().unwrap().to_string()).collect();
        let tp = tpath.clone();
        let names = src_listed.clone();
        let tin = if texists {
            timed(move || {
                let mut reads: Vec<(String, String)> = vec![];
                let mut ta = match guard(|| Archive::open(&tp)) {
                    Outcome::Done(Ok(t)) => t,
                    _ => return (0i64, names.iter().map(|_| ("noarchive".to_string(), "none".to_string())).collect::<Vec<_>>(), "noarchive".to_string(), vec![]),
                };
                let tver = vernum(ta.header().format_version);
                for n in &names {
                    reads.push(match guard(|| ta.read_file(n)) {
                        Outcome::Done(Ok(d)) => ("ok".to_string(), tok(&d)),
                        Outcome::Done(e) => (classify(&e), "none".to_string()),
                        _ => ("panic".to_string(), "none".to_string()),
                    });
                }
                let (lres, lnames) = match guard(|| ta.list()) {
                    Outcome::Done(Ok(l)) => ("ok".to_string(), l.into_iter().map(|e| e.name).collect::<Vec<_>>()),
                    Outcome::Done(Err(e)) => (format!("err:{}", variant_name(&e)), vec![]),
                    _ => ("panic".to_string(), vec![]),
                };
                (tver, reads, lres, lnames)
            })
        } else {
            Outcome::Done((0i64, src_listed.iter().map(|_| ("noarchive".to_string(), "none".to_string())).collect(), "noarchive".to_string(), vec![]))
        };
        let (tver, reads, lres, lnames) = match tin {
            Outcome::Done(v) => v,
            _ => (0i64, src_listed.iter().map(|_| ("hang".to_string(), "none".to_string())).collect(), "hang".to_string(), vec![]),
        };
        ev["tver"] = json!(tver);
        evs.push(ev);
        for (n, (res, t)) in src_listed.iter().zip(reads.into_iter()) {
            evs.push(json!({"ev":"TRead","case":case,"n":n,"res":res,"tok":t}));
        }
        evs.push(json!({"ev":"TList","case":case,"res":lres,"names":lnames}));
        let cmp = if texists {
            let (sp, tp): (std::path::PathBuf, std::path::PathBuf) = (spath.clone(), tpath.clone());
            timed(move || compare_archives(sp.as_path(), tp.as_path(), true, true, false, true, None))
        } else {
            Outcome::Done(Err(Error::invalid_format("no target")))
        };
        let mut cev = json!({"ev":"Compare","case":case,"res":"","identical":false,"content_diffs":[],"only_src":[],"only_tgt":[],"size_diffs":0,"msg":""});
        match cmp {
            Outcome::Done(Ok(c)) => {
                cev["res"] = json!("ok");
                cev["identical"] = json!(c.identical);
                if let Some(f) = &c.files {
                    cev["content_diffs"] = json!(f.content_differences);
                    cev["only_src"] = json!(f.source_only);
                    cev["only_tgt"] = json!(f.target_only);
                    cev["size_diffs"] = json!(f.size_differences.len());
                }
            }
            Outcome::Done(Err(e)) => cev["res"] = json!(if texists { format!("err:{}", variant_name(&e)) } else { "noarchive".to_string() }),
            Outcome::Panic(m) => {
                cev["res"] = json!("panic");
                cev["msg"] = json!(m);
            }
            Outcome::Hang => cev["res"] = json!("hang"),
        }
        evs.push(cev);
        let _ = std::fs::remove_file(&spath);
        let _ = std::fs::remove_file(&tpath);
        blocks.lock().unwrap()[ci] = Some(evs);
    });
    for b in blocks.into_inner().unwrap().into_iter().flatten() {
        trace.block(b);
    }
    trace.flush();
    let _ = Path::new(".");
}
