use wow_mpq::{rebuild_archive, ArchiveBuilder, FormatVersion, ListfileOption, RebuildOptions};
fn main() {
    let dir = std::env::temp_dir().join(format!("w4c07-repro-{}", std::process::id()));
    std::fs::create_dir_all(&dir).unwrap();
    let lf = dir.join("lf.txt");
    std::fs::write(&lf, "a.txt\r\nb.txt\r\n").unwrap(); // names the two files, not itself
    for (ver, vn) in [(FormatVersion::V1, 1), (FormatVersion::V2, 2), (FormatVersion::V3, 3), (FormatVersion::V4, 4)] {
        let src = dir.join(format!("src{vn}.mpq"));
        ArchiveBuilder::new().version(ver).listfile_option(ListfileOption::External(lf.clone()))
            .add_file_data(b"alpha".to_vec(), "a.txt").add_file_data(b"beta".to_vec(), "b.txt").build(&src).unwrap();
        for verify in [false, true] {
            let dst = dir.join(format!("dst{vn}{verify}.mpq"));
            let r = rebuild_archive(&src, &dst, RebuildOptions { verify, ..Default::default() }, None);
            match r {
                Ok(s) => println!("V{vn} verify={verify}: Ok source={} extracted={} skipped={}", s.source_files, s.extracted_files, s.skipped_files),
                Err(e) => println!("V{vn} verify={verify}: Err {e}"),
            }
        }
    }
    std::fs::remove_dir_all(&dir).unwrap();
}
