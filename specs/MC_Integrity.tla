---------------------------- MODULE MC_Integrity ----------------------------
(* Stage (A) for C10: every configuration x region kind x effect, all detectors run.              *)
(*   MC_Integrity.cfg                intended coverage map: Sound                                  *)
(*   MC_Integrity_ascoded.cfg        legacy code (D1, D2): Sound up to the predicted gap; real *)
(*   MC_Integrity_ascoded_sound.cfg  legacy code (before 48c5310) against plain Sound: refuted      *)
(*   MC_Integrity_gatehole.cfg       code at 7734a50: Sound up to the offset-table gate gap; real   *)
(*   MC_Integrity_gatehole_sound.cfg code at 7734a50 against plain Sound: TLC must refute           *)
EXTENDS Integrity
=============================================================================
