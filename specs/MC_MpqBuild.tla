----------------------------- MODULE MC_MpqBuild -----------------------------
(* Stage (A) for C01: small-scope instance of MpqBuild.  Names are real byte strings hashed with the   *)
(* MpqCrypto reference (two characters over an alphabet closed under the spelling operations); three   *)
(* files, two of them sharing a home slot, in a 4-slot table; two absent names, one colliding with a   *)
(* present name; sector size 4 (or, in the "limits" configuration, 4096 so that the 1000:1 region of   *)
(* the codec layer is reachable).                                                                      *)
EXTENDS MpqBuild

Alphabet == {97, 65, 66, 98, 47, 92, 120, 88, 46}
NameU == {<<c1, c2>> : c1 \in Alphabet, c2 \in Alphabet}
NHTable == [nm \in NameU |-> NameHashDef(nm)]
FKTable == [nm \in NameU |-> LibFileKeyDef(nm)]
MCNameHash(nm) == NHTable[nm]
MCFileKey(nm)  == FKTable[nm]

SameName(n1, n2) == NHTable[n1].a = NHTable[n2].a /\ NHTable[n1].b = NHTable[n2].b
N1 == <<97, 47>>        \* "a/"
N2 == <<66, 120>>       \* "Bx"
Others == {nm \in NameU : ~SameName(nm, N1) /\ ~SameName(nm, N2)}
N3 == CHOOSE nm \in Others : NHTable[nm].home = NHTable[N1].home
A1 == CHOOSE nm \in Others : NHTable[nm].home = NHTable[N1].home /\ ~SameName(nm, N3)
A2 == CHOOSE nm \in Others : NHTable[nm].home # NHTable[N1].home /\ ~SameName(nm, N3)
AbsentNames == {A1, A2}
ASSUME NHTable[N3].home = NHTable[N1].home /\ NHTable[A1].home = NHTable[N1].home
\* the fold law the spellings rely on (MpqCrypto, also checked for all printable pairs in MC_MpqCrypto)
ASSUME \A nm \in NameU : \A sp \in Spellings : SameName(nm, Spell(nm, sp)) /\ FKTable[Spell(nm, sp)] = FKTable[nm]
                                               /\ NHTable[Spell(nm, sp)].home = NHTable[nm].home

Small == SectorSize = 4
MCLens == IF Small THEN {0, 1, 3, 4, 5, 8, 9, 13} ELSE {SectorSize, SectorSize + 1, 2 * SectorSize + 200}
MCMethods == {0, ZLIB, SPARSE, PKWARE, ADPCM_STEREO + BZIP2}
F1Set == {[name |-> N1, len |-> n, cls |-> cl, method |-> m, enc |-> en] :
            n \in MCLens, cl \in {"run", "edge", "random"}, m \in MCMethods, en \in {"plain", "enc", "encfix"}}
F2 == [name |-> N2, len |-> 5, cls |-> "run", method |-> ZLIB, enc |-> "encfix"]
F3 == [name |-> N3, len |-> 4, cls |-> "edge", method |-> ZLIB, enc |-> "enc"]
Dup == [name |-> Spell(N2, "lower"), len |-> 1, cls |-> "run", method |-> 0, enc |-> "plain"]
FileSeqs == {<<f1, F2, F3>> : f1 \in F1Set} \cup {<<F2, f1, F3>> : f1 \in F1Set} \cup {<<F2, Dup, F3>>}

MCInit == BInitWith(FileSeqs)
MCNext == \/ BuildFailCodec \/ WriteSingleUnit \/ WriteSector \/ FinishFile \/ AddHash
          \/ \E i \in 1..3 : \E sp \in Spellings : ReadFile(i, sp)
          \/ \E nm \in AbsentNames : \E sp \in Spellings : ReadAbsent(nm, sp)

\* reads are observations: once one has been made the behaviour ends (keeps the graph a tree of depth <= ~20)
MCConstraint == TRUE
MCNextOnce == vlast = NoObs /\ MCNext

\* the deviation is real on the as-is model: some reachable block has it (checked as a "never" that must FAIL is
\* not expressible as an invariant; instead the fixed configuration shows it is absent there, and this one
\* counts it)
=============================================================================
