CONSTANTS
  RFiles <- MListedNoSelf
  RTok <- MTok
  REnc = {"secret"}
  RSig = {"(signature)"}
  REmpty = {"empty"}
  RHetBet = FALSE
  RUnlisted <- MUnlisted
SPECIFICATION DesignSpec
INVARIANT TargetEnumerable TargetExact ListOnlyNoTarget CountsTruthful SkippedOnlyByOption VerifyMeansEqual NeverFails
PROPERTY Terminates
CHECK_DEADLOCK FALSE
