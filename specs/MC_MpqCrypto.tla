---- MODULE MC_MpqCrypto ----
(* Stage (A) for C04: the reference definitions reproduce the published vectors, and the laws the
   property states hold on the model: inverse law for all small buffers x a key set covering every
   low byte, case / slash invariance of both hashes on all 2-character ASCII names. *)
EXTENDS MpqCrypto, TLC
ASSUME V1 == HashString(<<40,108,105,115,116,102,105,108,101,41>>, TABLE_OFFSET) = <<24381,59481>>
ASSUME V2 == HashString(<<40,104,97,115,104,32,116,97,98,108,101,41>>, FILE_KEY) = <<50095,14192>>
ASSUME V3 == HashString(<<40,98,108,111,99,107,32,116,97,98,108,101,41>>, FILE_KEY) = <<60547,45987>>
ASSUME V4 == HashString(<<112,97,116,104,92,116,111,92,102,105,108,101>>, TABLE_OFFSET) = <<21324,51438>>
ASSUME T0 == CryptTable[0] = <<21958,14050>> /\ Hex32(CryptTable[0]) = "55c636e2"
ASSUME T1 == CryptTable[1279] = <<29443,10348>>

VARIABLES vkey, ws, phase
Keys == {<<hi, lo>> : hi \in {0, 4660, 65535}, lo \in {256 * 7 + x : x \in 0..255}}
Vals == {<<0,0>>, <<65535,65535>>, <<4660,22136>>}
Init == vkey \in Keys /\ ws \in UNION {[1..n -> Vals] : n \in 0..3} /\ phase = 0
Next == phase = 0 /\ phase' = 1 /\ UNCHANGED <<vkey, ws>>
InverseLaw == DecryptBlock(EncryptBlock(ws, vkey), vkey) = ws /\ EncryptBlock(DecryptBlock(ws, vkey), vkey) = ws
ByteVals == {0, 255}
\* tail rule: every length 0..5 (0..1 full dwords + 0..3 tail bytes), one key per low byte
InverseLawBytes == \A lo \in 0..255 : \A n \in 0..5 : \A bs \in [1..n -> ByteVals] :
                   LET kk == <<4660, 256 * 3 + lo>> IN
                   DecryptBytes(EncryptBytes(bs, kk), kk) = bs /\ Len(EncryptBytes(bs, kk)) = n
ASSUME InverseLawBytes
Printable == 32..126
FoldInvariant2 == \A a \in Printable, c \in Printable, t \in HashTypes :
    /\ HashString(<<a, c>>, t) = HashString(<<Upper(a), Upper(c)>>, t)
    /\ HashString(<<a, c>>, t) = HashString(<<Lower(a), Lower(c)>>, t)
    /\ HashString(<<47, c>>, t) = HashString(<<92, c>>, t)
HetInvariant2 == \A a \in Printable, c \in {47, 92, 65, 97, 122} : \A bits \in {8, 48, 64} :
    /\ HetHash(<<a, c>>, bits) = HetHash(<<Upper(a), Upper(c)>>, bits)
    /\ HetHash(<<a, 47>>, bits) = HetHash(<<a, 92>>, bits)
ASSUME FoldInvariant2
ASSUME HetInvariant2
(* ---- round 4: widths, table bodies, cipher units of files ------------------------------------- *)
\* every width 1..64: agrees with HetHash where that is defined, and with an independent reading of
\* "low w bits, top bit forced, NameHash1 = the 8 bits below the top" through the 64-bit shifts
HetNames == {<<>>, <<97>>, <<65, 92, 98>>, <<40,97,116,116,114,105,98,117,116,101,115,41>>, <<100,97,116,97,47,120,46,109,50,45,45,45,45>>}
HetWidthLaw == \A nm \in HetNames : LET full == HetFullHash(nm) IN \A w \in HetWidths :
    LET h == HetOfFull(full, w) IN
    /\ (w >= 8 => h.file = HetHash(nm, w).file /\ h.name1 = HetHash(nm, w).name1)
    /\ (w >= 8 => h.name1 = L64Shr(h.limbs, IF w >= 64 THEN 56 ELSE w - 8)[0] % 256)
    /\ (w >= 8 /\ w < 64 => h.name1 >= 128)
    /\ (w < 64 => /\ L64Shr(h.limbs, w) = L64Zero
                  /\ L64Shr(h.limbs, w - 1)[0] = 1
                  /\ L64Shl(h.limbs, 65 - w) = L64Shl(full, 65 - w))
    /\ (w = 64 => h.limbs = full)
ASSUME HetWidthLaw

\* extended-table bodies of every length 0..6 (all residues mod 4, 0..1 whole dwords): header in the clear,
\* loading inverts storing, length kept, the trailing len mod 4 bytes in the clear
TblHdr == <<72, 69, 84, 26, 1, 0, 0, 0, 9, 0, 0, 0>>
TblKeys == {HetTableKey, BetTableKey, <<0, 0>>, <<0, 1>>, <<65535, 65535>>, <<4660, 22136>>}
TblLaw == \A kk \in TblKeys : \A n \in 0..6 : \A body \in [1..n -> ByteVals] :
    LET t == TblHdr \o body  st == TblStore(t, kk) IN
    /\ TblLoad(st, kk) = t /\ Len(st) = Len(t) /\ SubSeq(st, 1, 12) = TblHdr
    /\ TailBytes(SubSeq(st, 13, Len(st))) = TailBytes(body)
    /\ (n >= 4 /\ kk # <<0, 0>> => SubSeq(st, 13, 16) # SubSeq(body, 1, 4))
ASSUME TblLaw

\* files of 0..20 bytes with 8-byte sectors (single unit, 2 and 3 sectors, every tail residue) under final keys
\* that put the zero key on every possible unit (offset table, first, second, last sector) and on none:
\* loading inverts storing; a zero unit is the only unit left in the clear
FileKeysMC == {<<0, 0>>, <<0, 1>>, <<0, 2>>, <<65535, 65535>>, <<65535, 65534>>, <<65535, 65533>>, <<4660, 22136>>}
FilePlain(n) == [i \in 1..n |-> (37 * i + n) % 256]
FileLaw == \A kk \in FileKeysMC : \A n \in 0..20 :
    LET p == FilePlain(n)  st == FileStoreRaw(p, kk, 8)  ns == FileSectorCount(n, 8) IN
    /\ FileLoadRaw(st, kk, 8, n) = p
    /\ Len(st) = (IF n <= 8 THEN n ELSE n + 4 * (ns + 1))
    /\ (n > 8 => /\ FileOffsetsSane(FileLoadOffsets(st, kk, ns), ns, Len(st))
                 /\ \A u \in -1..(ns - 1) :
                      LET lo == IF u < 0 THEN 1 ELSE 4 * (ns + 1) + 8 * u + 1
                          hi == IF u < 0 THEN 4 * (ns + 1) ELSE CxMin(4 * (ns + 1) + 8 * (u + 1), Len(st))
                          clear == IF u < 0 THEN CxConcat([i \in 1..(ns + 1) |-> U32Bytes(FileOffsets([j \in 1..ns |-> Len(FileSector(p, 8, j - 1))])[i])])
                                   ELSE FileSector(p, 8, u)
                      IN  (hi - lo + 1 >= 4) => ((SubSeq(st, lo, hi) = clear) <=> (u \in FileZeroUnits(kk, ns))))
ASSUME FileLaw
====