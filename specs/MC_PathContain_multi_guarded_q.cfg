CONSTANTS
  Guard = TRUE
  Plat = "posix"
  MaxComps = 2
  MaxEntries = 2
  MCForms = {"rel"}
INIT Init
NEXT Next
CHECK_DEADLOCK FALSE
INVARIANTS
  TypeOK
  OrderIndependent
  UnreadTouchesNothing
  Contained
