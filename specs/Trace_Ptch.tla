------------------------------- MODULE Trace_Ptch -------------------------------
(* Stage (D) for the patch applier of C08.  Every Apply event carries the exact bytes given to       *)
(* PatchFile::parse + apply_patch (file, base), the outcome, the bytes returned, and MD5 digests       *)
(* computed by the driver (opaque tokens here).  TLC evaluates the reference semantics (Ptch!RefApply) *)
(* on those bytes.                                                                                     *)
(* P-conjuncts:                                                                                        *)
(*   safe     res = ok  =>  digest(out) = the digest the header declares  /\  digest(base) = declared  *)
(*   live     well-formed (reference accepts, produces the intended bytes, both digests right)          *)
(*              =>  res = ok /\ out = reference bytes                                                  *)
(*   total    res is never panic / hang                                                                *)
(* D: the reference rejects but the code accepts with the right digest (code more lenient): DRIFT;     *)
(*    the RLE stream of an unmutated BSD0 file is not the canonical encoding of Ptch!RleEncode: DRIFT. *)
EXTENDS Ptch, Json, IOUtils, TLCExt

Rec == ndJsonDeserialize(IOEnv.TRACE)
VARIABLE tl

Tags(e) ==
  LET hdr == ParsePtch(e.file)
      ref == RefApply(e.file, e.base)
      wf  == /\ ref.ok /\ hdr.md5Before = e.md5base /\ ref.out = e.newc /\ hdr.md5After = e.md5new
      neg == IF HasBackwardSeek(e.file) THEN ":negseek" ELSE ":fwd"
  IN  (IF e.res \in {"panic", "hang"} THEN <<"crash:" \o e.mut.k>> ELSE <<>>)
      \* the digests are read at their fixed offsets whether or not the strict reference likes the rest
      \o (IF e.res = "ok" /\ ~(Len(e.file) >= 56 /\ e.md5out = SubSeq(e.file, 41, 56) /\ e.md5base = SubSeq(e.file, 25, 40))
          THEN <<"unverified">> ELSE <<>>)
      \o (IF wf /\ e.res = "err" THEN <<"wellformed_rejected" \o neg>> ELSE <<>>)
      \o (IF wf /\ e.res = "ok" /\ e.out # ref.out THEN <<"wrong_bytes">> ELSE <<>>)
\* the driver's RLE encoder is the canonical one of Ptch.tla (so that Gen_Ptch!RunsCoverCtlSpace speaks about the
\* very streams that are fed to the code): checked on the unmutated BSD0 files
Canonical(e) ==
  LET hdr == ParsePtch(e.file)
  IN  (e.mut.k = "none" /\ hdr.ok /\ hdr.kind = "bsd0" /\ Len(hdr.payload) >= 4 /\ hdr.patchDataSize >= 0)
        => LET src == SubSeq(hdr.payload, 5, Len(hdr.payload))
               rle == RleDecode(src, hdr.patchDataSize)
           IN  rle.ok => src = RleEncode(rle.out)
Drift(e) == LET ref == RefApply(e.file, e.base)
            IN  (IF e.res = "ok" /\ ~ref.ok THEN <<"lenient:" \o ref.why>> ELSE <<>>)
                \o (IF ~Canonical(e) THEN <<"encoder-not-canonical">> ELSE <<>>)

Init == tl = 1 /\ pplan = <<>> /\ pphase = "" /\ pacc = <<>> /\ pci = 0
Next == /\ tl <= Len(Rec) /\ tl' = tl + 1 /\ UNCHANGED ptvars
        /\ IF Rec[tl].ev = "Apply"
           THEN LET bad == Tags(Rec[tl]) dr == Drift(Rec[tl])
                IN  /\ (IF bad # <<>> THEN PrintT(<<"BAD", tl, bad>>) ELSE TRUE)
                    /\ (IF dr # <<>> THEN PrintT(<<"DRIFT", tl, dr>>) ELSE TRUE)
           ELSE Rec[tl].ev = "Reset"
Accepted == LET d == TLCGet("stats").diameter IN
            IF d - 1 = Len(Rec) THEN PrintT(<<"CONSUMED", Len(Rec)>>) ELSE Print(<<"TRACE_STUCK_AT", d>>, FALSE)
=============================================================================
