"""C20 -- the CLI's exit status and outputs tell the truth."""
import json
from vlib import core

META = {
    "disabled": False,
    "level": "model_checking",
    "level_text": "Cli.tla states the obligations on a run of the tool (failure class => exit != 0; a printed failure verdict => exit != 0; exit 0 of a "
                  "producer => every wanted file present with identical token and accepted by the library; exit 0 of list/info => printed facts = library view) "
                  "over the matrix sub-command x input class x library verdict, plus a session model of mpq create/damage/extract/validate. TLC (A) checks the "
                  "matrix total / single-valued / non-vacuous for all 48 sub-commands and, on the session model, that a truthful tool makes create;extract the "
                  "identity on tokens (and that the named deviation -- `validate` printing a failure and exiting 0, the code before 01748b8 -- is refuted and is the only untruthful run it adds); (B) enumerates every "
                  "sub-command of the 8 families x 10 input classes x option flag and the create/list/info/extract pipeline product; (C) the real binary is run as "
                  "a process on files made with the library's own writers (and damaged copies the library is asked about first); (D) TLC evaluates the "
                  "obligations on every recorded run.",
    "level_note": "Widened by class (round 4): every producer on valid input meets every pre-state of its output location {empty, shorter, longer, directory, read-only file} and must "
                  "produce the same file (token + length) as into a fresh location; listings are compared with the library view per output-format option (mpq list plain/--long/"
                  "--filter, wdt tiles text/csv/json, dbc export json/csv row counts) over name classes {lower, UPPER, MiXed, nested, with spaces, non-ASCII}; validate flags "
                  "(blp --strict, wdl --version) are exercised on files that violate only the flag's rule, the library being asked per flag. "
                  "Round 6: `--filter` of mpq list / tree is compared with the library's names filtered by the spec's own glob matcher (Cli.tla GlobMatch; 7 pattern shapes over names "
                  "with near-misses); every sub-command that goes through the library entry point the reference verdict is taken from (info, tree, skin-info, anim-info, "
                  "blp-info of the format families) must fail on any damage that entry point rejects, wherever it is (header intact / body truncated, string block cut, ...); "
                  "every convert sub-command also runs as an identity conversion (from == to, an alias of the source version, auto-detected == target); the numeric selector "
                  "`blp convert --mipmap-level` runs at 0, the last stored level, one past it and 1000000 (out of range => exit != 0; in range => PNG dimensions = the library's for that level). "
                  "Round 5 seeds: output pre-state `samelen` (a file of exactly the output's length, every byte different -- an older generation in a reused directory) for every producer; "
                  "MPQ damage BY TABLE REGION (cut strictly inside the hash table / inside the block table with everything before it intact), the damaged archive in either argument position of `mpq compare`. "
                  "Round 5: the GLOBAL options (-q, -v, -vv) are a dimension of every sub-command (one succeeding and one failing run each, and half of the pipeline sample); "
                  "bulk mpq commands run on archives of 11/26/999/1000/1001/2001 tiny files (thorough: up to 10001) around the window / batch constants; `mpq rebuild` is judged "
                  "against the library on a source holding plain, encrypted, fix-key, multi-sector and special files with default flags, --verify and --skip-encrypted. "
                  "Failure classes are relative to the library's verdict on the same bytes (same entry point as the sub-command where they differ: wmo convert). "
                  "Damage that the library tolerates creates no obligation. Only `validate` output is scanned for a printed failure verdict. Conversions are "
                  "checked for existence + re-parse of the output, not for semantic equality. mpq db (touches the user's database directory), dbd and "
                  "completions are not exercised. Archive members are <= VERIF_C20_MAXFILE bytes (default 4000: single sector, so that C01's findings on multi-sector files do not resurface here; set e.g. VERIF_C20_MAXFILE=100000 to lift it). Conversions along the representable paths listed in Cli.tla (RoundTripExact) are additionally converted back and compared by token; other paths only report DRIFT. "
                  "quick: one seed-rotated variant per file kind and 1/16 of the pipeline product; thorough: all variants, the whole product.",
    "technique": "TLA+ obligation matrix + session state machine model-checked with TLC; TLC-enumerated process runs of the real CLI; trace validation of the "
                 "recorded outcomes against the obligations",
    "design_ref": "DESIGN.md section 5, C20",
    "crates": ["c20"],
    "needs_cli": True,
}


def sig(b):
    r = b.get("rec") or {}
    return {"ev": b.get("ev"), "fam": r.get("fam"), "cmd": r.get("cmd"), "kind": r.get("kind"), "input": r.get("input"), "opt": r.get("opt"), "pre": r.get("pre"), "glob": r.get("glob", ""), "count": (b.get("reset") or {}).get("count"),
            "why": str(b.get("why", "")).strip().strip('"')}


def run(ctx, cases_override=None):
    ctx.mc("MC_Cli", cfg="MC_Cli", workers=4, timeout=600, heap="3g")
    ctx.mc("MC_Cli", cfg="MC_Cli_deviant", workers=4, timeout=600, heap="3g")
    for cfg, inv, dev in (("MC_Cli_refuted", "LastTruthful", "ValidateDeviant"), ("MC_Cli_refuted2", "ExtractComplete", "ExtractKeepsStale"),
                          ("MC_Cli_refuted3", "ExtractComplete", "ExtractSkipsSameLen")):
        rc, text = ctx.tlc("MC_Cli", cfg, workers=2, timeout=600, heap="2g", tag="refute-" + cfg)
        if f"Invariant {inv} is violated" not in text:
            raise core.ToolError(f"stage A: TLC did not refute {inv} for the deviation {dev}:\n" + core._tail(text, 15))
        core.log(f"(A) MC_Cli/{cfg}: deviation {dev} refuted as expected ({inv} violated)")
    if cases_override:
        cases, ncases = cases_override, sum(1 for _ in open(cases_override))
    else:
        cases, ncases = ctx.gen("Gen_Cli", timeout=900)
    binary = ctx.build("c20")
    cli = ctx.build_cli()
    env = {"TOKIO_WORKER_THREADS": "2", "RAYON_NUM_THREADS": "2"}
    trace = ctx.harness(binary, cases, extra=(cli,), timeout=2400, env=env)
    res = ctx.validate("Trace_Cli", trace, timeout=1500)

    runs = zero = nonzero = 0
    cells = set()
    must_fail_seen = producers_ok = views_ok = 0
    samples = []
    with open(trace) as f:
        for line in f:
            r = json.loads(line)
            if r["ev"] != "Run":
                continue
            runs += 1
            zero += r["exit"] == 0
            nonzero += r["exit"] != 0
            cells.add((r["fam"], r["cmd"], r["kind"], r["input"], r["lib"]))
            if r["input"] != "valid" and r["exit"] != 0:
                must_fail_seen += 1
            if r["exit"] == 0 and (r["outs"] or r["want"]):
                producers_ok += 1
            if r["exit"] == 0 and r["libview"]:
                views_ok += 1
            if len(samples) < 4 and (r["cmd"] in ("validate", "extract", "convert")) and r["input"] in ("valid", "flagged", "trunc_mid") and r["fam"] not in [s["fam"] for s in samples]:
                samples.append({k: r[k] for k in ("case", "fam", "cmd", "kind", "input", "lib", "libval", "exit", "says_fail", "outs", "view", "libview")})
    if not cases_override and (runs == 0 or zero == 0 or nonzero == 0 or producers_ok == 0 or views_ok == 0):
        raise core.ToolError(f"stage C: vacuous replay (runs={runs}, exit0={zero}, nonzero={nonzero}, producers={producers_ok}, views={views_ok})")
    cov = {
        "traces_validated_against_impl": res["traces"],
        "samples": samples,
        "cases_generated_by_tlc": ncases,
        "process_runs": runs,
        "process_runs_exit0": zero,
        "process_runs_nonzero": nonzero,
        "damaged_or_missing_inputs_refused": must_fail_seen,
        "producer_runs_exit0_checked_for_completeness": producers_ok,
        "view_runs_exit0_compared_with_library": views_ok,
        "evaluations": runs,
        "distinct_nontrivial": len(cells),
        "rule": "evaluation = one process run judged against O1-O4; distinct = (family, sub-command, file kind, input class, library verdict) cells met",
        "exhaustive": False,
    }
    assumptions = ["the library's verdict on the same bytes defines 'malformed'", "files are made with the library's own writers (valid.rs)",
                   "archive members are <= VERIF_C20_MAXFILE bytes (default 4000)"]
    return core.finish(ctx, "model_checking", cov, assumptions, res["bad"], sig_fn=sig, trace=trace)


def replay(ctx, payload):
    cases, _ = ctx.gen("Gen_Cli", timeout=900)
    want = int(str(payload.get("case", "0")))
    sel = ctx.path("replay-cases.ndjson")
    with open(sel, "w") as f:
        for line in open(cases):
            if json.loads(line)["id"] == want:
                f.write(line)
    return run(ctx, cases_override=sel)
