CONSTANTS
  Threads = {t1}
  ArchFiles = {"A", "B"}
  Names = {"f0", "f1"}
  Dev = {}
  Budget = 3
  CallFns = {"OpenArchive", "CreateArchive", "CloseArchive", "OpenFileEx", "CloseFile", "ReadFile", "SetFilePointer", "GetFileSize", "GetFileName", "GetFileInfo", "HasFile", "VerifyFile", "EnumFiles", "GetArchiveName", "ExtractFile", "AddFile", "RemoveFile", "RenameFile", "FlushArchive", "VerifyArchive", "FindFirst", "FindNext", "FindClose"}
  MaxOpen = 5
  HashCap = 2
  Rich = FALSE
  PreOpen = 2
CONSTANT NextId <- MCNextId
INIT MCInit
NEXT MCNext
SYMMETRY Symm

INVARIANTS TypeOK CloseInvalidatesOwn NoOrphans CursorInRange IdsUnique NoSelfDeadlock NoHang NoWaitCycle LockOrderInv LocksOwned ExistenceAgrees ReadCopiesMin InvalidReported
CHECK_DEADLOCK TRUE
