\* implementation at b13f4b7: TLC must exhibit an in-session read answered by the stale Archive (fixed by 9c6ca29)
CONSTANTS
  H = 4
  UNames <- MCNames
  Home <- MCHome
  InitSeq <- MCInit
  InitTok <- MCInitTok
  InitRaw = {}
  SubOf <- MCSub
  HasLF0 = TRUE
  HasAT0 = FALSE
  Slack = 2
  FU = 2
  Ver = 1
  MaxCalls = 4
  MCToks = {"t1"}
SPECIFICATION Code1Spec
INVARIANT SessionReadStaleAgrees
CHECK_DEADLOCK FALSE
