-------------------------- MODULE MC_ChunkFraming --------------------------
(***************************************************************************)
(* Stage (A) model for the generic framing rules: a writer that emits leaf *)
(* chunks and containers whose size field is back-patched when they are    *)
(* closed (write_group's MOGP, the ADT serializer's MCNK), followed by an   *)
(* independent walker that knows only the framing rule (and which tags are *)
(* containers with which fixed header size).  TLC checks for every file    *)
(* the writer can produce within the bounds that the walker never gets     *)
(* lost, consumes the file exactly, and that what it logged tiles every    *)
(* frame.                                                                  *)
(***************************************************************************)
EXTENDS ChunkFraming, TLC, IOUtils

LeafTags  == {"AAAA", "BBBB"}
ContTags  == {"CONT"}
ContHdr   == 4                      \* fixed header bytes of a container payload
Sizes     == {0, 3, 8}
MaxLen    == IF IOEnv.VERIF_TIER = "thorough" THEN 64 ELSE 44
MaxDepth  == 2                      \* containers inside containers once (MOGP / MCNK are depth 1)

VARIABLES fhdrs,    \* the file as far as framing is concerned: offset -> [tag, size] of a header written there
          fcur,     \* writer cursor = bytes emitted so far
          fopen,    \* stack of open containers: position of their header
          fphase,   \* "write" | "walk" | "done"
          fst,      \* walker's frame state
          flog      \* walker's log: per frame depth, the chunk records seen, as <<depth, record>>
fvars == <<fhdrs, fcur, fopen, fphase, fst, flog>>

Init == /\ fhdrs = << >> /\ fcur = 0 /\ fopen = << >> /\ fphase = "write"
        /\ fst = CfInit(0) /\ flog = << >>

Put(f, o, r) == [q \in DOMAIN f \cup {o} |-> IF q = o THEN r ELSE f[q]]

WLeaf(t, sz) == /\ fphase = "write" /\ fcur + HDR + sz <= MaxLen
                /\ fhdrs' = Put(fhdrs, fcur, [tag |-> t, size |-> sz])
                /\ fcur' = fcur + HDR + sz
                /\ UNCHANGED <<fopen, fphase, fst, flog>>
WOpen(t)     == /\ fphase = "write" /\ Len(fopen) < MaxDepth /\ fcur + HDR + ContHdr <= MaxLen
                /\ fhdrs' = Put(fhdrs, fcur, [tag |-> t, size |-> 0])          \* placeholder size
                /\ fopen' = Append(fopen, fcur)
                /\ fcur' = fcur + HDR + ContHdr
                /\ UNCHANGED <<fphase, fst, flog>>
WClose       == /\ fphase = "write" /\ Len(fopen) > 0
                /\ LET pos == fopen[Len(fopen)] IN
                   fhdrs' = [fhdrs EXCEPT ![pos].size = fcur - pos - HDR]       \* back-patch
                /\ fopen' = SubSeq(fopen, 1, Len(fopen) - 1)
                /\ UNCHANGED <<fcur, fphase, fst, flog>>
WFinish      == /\ fphase = "write" /\ fopen = << >>
                /\ fphase' = "walk" /\ fst' = CfInit(fcur)
                /\ UNCHANGED <<fhdrs, fcur, fopen, flog>>

HdrAt(o) == fhdrs[o]
RLeaf  == /\ fphase = "walk" /\ fst.cur < CfTop(fst).end /\ fst.cur \in DOMAIN fhdrs
          /\ HdrAt(fst.cur).tag \in LeafTags
          /\ CfCanLeaf(fst, fst.cur, HdrAt(fst.cur).size)
          /\ flog' = Append(flog, <<CfDepth(fst), [tag |-> HdrAt(fst.cur).tag, off |-> fst.cur, size |-> HdrAt(fst.cur).size]>>)
          /\ fst' = CfLeaf(fst, fst.cur, HdrAt(fst.cur).size)
          /\ UNCHANGED <<fhdrs, fcur, fopen, fphase>>
REnter == /\ fphase = "walk" /\ fst.cur < CfTop(fst).end /\ fst.cur \in DOMAIN fhdrs
          /\ HdrAt(fst.cur).tag \in ContTags
          /\ CfCanEnter(fst, fst.cur, HdrAt(fst.cur).size, ContHdr)
          /\ flog' = Append(flog, <<CfDepth(fst), [tag |-> HdrAt(fst.cur).tag, off |-> fst.cur, size |-> HdrAt(fst.cur).size]>>)
          /\ fst' = CfEnter(fst, HdrAt(fst.cur).tag, fst.cur, HdrAt(fst.cur).size, ContHdr)
          /\ UNCHANGED <<fhdrs, fcur, fopen, fphase>>
RLeave == /\ fphase = "walk" /\ CfCanLeave(fst)
          /\ fst' = CfLeave(fst)
          /\ UNCHANGED <<fhdrs, fcur, fopen, fphase, flog>>
RDone  == /\ fphase = "walk" /\ CfDone(fst)
          /\ fphase' = "done"
          /\ UNCHANGED <<fhdrs, fcur, fopen, fst, flog>>

Next == \/ \E t \in LeafTags, sz \in Sizes : WLeaf(t, sz)
        \/ \E t \in ContTags : WOpen(t)
        \/ WClose \/ WFinish \/ RLeaf \/ REnter \/ RLeave \/ RDone

\* ---- invariants ----------------------------------------------------------------------------
WellFormed == CfWellFormed(fst)
\* the walker can always make progress until the file is consumed: it is never at a position
\* where no header was written, never sees a size that leaves the enclosing frame
NeverLost == fphase = "walk" =>
    \/ CfDone(fst) \/ CfCanLeave(fst)
    \/ /\ fst.cur < CfTop(fst).end /\ fst.cur \in DOMAIN fhdrs
       /\ IF HdrAt(fst.cur).tag \in ContTags THEN CfCanEnter(fst, fst.cur, HdrAt(fst.cur).size, ContHdr)
                                            ELSE CfCanLeaf(fst, fst.cur, HdrAt(fst.cur).size)
TopLevel == LET top == SelectSeq(flog, LAMBDA e : e[1] = 1) IN [j \in 1..Len(top) |-> top[j][2]]
\* when done: every header the writer wrote was visited exactly once, top level tiles [0, len)
DoneTiles == fphase = "done" =>
    /\ Len(flog) = Cardinality(DOMAIN fhdrs)
    /\ {flog[j][2].off : j \in 1..Len(flog)} = DOMAIN fhdrs
    /\ TilesRange(TopLevel, 0, fcur)
    /\ FirstBreak(TopLevel, 0, fcur) = 0
=============================================================================
