--------------------------- MODULE Trace_MpqBuild ---------------------------
(* Stage (D) for C01.  Each File event carries the writer's inputs (per-sector stored sizes obtained     *)
(* from the real compress), the block entry the real reader sees (flags, sizes, position) and the        *)
(* results of read_file under four spellings.  P-conjuncts (verdict): the build succeeded => open is     *)
(* ok, every added file is found and reads back ok with the added length and content token under every   *)
(* spelling (length only once a lossy ADPCM stage was applied); absent names are not found; the listing  *)
(* is exactly added + specials with sizes = lengths.  When a P-conjunct fails, MpqBuild's reader model   *)
(* (ReadBlock on the observed block entry) is asked for its prediction: if it predicts exactly the       *)
(* observed kind of failure through a named deviation the reason is "dev:<name>", otherwise              *)
(* "unexplained".  D-conjuncts (DRIFT): writer-model flags / csize differ from the observed ones.         *)
(* The builder's option setters are events of their own (`Opt`): the trace drives the MpqBuildOpts machine (CallCrcs /   *)
(* CallAttrs / CallListfile, OBuild, OList), so the option state build() saw -- sector checksums, attributes file,        *)
(* listfile -- is what the MODEL derives from the order of the calls, not what the driver believes.                       *)
EXTENDS MpqBuild, MpqBuildOpts, Json, IOUtils, TLCExt

Rec == ndJsonDeserialize(IOEnv.TRACE)
TrS == atoi(IOEnv.C01_S)            \* sector size of this trace shard (cfg: SectorSize <- TrS)
\* does the tree under test carry the F-C01-a fix (COMPRESS on every sectored file)?  Set by checks/c01.py from the
\* builder source; only the DRIFT comparison of writer flags depends on it (the verdict uses the observed flags)
TrFlagFix == "C01_FLAGFIX" \in DOMAIN IOEnv /\ IOEnv.C01_FLAGFIX = "1"
TrBetFix == "C01_BETFIX" \in DOMAIN IOEnv /\ IOEnv.C01_BETFIX = "1"     \* builder stores lookup3 values in the BET table
TrKey(nm) == <<0, 0>>               \* key derivation is checked on the model (MC_MpqBuild), not in traces
VARIABLES tl,
          tfiles     \* what the File events of the current trace established: idx -> [len, tok, lossy, ok]

SeqToSet(sq) == {sq[j] : j \in 1..Len(sq)}
Secs(e) == [j \in 1..Len(e.secs) |-> [r |-> e.secs[j][1], st |-> e.secs[j][2], shrunk |-> e.secs[j][3]]]
AsFile(e) == [name |-> <<>>, len |-> e.len, cls |-> e.cls, method |-> e.method, enc |-> e.enc]
\* the block entry as the reader sees it + the writer's ghost fields
ObsBlock(e) == [pos |-> e.pos, csize |-> e.csize, fsize |-> e.fsize, flags |-> SeqToSet(e.flags),
                secs |-> Secs(e), method |-> e.method, single |-> IsSingleUnit(e.len), crc |-> oopt.crc,
                key |-> KeyFor(<<>>, "FIX_KEY" \in SeqToSet(e.flags), e.pos, e.fsize)]

LossyApplied(e) == LossySel(e.method) /\ AnyShrunk(Secs(e))
Exact(e, r) == r[1] = "ok" /\ r[2] = e.len /\ (LossyApplied(e) \/ r[3] = e.tok)
Consistent(e, pred, r) ==
  CASE pred = "table-prepended" -> r[1] = "ok" /\ r[2] = e.csize
    [] pred = "garbage"         -> r[1] # "panic" /\ r[1] # "hang"
    [] pred = "err:limit"       -> r[1] = "err:CompressionBomb"
    [] pred = "err:codec"       -> r[1] \in {"err:Compression", "panic"}     \* (panic: PKWare before 8c7dcc0)
    [] pred = "err:crc"         -> r[1] = "err:ChecksumMismatch"
    [] pred = "panic"           -> r[1] = "panic"
    \* today a sector that fails to decode is replaced by zeros (Ok, right length, wrong bytes); once the reader
    \* propagates the sector's error instead, the same named deviation shows as that error
    [] pred = "zerofill"        -> \/ r[1] = "ok" /\ r[2] = e.len
                                   \/ r[1] \in {"err:CompressionBomb", "err:Compression"}
    [] OTHER                    -> FALSE
CodecDevName(m) == IF DevPkwareAsciiMode(m) THEN "pkware-ascii-mode"
                   ELSE IF DevMultiBzip2StrictSize(m) THEN "multi-bzip2-size" ELSE "other"
\* errs: some read returned an error (as opposed to Ok with wrong bytes)
DevName(b, pred, errs) ==
  CASE pred \in {"table-prepended", "garbage"} ->
         (IF DevSectoredNoCompressFlag(b) THEN "sectored-no-compress-flag" ELSE "layout-disagreement")
    [] pred = "err:limit" -> "limit-rejects-own-output"
    [] pred = "zerofill"  -> (IF DevLimitRejectsOwnOutput(b)
                              THEN (IF errs THEN "limit-rejects-own-output" ELSE "limit-sector-zero-filled")
                              ELSE (IF errs THEN "codec:" ELSE "codec-sector-zero-filled:") \o CodecDevName(b.method))
    [] pred \in {"panic", "err:codec"} -> "codec:" \o CodecDevName(b.method)
    [] pred = "err:crc" -> "lossy-sector-crc"
    [] OTHER -> "none"

\* HET/BET path (observed through the table accessors: e.hb = [tables, cands, ver, classic]; e.idx = the file's block
\* index, files are added in order).  Verdict: whatever BET verification accepts for a name is that file's own entry
\* (MpqBuild!HetBetAnswersOwn), and find_file lands on the file's own block.
HetBetVerdict(e) ==
  IF e.hb.tables /\ \E j \in 1..Len(e.hb.ver) : e.hb.ver[j] # e.idx THEN "hetbet-verifies-another-file"
  ELSE IF e.found /\ e.blk # e.idx THEN "find-file-lands-on-another-block"
  ELSE "ok"
\* model conformance of the path (DRIFT): with lookup3 values in the BET table (BetFix) the HET/BET path answers for
\* every added name (MpqBuild!BetFixAnswers); without, nothing ever verifies (MpqBuild!AsIsAlwaysFallsBack)
HetBetDrift(e) ==
  IF ~e.hb.tables THEN "none"
  ELSE IF ~BetFix /\ e.hb.ver # <<>> THEN "bet-verifies-although-model-says-hash-mismatch"
  ELSE IF e.hb.classic # e.idx THEN "classic-table-block-differs"
  ELSE "none"

\* On V3/V4 archives of a builder that stores lookup3 BET hashes the HET/BET path itself must answer for every added
\* name whose 8-bit hash is not the free marker (MpqBuild!BetFixAnswers), with the block the classic table gives
HetBetPathVerdict(e) ==
  IF BetFix /\ e.ver >= 3 /\ e.hb.h8 # 255 /\ ~(e.hb.tables /\ e.hb.ver = <<e.idx>> /\ e.hb.classic = e.idx)
  THEN (IF ~e.hb.tables THEN "hetbet-tables-not-loaded" ELSE "hetbet-path-does-not-answer-for-added-file")
  ELSE "ok"

FileVerdict(e) ==
  \* a member of a pair of names that is one lookup key (MpqBuild!DistinctKeys: AddHash refuses such a set): the build
  \* went through although both cannot be told apart
  IF e.twin >= 0 THEN (IF \A j \in 1..4 : Exact(e, e.reads[j]) /\ e.found /\ e.blk = e.idx THEN "ok"
                       ELSE "build-accepted-colliding-names")
  ELSE IF ~e.found THEN "added-file-not-found"
  ELSE IF HetBetVerdict(e) # "ok" THEN HetBetVerdict(e)
  ELSE IF HetBetPathVerdict(e) # "ok" THEN HetBetPathVerdict(e)
  ELSE IF \A j \in 1..4 : Exact(e, e.reads[j]) THEN "ok"
  ELSE LET b == ObsBlock(e)
           pred == ReadBlock(b, <<>>)
       IN IF pred # "exact" /\ \A j \in 1..4 : (Exact(e, e.reads[j]) \/ Consistent(e, pred, e.reads[j]))
          THEN "dev:" \o DevName(b, pred, \E j \in 1..4 : e.reads[j][1] \notin {"ok", "panic", "hang"})
          \* named deviation MpqBuild!DevZeroKeyTakenAsPlain: an encrypted sectored member whose key (reference hash of the
          \* plain name, observed position and size) is exactly 0 does not read back -- what a reader that decides
          \* "encrypted" by key # 0 produces (MC_MpqBuild_negzkey)
          ELSE IF e.zname # <<>> /\ "ENCRYPTED" \in b.flags /\ ~b.single
                  /\ FixKey(FileKey(e.zname), WFromNat(e.pos), WFromNat(e.fsize)) = <<0, 0>>
               THEN "dev:zero-key-taken-as-plain"
          ELSE "unexplained"
FileDrift(e) ==
  IF ~e.found THEN "none"
  ELSE LET f == AsFile(e)
           mf == WriterFlags(f, oopt.crc, Secs(e))
       IN IF mf # SeqToSet(e.flags) THEN "writer-flags-differ-from-model"
          ELSE IF WriterCsize(f, oopt.crc, Secs(e)) # e.csize THEN "writer-csize-differs-from-model"
          \* key class "final key 0": the member the driver constructed for it really has the key 0 (MpqCrypto reference
          \* hash of its plain name, observed position and size) -- otherwise the class was not reached in this archive
          ELSE IF e.lencls = "zkey" /\ FixKey(FileKey(e.zname), WFromNat(e.pos), WFromNat(e.fsize)) # <<0, 0>>
               THEN "zero-key-member-has-a-nonzero-key"
          ELSE IF \A j \in 1..4 : Exact(e, e.reads[j]) /\ ReadBlock(ObsBlock(e), <<>>) # "exact"
               THEN "model-predicts-failure-but-code-succeeds"
          ELSE "none"

AbsentVerdict(e) == IF e.hb.ver # <<>> THEN "hetbet-verifies-absent-name"
                    ELSE IF e.hb.classic >= 0 THEN "classic-table-resolves-absent-name"
                    ELSE IF \A j \in 1..4 : e.reads[j] = <<"notfound", "notfound">> THEN "ok" ELSE "absent-name-resolved"

\* The listing conjunct: exactly the added names plus the internal special files THE ARCHIVE HOLDS (e.specials: the
\* special names find_file resolves), every existing block listed once (e.nblk: block-table entries that exist), sizes =
\* content lengths.  Which special files the archive should hold given the option calls is the model's business
\* (MpqBuildOpts!Specials) and only DRIFT: the property does not say which options produce which special file.
ListOk(e) ==
  /\ e.res = "ok"
  /\ SeqToSet(e.names) = SeqToSet(e.added) \cup SeqToSet(e.specials)
  /\ Len(e.names) = Cardinality(SeqToSet(e.names))
  /\ Len(e.names) = e.nblk
  /\ \A j \in 1..Len(e.names) : \A q \in 1..Len(e.added) : e.names[j] = e.added[q] => e.sizes[j] = e.alens[q]
ListVerdict(e) ==
  IF LISTFILE \notin SeqToSet(e.specials) THEN "ok"        \* the archive carries no listfile: nothing is claimed
  ELSE IF ListOk(e) THEN "ok"
  ELSE LET fl == SeqToSet(e.lfFlags) IN
       IF e.lfFsize > SectorSize /\ "COMPRESS" \notin fl THEN "dev:sectored-no-compress-flag(listfile)"
       ELSE IF "COMPRESS" \in fl /\ DecodeClass(e.method) # "ok" THEN "dev:codec:" \o CodecDevName(e.method) \o "(listfile)"
       ELSE IF e.res = "ok" /\ \E n \in SeqToSet(e.specials) : n \notin SeqToSet(e.names)
            THEN "listing-omits-a-special-file-of-the-archive"
       ELSE IF e.res = "ok" /\ \E n \in SeqToSet(e.added) : n \notin SeqToSet(e.names)
            THEN "listing-omits-an-added-name"
       ELSE "list-unexplained"
\* model conformance of the option part: the special files the archive holds are the ones the option state predicts
ListDrift(e) ==
  IF oph # "built" THEN "list-without-accepted-build"
  ELSE IF SeqToSet(e.specials) # Specials(oopt) THEN "special-files-differ-from-option-model"
  ELSE IF LISTFILE \in SeqToSet(e.specials) /\ ListOk(e) /\ SeqToSet(e.names) # Listing(oopt, SeqToSet(e.added))
       THEN "listing-differs-from-option-model"
  ELSE "none"

\* The same archive opened behind a non-zero archive offset (foreign prefix / user-data header): block positions are
\* relative to the archive header (AbsPos), FIX_KEY keys use the relative position, so every file that read back exactly
\* from offset 0 must read back exactly here too, and absent names stay absent
AbsPos(aoff, pos) == aoff + pos
EmbeddedVerdict(e) ==
  IF e.open # "ok" THEN "embedded-open-failed"
  ELSE IF \E j \in 1..Len(e.reads) :
            LET r == e.reads[j] IN
            /\ r[1] \in DOMAIN tfiles /\ tfiles[r[1]].ok
            /\ ~(r[2] = "ok" /\ r[3] = tfiles[r[1]].len /\ (tfiles[r[1]].lossy \/ r[4] = tfiles[r[1]].tok))
       THEN "embedded-read-differs"
  ELSE IF e.absent # "notfound" THEN "embedded-absent-name-resolved"
  ELSE "ok"

Verdict(e) == CASE e.ev = "Reset"  -> (IF e.S = SectorSize THEN "ok" ELSE "shard-sector-size-mismatch")
                \* an error ends the behaviour (allowed); a panic / hang of build() is not "reports an error"
                \* named deviation MpqBuild!DevBetEntryOver64: a V3/V4 builder that assembles the BET entry in 64 bits panics
                \* (debug) once the summed field widths can exceed 64
                [] e.ev = "Build"  -> (IF e.res = "panic" /\ e.ver >= 3 /\ BetEntryWidthBound(e.maxlen, e.total) > 64
                                       THEN "dev:bet-entry-wider-than-64-bits"
                                       ELSE IF e.res \in {"panic", "hang"} THEN "build-" \o e.res ELSE "ok")
                \* opening must not silently drop a table the builder wrote: classic hash and block tables always,
                \* HET and BET for V3/V4 (the hi-block table is only written when some position needs it)
                [] e.ev = "Open"   -> (IF e.res # "ok" THEN "open-failed"
                                       ELSE IF ~(e.loaded.hash /\ e.loaded.block) THEN "classic-table-dropped"
                                       ELSE IF e.ver >= 3 /\ ~(e.loaded.het /\ e.loaded.bet) THEN "hetbet-table-dropped"
                                       ELSE "ok")
                [] e.ev = "File"   -> FileVerdict(e)
                [] e.ev = "Absent" -> AbsentVerdict(e)
                [] e.ev = "List"   -> ListVerdict(e)
                \* a setter call the option machine does not know, or one made after build()
                [] e.ev = "Opt"    -> (IF <<e.call, e.arg>> \in OptCalls /\ oph = "config" THEN "ok" ELSE "unknown-option-call")
                [] e.ev = "Embedded" -> EmbeddedVerdict(e)
                [] e.ev = "Hang"   -> "hang:" \o e.call          \* a library call did not return (per-call watchdog)
                \* the process running the case died (abort / OOM / signal).  Named deviation DevTableCompression
                \* (misaligned HET/BET parse) explains a death inside Archive::open of a V3/V4 archive with compressed tables
                [] e.ev = "Abort"  -> (IF e.after = "Build" /\ e.tablecomp /\ e.ver >= 3
                                       THEN "dev:table-compression-misaligned" ELSE "abort")
                [] OTHER           -> "unknown-event"

TNone(n) == {1}
\* the option machine, driven by the events (totalised: an event the machine has no enabled action for leaves it alone;
\* Verdict / ListDrift report it)
OptStep(e) ==
  CASE e.ev = "Reset" -> oph' = "config" /\ oopt' = OptDefault /\ ocalls' = <<>> /\ olisted' = {}
    [] e.ev = "Opt" /\ oph = "config" /\ <<e.call, e.arg>> \in OptCalls ->
         (CASE e.call = "crcs"  -> CallCrcs(e.arg = "on")
            [] e.call = "attrs" -> CallAttrs(e.arg)
            [] OTHER            -> CallListfile(e.arg = "generate"))
    [] e.ev = "Build" /\ e.res = "ok" /\ oph = "config" -> OBuild
    [] e.ev = "List" /\ oph = "built" /\ oopt.listfile -> OList(SeqToSet(e.added))
    [] OTHER -> UNCHANGED ovars
Init == tl = 1 /\ BInitWith({<<>>}) /\ tfiles = <<>> /\ OInit
Next == /\ tl <= Len(Rec)
        /\ tl' = tl + 1
        /\ UNCHANGED bvars
        /\ OptStep(Rec[tl])
        /\ tfiles' = LET e == Rec[tl] IN
                     IF e.ev = "Reset" THEN <<>>
                     ELSE IF e.ev = "File"
                          THEN (e.idx :> [len |-> e.len, tok |-> e.tok, lossy |-> LossyApplied(e), ok |-> FileVerdict(e) = "ok"]) @@ tfiles
                          ELSE tfiles
        /\ LET e == Rec[tl]
               v == Verdict(e) IN
           /\ (IF v = "ok" THEN TRUE ELSE PrintT(<<"BAD", tl, v>>))
           /\ (IF e.ev = "File" /\ FileDrift(e) # "none" THEN PrintT(<<"DRIFT", tl, FileDrift(e)>>) ELSE TRUE)
           /\ (IF e.ev = "Embedded" /\ e.open = "ok" /\ e.aoff # e.off THEN PrintT(<<"DRIFT", tl, "archive-offset-differs">>) ELSE TRUE)
           /\ (IF e.ev = "File" /\ HetBetDrift(e) # "none" THEN PrintT(<<"DRIFT", tl, HetBetDrift(e)>>) ELSE TRUE)
           /\ (IF e.ev = "List" /\ ListDrift(e) # "none" THEN PrintT(<<"DRIFT", tl, ListDrift(e)>>) ELSE TRUE)

Accepted == LET d == TLCGet("stats").diameter IN
            IF d - 1 = Len(Rec) THEN PrintT(<<"CONSUMED", Len(Rec)>>) ELSE Print(<<"TRACE_STUCK_AT", d>>, FALSE)
=============================================================================
