---------------------------- MODULE MC_StormFfi ----------------------------
(* Stage (A) for C19: small-scope exhaustive check of StormFfi.  Every thread runs a            *)
(* nondeterministically chosen program of at most Budget calls; handle arguments range over    *)
(* 0 (NULL), every id issued so far (valid, closed, id of another table) and the next, never   *)
(* issued, id.  Deadlock freedom is TLC's own deadlock check: the only stuttering step is       *)
(* Terminated (all programs finished).                                                         *)
EXTENDS StormFfi

CONSTANTS Budget,      \* calls per thread
          CallFns,     \* functions the programs may call
          MaxOpen,     \* bound on simultaneously + ever opened archives (ids) to keep the scope finite
          HashCap,     \* capacity given to created (writable) archives
          PreOpen,     \* handles already issued in the initial state (0..5, see MCInit)
          Rich         \* TRUE: the full argument classes (case generation); FALSE: the reduced ones (stage A)

VARIABLE vbudget
MCNextId(t) == vnext
mcvars == <<vars, vbudget>>

D1 == <<7, 8>>
D2 == <<5>>
D3 == [i \in 1..40 |-> i]
Disk0 == [f \in ArchFiles |-> [x \in Names |->
            IF f = "A" THEN (CASE x = "f0" -> D1 [] x = "f1" -> D2 [] x = "f2" -> D3 [] OTHER -> None)
                       ELSE (IF x = "f0" THEN D2 ELSE None)]]

\* PreOpen = 0: nothing open.  PreOpen = 1: handle 1 = "A" opened read-only by an earlier call.
\* PreOpen = 2: additionally handle 2 = "B" created writable (empty, capacity HashCap).
\* PreOpen = 5: as 4, and ids 5 (file), 6 (search), 7 (archive) were issued and closed again.
\* PreOpen = 3: additionally handle 3 = file "f0" of archive 1, cursor at 1.  PreOpen = 4: and search handle 4 on 1.
MCInit ==
    /\ vdisk = (IF PreOpen >= 2 THEN [Disk0 EXCEPT !["B"] = NoMap] ELSE Disk0)
    /\ vcap = [f \in ArchFiles |-> IF PreOpen >= 2 /\ f = "B" THEN HashCap ELSE 16]
    /\ vlist = [f \in ArchFiles |-> IF PreOpen >= 2 /\ f = "B" THEN <<LF>> ELSE ListOf(Disk0[f])]
    /\ varch = [a \in 1..Min(PreOpen, 2) |->
                  IF a = 1 THEN [file |-> "A", mut |-> FALSE, sess |-> Disk0["A"], snap |-> Disk0["A"], lst |-> ListOf(Disk0["A"]), cap |-> 16]
                           ELSE [file |-> "B", mut |-> TRUE, sess |-> NoMap, snap |-> NoMap, lst |-> <<LF>>, cap |-> HashCap]]
    /\ vfiles = (IF PreOpen >= 3 THEN (3 :> [arch |-> 1, name |-> "f0", data |-> D1, pos |-> 1]) ELSE <<>>)
    /\ vfinds = (IF PreOpen >= 4 THEN (4 :> [arch |-> 1, list |-> ListOf(Disk0["A"]), idx |-> 1]) ELSE <<>>)
    /\ vnext = (IF PreOpen = 5 THEN 8 ELSE PreOpen + 1)
    /\ vlock = [l \in Locks |-> Free]
    /\ vpc = [t \in Threads |-> "Idle"]
    /\ vfr = [t \in Threads |-> NullFrame]
    /\ vret = [t \in Threads |-> NoRet]
    /\ vlast = [t \in Threads |-> "ok"]
    /\ vclosed = {}
    /\ vbudget = [t \in Threads |-> Budget]

Handles == 0..Min(vnext, MaxOpen + 1)
ArgNames == Names \cap {"f0", "f1", "f2", "f3"}
\* argument sets per function: <<fn, h, name, n1, n2, dat>>
CallsOf(fn) ==
    CASE fn = "OpenArchive"    -> {<<fn, 0, f, 0, 0, <<>>>> : f \in ArchFiles \cup {"nofile"}}
      [] fn = "CreateArchive"  -> {<<"OpenArchive", 0, f, k, HashCap, <<>>>> : f \in {"B"}, k \in {1, 2}}
      [] fn = "CloseArchive"   -> {<<fn, h, "", 0, 0, <<>>>> : h \in Handles}
      [] fn = "OpenFileEx"     -> {<<fn, h, x, 0, 0, <<>>>> : h \in Handles, x \in (IF Rich THEN ArgNames ELSE {"f0"})}
      [] fn = "CloseFile"      -> {<<fn, h, "", 0, 0, <<>>>> : h \in Handles}
      [] fn = "ReadFile"       -> IF Rich THEN {<<fn, h, "", req, 0, <<>>>> : h \in Handles, req \in {0, 1, 2, 3, 39, 40, 41}}
                                              \cup {<<fn, h, "", 2147483647, k, <<>>>> : h \in Handles, k \in {0, 1}}
                                  ELSE {<<fn, h, "", req, 0, <<>>>> : h \in Handles, req \in {1, 3}}
      [] fn = "GetFileSize"    -> {<<fn, h, "", 0, 0, <<>>>> : h \in Handles}
      [] fn = "SetFilePointer" -> IF Rich THEN {<<fn, h, "", off, m, <<>>>> : h \in Handles,
                                                   off \in {0, 1, 2, 3, -1, -2, -3, 2147483647, -2147483647 - 1}, m \in {0, 1, 2, 7}}
                                  ELSE {<<fn, h, "", off, m, <<>>>> : h \in Handles, off \in {-1, 1, 2147483647}, m \in {1, 2}}
      [] fn = "GetFileName"    -> {<<fn, h, "", 0, 0, <<>>>> : h \in Handles}
      [] fn = "GetFileInfo"    -> IF Rich THEN {<<fn, h, "", c, b, <<>>>> : h \in Handles, c \in {1, 2, 7, 10, 99}, b \in {0, 3, 4, 7, 8, 16}}
                                  ELSE {<<fn, h, "", c, 8, <<>>>> : h \in Handles, c \in {7, 10, 1}}
      [] fn = "HasFile"        -> {<<fn, h, x, 0, 0, <<>>>> : h \in Handles, x \in ArgNames}
      [] fn = "VerifyFile"     -> {<<fn, h, x, 0, 0, <<>>>> : h \in Handles, x \in {"f0"}}
      [] fn = "EnumFiles"      -> {<<fn, h, "", 0, 0, <<>>>> : h \in Handles}
      [] fn = "GetArchiveName" -> {<<fn, h, "", 0, b, <<>>>> : h \in Handles, b \in (IF Rich THEN {0, 1, 2, 3} ELSE {1})}
      [] fn = "ExtractFile"    -> {<<fn, h, x, 0, 0, <<>>>> : h \in Handles, x \in {"f0"}}
      [] fn = "AddFile"        -> {<<fn, h, x, k, 0, D2>> : h \in Handles, x \in ArgNames, k \in (IF Rich THEN {0, 1} ELSE {0})}
      [] fn = "RemoveFile"     -> {<<fn, h, x, 0, 0, <<>>>> : h \in Handles, x \in (IF Rich THEN ArgNames ELSE {"f0"})}
      [] fn = "RenameFile"     -> {<<fn, h, "f0", 0, 0, <<"f1">>>> : h \in Handles}
      [] fn = "FlushArchive"   -> {<<fn, h, "", k, 0, <<>>>> : h \in Handles, k \in {0, 1}}
      [] fn = "VerifyArchive"  -> {<<fn, h, "", k, 0, <<>>>> : h \in Handles, k \in {0, 1}}
      [] fn = "FindFirst"      -> {<<fn, h, m, 0, 0, <<>>>> : h \in Handles, m \in (IF Rich THEN {"", "m2", "m4", "m6"} ELSE {""})}
      [] fn = "FindNext"       -> {<<fn, h, "", 0, 0, <<>>>> : h \in Handles}
      [] fn = "FindClose"      -> {<<fn, h, "", 0, 0, <<>>>> : h \in Handles}

MCInvoke(t) ==
    /\ vbudget[t] > 0
    /\ \E fn \in CallFns : \E c \in CallsOf(fn) :
          /\ (c[1] = "OpenArchive" => vnext <= MaxOpen)
          \* creating truncates the file: not while a handle on it is open (an OS-level matter)
          /\ (c[1] = "OpenArchive" /\ c[4] # 0 => \A a \in DOMAIN varch : varch[a].file # c[3])
          /\ Invoke(t, c[1], c[2], c[3], c[4], c[5], c[6])
    /\ vbudget' = [vbudget EXCEPT ![t] = @ - 1]

\* one MC action per action of StormFfi (so that TLC's coverage and error traces name them)
M_OA_Open(t) == OA_Open(t) /\ UNCHANGED vbudget
M_OA_Id(t) == OA_Id(t) /\ UNCHANGED vbudget
M_OA_Insert(t) == OA_Insert(t) /\ UNCHANGED vbudget
M_CA_Null(t) == CA_Null(t) /\ UNCHANGED vbudget
M_CA_PurgeFiles_Split(t) == CA_PurgeFiles_Split(t) /\ UNCHANGED vbudget
M_CA_Remove_Split(t) == CA_Remove_Split(t) /\ UNCHANGED vbudget
M_CA_Remove(t) == CA_Remove(t) /\ UNCHANGED vbudget
M_CA_PurgeFiles(t) == CA_PurgeFiles(t) /\ UNCHANGED vbudget
M_CA_PurgeFinds(t) == CA_PurgeFinds(t) /\ UNCHANGED vbudget
M_OF_Null(t) == OF_Null(t) /\ UNCHANGED vbudget
M_OF_Lookup(t) == OF_Lookup(t) /\ UNCHANGED vbudget
M_OF_Id(t) == OF_Id(t) /\ UNCHANGED vbudget
M_OF_Insert(t) == OF_Insert(t) /\ UNCHANGED vbudget
M_CloseFile(t) == CloseFile(t) /\ UNCHANGED vbudget
M_CF_Acquire(t) == CF_Acquire(t) /\ UNCHANGED vbudget
M_CF_Remove(t) == CF_Remove(t) /\ UNCHANGED vbudget
M_ReadFile(t) == ReadFile(t) /\ UNCHANGED vbudget
M_GetFileSize(t) == GetFileSize(t) /\ UNCHANGED vbudget
M_SetFilePointer(t) == SetFilePointer(t) /\ UNCHANGED vbudget
M_GetFileName(t) == GetFileName(t) /\ UNCHANGED vbudget
M_GI_File(t) == GI_File(t) /\ UNCHANGED vbudget
M_GI_Archive(t) == GI_Archive(t) /\ UNCHANGED vbudget
M_HasFile(t) == HasFile(t) /\ UNCHANGED vbudget
M_VerifyFile(t) == VerifyFile(t) /\ UNCHANGED vbudget
M_EnumFiles(t) == EnumFiles(t) /\ UNCHANGED vbudget
M_GetArchiveName(t) == GetArchiveName(t) /\ UNCHANGED vbudget
M_ExtractFile(t) == ExtractFile(t) /\ UNCHANGED vbudget
M_AddFile(t) == AddFile(t) /\ UNCHANGED vbudget
M_RemoveFile(t) == RemoveFile(t) /\ UNCHANGED vbudget
M_RenameFile(t) == RenameFile(t) /\ UNCHANGED vbudget
M_FlushArchive(t) == FlushArchive(t) /\ UNCHANGED vbudget
M_VA_Null(t) == VA_Null(t) /\ UNCHANGED vbudget
M_VA_Begin(t) == VA_Begin(t) /\ UNCHANGED vbudget
M_VA_VerifyOne(t) == VA_VerifyOne(t) /\ UNCHANGED vbudget
M_FF_Null(t) == FF_Null(t) /\ UNCHANGED vbudget
M_FF_List(t) == FF_List(t) /\ UNCHANGED vbudget
M_FF_Fill_Late(t) == FF_Fill_Late(t) /\ UNCHANGED vbudget
M_FF_Id(t) == FF_Id(t) /\ UNCHANGED vbudget
M_FF_Insert(t) == FF_Insert(t) /\ UNCHANGED vbudget
M_FN_Null(t) == FN_Null(t) /\ UNCHANGED vbudget
M_FN_Advance(t) == FN_Advance(t) /\ UNCHANGED vbudget
M_FN_Fill(t) == FN_Fill(t) /\ UNCHANGED vbudget
M_FindClose(t) == FindClose(t) /\ UNCHANGED vbudget

Terminated == /\ \A t \in Threads : vpc[t] = "Idle" /\ vbudget[t] = 0
              /\ UNCHANGED mcvars

MCNext ==
    \/ \E t \in Threads : MCInvoke(t)
    \/ \E t \in Threads : M_OA_Open(t)
    \/ \E t \in Threads : M_OA_Id(t)
    \/ \E t \in Threads : M_OA_Insert(t)
    \/ \E t \in Threads : M_CA_Null(t)
    \/ \E t \in Threads : M_CA_PurgeFiles_Split(t)
    \/ \E t \in Threads : M_CA_Remove_Split(t)
    \/ \E t \in Threads : M_CA_Remove(t)
    \/ \E t \in Threads : M_CA_PurgeFiles(t)
    \/ \E t \in Threads : M_CA_PurgeFinds(t)
    \/ \E t \in Threads : M_OF_Null(t)
    \/ \E t \in Threads : M_OF_Lookup(t)
    \/ \E t \in Threads : M_OF_Id(t)
    \/ \E t \in Threads : M_OF_Insert(t)
    \/ \E t \in Threads : M_CloseFile(t)
    \/ \E t \in Threads : M_CF_Acquire(t)
    \/ \E t \in Threads : M_CF_Remove(t)
    \/ \E t \in Threads : M_ReadFile(t)
    \/ \E t \in Threads : M_GetFileSize(t)
    \/ \E t \in Threads : M_SetFilePointer(t)
    \/ \E t \in Threads : M_GetFileName(t)
    \/ \E t \in Threads : M_GI_File(t)
    \/ \E t \in Threads : M_GI_Archive(t)
    \/ \E t \in Threads : M_HasFile(t)
    \/ \E t \in Threads : M_VerifyFile(t)
    \/ \E t \in Threads : M_EnumFiles(t)
    \/ \E t \in Threads : M_GetArchiveName(t)
    \/ \E t \in Threads : M_ExtractFile(t)
    \/ \E t \in Threads : M_AddFile(t)
    \/ \E t \in Threads : M_RemoveFile(t)
    \/ \E t \in Threads : M_RenameFile(t)
    \/ \E t \in Threads : M_FlushArchive(t)
    \/ \E t \in Threads : M_VA_Null(t)
    \/ \E t \in Threads : M_VA_Begin(t)
    \/ \E t \in Threads : M_VA_VerifyOne(t)
    \/ \E t \in Threads : M_FF_Null(t)
    \/ \E t \in Threads : M_FF_List(t)
    \/ \E t \in Threads : M_FF_Fill_Late(t)
    \/ \E t \in Threads : M_FF_Id(t)
    \/ \E t \in Threads : M_FF_Insert(t)
    \/ \E t \in Threads : M_FN_Null(t)
    \/ \E t \in Threads : M_FN_Advance(t)
    \/ \E t \in Threads : M_FN_Fill(t)
    \/ \E t \in Threads : M_FindClose(t)
    \/ Terminated

\* ---- bounded-scope facts about the read arithmetic, checked on every ReadFile return
ReadCopiesMin ==
    \A t \in Threads : vret[t].fn = "ReadFile" /\ vret[t].ret = 1 => Len(vret[t].out) <= 3
InvalidReported ==
    \A t \in Threads : (vret[t].fn \notin {"-", "HasFile"} /\ vret[t].err = "invalid_handle")
                          => (vret[t].ret \in {0, -1} /\ vlast[t] = "invalid_handle")

Symm == Permutations(Threads)
\* results of completed calls are observations, not state the machine reads (except vlast, which only
\* SFileGetLastError reads): hidden from the fingerprint in the multi-thread configurations
LockView == <<vdisk, vcap, vlist, varch, vfiles, vfinds, vnext, vlock, vpc, vfr, vclosed, vbudget>>
=============================================================================
