\* intended machine (Dev = {}): every invariant holds, no deadlock.
\* 2 threads x 2 calls, archive 1 = "A" (read-only) and 2 = "B" (writable) already open, whole API
CONSTANTS
  Threads = {t1, t2}
  ArchFiles = {"A", "B"}
  Names = {"x", "y"}
  Dev = {}
  Budget = 2
  CallFns = {"OpenArchive", "CloseArchive", "OpenFileEx", "CloseFile", "ReadFile", "SetFilePointer", "GetFileSize", "GetFileInfo", "HasFile", "AddFile", "RemoveFile", "FindFirst", "FindNext", "FindClose", "VerifyArchive", "VerifyFile", "FlushArchive"}
  MaxOpen = 4
  HashCap = 2
  PreOpen = 2
INIT MCInit
NEXT MCNext
SYMMETRY Symm
INVARIANTS TypeOK CloseInvalidatesOwn NoOrphans CursorInRange IdsUnique NoSelfDeadlock NoHang NoWaitCycle LocksOwned ExistenceAgrees ReadCopiesMin InvalidReported
CHECK_DEADLOCK TRUE
