//! C11 driver: run the real `warcraft-rs mpq extract` on archives whose entry / listfile names are the
//! adversarial names TLC enumerated (specs/Gen_PathContain.tla), inside a sandbox directory tree, and
//! record which paths of the whole sandbox neighbourhood were created / modified / removed.
//! The driver only observes; specs/Trace_PathContain.tla decides containment.
//!
//! usage: c11 <cases.ndjson> <trace.ndjson> <path-to-warcraft-rs>
//!
//! Sandbox layout of one run (W = <scratch>/w<case>):
//!   W/arch/{base.mpq,patch.mpq,*.lst}    inputs
//!   W/r1/r2/r3/r4/r5/root/               where names with a leading separator point to: an abstract
//!                                        absolute name  \x\y  is concretised as \<W>\r1\..\root\x\y so
//!                                        that even a successful escape stays inside the sandbox
//!   W/d1/d2/p1/p2/work/                  cwd of the CLI process
//!   W/d1/d2/p1/p2/work/out               the requested output directory
//! Names have <= 6 components, so `..` can climb at most 5 levels above out / root: still inside W.
use std::collections::BTreeMap;
use std::os::unix::fs::MetadataExt;
use std::path::{Path, PathBuf};
use std::process::{Command, Stdio};
use std::time::{Duration, Instant};
use wow_mpq::{ArchiveBuilder, ListfileOption};
use wverif_common::*;

const OUT_REL: [&str; 6] = ["d1", "d2", "p1", "p2", "work", "out"];

#[derive(Clone)]
struct AName {
    c: Vec<String>,
    s: Vec<String>,
    /// index the plain / long / non-ASCII components are concretised with (entries that must share a literal prefix share it)
    ix: Option<usize>,
}

fn parse_names(case: &Value) -> Vec<AName> {
    ga(case, "names")
        .iter()
        .map(|n| AName {
            c: ga(n, "c").iter().map(|x| x.as_str().unwrap().to_string()).collect(),
            s: ga(n, "s").iter().map(|x| x.as_str().unwrap().to_string()).collect(),
            ix: n.get("ix").and_then(|x| x.as_u64()).map(|x| x as usize),
        })
        .collect()
}

fn sep(s: &str) -> &'static str {
    if s == "b" {
        "\\"
    } else {
        "/"
    }
}

/// Abstract name -> concrete entry name. `i` = index of the name inside its group; plain / unicode /
/// long components carry it so that two names of one archive never need the same path once as a file
/// and once as a directory (the CLI aborts the whole run on such an I/O error).
fn concretise(n: &AName, i: usize, root: &Path) -> String {
    let last = n.c.len() - 1;
    let comps: Vec<String> = n
        .c
        .iter()
        .enumerate()
        .map(|(j, k)| match k.as_str() {
            "P" => "..".to_string(),
            "D" => ".".to_string(),
            "E" => String::new(),
            "T" => "...".to_string(),
            "Q" => "....".to_string(),
            "S" => ".. ".to_string(),
            "a" => format!("a{i}"),
            "U" => format!("\u{fc}{i}"),
            "L" => {
                let suf = i.to_string();
                format!("{}{}", "L".repeat(255 - suf.len()), suf)
            }
            "C" => {
                if j == last {
                    format!("C:f{i}")
                } else {
                    "C:".to_string()
                }
            }
            other => tool_error(&format!("unknown component kind {other}")),
        })
        .collect();
    let mut out = String::new();
    let absolute = n.c.len() >= 2 && n.c[0] == "E";
    for (j, c) in comps.iter().enumerate() {
        if j > 0 {
            out.push_str(sep(&n.s[j - 1]));
        }
        out.push_str(c);
        if j == 0 && absolute {
            // leading separator: splice the sandbox's stand-in for the file-system root
            let s0 = sep(&n.s[0]);
            for rc in root.components() {
                if let std::path::Component::Normal(x) = rc {
                    out.push_str(s0);
                    out.push_str(&x.to_string_lossy());
                }
            }
        }
    }
    out
}

fn mpq_key(name: &str) -> String {
    name.replace('/', "\\").to_ascii_uppercase()
}

#[derive(Clone, PartialEq, Debug)]
struct Node {
    kind: char, // d f l o
    size: u64,
    ino: u64,
    tok: String,
    mode: u32,
    mtime: (i64, i64),
}

fn snapshot(root: &Path, rel: &mut Vec<String>, out: &mut BTreeMap<Vec<String>, Node>) {
    let dir = rel.iter().fold(root.to_path_buf(), |p, c| p.join(c));
    let rd = match std::fs::read_dir(&dir) {
        Ok(r) => r,
        Err(_) => return,
    };
    for e in rd.flatten() {
        let name = e.file_name().to_string_lossy().into_owned();
        let md = match std::fs::symlink_metadata(e.path()) {
            Ok(m) => m,
            Err(_) => continue,
        };
        rel.push(name);
        let ft = md.file_type();
        let (kind, tokv) = if ft.is_dir() {
            ('d', String::new())
        } else if ft.is_file() {
            ('f', std::fs::read(e.path()).map(|b| tok(&b)).unwrap_or_else(|_| "unreadable".into()))
        } else if ft.is_symlink() {
            ('l', std::fs::read_link(e.path()).map(|p| p.to_string_lossy().into_owned()).unwrap_or_default())
        } else {
            ('o', String::new())
        };
        out.insert(
            rel.clone(),
            Node { kind, size: if kind == 'd' { 0 } else { md.size() }, ino: md.ino(), tok: tokv, mode: md.mode(), mtime: (md.mtime(), md.mtime_nsec()) },
        );
        if kind == 'd' {
            snapshot(root, rel, out);
        }
        rel.pop();
    }
}

fn listing(dir: &Path) -> Vec<String> {
    let mut v: Vec<String> = std::fs::read_dir(dir)
        .map(|r| r.flatten().map(|e| e.file_name().to_string_lossy().into_owned()).collect())
        .unwrap_or_default();
    v.sort();
    v
}

/// Component strings are logged verbatim unless long (then: injective abbreviation).
fn abbrev(c: &str) -> String {
    if c.len() > 40 {
        let head: String = c.chars().take(4).collect();
        format!("{head}~{}~{}", c.len(), tok(c.as_bytes()))
    } else {
        c.to_string()
    }
}
fn jpath(p: &[String]) -> Value {
    Value::Array(p.iter().map(|c| Value::String(abbrev(c))).collect())
}

/// Injective renaming of the component strings `concretise` makes, into the spelling the trace spec
/// uses for its conformance diagnostic (a17 -> a#17, LLL...L17 -> L#17, C:f17 -> C:f#17).
fn rename(c: &str) -> String {
    let digits = |t: &str| !t.is_empty() && t.bytes().all(|b| b.is_ascii_digit());
    if let Some(t) = c.strip_prefix("C:f") {
        if digits(t) {
            return format!("C:f#{t}");
        }
    }
    if let Some(t) = c.strip_prefix('a') {
        if digits(t) {
            return format!("a#{t}");
        }
    }
    if let Some(t) = c.strip_prefix('\u{fc}') {
        if digits(t) {
            return format!("U#{t}");
        }
    }
    if c.len() == 255 && c.starts_with('L') {
        let t = c.trim_start_matches('L');
        if digits(t) {
            return format!("L#{t}");
        }
    }
    c.to_string()
}
/// inverse of `rename` (the generator's decoy paths use the renamed spelling)
fn unrename(c: &str) -> String {
    if let Some(t) = c.strip_prefix("C:f#") {
        return format!("C:f{t}");
    }
    if let Some(t) = c.strip_prefix("a#") {
        return format!("a{t}");
    }
    if let Some(t) = c.strip_prefix("U#") {
        return format!("\u{fc}{t}");
    }
    if let Some(t) = c.strip_prefix("L#") {
        return format!("{}{}", "L".repeat(255 - t.len()), t);
    }
    c.to_string()
}
fn rpath(p: &[String]) -> Value {
    Value::Array(p.iter().map(|c| Value::String(rename(c))).collect())
}

struct RunOut {
    exit: i64,
    #[allow(dead_code)]
    stdout: String,
    stderr: String,
}

fn run_cli(cli: &Path, cwd: &Path, args: &[String]) -> RunOut {
    let mut child = Command::new(cli)
        .args(args)
        .current_dir(cwd)
        .env_remove("RUST_LOG")
        .env_remove("RUST_BACKTRACE")
        .env("NO_COLOR", "1")
        .stdin(Stdio::null())
        .stdout(Stdio::piped())
        .stderr(Stdio::piped())
        .spawn()
        .unwrap_or_else(|e| tool_error(&format!("cannot start {cli:?}: {e}")));
    // drain pipes on helper threads so a chatty child cannot block
    let mut so = child.stdout.take().unwrap();
    let mut se = child.stderr.take().unwrap();
    let t1 = std::thread::spawn(move || {
        let mut b = Vec::new();
        let _ = std::io::Read::read_to_end(&mut so, &mut b);
        b
    });
    let t2 = std::thread::spawn(move || {
        let mut b = Vec::new();
        let _ = std::io::Read::read_to_end(&mut se, &mut b);
        b
    });
    let t0 = Instant::now();
    let exit = loop {
        match child.try_wait() {
            Ok(Some(st)) => {
                break match st.code() {
                    Some(c) => c as i64,
                    None => 1000 + std::os::unix::process::ExitStatusExt::signal(&st).unwrap_or(0) as i64,
                }
            }
            Ok(None) => {
                if t0.elapsed() > Duration::from_secs(120) {
                    let _ = child.kill();
                    let _ = child.wait();
                    break -1; // hang
                }
                std::thread::sleep(Duration::from_millis(2));
            }
            Err(e) => tool_error(&format!("wait: {e}")),
        }
    };
    let stdout = String::from_utf8_lossy(&t1.join().unwrap_or_default()).into_owned();
    let stderr = String::from_utf8_lossy(&t2.join().unwrap_or_default()).into_owned();
    RunOut { exit, stdout, stderr }
}

struct Opts {
    preserve: bool,
    chain: bool,
    explicit: bool,
}

/// One process run on `names`; returns the Reset + Extract events and the exit status.
fn one_run(cli: &Path, base: &Path, case_id: &str, case: &Value, names: &[AName], o: &Opts, seed: u64) -> (Vec<Value>, i64) {
    let mut rng = Rng::derive(seed, &format!("c11:{case_id}"));
    let w = base.join(format!("w{}", case_id.replace('.', "_")));
    let _ = std::fs::remove_dir_all(&w);
    let arch = w.join("arch");
    let root = w.join("r1").join("r2").join("r3").join("r4").join("r5").join("root");
    let work = w.join("d1").join("d2").join("p1").join("p2").join("work");
    let out = work.join("out");
    for d in [&arch, &root, &work] {
        std::fs::create_dir_all(d).unwrap_or_else(|e| tool_error(&format!("mkdir {d:?}: {e}")));
    }
    let preout = rng.chance(1, 2);
    if preout {
        std::fs::create_dir_all(&out).unwrap();
    }
    let skip = match case.get("skipmode").and_then(|x| x.as_str()).unwrap_or("rand") {
        "on" => {
            let _ = rng.chance(1, 2);
            true
        }
        "off" => {
            let _ = rng.chance(1, 2);
            false
        }
        _ => rng.chance(1, 2),
    };
    // unreadable entries: listed (or requested) but absent, or stored data corrupted; in a packed archive every fourth entry
    let entries = case.get("entries").and_then(|x| x.as_str()).unwrap_or("present").to_string();
    let class_of = |i: usize| -> &str { if entries != "present" && (names.len() == 1 || i % 4 == 1) { entries.as_str() } else { "present" } };
    let threads = *rng.pick(&[0usize, 1, 2]);
    let outform = *rng.pick(&["rel", "abs", "dotrel", "trail"]);

    let ix_of = |i: usize| names[i].ix.unwrap_or(i);
    let concrete: Vec<String> = names.iter().enumerate().map(|(i, n)| concretise(n, ix_of(i), &root)).collect();
    // decoys: a file carrying the name's last path component, placed in cwd and in the stand-in root
    // (an escaping write may hit it: observed as `modified`)
    let mut decoys = 0;
    for (i, c) in concrete.iter().enumerate() {
        if (i + rng.below(4) as usize) % 4 != 0 {
            continue;
        }
        let sys = c.replace('\\', "/");
        let parts: Vec<&str> = sys.split('/').collect();
        let last = *parts.last().unwrap();
        if last.is_empty() || last == "." || last == ".." || parts[..parts.len() - 1].contains(&last) {
            continue;
        }
        for d in [&work, &root] {
            let _ = std::fs::write(d.join(last), b"decoy");
        }
        decoys += 1;
    }

    // decoys placed by the generator where the unguarded deviation would write (outside out)
    for d in case.get("decoys").and_then(|x| x.as_array()).cloned().unwrap_or_default() {
        let comps: Vec<String> = d.as_array().map(|a| a.iter().map(|c| unrename(c.as_str().unwrap_or(""))).collect()).unwrap_or_default();
        if comps.is_empty() {
            continue;
        }
        let path = comps.iter().fold(w.clone(), |p, c| p.join(c));
        if let Some(par) = path.parent() {
            let _ = std::fs::create_dir_all(par);
        }
        if !path.exists() {
            let _ = std::fs::write(&path, b"decoy placed by the model");
            decoys += 1;
        }
    }

    // archives: every distinct entry (MPQ names are case-insensitive and / = \) once; listfile verbatim
    let build = |path: &Path, pick: &dyn Fn(usize) -> bool, salt: &str| -> String {
        let mut b = ArchiveBuilder::new();
        let mut seen = std::collections::BTreeSet::new();
        let mut lst = String::new();
        for (i, c) in concrete.iter().enumerate() {
            if !pick(i) {
                continue;
            }
            lst.push_str(c);
            lst.push_str("\r\n");
            if class_of(i) == "absent" {
                continue; // listed / requested, not stored
            }
            if seen.insert(mpq_key(c)) {
                // corrupt entries get compressible data so that ruining the stored bytes makes the read fail
                let data = if class_of(i) == "corrupt" { format!("c11 corrupt {i} ").repeat(40).into_bytes() } else { format!("c11 {salt} {case_id} {i} {seed}").into_bytes() };
                b = b.add_file_data(data, c);
            }
        }
        let lf = path.with_extension("lst");
        std::fs::write(&lf, lst.as_bytes()).unwrap();
        b = b.listfile_option(ListfileOption::External(lf));
        match guarded(|| b.build(path)) {
            Outcome::Done(Ok(())) => {
                // ruin the stored data of the corrupt entries
                let targets: Vec<(usize, usize)> = match wow_mpq::Archive::open(path) {
                    Ok(ar) => concrete
                        .iter()
                        .enumerate()
                        .filter(|(i, _)| pick(*i) && class_of(*i) == "corrupt")
                        .filter_map(|(_, c)| ar.find_file(c).ok().flatten().map(|f| (f.file_pos as usize, f.compressed_size as usize)))
                        .collect(),
                    Err(_) => Vec::new(),
                };
                if !targets.is_empty() {
                    if let Ok(mut bytes) = std::fs::read(path) {
                        for (st, len) in targets {
                            if len > 1 && st + len <= bytes.len() {
                                for x in bytes[st + 1..st + len].iter_mut() {
                                    *x = 0xFF;
                                }
                            }
                        }
                        let _ = std::fs::write(path, bytes);
                    }
                }
                "ok".into()
            }
            Outcome::Done(Err(e)) => format!("err:{}", variant_name(&e)),
            Outcome::Panic(m) => format!("panic:{m}"),
            Outcome::Hang => "hang".into(),
        }
    };
    let basep = arch.join("base.mpq");
    let patchp = arch.join("patch.mpq");
    let n = names.len();
    let built = if o.chain {
        let single_in_patch = rng.chance(1, 2);
        let r1 = build(&basep, &|i| n == 1 && !single_in_patch || n > 1 && i % 3 != 2, "base");
        let r2 = build(&patchp, &|i| n == 1 && single_in_patch || n > 1 && i % 3 != 1, "patch");
        if r1 == "ok" {
            r2
        } else {
            r1
        }
    } else {
        build(&basep, &|_| true, "base")
    };

    let mut args: Vec<String> = vec!["mpq".into(), "extract".into(), basep.to_string_lossy().into_owned()];
    args.push("-o".into());
    args.push(match outform {
        "abs" => out.to_string_lossy().into_owned(),
        "dotrel" => "./out".into(),
        "trail" => "out/".into(),
        _ => "out".into(),
    });
    if o.preserve {
        args.push("--preserve-paths".into());
    }
    if o.chain {
        args.push("--patch".into());
        args.push(patchp.to_string_lossy().into_owned());
    }
    if skip {
        args.push("--skip-errors".into());
    }
    if threads > 0 {
        args.push("--threads".into());
        args.push(threads.to_string());
    }
    if o.explicit {
        args.push("--".into());
        for c in &concrete {
            args.push(c.clone());
        }
    }

    let mut before = BTreeMap::new();
    snapshot(&w, &mut Vec::new(), &mut before);
    let slash_before = listing(Path::new("/"));
    let r = if built == "ok" { run_cli(cli, &work, &args) } else { RunOut { exit: -2, stdout: String::new(), stderr: String::new() } };
    let mut after = BTreeMap::new();
    snapshot(&w, &mut Vec::new(), &mut after);
    let slash_after = listing(Path::new("/"));

    let mut created = Vec::new();
    let mut modified = Vec::new();
    let mut removed = Vec::new();
    let mut touched = Vec::new();
    let mut nfiles = 0;
    for (p, nd) in &after {
        match before.get(p) {
            None => {
                if nd.kind != 'd' {
                    nfiles += 1;
                }
                created.push(jpath(p));
                touched.push(rpath(p));
            }
            Some(b) => {
                // identity, permissions, content, and (files) mtime; a directory's mtime changes exactly when children
                // appear / disappear, which is reported through those children
                if b.kind != nd.kind || b.ino != nd.ino || b.mode != nd.mode
                    || (nd.kind != 'd' && (b.size != nd.size || b.tok != nd.tok || b.mtime != nd.mtime))
                {
                    modified.push(jpath(p));
                    touched.push(rpath(p));
                }
            }
        }
    }
    for p in before.keys() {
        if !after.contains_key(p) {
            removed.push(jpath(p));
        }
    }
    // anything new directly under the real root is outside by definition (never expected: absolute
    // names are redirected into the sandbox); reported, never touched
    for nme in &slash_after {
        if !slash_before.contains(nme) {
            created.push(json!(["<fsroot>", abbrev(nme)]));
        }
    }
    let err_tail: String = r.stderr.lines().rev().find(|l| l.contains("Error")).map(normalise_digits).unwrap_or_default();
    let names_json: Vec<Value> = names.iter().enumerate().map(|(i, n)| json!({"c": n.c, "s": n.s, "r": class_of(i), "ix": ix_of(i)})).collect();
    let reset = json!({"ev":"Reset","case":case_id,"preserve":o.preserve,"chain":o.chain,"explicit":o.explicit,
        "hasroot":gb(case,"hasroot"),"hasparent":gb(case,"hasparent"),"selferr":gb(case,"selferr"),"n":n,"entries":entries});
    let ev = json!({"ev":"Extract","case":case_id,"preserve":o.preserve,"chain":o.chain,"explicit":o.explicit,
        "skip":skip,"threads":threads,"outform":outform,"preout":preout,"decoys":decoys,"built":built,
        "names":names_json,"out":OUT_REL,"exit":r.exit,"created":created,"modified":modified,"removed":removed,
        "touched":touched,"nfiles":nfiles,"err":err_tail});
    if std::env::var("VERIF_KEEP").is_err() {
        let _ = std::fs::remove_dir_all(&w);
    }
    // did the extraction loop run to its end?  (exit 1 with the final "Failed to extract N file(s)" message = every entry was
    // tried and some were refused / unreadable; any other failure may have stopped before later entries)
    let completed = r.exit == 0 || r.stderr.contains("Failed to extract");
    (vec![reset, ev], if completed { 0 } else { r.exit })
}

fn main() {
    let a = args();
    install_quiet_panic_hook();
    if a.extra.is_empty() {
        tool_error("usage: c11 <cases> <trace> <warcraft-rs binary>");
    }
    let cli = PathBuf::from(&a.extra[0]);
    if !cli.is_file() {
        tool_error(&format!("CLI binary {cli:?} not found"));
    }
    let cases = read_cases(&a.cases);
    let trace = Trace::create(&a.trace);
    let scratch = Scratch::new("c11");
    let seed = seed();
    let threads = ncpu().clamp(2, 12);
    par_for(cases.len(), threads, |ci| {
        let c = &cases[ci];
        let id = gi(c, "id").to_string();
        let o = Opts { preserve: gb(c, "preserve"), chain: gb(c, "chain"), explicit: gb(c, "explicit") };
        let names = parse_names(c);
        let (mut evs, exit) = one_run(&cli, &scratch.path, &id, c, &names, &o, seed);
        // a multi-name run that stopped early may not have tried every name: give each its own run
        let error_case = c.get("entries").and_then(|x| x.as_str()).unwrap_or("present") != "present";
        if exit != 0 && names.len() > 1 && !error_case {
            for (k, n) in names.iter().enumerate() {
                let (e2, _) = one_run(&cli, &scratch.path, &format!("{id}.{k}"), c, std::slice::from_ref(n), &o, seed);
                evs.extend(e2);
            }
        }
        trace.block(evs);
    });
    trace.flush();
}
