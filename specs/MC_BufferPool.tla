---------------------------- MODULE MC_BufferPool ----------------------------
(* Stage (A) for X01: every interleaving of the critical sections of |Threads| threads that each make   *)
(* up to Budget calls (get of every size class incl. 0, the category boundaries and an oversize request, *)
(* write within / beyond the capacity, shrink, drop, take, pool_sizes, statistics) on a pool with        *)
(* max_buffers_per_size in MaxPers (0 included) and statistics on / off.  Capacities are <<2, 4, 6>>:    *)
(* sizes 0..7 cover below / at / above every boundary.                                                  *)
EXTENDS BufferPool
CONSTANTS Budget, Sizes, MaxPers, StatsModes, LocalOps
VARIABLE vbbudget
mcvars == <<bpvars, vbbudget>>

MCCatCap == <<2, 4, 6>>
\* (the leading constant conjunct only makes TLC report coverage under the action's own name)
MCOn == TRUE
Init == /\ \E m \in MaxPers, s \in StatsModes : BPInit(m, s)
        /\ vbbudget = [t \in Threads |-> Budget]
Spend(t) == vbbudget[t] > 0 /\ vbbudget' = [vbbudget EXCEPT ![t] = @ - 1]
\* (slots are interchangeable: a get takes the lowest free slot)
FreeSlots(t) == {s \in 1..MaxHeld : vbheld[t][s] = NoGuard}
LowFree(t) == CHOOSE s \in FreeSlots(t) : \A u \in FreeSlots(t) : s <= u
CallGet    == MCOn /\ \E t \in Threads, r \in Sizes : Spend(t) /\ FreeSlots(t) # {} /\ StartGet(t, r, LowFree(t))
\* what the caller may have done to the Vec while it held the guard: nothing, written one byte, written beyond the
\* capacity (the Vec grew), replaced it by an empty Vec.  These steps are thread-local (they commute with every step
\* of the other threads), so the model folds them into the drop / take that follows (DoWrite / DoShrink are the
\* unfolded actions, exercised by MC_BufferPool_local and by the traces).
Mods(b) == {b, [b EXCEPT !.len = @ + 1, !.cap = Max2(@, b.len + 1)], [b EXCEPT !.len = b.cap + 1, !.cap = b.cap + 1], [b EXCEPT !.len = 0, !.cap = 0]}
CallWrite  == LocalOps /\ \E t \in Threads, s \in 1..MaxHeld : Spend(t) /\ Holds(t, s) /\ \E n \in {1, vbheld[t][s].buf.cap - vbheld[t][s].buf.len + 1} : DoWrite(t, s, n)
CallShrink == LocalOps /\ \E t \in Threads, s \in 1..MaxHeld : Spend(t) /\ DoShrink(t, s)
CallStats  == LocalOps /\ \E t \in Threads : Spend(t) /\ DoStats(t)
CallTake   == MCOn /\ \E t \in Threads, s \in 1..MaxHeld : Spend(t) /\ DoTake(t, s)
CallDrop   == MCOn /\ \E t \in Threads, s \in 1..MaxHeld : Spend(t) /\ Holds(t, s) /\ \E b \in Mods(vbheld[t][s].buf) : StartDropWith(t, s, b)
CallSizes  == MCOn /\ \E t \in Threads : Spend(t) /\ StartSizes(t)
\* the scope ends with every guard dropped (as at the end of a Rust scope): drops are free of budget
ScopeEnd   == MCOn /\ \E t \in Threads, s \in 1..MaxHeld : vbbudget[t] = 0 /\ Holds(t, s) /\ UNCHANGED vbbudget
                                                   /\ \E b \in Mods(vbheld[t][s].buf) : StartDropWith(t, s, b)
IPeekAcquire == MCOn /\ \E t \in Threads : PeekAcquire(t) /\ UNCHANGED vbbudget
IPeekRead == MCOn /\ \E t \in Threads : PeekRead(t) /\ UNCHANGED vbbudget
IPeekCount == MCOn /\ \E t \in Threads : PeekCount(t) /\ UNCHANGED vbbudget
IGetAcquire == MCOn /\ \E t \in Threads : GetAcquire(t) /\ UNCHANGED vbbudget
IGetPop == MCOn /\ \E t \in Threads : GetPop(t) /\ UNCHANGED vbbudget
IGetFinish == MCOn /\ \E t \in Threads : GetFinish(t) /\ UNCHANGED vbbudget
IGetLoad == MCOn /\ \E t \in Threads : GetLoad(t) /\ UNCHANGED vbbudget
IGetStore == MCOn /\ \E t \in Threads : GetStore(t) /\ UNCHANGED vbbudget
IDropPre == MCOn /\ \E t \in Threads : DropPre(t) /\ UNCHANGED vbbudget
IDropAcquire == MCOn /\ \E t \in Threads : DropAcquire(t) /\ UNCHANGED vbbudget
IDropPush == MCOn /\ \E t \in Threads : DropPush(t) /\ UNCHANGED vbbudget
IDropFinish == MCOn /\ \E t \in Threads : DropFinish(t) /\ UNCHANGED vbbudget
ISizesAcquire == MCOn /\ \E t \in Threads : SizesAcquire(t) /\ UNCHANGED vbbudget
ISizesRead == MCOn /\ \E t \in Threads : SizesRead(t) /\ UNCHANGED vbbudget
AllDone == Quiescent /\ (\A t \in Threads : vbbudget[t] = 0) /\ Guards = {}
Finished == AllDone /\ UNCHANGED mcvars
Next == \/ CallGet \/ CallWrite \/ CallShrink \/ CallTake \/ CallDrop \/ CallSizes \/ CallStats \/ ScopeEnd
        \/ IGetAcquire \/ IGetPop \/ IGetFinish \/ IDropAcquire \/ IDropPush \/ IDropFinish \/ ISizesAcquire \/ ISizesRead
        \/ IDropPre \/ IPeekAcquire \/ IPeekRead \/ IPeekCount \/ IGetLoad \/ IGetStore
        \/ Finished
\* every call returns: the only states without a successor would be deadlocks (CHECK_DEADLOCK is on)
Sym == Permutations(Threads)
Spec == Init /\ [][Next]_mcvars
\* at the end of every scope nothing is lent and the books balance
EndBalanced == AllDone => /\ vbcnt.gets = vbcnt.drops + vbcnt.takes
                          /\ (vbcfg.stats /\ "ReturnsAll" \notin Dev /\ "RacyCount" \notin Dev /\ "HitEarly" \notin Dev /\ "NoPop" \notin Dev =>
                                vbstat.hits + vbstat.misses = vbstat.returns + vbstat.discards + vbcnt.takes)
MonotoneMC == [][/\ vbstat'.hits >= vbstat.hits /\ vbstat'.misses >= vbstat.misses
                 /\ vbstat'.returns >= vbstat.returns /\ vbstat'.discards >= vbstat.discards]_mcvars
=============================================================================
