// Detects whether the storm-ffi source of the tree under test carries the `verif_sync` hook
// (fixes/C19-hook.patch). With the hook the driver replays TLC schedules step for step; without it
// the driver falls back to gated / free-running threads.
fn main() {
    let src = "/repo/ffi/storm-ffi/src/lib.rs";
    println!("cargo:rerun-if-changed={src}");
    println!("cargo:rustc-check-cfg=cfg(c19_has_hook)");
    let s = std::fs::read_to_string(src).unwrap_or_default();
    if s.contains("pub fn verif_set_sync") {
        println!("cargo:rustc-cfg=c19_has_hook");
    }
}
