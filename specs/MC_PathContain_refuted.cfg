CONSTANTS
  Guard = FALSE
  Plat = "posix"
  MaxComps = 2
  MaxEntries = 1
  MCForms = {"rel"}
INIT Init
NEXT Next
CHECK_DEADLOCK FALSE
INVARIANTS
  Contained
