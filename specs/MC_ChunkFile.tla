---------------------------- MODULE MC_ChunkFile ----------------------------
(* Small-scope check of the generic framing machine: a writer emits leaf chunks and containers of *)
(* arbitrary sizes; a walker that only knows the framing rule re-reads them.  Invariants: what was *)
(* emitted tiles the written prefix; every chunk lies inside its container; a finished file is     *)
(* accepted by the walker with the same chunk list.                                                *)
EXTENDS ChunkFile, TLC
VARIABLE vcf
Sizes == {0, 1, 5}
Tags  == {"AAAA", "BBBB"}
MaxChunks == 4
Init == vcf = CF_Init(0, 200)
EmitLeaf == /\ Len(vcf.seen) < MaxChunks
            /\ \E t \in Tags, sz \in Sizes :
                 /\ CF_Fits(vcf, CF_Chunk(vcf, t, sz))
                 /\ vcf' = CF_Emit(vcf, t, sz)
\* a container announces its total payload size up front (as MOGP / MCNK do after back-patching)
OpenContainer == /\ Len(vcf.seen) < MaxChunks /\ Len(vcf.lim) < 3
                 /\ \E sub \in {0, 4}, body \in {0, 8, 9, 13, 21} :
                      LET c == CF_Chunk(vcf, "CONT", sub + body) IN
                      /\ CF_CanEnter(vcf, c, sub)
                      /\ vcf' = CF_Enter(vcf, c, sub)
     CloseContainer == CF_CanLeave(vcf) /\ vcf' = CF_Leave(vcf)
Next == EmitLeaf \/ OpenContainer \/ CloseContainer
\* every chunk seen so far ends inside the file and before the innermost limit it was written under
InsideLimits == \A i \in 1..Len(vcf.seen) : CF_End(vcf.seen[i]) <= vcf.lim[Len(vcf.lim)]
CursorMonotone == vcf.cur <= Head(vcf.lim)
\* at top level with no container ever opened the chunks tile the prefix [0, cur)
FlatTiles == (\A i \in 1..Len(vcf.seen) : vcf.seen[i].tag # "CONT") => CF_Tiles(vcf.seen, 0, vcf.cur)
\* offsets are strictly increasing: headers never overlap
Ascending == \A i \in 1..(Len(vcf.seen) - 1) : vcf.seen[i + 1].off >= vcf.seen[i].off + CF_HDR
\* the O(1) verified index agrees with the search
IndexAgree == \A i \in 1..Len(vcf.seen) : CF_IsAt(vcf.seen, CF_IndexAt(vcf.seen, vcf.seen[i].off), vcf.seen[i].off, vcf.seen[i].tag)
LayOutAgree == (\A i \in 1..Len(vcf.seen) : vcf.seen[i].tag # "CONT") =>
               CF_LayOut([i \in 1..Len(vcf.seen) |-> <<vcf.seen[i].tag, vcf.seen[i].size>>], 0) = vcf.seen
=============================================================================
