----------------------------- MODULE Gen_WdtWdl -----------------------------
(* Stage (B) for C18: TLC enumerates the shape space of the quantifier -- WDT / WDL definitions    *)
(* that are valid for their version (WdtValid / WdlValid of the specification decide), over every  *)
(* version, optional chunk, flag, list cardinality class and grid class -- and the coordinate case.*)
(* The grid-free part of a shape ("base") is enumerated as a set (3 004 WDT, 782 WDL bases); the    *)
(* grid class is attached by index arithmetic, so the full product is never materialised.           *)
(* quick    = deterministic low-dimensional slices + a seed-rotated sample of bases x grids;        *)
(* thorough = EVERY base, each with three (WDT) / eight (WDL) seed-rotated light grids, + heavy.    *)
EXTENDS WdtWdl, Json, IOUtils

Thorough == IOEnv.VERIF_TIER = "thorough"
Seed     == atoi(IOEnv.VERIF_SEED)

All == (0..63) \X (0..63)
\* fixed pseudo-random looking, asymmetric sets (no TLC randomness: cases must not depend on -seed)
Scatter(gk) == {<<(gi * 37 + gk * 11) % 64, (gi * gi * 5 + gi * 3 + gk) % 64>> : gi \in 0..40}
Grids == [empty |-> {}, c00 |-> {<<0,0>>}, c63_0 |-> {<<63,0>>}, c0_63 |-> {<<0,63>>}, c63_63 |-> {<<63,63>>},
          t10 |-> {<<1,0>>}, t01 |-> {<<0,1>>}, corners |-> {<<0,0>>, <<63,0>>, <<0,63>>, <<63,63>>},
          pair |-> {<<2,5>>, <<7,2>>},                                   \* not symmetric under transposition
          strip |-> {<<60, 0>>} \cup {<<gx, 1>> : gx \in 3..8},            \* asymmetric; holes("some") on the first tile, six tiles after it
          row0 |-> {<<gx, 0>> : gx \in 0..63}, col0 |-> {<<0, gy>> : gy \in 0..63},
          rowlast |-> {<<gx, 63>> : gx \in 0..63}, collast |-> {<<63, gy>> : gy \in 0..63},
          lshape |-> {<<gx, 2>> : gx \in 0..9} \cup {<<5, gy>> : gy \in 3..40},
          halfdiag |-> {<<gx, gx \div 2>> : gx \in 0..63},
          border |-> {gt \in All : gt[1] \in {0, 63} \/ gt[2] \in {0, 63}},
          scatter |-> Scatter(Seed % 13), scatter2 |-> Scatter((Seed * 7 + 5) % 23),
          checker |-> {gt \in All : (gt[1] + gt[2]) % 2 = 0}, stripes |-> {gt \in All : gt[1] % 3 = 0}, dense |-> All]
LightSeq == <<"empty", "c00", "c63_0", "c0_63", "c63_63", "t10", "t01", "corners", "pair", "strip", "row0", "col0", "rowlast", "collast",
              "lshape", "halfdiag", "border", "scatter", "scatter2">>
HeavySeq == <<"checker", "stripes", "dense">>
NL == Len(LightSeq)
GridNames == DOMAIN Grids
GridLists == [gg \in GridNames |-> TileOrder(Grids[gg])]                 \* evaluated once per grid class

\* ---- WDT bases -----------------------------------------------------------------------------------
WdtVers == {WdtVersions[gi] : gi \in 1..Len(WdtVersions)}
ExtraFlags == {{}, {2}, {4}, {8}, {16}, {32}, {64}, {128}, {256}, {32768}, {2, 4, 8}, {2, 16, 64, 128, 256}}
NameClasses == {<<>>, <<1>>, <<24>>, <<17, 3, 40>>, <<200, 9>>}
\* only combinations that can be structurally valid are built (the filter WdtStructValid still decides)
WdtBases ==
    {gd \in UNION {
        {[ver |-> gv, flags |-> gx \cup (IF gw THEN {1} ELSE {}) \cup (IF gm > 0 THEN {512} ELSE {}),
          hasMwmo |-> gw \/ HasTerrainMwmo(gv), names |-> gn,
          hasModf |-> gw, nModf |-> gf, hasMaid |-> gm > 0, nSec |-> gm, tiles |-> {}] :
           gx \in ExtraFlags,                                  \* flags are free: validate() only warns
           gm \in IF HasMaidChunk(gv) THEN {0, 5, 8} ELSE {0},
           gn \in IF gw \/ HasTerrainMwmo(gv) THEN NameClasses ELSE {<<>>},
           gf \in IF gw THEN {0, 1, 3} ELSE {0}} : gv \in WdtVers, gw \in BOOLEAN} :
       WdtStructValid(gd)}
WdtBaseSeq == SetToSeq(WdtBases)
NWB == Len(WdtBaseSeq)

\* ---- WDL bases -----------------------------------------------------------------------------------
WdlVers == {WdlVersions[gi] : gi \in 1..Len(WdlVersions)}
WdlBases ==
    UNION {
      {[ver |-> gv, holesCls |-> gh, names |-> gn,
        nIdx |-> IF gn = <<>> THEN 0 ELSE gi, nPlace |-> IF gn = <<>> THEN 0 ELSE gp,
        nMldd |-> g1, nMlmd |-> g2, mode |-> gmo] :
         gh \in IF HasMaho(gv) THEN {"none", "all", "some"} ELSE {"none"},
         gn \in IF HasWmoChunks(gv) THEN NameClasses ELSE {<<>>},
         gi \in {1, 3}, gp \in {0, 1, 3},
         g1 \in IF HasMlChunks(gv) THEN {0, 1, 3} ELSE {0}, g2 \in IF HasMlChunks(gv) THEN {0, 2} ELSE {0},
         gmo \in {"same", "latest"}} : gv \in WdlVers}
WdlBaseSeq == SetToSeq(WdlBases)
NLB == Len(WdlBaseSeq)
HolesOf(gtiles, gcls) == CASE gcls = "none" -> {} [] gcls = "all" -> gtiles
                           [] OTHER -> {gt \in gtiles : (gt[1] + 3 * gt[2]) % 3 # 1}
HoleLists == [gg \in GridNames |-> [gc \in {"none", "all", "some"} |-> TileOrder(HolesOf(Grids[gg], gc))]]

\* ---- pairing bases with grids ---------------------------------------------------------------------
\* a chosen shape is a pair <<base, grid name>>
Plain(gd)  == gd.names \in {<<>>, <<24>>} /\ gd.nModf \in {0, 1} /\ gd.nSec \in {0, 8}
LPlain(gd) == gd.names \in {<<>>, <<24>>} /\ gd.nIdx \in {0, 1} /\ gd.nPlace \in {0, 1} /\ gd.nMldd \in {0, 1} /\ gd.nMlmd = 0
\* ---- conversion histories -------------------------------------------------------------------------
\* chains = sequences of target versions applied one after the other to the built object; the object at the
\* end of every chain goes through write -> walk -> MAOF -> parse -> rewrite like a freshly built one.
\* "full" cases get every A -> B -> A plus six rotating A -> B -> C; every other case gets two rotating chains.
WdtFullChains(gb, gg) == gg = "pair" /\ Plain(gb) /\ gb.flags \subseteq {1, 512}
WdlFullChains(gb, gg) == gg = "strip" /\ LPlain(gb) /\ gb.mode = "same" /\ gb.nMldd = 0
VAt(gvs, gk) == gvs[(gk % Len(gvs)) + 1]
Aba(gvs, gv) == {<<gvs[gk], gv>> : gk \in {gkk \in 1..Len(gvs) : gvs[gkk] # gv}}
Abc(gvs, gi, gcount) == {<<VAt(gvs, gi + gj), VAt(gvs, gi * 3 + gj * 7 + 1)>> : gj \in 0..(gcount - 1)}
WdtChains(gp, gi) == SetToSeq(IF WdtFullChains(gp[1], gp[2]) THEN Aba(WdtVersions, gp[1].ver) \cup Abc(WdtVersions, gi, 6)
                              ELSE {<<VAt(WdtVersions, gi), gp[1].ver>>} \cup Abc(WdtVersions, gi + Seed, 1))
WithApi(gapi, gchains) == {[api |-> gapi, vs |-> gc] : gc \in gchains}
WdlChains(gp, gi) == SetToSeq(IF WdlFullChains(gp[1], gp[2])
                              THEN WithApi("file", Aba(WdlVersions, gp[1].ver)) \cup WithApi("to", Aba(WdlVersions, gp[1].ver))
                                   \cup WithApi("file", Abc(WdlVersions, gi, 3)) \cup WithApi("to", Abc(WdlVersions, gi + 5, 3))
                                   \cup WithApi("to", {<<"Vanilla">>, <<"Legion">>, <<"Vanilla", "Vanilla">>})
                              ELSE WithApi("file", {<<VAt(WdlVersions, gi), gp[1].ver>>}) \cup WithApi("to", Abc(WdlVersions, gi + Seed, 1))
                                   \cup WithApi("to", {<<"Vanilla">>}))

WdtSlices ==
    {<<gd, "t10">> : gd \in {gb \in WdtBases : Plain(gb) /\ gb.flags \subseteq {1, 512}}}                         \* every version x kind x MAID
    \cup {<<gd, LightSeq[gi]>> : gd \in {gb \in WdtBases : Plain(gb) /\ gb.ver \in {"WotLK", "BfA"} /\ gb.flags \subseteq {1, 512} /\ gb.names = <<>>},
                                 gi \in 1..NL}                                                                    \* every grid
    \cup {<<gd, "t01">> : gd \in {gb \in WdtBases : Plain(gb) /\ gb.ver \in {"WotLK", "MoP", "BfA"} /\ gb.names = <<>> /\ gb.nModf = 0}}  \* every flag
    \cup {<<gd, "pair">> : gd \in {gb \in WdtBases : WdtFullChains(gb, "pair")}}                                    \* conversion histories
WdlSlices ==
    {<<gd, "t10">> : gd \in {gb \in WdlBases : LPlain(gb)}}                                                       \* every version x optional group x holes x mode
    \cup {<<gd, LightSeq[gi]>> : gd \in {gb \in WdlBases : LPlain(gb) /\ gb.ver \in {"Vanilla", "Wotlk", "Legion"} /\ gb.holesCls \in {"none", "some"}
                                                            /\ gb.names = <<>> /\ gb.nMldd = 0 /\ gb.mode = "same"},
                                 gi \in 1..NL}
    \cup {<<gd, "strip">> : gd \in {gb \in WdlBases : WdlFullChains(gb, "strip")}}                                \* conversion histories
\* seed-rotated sample: the gj-th draw takes base (Seed*131 + salt + gj*stride) mod N and grid (gj + Seed*5) mod |grids|
Draw(gseq, gn, gcount, gsalt, ggrids) ==
    LET gstride == IF gn % 997 = 0 THEN 991 ELSE 997 IN
    {<<gseq[((Seed * 131 + gsalt + gj * gstride) % gn) + 1], ggrids[((gj + Seed * 5 + gsalt) % Len(ggrids)) + 1]>> : gj \in 1..gcount}
\* thorough: every base, with gk grids each
Every(gseq, gn, gk, ggrids) ==
    {<<gseq[gi], ggrids[((gi * 7 + gr * 5 + Seed) % Len(ggrids)) + 1]>> : gi \in 1..gn, gr \in 0..(gk - 1)}

WdtChosen == IF Thorough THEN WdtSlices \cup Every(WdtBaseSeq, NWB, 3, LightSeq) \cup Draw(WdtBaseSeq, NWB, 45, 5, HeavySeq)
             ELSE WdtSlices \cup Draw(WdtBaseSeq, NWB, 160, 1, LightSeq) \cup Draw(WdtBaseSeq, NWB, 3, 2, HeavySeq)
WdlOk(gp) == gp[2] # "empty" \/ gp[1].holesCls = "none"
WdlChosen == {gp \in (IF Thorough THEN WdlSlices \cup Every(WdlBaseSeq, NLB, 8, LightSeq) \cup Draw(WdlBaseSeq, NLB, 45, 6, HeavySeq)
                      ELSE WdlSlices \cup Draw(WdlBaseSeq, NLB, 160, 3, LightSeq) \cup Draw(WdlBaseSeq, NLB, 3, 4, HeavySeq)) : WdlOk(gp)}

WdtCase(gp, gi) == LET gd == gp[1] IN
               [kind |-> "wdt", ver |-> gd.ver, flags |-> SetToSeq(gd.flags), hasMwmo |-> gd.hasMwmo, names |-> gd.names,
                hasModf |-> gd.hasModf, nModf |-> gd.nModf, hasMaid |-> gd.hasMaid, nSec |-> gd.nSec,
                grid |-> gp[2], tiles |-> GridLists[gp[2]], layout |-> WdtChunkSpecs(gd), conv |-> WdtVersions, chains |-> WdtChains(gp, gi)]
WdlCase(gp, gi) == LET gd == gp[1] IN
               [kind |-> "wdl", ver |-> gd.ver, grid |-> gp[2], tiles |-> GridLists[gp[2]],
                holes |-> HoleLists[gp[2]][gd.holesCls], holesCls |-> gd.holesCls, names |-> gd.names,
                nIdx |-> gd.nIdx, nPlace |-> gd.nPlace, nMldd |-> gd.nMldd, nMlmd |-> gd.nMlmd, mode |-> gd.mode,
                conv |-> WdlVersions, chains |-> WdlChains(gp, gi)]
CoordCase == [kind |-> "coord"]

\* ---- header flags: every single bit and every pair of bits x every version x map kind (x MAID where the version has
\* it), through write -> parse -> write only (no conversions): the second write must be byte-identical whatever the
\* flags make the reader believe about the version.  Bits 0x0001 / 0x0200 are the structural ones (map kind / MAID).
FreeBits == {2, 4, 8, 16, 32, 64, 128, 256, 1024, 2048, 4096, 8192, 16384, 32768}
Singles == {{gb} : gb \in FreeBits}
Pairs == {{ga, gb} : ga \in FreeBits, gb \in FreeBits} \ Singles
PairSeq == SetToSeq(Pairs)
PairsChosen == IF Thorough THEN Pairs ELSE {PairSeq[gi] : gi \in {gj \in 1..Len(PairSeq) : (gj + Seed) % 3 = 0}} \cup {{64, 128}, {2, 64}}
FlagDefs == {gd \in {[ver |-> gv, flags |-> gx \cup (IF gw THEN {1} ELSE {}) \cup (IF gm > 0 THEN {512} ELSE {}),
                       hasMwmo |-> gw \/ HasTerrainMwmo(gv), names |-> IF gw THEN <<24>> ELSE <<>>,
                       hasModf |-> gw, nModf |-> IF gw THEN 1 ELSE 0, hasMaid |-> gm > 0, nSec |-> gm, tiles |-> {}] :
                      gv \in WdtVers, gx \in {{}} \cup Singles \cup PairsChosen, gw \in BOOLEAN, gm \in {0, 8}} : WdtStructValid(gd)}
FlagCase(gd) == [kind |-> "wdt", ver |-> gd.ver, flags |-> SetToSeq(gd.flags), hasMwmo |-> gd.hasMwmo, names |-> gd.names,
                 hasModf |-> gd.hasModf, nModf |-> gd.nModf, hasMaid |-> gd.hasMaid, nSec |-> gd.nSec,
                 grid |-> "t01", tiles |-> GridLists["t01"], layout |-> WdtChunkSpecs(gd), conv |-> <<>>, chains |-> <<>>]
FlagSeq == SetToSeq(FlagDefs)

WdtSeq == SetToSeq(WdtChosen)
WdlSeq == SetToSeq(WdlChosen)
Cases == <<CoordCase>> \o [gi \in 1..Len(FlagSeq) |-> FlagCase(FlagSeq[gi])] \o [gi \in 1..Len(WdtSeq) |-> WdtCase(WdtSeq[gi], gi)] \o [gi \in 1..Len(WdlSeq) |-> WdlCase(WdlSeq[gi], gi)]
GInit == vfmt = "gen" /\ vdef = 0 /\ vpc = "" /\ vcf = 0 /\ vrd = 0 /\ vrpos = 0 /\ vmaof = 0
GNext == UNCHANGED mvars
ASSUME ndJsonSerialize(IOEnv.CASES, Cases)
ASSUME PrintT(<<"GENERATED", Len(Cases), NWB, NLB, Len(WdtSeq), Len(WdlSeq), Len(FlagSeq)>>)
=============================================================================
