\* implementation at b13f4b7, V3: TLC must exhibit a flush after which the disk is not the session (fixed by 22716d7)
CONSTANTS
  H = 4
  UNames <- MCNames
  Home <- MCHome
  InitSeq <- MCInit
  InitTok <- MCInitTok
  InitRaw = {}
  SubOf <- MCSub
  HasLF0 = TRUE
  HasAT0 = FALSE
  Slack = 2
  FU = 2
  Ver = 3
  MaxCalls = 4
  MCToks = {"t1"}
SPECIFICATION Code1Spec
INVARIANT AbsClean
CHECK_DEADLOCK FALSE
