"""C14 -- ADT terrain survives build -> serialise -> parse, re-serialisation is stable, framing tiles the
file and every offset-table entry points at a chunk of the named type."""
import json
import os
import re

from vlib import core

META = {
    "level": "model_checking",
    "level_text": "AdtLayout.tla states the ADT format (chunk framing over ChunkFraming.tla, MHDR offset table relative to the MHDR "
                  "payload, MCIN (offset, size incl. header) index, MCNK container with its 128-byte header, ofs_* fields and size/count "
                  "words, which version may carry which chunk, version detection from chunk presence) and models serializer.rs / parse / "
                  "from_root_adt as a state machine (one action per emitted chunk, two-pass back-patching, an independent walker, "
                  "discovery-based parse, rebuild) with the code's departures as named deviations. Stage A: TLC checks the layout, "
                  "version-rule, parse-keeps-content and no-growth invariants exhaustively for every subset of optional chunks x 6 versions x "
                  "sub-chunk subsets x 2 rebuild rounds (as-coded, ideal and pre-fix configurations; each repaired defect is a deviation that "
                  "must violate its invariant). Stage B: TLC enumerates tile shapes (deterministic slices incl. the full MH2O layer product + "
                  "seeded draws; dimensions incl. duplicate-name patterns, value classes (degenerate / zero / extreme), placement field classes, "
                  "both public rebuild routes). Stage C: the driver builds them through the public AdtBuilder API and an independent chunk walker reads every "
                  "produced file (rounds 0..4). Stage D, decided by TLC on logged integers: framing tiles the file and every MCNK payload; every "
                  "MHDR / MCIN / MCNK ofs_* entry points at a chunk header with the named tag (and is non-zero when the chunk exists); MCIN sizes; "
                  "MMID / MWID entries = start offsets of the names in MMDX / MWMO; write_to_file onto an absent / shorter / longer path = "
                  "to_bytes (length, token, framing); build() rejects only shapes the builder contract calls invalid; "
                  "MCNK size/count words; version rule; len(bytes_n) <= len(bytes_n-1); the behaviour Reset Build (File Parse Rebuild)*; and "
                  "equality of per-section content tokens parse-vs-input (with the version rules choosing the expected token) and across rounds.",
    "level_note": "Only observed and compared as opaque tokens (SHA-1 prefix of the Debug rendering, computed by the driver): all payload "
                  "content - names, placements, heights, normals, layers, alpha, shadow, colours, MCLQ, MCSE, MH2O instance fields / bitmaps / "
                  "vertex data / attributes, MFBO, MTXF, MAMP, MTXP, blend mesh. Trusted: the driver's walker (framing rule + field positions "
                  "emitted by the spec), the projections that drop layout offsets from tokens, TLC. Auto-generated minimal MCNKs (0 user chunks) "
                  "are compared across rounds only. Shapes are sampled (reduced product), not the full product; model bounds in stage A: 3 MCIN "
                  "entries, 2 user MCNKs, 2 rebuild rounds. DRIFT only (never a verdict): 136-byte MCNK header, MHDR flags, index_x/index_y vs "
                  "grid position, reference counts, detectability of the written version, length fixpoint from round 2.",
    "technique": "TLA+ layout state machine model-checked with TLC; TLC-generated shapes replayed on the real builder/serializer/parser; "
                 "trace validation of walker observations and content tokens against the format predicates",
    "design_ref": "DESIGN.md section 5, C13-C18 recipe, C14",
    "crates": ["c14"],
}

VERS = ["VanillaEarly", "VanillaLate", "TBC", "WotLK", "Cataclysm", "MoP"]
SHAPE_KEYS = ["ver", "ntex", "nmdl", "nwmo", "nddf", "nmodf", "dtex", "dmdl", "dwmo", "mcnk", "where", "mcvt", "mcnr", "nly", "mcrf", "mcal", "mcsh",
              "mclq", "mccv", "mcse", "mclv", "water", "wlay", "wbase", "mfbo", "mtxf", "mamp", "mtxp", "bmesh", "vals", "pcls", "pbit", "route"]


def sig(b):
    """Class-level signature: the failed conjunct + the shape (class attributes of the case) + round class."""
    rs = b.get("reset") or {}
    rec = b.get("rec") or {}
    s = {"ev": b.get("ev"), "why": b.get("why", "").strip('"')}
    for k in SHAPE_KEYS:
        s[k] = rs.get(k)
    s["vername"] = VERS[rs["ver"]] if isinstance(rs.get("ver"), int) and 0 <= rs["ver"] < 6 else None
    r = rec.get("round")
    s["round"] = "first" if r == 0 else ("rebuild" if isinstance(r, int) else None)
    s["roundn"] = r
    s["pre"] = rec.get("pre")
    # derived class attributes used by the known findings
    s["water_on"] = rs.get("water") not in (None, "none")
    wl = rs.get("wl") or {}
    s["wl_bm"], s["wl_vd"], s["wl_lvf"], s["wl_rect"] = wl.get("bm"), wl.get("vd"), wl.get("lvf"), wl.get("rect")
    s["opt_last"] = rs.get("where") in ("all", "last") or rs.get("mcnk") in ("one00", "one1515")
    # is MCLQ the physically last sub-chunk of the last MCNK (nothing written after it)?
    s["mclq_ends_file"] = bool(rs.get("mclq")) and s["opt_last"] and not (rs.get("mccv") or rs.get("mcse") or rs.get("mclv")) \
        and rs.get("mcnk") != "auto"
    return s


def expand_bad(ctx, res, trace):
    """Trace_AdtLayout prints one short BAD line per failed conjunct; vlib keeps every (line, why)."""
    out = []
    for b in res["bad"]:
        nb = dict(b)
        nb["why"] = b["why"].strip().strip('"')
        out.append(nb)
    return out


def run(ctx, cases_override=None):
    if os.environ.get("C14_SKIP_MC"):
        # self-test convenience only (mutant runs): stage A does not depend on /repo
        ctx.mc_stats.append({"module": "MC_AdtLayout", "cfg": "skipped", "states": 1, "transitions": 1, "actions": {}, "wall_s": 0})
        ctx.notes.append("SELF-TEST RUN: stage A skipped (C14_SKIP_MC); states/transitions in this file are placeholders, not measurements")
    else:
        # the code after the round-1 fixes (deviations Pad8, MtxfAlways): strict invariants; ParseFail needs "MclqIncl"
        ctx.mc("MC_AdtLayout", timeout=600, allow_uncovered=("ParseFail",))
    if ctx.thorough:
        # the format without any deviation, and the pre-fix code with all of them (covers ParseFail)
        ctx.mc("MC_AdtLayout", cfg="MC_AdtLayout_ideal", timeout=600, allow_uncovered=("ParseFail",))
        ctx.mc("MC_AdtLayout", cfg="MC_AdtLayout_legacy", timeout=600)
    if cases_override:
        cases, ncases = cases_override, sum(1 for _ in open(cases_override))
    else:
        cases, ncases = ctx.gen("Gen_AdtLayout", timeout=300)
    binary = ctx.build("c14")
    trace = ctx.harness(binary, cases, timeout=1500)
    res = ctx.validate("Trace_AdtLayout", trace, timeout=1500)
    bad = expand_bad(ctx, res, trace)
    kinds, samples, shapes, full = {}, [], set(), 0
    files = 0
    with open(trace) as f:
        for line in f:
            r = json.loads(line)
            kinds[r["ev"]] = kinds.get(r["ev"], 0) + 1
            if r["ev"] == "Reset":
                shapes.add(json.dumps({k: r.get(k) for k in SHAPE_KEYS}, sort_keys=True))
            if r["ev"] == "File" and r["res"] == "ok":
                files += 1
            if r["ev"] == "Parse" and r.get("round") == 4 and r["res"] == "ok":
                full += 1
            if kinds[r["ev"]] <= 1:
                s = dict(r)
                for k in ("top", "mcin"):
                    if k in s:
                        s[k] = s[k][:12]
                if "groups" in s:
                    s["groups"] = [dict(g, idxs=g["idxs"][:8]) for g in s["groups"][:2]]
                samples.append(s)
    if ncases and kinds.get("Build", 0) and full == 0:
        # nothing went through all rounds: the check would be vacuous (not a verdict about the property)
        ctx.notes.append("no tile completed all 4 rebuild rounds")
    nontrivial = sum(1 for s in shapes if any(json.loads(s)[k] not in (False, 0, "none", "auto") for k in
                                              ("nmdl", "nwmo", "mcrf", "mcal", "mcsh", "mclq", "mccv", "mcse", "mclv", "water", "mfbo",
                                               "mtxf", "mamp", "mtxp", "bmesh", "dtex", "dmdl", "dwmo")))
    cov = {
        "traces_validated_against_impl": res["traces"],
        "samples": samples,
        "events_by_kind": kinds,
        "cases_generated_by_tlc": ncases,
        "files_walked": files,
        "tiles_through_all_4_rebuild_rounds": full,
        "evaluations": res["events"] - res["traces"],
        "distinct_nontrivial": nontrivial,
        "rule": "distinct_nontrivial = number of distinct Reset shapes (33 class attributes) of this run in which at least one of nmdl, nwmo, "
                "mcrf, mcal, mcsh, mclq, mccv, mcse, mclv, water, mfbo, mtxf, mamp, mtxp, bmesh, dtex, dmdl, dwmo is not its default (0 / false / none) "
                "(vals / pcls / route alone do not make a shape non-trivial); "
                "evaluations = recorded events other than Reset (Build, File with the full walker observation, Parse with 29 section tokens, Write with the file contents, "
                "Rebuild), each judged by TLC; traces = Reset-delimited tiles; exhaustive is false: stage B is a reduced product of a ~10^10 "
                "shape space",
        "exhaustive": False,
        "failed_conjuncts": len(bad),
    }
    assumptions = [
        "names are valid (forward slashes, .blp/.m2/.wmo); floats finite; MCNK header flags consistent with the sub-chunks supplied "
        "(0x01 with MCSH, 0x40 with MCCV, liquid-type bit with MCLQ, n_doodad_refs with MCRF); MCNR padding 13 zero bytes",
        "MTXF written with zero flags for WotLK+ when none was supplied is accepted as the code's documented version marker "
        "(named deviation MtxfAlways); an MTXF supplied for a pre-WotLK tile is not representable (DRIFT)",
        "MCIN size is taken to include the 8-byte chunk header (docs/src/formats/world-data/adt.md); MHDR offsets are relative to the "
        "MHDR payload (crate documentation, wowdev; adt.md's comment 'relative to start of file' is not followed)",
    ]
    return core.finish(ctx, "model_checking", cov, assumptions, bad, sig_fn=sig, trace=trace)


def replay(ctx, payload):
    import json as _j
    cases, _ = ctx.gen("Gen_AdtLayout", timeout=300)
    idx = int(str(payload.get("case", "0")))
    lines = open(cases).read().splitlines()
    sel = ctx.path("replay-cases.ndjson")
    # the driver derives its RNG stream from the case index: keep the position, neutralise earlier cases
    with open(sel, "w") as f:
        for i, l in enumerate(lines[:idx + 1]):
            if i == idx:
                f.write(l + "\n")
            else:
                c = _j.loads(l)
                c["ntex"] = 0        # rejected by the builder at once: a 2-event trace
                f.write(_j.dumps(c) + "\n")
    return run(ctx, cases_override=sel)
