//! C05 seeds, field inventory and entry points for WDL (low-resolution world map).
//!
//! All seeds are produced by the crate's own `WdlParser::write` from a `WdlFile` with a handful
//! of map tiles (MARE heightmaps, MAHO hole masks where the version has them), WMO name/placement
//! chunks (WotLK..WoD) or the Legion ML** placement chunks. Chunk tags are stored reversed on disk
//! ("REVM"). The inventory covers MVER, the MAOF offsets that point at MARE chunks (absolute file
//! offsets), MWID name offsets into MWMO, the MWMO terminator and the id/flag words of the first
//! MODF / MLDD / MLMD records.
//!
//! "wotlk-nomaof" is the writer's output for a map without tiles from which the MAOF chunk has been
//! cut out (the writer always emits one; the parser treats it as optional).
use crate::seed::{add_chunk_seq, Aux, Seed};
use crate::worker::{errname, Runner};
use std::io::Cursor;
use wow_wdl::parser::WdlParser;
use wow_wdl::types::{
    BoundingBox, HeightMapTile, HolesData, M2Placement, M2VisibilityInfo, ModelPlacement, Vec3d, WdlFile,
};
use wow_wdl::version::WdlVersion;

pub fn seed_names(thorough: bool) -> Vec<String> {
    let mut v = vec!["wotlk-wmo".to_string(), "legion-ml".to_string()];
    if thorough {
        v.push("vanilla-mare".into());
        v.push("mop-wmo-dense".into());
        v.push("latest-empty".into());
        v.push("wotlk-nomaof".into());
    }
    v
}

fn tile(k: i16) -> HeightMapTile {
    let mut t = HeightMapTile::new();
    for (i, v) in t.outer_values.iter_mut().enumerate() {
        *v = k * 10 + (i % 17) as i16;
    }
    for (i, v) in t.inner_values.iter_mut().enumerate() {
        *v = -k + (i % 16) as i16;
    }
    t
}

fn holes(k: usize) -> HolesData {
    let mut h = HolesData::new();
    h.set_hole(k % 16, (k * 3) % 16, true);
    h
}

fn placement(id: u32, wmo_id: u32) -> ModelPlacement {
    ModelPlacement {
        id,
        wmo_id,
        position: Vec3d::new(100.0 + id as f32, 200.0, 50.0),
        rotation: Vec3d::new(0.0, 1.5, 0.0),
        bounds: BoundingBox::new(Vec3d::new(-10.0, -10.0, 0.0), Vec3d::new(10.0, 10.0, 30.0)),
        flags: 1,
        doodad_set: 2,
        name_set: 1,
        padding: 0,
    }
}

fn m2p(id: u32, m2: u32) -> M2Placement {
    M2Placement {
        id,
        m2_id: m2,
        position: Vec3d::new(1.0, 2.0, 3.0),
        rotation: Vec3d::new(0.0, 0.5, 0.0),
        scale: 1.0,
        flags: 3,
    }
}

fn vis() -> M2VisibilityInfo {
    M2VisibilityInfo { bounds: BoundingBox::new(Vec3d::new(-1.0, -1.0, -1.0), Vec3d::new(1.0, 1.0, 1.0)), radius: 40.0 }
}

fn model(name: &str) -> (WdlFile, WdlVersion) {
    let (ver, tiles): (WdlVersion, Vec<(u32, u32)>) = match name {
        "wotlk-wmo" => (WdlVersion::Wotlk, vec![(0, 0), (1, 0), (32, 32), (10, 20), (63, 63)]),
        "legion-ml" => (WdlVersion::Legion, vec![(5, 0), (6, 0), (31, 30), (62, 63)]),
        "vanilla-mare" => (WdlVersion::Vanilla, vec![(0, 0), (7, 3), (63, 63)]),
        "mop-wmo-dense" => (WdlVersion::Mop, (0..24u32).map(|i| ((i * 5) % 64, (i * 11) % 64)).collect()),
        "latest-empty" => (WdlVersion::Latest, vec![]),
        "wotlk-nomaof" => (WdlVersion::Wotlk, vec![]),
        _ => wverif_common::tool_error(&format!("wdl: unknown seed {name}")),
    };
    let mut f = WdlFile::with_version(ver);
    for (k, &(x, y)) in tiles.iter().enumerate() {
        f.heightmap_tiles.insert((x, y), tile(k as i16 + 1));
        if ver.has_maho_chunk() && (k % 2 == 0 || name == "mop-wmo-dense") {
            f.holes_data.insert((x, y), holes(k));
        }
    }
    if ver.has_wmo_chunks() {
        f.wmo_filenames = vec![
            "World\\wmo\\Azeroth\\Buildings\\Tower\\Tower.wmo".to_string(),
            "World\\wmo\\Dungeon\\Cave\\Cave01.wmo".to_string(),
            "x.wmo".to_string(),
        ];
        let mut off = 0u32;
        for n in &f.wmo_filenames {
            f.wmo_indices.push(off);
            off += n.len() as u32 + 1;
        }
        f.wmo_placements = vec![placement(1, 0), placement(2, 1), placement(3, 2)];
    }
    if ver.has_ml_chunks() && name != "latest-empty" {
        f.m2_placements = vec![m2p(1, 189_000), m2p(2, 189_001)];
        f.m2_visibility = vec![vis(), vis()];
        f.wmo_legion_placements = vec![m2p(10, 107_000)];
        f.wmo_legion_visibility = vec![vis()];
    }
    (f, ver)
}

pub fn build(name: &str) -> Seed {
    let (file, ver) = model(name);
    let mut out = Cursor::new(Vec::new());
    WdlParser::with_version(ver).write(&mut out, &file).expect("WdlParser::write");
    let mut bytes = out.into_inner();
    if name == "wotlk-nomaof" {
        // byte surgery: remove the (all-zero) MAOF chunk; no MARE chunk exists that it could point at
        let ch = crate::seed::walk_chunks(&bytes, 0, bytes.len());
        let &(o, tot) = ch.iter().find(|c| &bytes[c.0..c.0 + 4] == b"FOAM").expect("MAOF chunk");
        assert!(bytes[o + 8..o + tot].iter().all(|&b| b == 0), "MAOF of a map without tiles is not empty");
        bytes.drain(o..o + tot);
    }
    let len = bytes.len();
    let mut s = Seed::new("wdl", name, bytes);
    let chunks = add_chunk_seq(&mut s, "top", 0, len, vec![], true);
    let find = |t: &str| chunks.iter().find(|c| c.2 == t).map(|c| (c.0, c.1));

    if let Some((o, _)) = find("MVER") {
        s.field(o + 8, 4, "index", "MVER.version");
    }
    // MWMO / MWID / MODF
    let mwmo = find("MWMO");
    if let Some((o, tot)) = mwmo {
        if tot > 8 {
            s.field_ex(o + tot - 1, 1, "term", "MWMO.last_nul", o + tot, 1, None);
            // first terminator (end of the first name)
            if let Some(p) = s.bytes[o + 8..o + tot].iter().position(|&b| b == 0) {
                if o + 8 + p != o + tot - 1 {
                    s.field_ex(o + 8 + p, 1, "term", "MWMO.first_nul", o + 8 + p + 1, 1, None);
                }
            }
        }
    }
    if let Some((o, tot)) = find("MWID") {
        let n = (tot - 8) / 4;
        let base = mwmo.map(|m| m.0 + 8).unwrap_or(o + tot);
        for i in 0..n {
            s.field_ex(o + 8 + 4 * i, 4, "stroff", format!("MWID[{i}]"), base, 1, None);
        }
    }
    if let Some((o, tot)) = find("MODF") {
        let n = (tot - 8) / 64;
        for i in 0..n {
            if i == 0 || i + 1 == n {
                let e = o + 8 + 64 * i;
                s.field(e, 4, "index", format!("MODF[{i}].name_id"));
                s.field(e + 4, 4, "index", format!("MODF[{i}].unique_id"));
                s.field(e + 56, 2, "index", format!("MODF[{i}].flags"));
                s.field(e + 58, 2, "index", format!("MODF[{i}].doodad_set"));
                s.field(e + 60, 2, "index", format!("MODF[{i}].name_set"));
            }
        }
    }
    for t in ["MLDD", "MLMD"] {
        if let Some((o, _)) = find(t) {
            s.field(o + 8, 4, "index", format!("{t}[0].unique_id"));
            s.field(o + 12, 4, "index", format!("{t}[0].file_id"));
            s.field(o + 44, 4, "index", format!("{t}[0].flags"));
        }
    }
    // MAOF: absolute offsets of the MARE chunks
    if let Some((o, tot)) = find("MAOF") {
        let n = (tot - 8) / 4;
        let nz: Vec<usize> = (0..n).filter(|&i| s.u32_at(o + 8 + 4 * i) != 0).collect();
        let mut pick: Vec<usize> = Vec::new();
        for &i in nz.iter().take(2) {
            pick.push(i);
        }
        if let Some(&l) = nz.last() {
            if !pick.contains(&l) {
                pick.push(l);
            }
        }
        // two entries that are zero (no tile): the first and the last zero entry
        let zeros: Vec<usize> = (0..n).filter(|&i| s.u32_at(o + 8 + 4 * i) == 0).collect();
        if let Some(&z) = zeros.first() {
            pick.push(z);
        }
        if let Some(&z) = zeros.last() {
            if !pick.contains(&z) {
                pick.push(z);
            }
        }
        for i in pick {
            s.field_ex(o + 8 + 4 * i, 4, "offset", format!("MAOF[{i}]"), 0, 1, None);
        }
    }
    s
}

pub fn run(r: &mut Runner, bytes: &[u8], _aux: &Aux) {
    // the parser's configured version only selects whether a MAHO chunk is looked for behind a
    // MARE chunk; run the default (Latest: with MAHO) and the Vanilla (without) variant
    r.call("WdlParser::parse", || WdlParser::new().parse(&mut Cursor::new(bytes)).map(|_| ()).map_err(errname));
    r.call("WdlParser::parse", || {
        WdlParser::with_version(WdlVersion::Vanilla).parse(&mut Cursor::new(bytes)).map(|_| ()).map_err(errname)
    });
}
