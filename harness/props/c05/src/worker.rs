//! The crash-isolated child: `c05 worker <inputs.ndjson> <lo> <hi>`.
//!
//! For every input line i in [lo, hi): rebuild the mutated bytes, then call each public entry
//! point of the format on an 8 MB-stack thread under catch_unwind. Protocol on stdout (raw,
//! unbuffered, so that it survives an abort):
//!   B <i> <entry>                          before the call
//!   E <i> <entry> <class> <maxreq> <peak> <detail...>   after it returned / panicked
//!   H <i> <size>                           (from the allocator) a request above the limit was refused
//!   T <i> 0                                per-input watchdog fired; the process exits
//!   D <i> 0                                input finished
//! A child that observed anything but ok/err exits after the input (fresh process for the next).
use crate::alloc;
use crate::seed::{Aux, Seed};
use std::io::{BufRead, BufReader};
use std::path::PathBuf;
use std::sync::mpsc;
use std::time::Duration;
use wverif_common::*;

pub fn raw(s: &str) {
    unsafe {
        libc::write(1, s.as_ptr() as *const libc::c_void, s.len());
    }
}

/// Refusal threshold of a single request: 64 * input + 64 MiB (DESIGN C05 (D)).
pub fn alloc_limit(len: usize) -> usize {
    64 * len + (64 << 20)
}

pub struct Runner {
    pub idx: usize,
    pub len: usize,
    pub clean: bool,
    pub scratch: PathBuf,
}

impl Runner {
    /// Run one public entry point. `f` returns Ok(value) or Err(error variant name).
    pub fn call<T>(&mut self, entry: &'static str, f: impl FnOnce() -> Result<T, String>) -> Option<T> {
        raw(&format!("B {} {}\n", self.idx, entry));
        let live0 = alloc::begin(self.idx, alloc_limit(self.len));
        let r = guarded(f);
        let (maxreq, peak) = alloc::end(live0);
        let (class, detail, val) = match r {
            Outcome::Done(Ok(v)) => ("ok", String::new(), Some(v)),
            Outcome::Done(Err(e)) => ("err", e, None),
            Outcome::Panic(m) => ("panic", m, None),
            Outcome::Hang => ("timeout", String::new(), None),
        };
        if class == "panic" {
            self.clean = false;
        }
        let detail = detail.replace('\n', " ");
        raw(&format!("E {} {} {} {} {} {}\n", self.idx, entry, class, maxreq, peak, detail));
        val
    }
    /// A scratch file holding `bytes` (for path-based entry points such as Archive::open).
    pub fn file(&self, bytes: &[u8]) -> PathBuf {
        let p = self.scratch.join(format!("in-{}.bin", std::process::id()));
        std::fs::write(&p, bytes).unwrap_or_else(|e| tool_error(&format!("write {p:?}: {e}")));
        p
    }
}

pub fn errname<E: std::fmt::Debug>(e: E) -> String {
    variant_name(&e)
}

pub fn main(args: &[String]) {
    let inputs = PathBuf::from(&args[0]);
    let lo: usize = args[1].parse().unwrap();
    let hi: usize = args[2].parse().unwrap();
    let limit_ms: u64 = std::env::var("C05_TIMEOUT_MS").ok().and_then(|s| s.parse().ok()).unwrap_or(10_000);
    let scratch = PathBuf::from(std::env::var("VERIF_SCRATCH").unwrap_or_else(|_| "/var/tmp".into()));
    // address-space backstop against cumulative allocation
    unsafe {
        let lim = libc::rlimit { rlim_cur: 6 << 30, rlim_max: 6 << 30 };
        libc::setrlimit(libc::RLIMIT_AS, &lim);
        let core = libc::rlimit { rlim_cur: 0, rlim_max: 0 };
        libc::setrlimit(libc::RLIMIT_CORE, &core);
    }
    install_quiet_panic_hook();
    alloc::warm_up();
    let f = std::fs::File::open(&inputs).unwrap_or_else(|e| tool_error(&format!("open {inputs:?}: {e}")));
    let mut cache: Option<(String, std::sync::Arc<Seed>)> = None;
    for (n, line) in BufReader::new(f).lines().enumerate() {
        if n < lo {
            continue;
        }
        if n >= hi {
            break;
        }
        let line = line.unwrap();
        let spec: Value = serde_json::from_str(&line).unwrap_or_else(|e| tool_error(&format!("bad input line: {e}")));
        let fmt = gs(&spec, "fmt").to_string();
        let sname = gs(&spec, "seed").to_string();
        let key = format!("{fmt}/{sname}");
        if cache.as_ref().map(|c| c.0 != key).unwrap_or(true) {
            cache = Some((key.clone(), std::sync::Arc::new(crate::load_seed(&inputs, &fmt, &sname))));
        }
        let seed = cache.as_ref().unwrap().1.clone();
        let bytes = crate::mutate::apply(&seed, &spec["op"], &key);
        let idx = n;
        let (tx, rx) = mpsc::channel();
        let sc = scratch.clone();
        let fmt2 = fmt.clone();
        let h = std::thread::Builder::new()
            .stack_size(8 << 20)
            .name("c05-input".into())
            .spawn(move || {
                let mut r = Runner { idx, len: bytes.len(), clean: true, scratch: sc };
                let aux: &Aux = &seed.aux;
                crate::formats::run(&fmt2, &mut r, &bytes, aux);
                let _ = tx.send(r.clean);
            })
            .unwrap();
        match rx.recv_timeout(Duration::from_millis(limit_ms)) {
            Ok(clean) => {
                let _ = h.join();
                raw(&format!("D {} 0\n", idx));
                if !clean {
                    std::process::exit(0);
                }
            }
            Err(mpsc::RecvTimeoutError::Timeout) => {
                raw(&format!("T {} 0\n", idx));
                unsafe { libc::_exit(3) };
            }
            Err(mpsc::RecvTimeoutError::Disconnected) => {
                // the thread died without reporting (panic outside a guarded call = harness bug)
                let _ = h.join();
                raw(&format!("X {} 0\n", idx));
                std::process::exit(4);
            }
        }
    }
}
