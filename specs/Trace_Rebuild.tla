---------------------------- MODULE Trace_Rebuild ----------------------------
(***************************************************************************************************)
(* Stage (D) for C07.  One trace = one rebuild_archive call on a source archive the driver built:  *)
(*   Reset   the source: listed names, token of every file, which are encrypted / signature files  *)
(*   Rebuild options, result class, RebuildSummary, target version, whether a target file exists   *)
(*   TRead   Archive::read_file on the target for EVERY listed source name                         *)
(*   TList   list() of the target                                                                  *)
(*   Compare compare_archives(source, target, content check)                                      *)
(* Reset.listed are the names of the source's (listfile) that exist, Reset.unlisted the names that  *)
(* are in the archive without being named there ((listfile) itself, (attributes), ordinary files). *)
(* P-conjuncts = the invariants of Rebuild.tla evaluated on the observed run with ExpectedOf /     *)
(* ExcludedOf as the oracle: the call succeeds; counts are truthful; target version as requested;  *)
(* list_only writes nothing; every listed, not excluded name reads back with its token, excluded   *)
(* ones are absent; the comparison reports no content difference and only excluded names missing.  *)
(***************************************************************************************************)
EXTENDS Rebuild, Sequences, Json, IOUtils, TLC, TLCExt

Rec == ndJsonDeserialize(IOEnv.TRACE)
VARIABLES tl, vr, vskip        \* position, index of the current Reset, rest of this trace is moot
Ev == Rec[tl]
Src == Rec[vr]
SetOf(sq) == {sq[j] : j \in 1..Len(sq)}
Listed == SetOf(Src.listed)
Enc    == SetOf(Src.enc)
Sig    == SetOf(Src.sig)
Unl    == SetOf(Src.unlisted)     \* names in the source archive that its (listfile) does not name (round 4)
O(e)   == [skipEnc |-> e.opts.skipEnc, skipSig |-> e.opts.skipSig, verify |-> e.opts.verify, listOnly |-> e.opts.listOnly]
Opts   == O(Rec[vr + 1])          \* the Rebuild event follows its Reset
Excl   == ExcludedOf(Listed, Opts, Enc, Sig)
Exp    == IF Opts.listOnly THEN [f \in Listed |-> RNone] ELSE ExpectedOf(Listed, Src.tok, Opts, Enc, Sig)
WantVer == IF Rec[vr + 1].opts.target = 0 THEN Src.ver ELSE Rec[vr + 1].opts.target

Bad(why) == PrintT(<<"BAD", tl, why>>)
RebuildWhy(e) ==
    IF e.res # "ok" THEN "result"
    \* (the physical count of a source with unlisted names is a class of its own: C07-HETBET-COUNTS-UNLISTED)
    ELSE IF e.source # Cardinality(Listed) THEN (IF Unl # {} /\ e.source = Cardinality(Listed \cup Unl) /\ e.extracted = Cardinality(Listed \ Excl)
                                                    /\ e.extracted + e.skipped = e.source THEN "source_count_physical" ELSE "source_count")
    ELSE IF e.extracted # Cardinality(Listed \ Excl) THEN "extracted_count"
    ELSE IF e.skipped # Cardinality(Excl) \/ e.extracted + e.skipped # e.source THEN "skipped_count"
    ELSE IF e.tformat # WantVer THEN "target_version"
    ELSE IF ~Opts.listOnly /\ e.texists /\ e.tver # e.tformat THEN "target_version_untruthful"
    ELSE IF Opts.listOnly /\ e.texists THEN "list_only_wrote"
    ELSE IF ~Opts.listOnly /\ ~e.texists THEN "no_target"
    ELSE IF e.verified # (Opts.verify /\ ~Opts.listOnly) THEN "verified_flag"
    ELSE ""
ReadWhy(e) ==
    IF Exp[e.n] = RNone THEN (IF e.res = "notfound" \/ e.res = "noarchive" THEN "" ELSE "excluded_present")
    ELSE IF e.res = "notfound" \/ e.res = "noarchive" THEN "lost"
    ELSE IF e.res # "ok" THEN "unreadable"
    ELSE IF e.tok # Exp[e.n] THEN "content" ELSE ""
ListWhy(e) == IF Opts.listOnly THEN ""
              ELSE IF e.res # "ok" THEN "list_failed"
              ELSE IF {x \in SetOf(e.names) : x \in Listed} # {f \in Listed : Exp[f] # RNone} THEN "list_differs"
              \* TargetEnumerable, second conjunct: beyond the listed files the target enumerates its own internal files only
              ELSE IF ~((SetOf(e.names) \ Listed) \subseteq RInternal) THEN "list_extra" ELSE ""
CompareWhy(e) == IF Opts.listOnly THEN ""
                 ELSE IF e.res # "ok" THEN "compare_failed"
                 ELSE IF e.content_diffs # <<>> THEN "content_differences"
                 ELSE IF ~(SetOf(e.only_src) \subseteq Excl) THEN "missing_in_target"
                 \* a (listfile) the target generated for a source whose list does not name itself is not an extra file
                 ELSE IF ~(SetOf(e.only_tgt) \subseteq (RInternal \ Listed)) THEN "extra_in_target" ELSE ""
Why(e) == CASE e.ev = "Rebuild" -> RebuildWhy(e) [] e.ev = "TRead" -> ReadWhy(e)
            [] e.ev = "TList" -> ListWhy(e) [] e.ev = "Compare" -> CompareWhy(e) [] OTHER -> "unknown_event"

\* the machine variables of Rebuild are not used in trace mode (the oracle operators are)
Idle == /\ rpc = "trace" /\ ropts = 0 /\ rtodo = {} /\ rextr = {} /\ rskip = {} /\ rlost = {} /\ rtarget = 0 /\ rsum = 0 /\ rres = "" /\ rtlist = {}
TInit == tl = 1 /\ vr = 0 /\ vskip = FALSE /\ Idle
TNext == /\ tl <= Len(Rec) /\ tl' = tl + 1 /\ UNCHANGED rvars
         /\ IF Ev.ev = "Reset"
            THEN /\ vr' = tl
                 \* the source archive must hold what the driver gave to the builder
                 /\ IF Ev.srcbad = <<>> /\ SetOf(Ev.unlisted) \cap SetOf(Ev.listed) = {} THEN vskip' = FALSE ELSE Bad("source-not-as-built") /\ vskip' = TRUE
            ELSE IF vskip THEN UNCHANGED <<vr, vskip>>
            ELSE /\ UNCHANGED vr
                 /\ IF Why(Ev) = "" THEN UNCHANGED vskip
                    ELSE Bad(Why(Ev)) /\ vskip' = (Ev.ev = "Rebuild" /\ Ev.res # "ok")
Accepted == LET d == TLCGet("stats").diameter IN
            IF d - 1 = Len(Rec) THEN PrintT(<<"CONSUMED", Len(Rec)>>) ELSE Print(<<"TRACE_STUCK_AT", d>>, FALSE)
=============================================================================
