
