INIT Init
NEXT Next
INVARIANT InsideLimits
INVARIANT CursorMonotone
INVARIANT FlatTiles
INVARIANT Ascending
INVARIANT IndexAgree
INVARIANT LayOutAgree
CHECK_DEADLOCK FALSE
