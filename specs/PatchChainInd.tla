---------------------------- MODULE PatchChainInd ----------------------------
(***************************************************************************)
(* C08, unbounded part -- the ORDER of the patch chain as an inductive     *)
(* invariant, discharged by Apalache (symbolic) instead of enumerated by   *)
(* TLC.  PatchChain.tla checks Sorted / StableAmongEquals /                *)
(* RanksArePermutation by explicit-state search over a handful of          *)
(* priorities and short histories; here the same three facts are shown     *)
(* INDUCTIVE for every history, every integer priority and every archive   *)
(* id, for chains of up to MaxLen entries:                                 *)
(*     IndInit => IndInv                (apalache check --length=0)        *)
(*     IndInv /\ Next => IndInv'        (--init=IndInit --length=1)        *)
(* The actions are the ones of PatchChain.tla (same definitions, typed):   *)
(* AddArchive = insert before the first entry with a smaller priority,     *)
(* RemoveArchive = remove the first entry of that archive and close the    *)
(* rank gap, SetPriority = remove + re-insert, Clear.  The file map and    *)
(* the contents play no role for the order and are left out.               *)
(* From IndInv the property-level fact used by PatchChain!MapIsWinner      *)
(* follows: position order = (priority desc, insertion rank asc), i.e. the *)
(* first holder of a name in chain order is the Winner (WinnerIsFirst).    *)
(***************************************************************************)
EXTENDS Integers, Sequences, Apalache

CONSTANT
  \* @type: Int;
  MaxLen

VARIABLE
  \* @type: Seq({a: Int, p: Int, st: Int});
  ch

\* @type: (Seq({a: Int, p: Int, st: Int}), Int) => Int;
InsertPos(c, p) ==
  IF \E i \in DOMAIN c : c[i].p < p
  THEN CHOOSE i \in DOMAIN c : c[i].p < p /\ \A j \in DOMAIN c : j < i => c[j].p >= p
  ELSE Len(c) + 1

\* @type: (Seq({a: Int, p: Int, st: Int}), Int, {a: Int, p: Int, st: Int}) => Seq({a: Int, p: Int, st: Int});
InsertAt(c, i, e) == SubSeq(c, 1, i - 1) \o <<e>> \o SubSeq(c, i, Len(c))

\* @type: (Seq({a: Int, p: Int, st: Int}), Int) => Seq({a: Int, p: Int, st: Int});
RemoveAt(c, i) == SubSeq(c, 1, i - 1) \o SubSeq(c, i + 1, Len(c))

\* @type: (Seq({a: Int, p: Int, st: Int}), Int) => Seq({a: Int, p: Int, st: Int});
CloseGap(c, gone) ==
  LET \* @type: (Seq({a: Int, p: Int, st: Int}), {a: Int, p: Int, st: Int}) => Seq({a: Int, p: Int, st: Int});
      Step(acc, e) == Append(acc, [e EXCEPT !.st = IF e.st > gone THEN e.st - 1 ELSE e.st])
  IN  ApaFoldSeqLeft(Step, <<>>, c)

\* @type: (Seq({a: Int, p: Int, st: Int}), Int, Int) => Seq({a: Int, p: Int, st: Int});
Insert(c, a, p) == InsertAt(c, InsertPos(c, p), [a |-> a, p |-> p, st |-> Len(c) + 1])

\* @type: (Seq({a: Int, p: Int, st: Int}), Int) => Int;
PosOf(c, a) ==
  IF \E i \in DOMAIN c : c[i].a = a
  THEN CHOOSE i \in DOMAIN c : c[i].a = a /\ \A j \in DOMAIN c : j < i => c[j].a # a
  ELSE 0

\* @type: (Seq({a: Int, p: Int, st: Int}), Int) => Seq({a: Int, p: Int, st: Int});
Remove(c, a) == LET i == PosOf(c, a) IN CloseGap(RemoveAt(c, i), c[i].st)

AddArchive(a, p)  == Len(ch) < MaxLen /\ ch' = Insert(ch, a, p)
RemoveArchive(a)  == PosOf(ch, a) # 0 /\ ch' = Remove(ch, a)
SetPriority(a, p) == PosOf(ch, a) # 0 /\ ch' = Insert(Remove(ch, a), a, p)
Clear             == ch' = <<>>
Stutter           == UNCHANGED ch

Init == ch = <<>>
Next ==
  \/ \E a \in Int, p \in Int : AddArchive(a, p)
  \/ \E a \in Int : RemoveArchive(a)
  \/ \E a \in Int, p \in Int : SetPriority(a, p)
  \/ Clear
  \/ Stutter

\* ------------------------------------------------------------ the invariant
Sorted            == \A i, j \in DOMAIN ch : i < j => ch[i].p >= ch[j].p
StableAmongEquals == \A i, j \in DOMAIN ch : (i < j /\ ch[i].p = ch[j].p) => ch[i].st < ch[j].st
RanksInRange      == \A i \in DOMAIN ch : 1 <= ch[i].st /\ ch[i].st <= Len(ch)
RanksDistinct     == \A i, j \in DOMAIN ch : i # j => ch[i].st # ch[j].st
Bounded           == Len(ch) <= MaxLen
\* RanksInRange /\ RanksDistinct = PatchChain!RanksArePermutation (pigeonhole)
IndInv == Bounded /\ Sorted /\ StableAmongEquals /\ RanksInRange /\ RanksDistinct

\* any state satisfying the invariant (Gen bounds the symbolic sequence)
IndInit == ch = Gen(4) /\ IndInv

\* what C08 needs from the order: chain position order IS the Beats order of PatchChain.tla
\* @type: ({a: Int, p: Int, st: Int}, {a: Int, p: Int, st: Int}) => Bool;
Beats(x, y)   == x.p > y.p \/ (x.p = y.p /\ x.st < y.st)
WinnerIsFirst == \A i, j \in DOMAIN ch : i < j => Beats(ch[i], ch[j])

\* ------------------------------------------------------------ must-refute deviation
\* seeded-change class "tie goes to the newcomer": insert before the first entry with priority <= p.
\* Apalache must find a counterexample to the inductive step for NextDev (vacuity guard of the proof).
\* @type: (Seq({a: Int, p: Int, st: Int}), Int) => Int;
InsertPosLe(c, p) ==
  IF \E i \in DOMAIN c : c[i].p <= p
  THEN CHOOSE i \in DOMAIN c : c[i].p <= p /\ \A j \in DOMAIN c : j < i => c[j].p > p
  ELSE Len(c) + 1
AddArchiveDev(a, p) ==
  Len(ch) < MaxLen /\ ch' = InsertAt(ch, InsertPosLe(ch, p), [a |-> a, p |-> p, st |-> Len(ch) + 1])
NextDev == (\E a \in Int, p \in Int : AddArchiveDev(a, p)) \/ Stutter

ConstInit == MaxLen = 4
=============================================================================
