---------------------------- MODULE MC_WmoEditor ----------------------------
(* Stage (A) for X03: every history of at most Budget editing calls on the initial objects Inits, with every argument in a    *)
(* small range that includes the out-of-range values.  One named action per public call (for -coverage).  vwlast keeps the    *)
(* postcondition verdict of the call just made; the invariants of WmoEditor.tla are evaluated on every reachable object.      *)
EXTENDS WmoEditor, TLC
CONSTANTS Budget, Inits, MaxIx
VARIABLES vwst, vwbud, vwnid, vwlast
mcvars == <<vwst, vwbud, vwnid, vwlast>>
Ix == 0..MaxIx
O(name, i, x, y, z) == [op |-> name, id |-> i, a |-> x, b |-> y, c |-> z]
Do(o) ==
  /\ vwbud > 0
  /\ LET r == Apply(vwst, o, Dev) IN
     /\ vwst' = r.st
     /\ vwlast' = [post |-> PostOK(vwst, o, r), res |-> r.res]
  /\ vwbud' = vwbud - 1 /\ vwnid' = vwnid + 1
Init == /\ \E k \in Inits : vwst = InitState(k)
        /\ vwbud = Budget /\ vwnid = 30 /\ vwlast = [post |-> TRUE, res |-> "ok"]
\* callers pass references that are valid when they pass them (an add with a dangling reference is the caller's fault)
AAddTexture      == Do(O("add_texture", vwnid, 0, 0, 0))
ARemoveTexture   == \E i \in Ix : Do(O("remove_texture", 0, i, 0, 0))
AAddMaterial     == \E t \in Ix, u \in {0} : t < Len(vwst.tex) /\ Do(O("add_material", vwnid, t, u, 0))
ARemoveMaterial  == \E i \in Ix : Do(O("remove_material", 0, i, 0, 0))
ACreateGroup     == Do(O("create_group", vwnid, 0, 0, 0))
AAddGroup        == \E g \in Ix, sh \in {<<0, -1>>, <<3, 0>>, <<2, 1>>} : sh[2] < Len(vwst.mat) /\ Do(O("add_group", vwnid, g, sh[1], sh[2]))
ARemoveGroup     == \E i \in Ix : Do(O("remove_group", 0, i, 0, 0))
AAddVertex       == \E g \in Ix : Do(O("add_vertex", vwnid, g, 0, 0))
ARemoveVertex    == \E g \in Ix, v \in Ix : Do(O("remove_vertex", 0, g, v, 0))
AAddDoodad       == Do(O("add_doodad", vwnid, 0, 0, 0))
ARemoveDoodad    == \E i \in Ix : Do(O("remove_doodad", 0, i, 0, 0))
AAddDoodadSet    == \E a \in Ix, n \in Ix : a + n <= Len(vwst.dd) /\ Do(O("add_doodad_set", vwnid, a, n, 0))
ARemoveDoodadSet == \E i \in Ix : Do(O("remove_doodad_set", 0, i, 0, 0))
AConvert         == \E w \in {0, 2} : Do(O("convert", 0, w, 0, 0))
ASaveRoot        == Do(O("save_root", 0, 0, 0, 0))
ASaveGroup       == \E i \in Ix : Do(O("save_group", 0, i, 0, 0))
Next == \/ AAddTexture \/ ARemoveTexture \/ AAddMaterial \/ ARemoveMaterial \/ ACreateGroup \/ AAddGroup \/ ARemoveGroup
        \/ AAddVertex \/ ARemoveVertex \/ AAddDoodad \/ ARemoveDoodad \/ AAddDoodadSet \/ ARemoveDoodadSet
        \/ AConvert \/ ASaveRoot \/ ASaveGroup

ITexRefs        == TexRefs(vwst)
IMatRefs        == MatRefs(vwst)
IIdxRefs        == IdxRefs(vwst)
ISetRanges      == SetRanges(vwst)
IHeaderCounts   == HeaderCounts(vwst)
IGroupsParallel == GroupsParallel(vwst)
IFlagsCoverData == FlagsCoverData(vwst)
IVersionSane    == VersionSane(vwst)
IPostOK         == vwlast.post
\* as-coded run: which of the invariants still hold on /repo's machine (the others are the known findings)
IAsCodedHolds   == SetRanges(vwst) /\ VersionSane(vwst) /\ Len(vwst.gmod) = Len(vwst.gi)
                   /\ vwst.hdr.nmat = Len(vwst.mat) /\ vwst.hdr.ngrp = Len(vwst.gi) /\ vwst.hdr.ndd = Len(vwst.dd) /\ vwst.hdr.nds = Len(vwst.ds)
                   /\ (Len(vwst.tex) > 0 => TexRefs(vwst)) /\ (Len(vwst.mat) > 0 => MatRefs(vwst))
=============================================================================
