CONSTANTS
  Names = {}
  Toks = {}
INIT TInit
NEXT TNext
POSTCONDITION Accepted
INVARIANT CleanMeansEqual
CHECK_DEADLOCK FALSE
