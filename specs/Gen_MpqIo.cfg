
