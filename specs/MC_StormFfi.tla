---------------------------- MODULE MC_StormFfi ----------------------------
(* Stage (A) for C19: small-scope exhaustive check of StormFfi.  Every thread runs a            *)
(* nondeterministically chosen program of at most Budget calls; handle arguments range over    *)
(* 0 (NULL), every id issued so far (valid, closed, id of another table) and the next, never   *)
(* issued, id.  Deadlock freedom is TLC's own deadlock check: the only stuttering step is       *)
(* Terminated (all programs finished).                                                         *)
EXTENDS StormFfi

CONSTANTS Budget,      \* calls per thread
          CallFns,     \* functions the programs may call
          MaxOpen,     \* bound on simultaneously + ever opened archives (ids) to keep the scope finite
          HashCap,     \* capacity given to created (writable) archives
          PreOpen      \* archives already open in the initial state (0, 1 or 2)

VARIABLE vbudget
mcvars == <<vars, vbudget>>

D1 == <<7, 8>>
D2 == <<5>>
Disk0 == [f \in ArchFiles |-> [x \in Names |-> IF x = "x" THEN (IF f = "A" THEN D1 ELSE D2) ELSE None]]

\* PreOpen = 0: nothing open.  PreOpen = 1: handle 1 = "A" opened read-only by an earlier call.
\* PreOpen = 2: additionally handle 2 = "B" created writable (empty, capacity HashCap).
MCInit ==
    /\ vdisk = (IF PreOpen = 2 THEN [Disk0 EXCEPT !["B"] = NoMap] ELSE Disk0)
    /\ vcap = [f \in ArchFiles |-> IF PreOpen = 2 /\ f = "B" THEN HashCap ELSE 16]
    /\ varch = [a \in 1..PreOpen |->
                  IF a = 1 THEN [file |-> "A", mut |-> FALSE, sess |-> Disk0["A"], snap |-> Disk0["A"], cap |-> 16]
                           ELSE [file |-> "B", mut |-> TRUE, sess |-> NoMap, snap |-> NoMap, cap |-> HashCap]]
    /\ vfiles = <<>> /\ vfinds = <<>>
    /\ vnext = PreOpen + 1
    /\ vlock = [l \in Locks |-> Free]
    /\ vpc = [t \in Threads |-> "Idle"]
    /\ vfr = [t \in Threads |-> NullFrame]
    /\ vret = [t \in Threads |-> NoRet]
    /\ vlast = [t \in Threads |-> "ok"]
    /\ vclosed = {}
    /\ vbudget = [t \in Threads |-> Budget]

Handles == 0..Min(vnext, MaxOpen + 1)
\* argument sets per function: <<fn, h, name, n1, n2, dat>>
CallsOf(fn) ==
    CASE fn = "OpenArchive"    -> {<<fn, 0, f, 0, 0, <<>>>> : f \in ArchFiles \cup {"nofile"}}
      [] fn = "CreateArchive"  -> {<<"OpenArchive", 0, f, 1, HashCap, <<>>>> : f \in {"B"}}
      [] fn = "CloseArchive"   -> {<<fn, h, "", 0, 0, <<>>>> : h \in Handles}
      [] fn = "OpenFileEx"     -> {<<fn, h, x, 0, 0, <<>>>> : h \in Handles, x \in {"x"}}
      [] fn = "CloseFile"      -> {<<fn, h, "", 0, 0, <<>>>> : h \in Handles}
      [] fn = "ReadFile"       -> {<<fn, h, "", req, 0, <<>>>> : h \in Handles, req \in {1, 3}}
      [] fn = "GetFileSize"    -> {<<fn, h, "", 0, 0, <<>>>> : h \in Handles}
      [] fn = "SetFilePointer" -> {<<fn, h, "", off, m, <<>>>> : h \in Handles, off \in {-1, 1, 2147483647}, m \in {1, 2}}
      [] fn = "GetFileName"    -> {<<fn, h, "", 0, 0, <<>>>> : h \in Handles}
      [] fn = "GetFileInfo"    -> {<<fn, h, "", c, 1, <<>>>> : h \in Handles, c \in {1, 2}}
      [] fn = "HasFile"        -> {<<fn, h, x, 0, 0, <<>>>> : h \in Handles, x \in Names}
      [] fn = "VerifyFile"     -> {<<fn, h, x, 0, 0, <<>>>> : h \in Handles, x \in {"x"}}
      [] fn = "EnumFiles"      -> {<<fn, h, "", 0, 0, <<>>>> : h \in Handles}
      [] fn = "GetArchiveName" -> {<<fn, h, "", 0, 1, <<>>>> : h \in Handles}
      [] fn = "ExtractFile"    -> {<<fn, h, x, 0, 0, <<>>>> : h \in Handles, x \in {"x"}}
      [] fn = "AddFile"        -> {<<fn, h, x, 0, 0, D2>> : h \in Handles, x \in Names}
      [] fn = "RemoveFile"     -> {<<fn, h, x, 0, 0, <<>>>> : h \in Handles, x \in {"x"}}
      [] fn = "RenameFile"     -> {<<fn, h, "x", 0, 0, <<"y">>>> : h \in Handles}
      [] fn = "FlushArchive"   -> {<<fn, h, "", k, 0, <<>>>> : h \in Handles, k \in {0, 1}}
      [] fn = "VerifyArchive"  -> {<<fn, h, "", k, 0, <<>>>> : h \in Handles, k \in {0, 1}}
      [] fn = "FindFirst"      -> {<<fn, h, "", 0, 0, <<>>>> : h \in Handles}
      [] fn = "FindNext"       -> {<<fn, h, "", 0, 0, <<>>>> : h \in Handles}
      [] fn = "FindClose"      -> {<<fn, h, "", 0, 0, <<>>>> : h \in Handles}

MCInvoke(t) ==
    /\ vbudget[t] > 0
    /\ \E fn \in CallFns : \E c \in CallsOf(fn) :
          /\ (c[1] = "OpenArchive" => vnext <= MaxOpen)
          /\ Invoke(t, c[1], c[2], c[3], c[4], c[5], c[6])
    /\ vbudget' = [vbudget EXCEPT ![t] = @ - 1]

MCStep(t) == Step(t) /\ UNCHANGED vbudget

Terminated == /\ \A t \in Threads : vpc[t] = "Idle" /\ vbudget[t] = 0
              /\ UNCHANGED mcvars

MCNext == (\E t \in Threads : MCInvoke(t) \/ MCStep(t)) \/ Terminated

\* ---- bounded-scope facts about the read arithmetic, checked on every ReadFile return
ReadCopiesMin ==
    \A t \in Threads : vret[t].fn = "ReadFile" /\ vret[t].ret = 1 => Len(vret[t].out) <= 3
InvalidReported ==
    \A t \in Threads : (vret[t].fn \notin {"-", "HasFile"} /\ vret[t].err = "invalid_handle")
                          => (vret[t].ret \in {0, -1} /\ vlast[t] = "invalid_handle")

Symm == Permutations(Threads)
=============================================================================
