------------------------------ MODULE BufferPool ------------------------------
(***************************************************************************)
(* X01 -- the thread-safe buffer pool of wow-mpq (src/buffer_pool.rs:      *)
(* BufferPool, BufferSize, PoolConfig, PoolStatistics, PooledBuffer) as a  *)
(* concurrent state machine.  One action per lock acquisition / critical   *)
(* section / atomic counter update, in the order the code performs them:   *)
(*                                                                         *)
(*  get_buffer(for_capacity(req))                                          *)
(*     StartGet     choose the category (for_capacity)                     *)
(*     GetAcquire   pool.lock()                                            *)
(*     GetPop       pop_front() or None; unlock                            *)
(*     GetFinish    hits+1 and reserve(capacity)  |  misses+1 and allocate *)
(*                  -> the PooledBuffer guard exists                       *)
(*  drop(guard) = return_buffer                                            *)
(*     StartDrop    the guard gives up its Vec                             *)
(*     DropPre      returns+1 BEFORE the lock      (AS CODED, see below)   *)
(*     DropAcquire  pool.lock()                                            *)
(*     DropPush     len < max ? clear(); push_back() : reject; unlock      *)
(*     DropFinish   count the outcome                                      *)
(*  guard.take()    the Vec leaves the system, nothing is returned         *)
(*  *guard (DerefMut): the caller owns the Vec while it holds the guard:   *)
(*     DoWrite      extend (len grows, capacity grows when exceeded)       *)
(*     DoShrink     *guard = Vec::new()  (len 0, capacity 0)               *)
(*  pool_sizes()    three critical sections, one per category, in order    *)
(*  statistics()    relaxed loads (an observation, no state change)        *)
(*                                                                         *)
(* Buffers are abstract: identity, capacity (a lower bound of the Vec's    *)
(* capacity), length (> 0 = bytes of a user are visible through the safe   *)
(* API; "empty" for a caller means len() = 0, since Deref exposes the Vec  *)
(* and spare capacity cannot be read without unsafe).                      *)
(*                                                                         *)
(* Named deviations (Dev, a set of labels; {} = the intended design):      *)
(*   ReturnsAll  AS CODED today: `returns` is incremented for every drop   *)
(*               before the lock is taken, also for buffers that are then  *)
(*               discarded: returns = drops, not "returned to pool".       *)
(*   NoClear     return_buffer pushes without clear()                      *)
(*   LeCap       `len <= max` instead of `len < max` in return_buffer      *)
(*   HitEarly    the hit is counted from a peek (separate critical         *)
(*               section) before the pop                                   *)
(*   NoPop       front().cloned-style: the buffer stays pooled             *)
(*   NoReserve   the hit path does not reserve(capacity)                   *)
(*   LtFor       for_capacity compares with `<`                            *)
(*   NestedSizes pool_sizes holds the three locks at the same time         *)
(*   RacyCount   hits/misses updated by load + store instead of fetch_add  *)
(* Oversize requests (req > capacity of the largest category) fall into    *)
(* the largest category: that is the code's documented else-branch and is  *)
(* part of the design (OversizeToLarge); "capacity >= request" is claimed  *)
(* only for requests that some category can satisfy.                       *)
(***************************************************************************)
EXTENDS Integers, Sequences, FiniteSets, TLC

CONSTANTS Threads,     \* thread ids (positive integers)
          CatCap,      \* <<small, medium, large>> capacities, strictly increasing
          MaxHeld,     \* guard slots per thread
          Dev          \* active deviations

VARIABLES vbcfg,       \* [maxper, stats]: PoolConfig (fixed during a behaviour)
          vbpool,      \* category -> queue of pooled buffers [id, cap, len]
          vbheld,      \* thread -> slot -> guard (NoGuard = free slot)
          vbstat,      \* [hits, misses, returns, discards]
          vblock,      \* category -> thread holding the category's mutex, 0 = free
          vbpc,        \* thread -> the call in progress
          vbcnt        \* ghost: completed calls [gets, drops, takes, reused, alloc, discarded]
bpvars == <<vbcfg, vbpool, vbheld, vbstat, vblock, vbpc, vbcnt>>

Cats    == 1..3
NoBuf   == [id |-> 0, cap |-> 0, len |-> 0]
NoGuard == [cat |-> 0, req |-> 0, buf |-> NoBuf, len0 |-> 0, cap0 |-> 0]
Idle    == [ph |-> "idle", cat |-> 0, slot |-> 0, req |-> 0, buf |-> NoBuf, flag |-> FALSE, acc |-> <<>>, tmp |-> 0]
Max2(a, b) == IF a >= b THEN a ELSE b

\* BufferSize::for_capacity
ForCap(req) ==
  IF "LtFor" \in Dev
  THEN IF req < CatCap[1] THEN 1 ELSE IF req < CatCap[2] THEN 2 ELSE 3
  ELSE IF req <= CatCap[1] THEN 1 ELSE IF req <= CatCap[2] THEN 2 ELSE 3
\* what it is meant to be: the smallest category that suffices; the largest when none does (OversizeToLarge)
SmallestSufficient(req) ==
  IF \E c \in Cats : CatCap[c] >= req THEN CHOOSE c \in Cats : CatCap[c] >= req /\ \A d \in Cats : CatCap[d] >= req => c <= d
  ELSE 3

\* ---- identities -------------------------------------------------------------------------------
PoolBufs  == UNION {{vbpool[c][i] : i \in 1..Len(vbpool[c])} : c \in Cats}
LiveIds   == ({b.id : b \in PoolBufs} \cup {vbheld[t][s].buf.id : t \in Threads, s \in 1..MaxHeld} \cup {vbpc[t].buf.id : t \in Threads}) \ {0}
\* the number of places a buffer is in (pool positions, guards, calls in progress)
Places(id) == Cardinality({p \in UNION {{<<c, i>> : i \in 1..Len(vbpool[c])} : c \in Cats} : vbpool[p[1]][p[2]].id = id})
              + Cardinality({<<t, s>> \in Threads \X (1..MaxHeld) : vbheld[t][s].buf.id = id})
              + Cardinality({t \in Threads : vbpc[t].buf.id = id})
FreshId == CHOOSE i \in 1..(Cardinality(LiveIds) + 1) : i \notin LiveIds

Bump(field) == IF vbcfg.stats THEN [vbstat EXCEPT ![field] = @ + 1] ELSE vbstat

BPInit(maxper, stats) ==
  /\ vbcfg  = [maxper |-> maxper, stats |-> stats]
  /\ vbpool = [c \in Cats |-> <<>>]
  /\ vbheld = [t \in Threads |-> [s \in 1..MaxHeld |-> NoGuard]]
  /\ vbstat = [hits |-> 0, misses |-> 0, returns |-> 0, discards |-> 0]
  /\ vblock = [c \in Cats |-> 0]
  /\ vbpc   = [t \in Threads |-> Idle]
  /\ vbcnt  = [gets |-> 0, drops |-> 0, takes |-> 0, reused |-> 0, alloc |-> 0, discarded |-> 0]

IsIdle(t) == vbpc[t].ph = "idle"

\* ---- get_buffer -----------------------------------------------------------------------------------
StartGet(t, req, slot) ==
  /\ IsIdle(t) /\ vbheld[t][slot] = NoGuard
  /\ vbpc' = [vbpc EXCEPT ![t] = [Idle EXCEPT !.ph = IF "HitEarly" \in Dev THEN "p_lock" ELSE "g_lock",
                                               !.cat = ForCap(req), !.slot = slot, !.req = req]]
  /\ UNCHANGED <<vbcfg, vbpool, vbheld, vbstat, vblock, vbcnt>>
\* (deviation HitEarly) a first critical section looks whether the pool has a buffer, and the hit/miss is counted from that
PeekAcquire(t) ==
  /\ vbpc[t].ph = "p_lock" /\ vblock[vbpc[t].cat] = 0
  /\ vblock' = [vblock EXCEPT ![vbpc[t].cat] = t]
  /\ vbpc' = [vbpc EXCEPT ![t].ph = "p_cs"]
  /\ UNCHANGED <<vbcfg, vbpool, vbheld, vbstat, vbcnt>>
PeekRead(t) ==
  /\ vbpc[t].ph = "p_cs"
  /\ vblock' = [vblock EXCEPT ![vbpc[t].cat] = 0]
  /\ vbpc' = [vbpc EXCEPT ![t].ph = "p_count", ![t].flag = Len(vbpool[vbpc[t].cat]) > 0]
  /\ UNCHANGED <<vbcfg, vbpool, vbheld, vbstat, vbcnt>>
PeekCount(t) ==
  /\ vbpc[t].ph = "p_count"
  /\ vbstat' = Bump(IF vbpc[t].flag THEN "hits" ELSE "misses")
  /\ vbpc' = [vbpc EXCEPT ![t].ph = "g_lock", ![t].flag = FALSE]
  /\ UNCHANGED <<vbcfg, vbpool, vbheld, vblock, vbcnt>>
GetAcquire(t) ==
  /\ vbpc[t].ph = "g_lock" /\ vblock[vbpc[t].cat] = 0
  /\ vblock' = [vblock EXCEPT ![vbpc[t].cat] = t]
  /\ vbpc' = [vbpc EXCEPT ![t].ph = "g_cs"]
  /\ UNCHANGED <<vbcfg, vbpool, vbheld, vbstat, vbcnt>>
GetPop(t) ==
  /\ vbpc[t].ph = "g_cs"
  /\ LET c == vbpc[t].cat IN
     /\ IF Len(vbpool[c]) > 0
        THEN /\ vbpc' = [vbpc EXCEPT ![t].ph = "g_count", ![t].buf = Head(vbpool[c]), ![t].flag = TRUE]
             /\ vbpool' = IF "NoPop" \in Dev THEN vbpool ELSE [vbpool EXCEPT ![c] = Tail(@)]
        ELSE /\ vbpc' = [vbpc EXCEPT ![t].ph = "g_count", ![t].flag = FALSE]
             /\ vbpool' = vbpool
     /\ vblock' = [vblock EXCEPT ![c] = 0]
  /\ UNCHANGED <<vbcfg, vbheld, vbstat, vbcnt>>
\* the buffer the caller receives
Issued(t) ==
  LET c == vbpc[t].cat b == vbpc[t].buf IN
  IF vbpc[t].flag
  THEN [b EXCEPT !.cap = IF "NoReserve" \in Dev THEN @ ELSE Max2(@, b.len + CatCap[c])]      \* buf.reserve(size.capacity())
  ELSE [id |-> FreshId, cap |-> CatCap[c], len |-> 0]                                          \* Vec::with_capacity
Deliver(t) ==
  LET b == Issued(t) IN
  /\ vbheld' = [vbheld EXCEPT ![t][vbpc[t].slot] =
                   [cat |-> vbpc[t].cat, req |-> vbpc[t].req, buf |-> b, len0 |-> b.len, cap0 |-> b.cap]]
  /\ vbcnt' = [vbcnt EXCEPT !.gets = @ + 1, !.reused = IF vbpc[t].flag THEN @ + 1 ELSE @,
                            !.alloc = IF vbpc[t].flag THEN @ ELSE @ + 1]
  /\ vbpc' = [vbpc EXCEPT ![t] = Idle]
GetFinish(t) ==
  /\ vbpc[t].ph = "g_count" /\ "RacyCount" \notin Dev
  /\ vbstat' = IF "HitEarly" \in Dev THEN vbstat ELSE Bump(IF vbpc[t].flag THEN "hits" ELSE "misses")
  /\ Deliver(t)
  /\ UNCHANGED <<vbcfg, vbpool, vblock>>
\* (deviation RacyCount) counter += 1 as a load and a store
GetLoad(t) ==
  /\ vbpc[t].ph = "g_count" /\ "RacyCount" \in Dev
  /\ vbpc' = [vbpc EXCEPT ![t].ph = "g_store", ![t].tmp = IF vbpc[t].flag THEN vbstat.hits ELSE vbstat.misses]
  /\ UNCHANGED <<vbcfg, vbpool, vbheld, vbstat, vblock, vbcnt>>
GetStore(t) ==
  /\ vbpc[t].ph = "g_store"
  /\ vbstat' = IF ~vbcfg.stats THEN vbstat
               ELSE IF vbpc[t].flag THEN [vbstat EXCEPT !.hits = vbpc[t].tmp + 1] ELSE [vbstat EXCEPT !.misses = vbpc[t].tmp + 1]
  /\ Deliver(t)
  /\ UNCHANGED <<vbcfg, vbpool, vblock>>

\* ---- the caller owns the Vec while it holds the guard ------------------------------------------------
Holds(t, slot) == vbheld[t][slot] # NoGuard
DoWrite(t, slot, n) ==
  /\ IsIdle(t) /\ Holds(t, slot) /\ n >= 0
  /\ vbheld' = [vbheld EXCEPT ![t][slot].buf = [@ EXCEPT !.len = @ + n, !.cap = Max2(@, vbheld[t][slot].buf.len + n)]]
  /\ UNCHANGED <<vbcfg, vbpool, vbstat, vblock, vbpc, vbcnt>>
DoShrink(t, slot) ==
  /\ IsIdle(t) /\ Holds(t, slot)
  /\ vbheld' = [vbheld EXCEPT ![t][slot].buf = [@ EXCEPT !.len = 0, !.cap = 0]]
  /\ UNCHANGED <<vbcfg, vbpool, vbstat, vblock, vbpc, vbcnt>>
DoTake(t, slot) ==
  /\ IsIdle(t) /\ Holds(t, slot)
  /\ vbheld' = [vbheld EXCEPT ![t][slot] = NoGuard]
  /\ vbcnt' = [vbcnt EXCEPT !.takes = @ + 1]
  /\ UNCHANGED <<vbcfg, vbpool, vbstat, vblock, vbpc>>
DoStats(t) == IsIdle(t) /\ UNCHANGED bpvars

\* ---- drop of the guard = return_buffer ------------------------------------------------------------
\* (b = the Vec as the caller left it: StartDropWith lets a model fold the caller's last local changes into the drop)
StartDropWith(t, slot, b) ==
  /\ IsIdle(t) /\ Holds(t, slot)
  /\ vbpc' = [vbpc EXCEPT ![t] = [Idle EXCEPT !.ph = IF "ReturnsAll" \in Dev THEN "d_pre" ELSE "d_lock",
                                               !.cat = vbheld[t][slot].cat, !.buf = b]]
  /\ vbheld' = [vbheld EXCEPT ![t][slot] = NoGuard]
  /\ UNCHANGED <<vbcfg, vbpool, vbstat, vblock, vbcnt>>
StartDrop(t, slot) == StartDropWith(t, slot, vbheld[t][slot].buf)
DropPre(t) ==
  /\ vbpc[t].ph = "d_pre"
  /\ vbstat' = Bump("returns")
  /\ vbpc' = [vbpc EXCEPT ![t].ph = "d_lock"]
  /\ UNCHANGED <<vbcfg, vbpool, vbheld, vblock, vbcnt>>
DropAcquire(t) ==
  /\ vbpc[t].ph = "d_lock" /\ vblock[vbpc[t].cat] = 0
  /\ vblock' = [vblock EXCEPT ![vbpc[t].cat] = t]
  /\ vbpc' = [vbpc EXCEPT ![t].ph = "d_cs"]
  /\ UNCHANGED <<vbcfg, vbpool, vbheld, vbstat, vbcnt>>
DropPush(t) ==
  /\ vbpc[t].ph = "d_cs"
  /\ LET c == vbpc[t].cat
         room == IF "LeCap" \in Dev THEN Len(vbpool[c]) <= vbcfg.maxper ELSE Len(vbpool[c]) < vbcfg.maxper
     IN  /\ IF room
            THEN /\ vbpool' = [vbpool EXCEPT ![c] = Append(@, IF "NoClear" \in Dev THEN vbpc[t].buf ELSE [vbpc[t].buf EXCEPT !.len = 0])]
                 /\ vbpc' = [vbpc EXCEPT ![t].ph = "d_count", ![t].flag = TRUE, ![t].buf = NoBuf]
            ELSE /\ vbpool' = vbpool
                 /\ vbpc' = [vbpc EXCEPT ![t].ph = "d_count", ![t].flag = FALSE, ![t].buf = NoBuf]     \* the Vec is freed
            \* (ghost) the rejected Vec is freed when return_buffer's argument goes out of scope
         /\ vbcnt' = [vbcnt EXCEPT !.discarded = IF room THEN @ ELSE @ + 1]
         /\ vblock' = [vblock EXCEPT ![c] = 0]
  /\ UNCHANGED <<vbcfg, vbheld, vbstat>>
DropFinish(t) ==
  /\ vbpc[t].ph = "d_count"
  /\ vbstat' = IF "ReturnsAll" \in Dev THEN (IF vbpc[t].flag THEN vbstat ELSE Bump("discards"))
               ELSE Bump(IF vbpc[t].flag THEN "returns" ELSE "discards")
  /\ vbcnt' = [vbcnt EXCEPT !.drops = @ + 1]
  /\ vbpc' = [vbpc EXCEPT ![t] = Idle]
  /\ UNCHANGED <<vbcfg, vbpool, vbheld, vblock>>

\* ---- pool_sizes(): (small.lock().len(), medium.lock().len(), large.lock().len()) -- not a snapshot ------
StartSizes(t) ==
  /\ IsIdle(t)
  /\ vbpc' = [vbpc EXCEPT ![t] = [Idle EXCEPT !.ph = "s_lock", !.cat = 1]]
  /\ UNCHANGED <<vbcfg, vbpool, vbheld, vbstat, vblock, vbcnt>>
SizesAcquire(t) ==
  /\ vbpc[t].ph = "s_lock" /\ vblock[vbpc[t].cat] = 0
  /\ vblock' = [vblock EXCEPT ![vbpc[t].cat] = t]
  /\ vbpc' = [vbpc EXCEPT ![t].ph = "s_cs"]
  /\ UNCHANGED <<vbcfg, vbpool, vbheld, vbstat, vbcnt>>
SizesRead(t) ==
  /\ vbpc[t].ph = "s_cs"
  /\ LET c == vbpc[t].cat IN
     /\ vblock' = IF "NestedSizes" \in Dev
                  THEN (IF c = 3 THEN [d \in Cats |-> IF vblock[d] = t THEN 0 ELSE vblock[d]] ELSE vblock)
                  ELSE [vblock EXCEPT ![c] = 0]
     /\ vbpc' = IF c = 3 THEN [vbpc EXCEPT ![t] = Idle]
                ELSE [vbpc EXCEPT ![t].ph = "s_lock", ![t].cat = c + 1, ![t].acc = Append(@, Len(vbpool[c]))]
  /\ UNCHANGED <<vbcfg, vbpool, vbheld, vbstat, vbcnt>>

\* the steps a call in progress can take
Step(t) == \/ PeekAcquire(t) \/ PeekRead(t) \/ PeekCount(t)
           \/ GetAcquire(t) \/ GetPop(t) \/ GetFinish(t) \/ GetLoad(t) \/ GetStore(t)
           \/ DropPre(t) \/ DropAcquire(t) \/ DropPush(t) \/ DropFinish(t)
           \/ SizesAcquire(t) \/ SizesRead(t)

\* ---- invariants ------------------------------------------------------------------------------------
Guards == {vbheld[t][s] : t \in Threads, s \in 1..MaxHeld} \ {NoGuard}
Quiescent == \A t \in Threads : IsIdle(t)
InGet(t)  == vbpc[t].ph \in {"p_lock", "p_cs", "p_count", "g_lock", "g_cs", "g_count", "g_store"}
InDrop(t) == vbpc[t].ph \in {"d_pre", "d_lock", "d_cs", "d_count"}

\* the pooled count per category never exceeds the configured maximum
PoolBounded == \A c \in Cats : Len(vbpool[c]) <= vbcfg.maxper
\* a buffer is in one place only: never pooled and lent, never lent twice
NoAlias == \A id \in LiveIds : Places(id) = 1
\* nothing of a previous user is visible: pooled buffers are empty, and so is every buffer at the moment it is handed out
PooledEmpty == \A c \in Cats : \A i \in 1..Len(vbpool[c]) : vbpool[c][i].len = 0
HandedOutEmpty == \A g \in Guards : g.len0 = 0
\* capacity >= the category's capacity ( >= the request when some category suffices)
HandedOutCap == \A g \in Guards : g.cap0 >= CatCap[g.cat] /\ (g.req <= CatCap[3] => g.cap0 >= g.req)
\* the category is the smallest sufficient one
CategoryRight == \A g \in Guards : g.cat = SmallestSufficient(g.req)
\* lock discipline: a thread holds at most one mutex, and only inside a critical section on that category
OneLock == \A t \in Threads : Cardinality({c \in Cats : vblock[c] = t}) <= 1
LockOwner == \A c \in Cats : vblock[c] # 0 => vbpc[vblock[c]].ph \in {"p_cs", "g_cs", "d_cs", "s_cs"} /\ vbpc[vblock[c]].cat = c
\* buffers are neither invented nor lost: allocated = live + discarded + taken
BufferFlow == vbcnt.alloc = Cardinality(LiveIds) + vbcnt.discarded + vbcnt.takes
\* statistics: never ahead of the calls, exact at quiescence, zero when disabled
CountersSane ==
  /\ vbstat.hits + vbstat.misses <= vbcnt.gets + Cardinality({t \in Threads : InGet(t)})
  /\ vbstat.discards <= vbcnt.drops + Cardinality({t \in Threads : InDrop(t)})
  /\ vbstat.returns <= vbcnt.drops + Cardinality({t \in Threads : InDrop(t)})
Conservation == Quiescent /\ vbcfg.stats =>
  /\ vbstat.hits + vbstat.misses = vbcnt.gets
  /\ vbstat.returns + vbstat.discards = vbcnt.drops
HitsExact == Quiescent /\ vbcfg.stats =>
  /\ vbstat.hits = vbcnt.reused /\ vbstat.misses = vbcnt.alloc
  /\ vbstat.discards = vbcnt.discarded /\ vbstat.returns = vbcnt.drops - vbcnt.discarded
\* what the code as it is today satisfies instead of the last conjunct (deviation ReturnsAll)
AsCodedCounts == Quiescent /\ vbcfg.stats =>
  /\ vbstat.hits = vbcnt.reused /\ vbstat.misses = vbcnt.alloc
  /\ vbstat.discards = vbcnt.discarded /\ vbstat.returns = vbcnt.drops
StatsOffZero == ~vbcfg.stats => vbstat = [hits |-> 0, misses |-> 0, returns |-> 0, discards |-> 0]
\* counters only grow (action property)
Monotone == [][/\ vbstat'.hits >= vbstat.hits /\ vbstat'.misses >= vbstat.misses
               /\ vbstat'.returns >= vbstat.returns /\ vbstat'.discards >= vbstat.discards]_bpvars
=============================================================================
