------------------------------- MODULE Word32 -------------------------------
(***************************************************************************)
(* 32-bit unsigned machine words for TLC.                                  *)
(*                                                                         *)
(* TLC integers are 32-bit signed Java ints, so a u32 is represented as a  *)
(* pair <<hi, lo>> of 16-bit limbs.  All operators are total on limb pairs *)
(* and wrap modulo 2^32 exactly like Rust's wrapping_* / C's unsigned      *)
(* arithmetic.  Bitwise's &, |, ^^ have Java overrides in TLC.             *)
(***************************************************************************)
EXTENDS Integers, Sequences
LOCAL INSTANCE Bitwise

M16 == 65536

IsW(w) == /\ w \in Seq(Int) /\ Len(w) = 2
          /\ w[1] \in 0..(M16-1) /\ w[2] \in 0..(M16-1)

W(hi, lo)  == <<hi, lo>>
WZero      == <<0, 0>>
\* a small natural (< 2^31) as a word
WFromNat(n) == <<(n \div M16) % M16, n % M16>>
\* a word known to be < 2^31 as a natural
WToNat(w)   == w[1] * M16 + w[2]

Add32(a, b) ==
  LET lo == a[2] + b[2]
      hi == a[1] + b[1] + (lo \div M16)
  IN  <<hi % M16, lo % M16>>

Add32n(a, n) == Add32(a, WFromNat(n))

Neg32(a) == Add32(<<(M16-1) - a[1], (M16-1) - a[2]>>, <<0, 1>>)
Sub32(a, b) == Add32(a, Neg32(b))

Xor32(a, b) == <<a[1] ^^ b[1], a[2] ^^ b[2]>>
And32(a, b) == <<a[1] & b[1], a[2] & b[2]>>
Or32(a, b)  == <<a[1] | b[1], a[2] | b[2]>>
Not32(a)    == <<(M16-1) - a[1], (M16-1) - a[2]>>

Pow2(n) == 2^n

\* logical shift left by 0 <= n <= 31
Shl32(a, n) ==
  IF n = 0 THEN a
  ELSE IF n >= 16
       THEN <<(a[2] * Pow2(n-16)) % M16, 0>>
       ELSE <<((a[1] * Pow2(n)) % M16) + (a[2] \div Pow2(16-n)), (a[2] * Pow2(n)) % M16>>

\* logical shift right by 0 <= n <= 31
Shr32(a, n) ==
  IF n = 0 THEN a
  ELSE IF n >= 16
       THEN <<0, a[1] \div Pow2(n-16)>>
       ELSE <<a[1] \div Pow2(n), ((a[1] % Pow2(n)) * Pow2(16-n)) + (a[2] \div Pow2(n))>>

Rotl32(a, n) == IF n % 32 = 0 THEN a ELSE Or32(Shl32(a, n % 32), Shr32(a, 32 - (n % 32)))

LowByte(a)   == a[2] % 256
\* byte i (0 = least significant) of a word
ByteOf(a, i) == CASE i = 0 -> a[2] % 256
                  [] i = 1 -> a[2] \div 256
                  [] i = 2 -> a[1] % 256
                  [] i = 3 -> a[1] \div 256
\* little-endian bytes b0..b3 to a word
WFromBytes(b0, b1, b2, b3) == <<b3 * 256 + b2, b1 * 256 + b0>>
WBytes(a) == <<ByteOf(a,0), ByteOf(a,1), ByteOf(a,2), ByteOf(a,3)>>

\* 8-hex-digit lower-case rendering (as logged by the harness: format!("{:08x}"))
HexDigit(d) == SubSeq("0123456789abcdef", d+1, d+1)
Hex16(x) == HexDigit(x \div 4096) \o HexDigit((x \div 256) % 16) \o HexDigit((x \div 16) % 16) \o HexDigit(x % 16)
Hex32(a) == Hex16(a[1]) \o Hex16(a[2])
Hex8(b)  == HexDigit(b \div 16) \o HexDigit(b % 16)
=============================================================================
