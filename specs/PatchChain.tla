------------------------------ MODULE PatchChain ------------------------------
(***************************************************************************)
(* C08 -- the patch chain of wow-mpq (patch_chain.rs) as a state machine.  *)
(*                                                                         *)
(* State                                                                   *)
(*   Cont    (constant) what is on disk: [archive id -> [name -> entry]];  *)
(*           bound by the MC instance or to the trace's Reset record       *)
(*   vchain  the chain: sequence of [a, p, st] -- archive id, priority and *)
(*           a ghost insertion rank `st` (1 = oldest (re)insertion);       *)
(*           the code keeps `archives: Vec<ChainEntry>` highest first      *)
(*   vmap    the code's `file_map`: name -> index into vchain (0 = absent) *)
(*                                                                         *)
(* One action per public call, written the way the code does it:           *)
(*   AddArchive     insert before the first entry with priority < p        *)
(*   SetPriority    remove + re-insert (NAMED DEVIATION: the archive       *)
(*                  becomes the *latest* among its new equals)             *)
(*   RemoveArchive  remove the first entry with that path                  *)
(*   Clear, New                                                            *)
(*   FromParallel   constructor: stable sort by priority descending        *)
(*   AddParallel    add_archives_parallel: insert one by one, list order   *)
(*   *Fail          the failing variants leave the state unchanged         *)
(* and after every change the map is rebuilt (Rebuild = the or_insert      *)
(* loop of rebuild_file_map).                                              *)
(*                                                                         *)
(* The property (C08) is stated declaratively (Winner, PropRead, PropList) *)
(* and checked as invariants against the code-shaped definitions           *)
(* (vmap, CodeRead): Sorted, StableAmongEquals, MapIsWinner, ReadIsProp,   *)
(* ListIsUnion; FromParallel(l) = fold AddArchive l.                       *)
(***************************************************************************)
EXTENDS Integers, Sequences, SequencesExt, FiniteSets, TLC

CONSTANT Cont          \* what is on disk: [archive id -> [name -> entry]]
VARIABLES vchain, vmap
pcvars == <<vchain, vmap>>
vcont == Cont

\* ---------------------------------------------------------------- entries
\* entry == [kind, c, before, after, cls, sto]   (sto: how a patch entry is stored in its archive --
\*          raw | zsingle (single unit, compressed) | zsect (sector table + compressed sectors); driver only)
\*   kind = "none" | "plain" (content id c) | "patch" (turns content `before` into `after`)
\*   cls  = "" | "copy" | "bsd0" | "bsd0neg" | "bsd0lit" (well-formed; bsd0lit: dense data and a long extra block, i.e.
\*          maximal literal runs in the RLE layer) | "corrupt" (payload fails its digest) | "garbage" (not a PTCH
\*          file) | "zerocopy" | "zerobsd0" (md5_after all zero and a damaged payload: a zero digest is just a digest that
\*          no data matches, so these never apply)
NoEntry          == [kind |-> "none",  c |-> "", before |-> "", after |-> "", cls |-> "", sto |-> ""]
Plain(cid)       == [kind |-> "plain", c |-> cid, before |-> "", after |-> "", cls |-> "", sto |-> ""]
PatchS(b, a, cl, st) == [kind |-> "patch", c |-> "", before |-> b, after |-> a, cls |-> cl, sto |-> st]
Patch(b, a, cl)  == PatchS(b, a, cl, "raw")
WellFormedCls    == {"copy", "bsd0", "bsd0neg", "bsd0lit"}
\* Contents are opaque ids; one id is distinguished: the content of length zero.  An empty file is a version like any
\* other (it wins, it is a base, it is the result of a patch); a deviation that treats it as "no file" is d4 below.
EmptyC           == "E0"

ArchIds(cont)  == DOMAIN cont
\* every row of `cont` has the same domain
NamesOf(cont)  == DOMAIN cont[CHOOSE a \in DOMAIN cont : TRUE]
Has(cont, a, n) == cont[a][n].kind # "none"

\* ---------------------------------------------------------------- sequence helpers
Idx(ch)            == [i \in 1..Len(ch) |-> i]                       \* <<1, .., Len>>
FirstIdx(ch, P(_)) == IF \E i \in 1..Len(ch) : P(ch[i])
                      THEN CHOOSE i \in 1..Len(ch) : P(ch[i]) /\ \A j \in 1..(i-1) : ~P(ch[j])
                      ELSE 0
ChInsertAt(ch, i, e) == SubSeq(ch, 1, i - 1) \o <<e>> \o SubSeq(ch, i, Len(ch))
ChRemoveAt(ch, i)    == SubSeq(ch, 1, i - 1) \o SubSeq(ch, i + 1, Len(ch))

\* `.position(|e| e.priority < priority).unwrap_or(len)`
InsertPos(ch, p) == LET f == FirstIdx(ch, LAMBDA e : e.p < p) IN IF f = 0 THEN Len(ch) + 1 ELSE f
Newest(ch)       == Len(ch) + 1                                       \* rank of a new insertion
\* ranks stay 1..Len: closing the gap left by a removed entry keeps the relative order
Compact(ch, gone) == [i \in 1..Len(ch) |-> [ch[i] EXCEPT !.st = IF @ > gone THEN @ - 1 ELSE @]]

Insert(ch, a, p)  == ChInsertAt(ch, InsertPos(ch, p), [a |-> a, p |-> p, st |-> Newest(ch)])
PosOf(ch, a)      == FirstIdx(ch, LAMBDA e : e.a = a)                 \* `.position(|e| e.path == path)`
ChRemove(ch, a)     == LET i == PosOf(ch, a) IN Compact(ChRemoveAt(ch, i), ch[i].st)

\* `rebuild_file_map`: archives highest first, `entry(key).or_insert(idx)`
Rebuild(ch, cont) ==
  FoldLeft(LAMBDA m, i : [n \in DOMAIN m |-> IF m[n] = 0 /\ Has(cont, ch[i].a, n) THEN i ELSE m[n]],
           [n \in NamesOf(cont) |-> 0], Idx(ch))

\* `sort_by(|a, b| b.priority.cmp(&a.priority))` is a stable sort
StableSortDesc(l) == SortSeq(l, LAMBDA x, y : x.p > y.p \/ (x.p = y.p /\ x.st < y.st))
Stamped(l)        == [i \in 1..Len(l) |-> [a |-> l[i].a, p |-> l[i].p, st |-> i]]
AllExist(cont, l) == \A i \in 1..Len(l) : l[i].a \in ArchIds(cont)
SeqBuild(ch, l)   == FoldLeft(LAMBDA c, e : Insert(c, e.a, e.p), ch, l)      \* one add_archive per element

\* ---------------------------------------------------------------- actions
Set(ch)  == /\ vchain' = ch /\ vmap' = Rebuild(vchain', vcont)     \* (primed: forces one evaluation of ch)
Stutter  == UNCHANGED pcvars

New                == Set(<<>>)
AddArchive(a, p)   == a \in ArchIds(vcont) /\ Set(Insert(vchain, a, p))
AddArchiveFail(a)  == a \notin ArchIds(vcont) /\ Stutter                      \* Archive::open fails first
RemoveArchive(a)   == PosOf(vchain, a) # 0 /\ Set(ChRemove(vchain, a))
RemoveAbsent(a)    == PosOf(vchain, a) = 0 /\ Stutter                         \* Ok(false)
SetPriority(a, p)  == PosOf(vchain, a) # 0 /\ Set(Insert(ChRemove(vchain, a), a, p))
SetPriorityFail(a) == PosOf(vchain, a) = 0 /\ Stutter                         \* Err, nothing removed
Clear              == /\ vchain' = <<>> /\ vmap' = [n \in NamesOf(vcont) |-> 0]
FromParallel(l)    == AllExist(vcont, l) /\ Set(StableSortDesc(Stamped(l)))   \* a new chain replaces the old
FromParallelFail(l) == ~AllExist(vcont, l) /\ Stutter                         \* no chain is produced
AddParallel(l)     == AllExist(vcont, l) /\ Set(SeqBuild(vchain, l))
AddParallelFail(l) == ~AllExist(vcont, l) /\ Stutter                          \* all opens precede any insert

\* ---------------------------------------------------------------- queries, the way the code answers
Res(r, cid) == [res |-> r, c |-> cid]
NotFound    == Res("notfound", "")
Failed      == Res("err", "")

\* indices of the chain entries holding n, highest first (the loop of read_patched_file)
Versions(ch, cont, n) == SelectSeq(Idx(ch), LAMBDA i : Has(cont, ch[i].a, n))
EntryAt(ch, cont, i, n) == cont[ch[i].a][n]

\* Until the fix commits 575eb45 / 9d6d935 / dbb7470 the code differed from the property-level
\* semantics in three NAMED DEVIATIONS (each was confirmed against the real code by the C08 check, see
\* notes/C08.md).  They are kept: CodeDevs says which of them the code has (none any more), TLC refutes
\* each of them in MC_PatchChain (DevRefuted), and Trace_PatchChain uses them to name a regression:
\*  "d1" read_patched_file collects every patch entry of the name anywhere in the chain -- also
\*       those *below* the base -- and applies them all, lowest first;
\*  "d2" a patch entry that cannot be parsed is skipped with a log line instead of failing the read;
\*  "d3" apply_bsd0_patch turns a backward seek into "seek to 0" (Ptch.tla, SeekMode = "saturate"),
\*       so a well-formed patch with a backward seek fails its md5_after guard.
\* A deviation the code never had, refuted like the others (round 4, the content-length dimension):
\*  "d4" a winning full file of length zero is reported as not found (a "deletion placeholder").
AllDevs == {"d1", "d2", "d3"}
AppliesCls(devs) == IF "d3" \in devs THEN WellFormedCls \ {"bsd0neg"} ELSE WellFormedCls

\* apply_patch: md5_before guard, transformation, md5_after guard
ApplyOne(devs, acc, e) ==
  IF acc.res # "ok" THEN acc
  ELSE IF e.cls \in AppliesCls(devs) /\ acc.c = e.before THEN Res("ok", e.after) ELSE Failed

\* Resolution of a name whose winning entry (index w) is a patch.
\*   devs = {}      PROPERTY LEVEL: the base is the first full file below the winner; exactly the
\*                  patches above the base apply, lowest first; every one verified; any patch that
\*                  is not well-formed fails the read.
\*   devs = AllDevs the shape of read_patched_file.
Resolve(devs, ch, cont, n, w) ==
  LET vs     == Versions(ch, cont, n)
      plains == SelectSeq(vs, LAMBDA i : i > w /\ EntryAt(ch, cont, i, n).kind = "plain")
  IN  IF plains = <<>> THEN Failed
      ELSE LET b   == plains[1]
               ps0 == SelectSeq(vs, LAMBDA i : EntryAt(ch, cont, i, n).kind = "patch"
                                              /\ ("d1" \in devs \/ i < b))
               ps  == SelectSeq(ps0, LAMBDA i : ~("d2" \in devs /\ EntryAt(ch, cont, i, n).cls = "garbage"))
           IN  FoldLeft(LAMBDA acc, i : ApplyOne(devs, acc, EntryAt(ch, cont, i, n)),
                        Res("ok", EntryAt(ch, cont, b, n).c), Reverse(ps))

\* read_file through the map
ReadWith(devs, ch, cont, map, n) ==
  IF n \notin DOMAIN map \/ map[n] = 0 THEN NotFound
  ELSE LET e == EntryAt(ch, cont, map[n], n)
       IN  IF e.kind = "plain" THEN (IF "d4" \in devs /\ e.c = EmptyC THEN NotFound ELSE Res("ok", e.c))
           ELSE Resolve(devs, ch, cont, n, map[n])
CodeDevs == {}                       \* the deviations the code under test still has
CodeRead(ch, cont, map, n)  == ReadWith(CodeDevs, ch, cont, map, n)
OldCodeRead(ch, cont, map, n) == ReadWith(AllDevs, ch, cont, map, n)
IdealRead(ch, cont, map, n) == ReadWith({}, ch, cont, map, n)
\* What C08 accepts as the answer `o` for name n: the ideal answer; where the ideal answer is an error
\* ("... or an error -- never unverified bytes") also bytes that carry the digest the *winning* patch declares.
WinnerEntry(ch, cont, map, n) == EntryAt(ch, cont, map[n], n)
Acceptable(o, ch, cont, map, n) ==
  LET ideal == IdealRead(ch, cont, map, n)
  IN  \/ o = ideal
      \/ /\ ideal.res = "err" /\ o.res = "ok"
         /\ WinnerEntry(ch, cont, map, n).kind = "patch" /\ WinnerEntry(ch, cont, map, n).cls # "garbage"
         /\ o.c = WinnerEntry(ch, cont, map, n).after
ContainsSpec(map, n)   == n \in DOMAIN map /\ map[n] # 0
FindSpec(ch, map, n)   == IF ContainsSpec(map, n) THEN ch[map[n]].a ELSE ""
ListSpec(ch, cont)     == {n \in NamesOf(cont) : \E i \in 1..Len(ch) : Has(cont, ch[i].a, n)}

\* ---------------------------------------------------------------- the property, declaratively
Holders(ch, cont, n) == {i \in 1..Len(ch) : Has(cont, ch[i].a, n)}
\* highest priority wins; among equal priorities the earliest (re)inserted
Beats(x, y) == x.p > y.p \/ (x.p = y.p /\ x.st < y.st)
Winner(ch, cont, n) ==
  IF Holders(ch, cont, n) = {} THEN 0
  ELSE CHOOSE i \in Holders(ch, cont, n) : \A j \in Holders(ch, cont, n) \ {i} : Beats(ch[i], ch[j])
PropRead(ch, cont, n) ==
  LET w == Winner(ch, cont, n)
  IN  IF w = 0 THEN NotFound
      ELSE IF EntryAt(ch, cont, w, n).kind = "plain" THEN Res("ok", EntryAt(ch, cont, w, n).c)
      ELSE Resolve({}, ch, cont, n, w)

TypeOK == /\ vchain \in Seq([a : ArchIds(vcont), p : Int, st : Nat])
          /\ DOMAIN vmap = NamesOf(vcont)
Sorted == \A i, j \in 1..Len(vchain) : i < j => vchain[i].p >= vchain[j].p
RanksArePermutation == {vchain[i].st : i \in 1..Len(vchain)} = 1..Len(vchain)
StableAmongEquals ==
  \A i, j \in 1..Len(vchain) : (i < j /\ vchain[i].p = vchain[j].p) => vchain[i].st < vchain[j].st
MapIsWinner  == \A n \in NamesOf(vcont) : vmap[n] = Winner(vchain, vcont, n)
ReadIsProp   == \A n \in NamesOf(vcont) : IdealRead(vchain, vcont, vmap, n) = PropRead(vchain, vcont, n)
ListIsUnion  == ListSpec(vchain, vcont) = UNION {{n \in NamesOf(vcont) : Has(vcont, vchain[i].a, n)} : i \in 1..Len(vchain)}
ContainsIsList == \A n \in NamesOf(vcont) : ContainsSpec(vmap, n) <=> n \in ListSpec(vchain, vcont)
\* what the deviations of the code can do
D1(ch, cont, n) == \E i, j \in Holders(ch, cont, n) :
                      i < j /\ EntryAt(ch, cont, i, n).kind = "plain" /\ EntryAt(ch, cont, j, n).kind = "patch"
D2(ch, cont, n) == \E i \in Holders(ch, cont, n) : EntryAt(ch, cont, i, n).cls = "garbage"
D3(ch, cont, n) == \E i \in Holders(ch, cont, n) : EntryAt(ch, cont, i, n).cls = "bsd0neg"
\* (0) the as-coded read is the ideal read
CodeIsIdeal == \A n \in NamesOf(vcont) : CodeRead(vchain, vcont, vmap, n) = IdealRead(vchain, vcont, vmap, n)
\* (i) only where a deviation is in play could the OLD code's answer be unacceptable
DeviationsExplainCode ==
  \A n \in NamesOf(vcont) :
     ~Acceptable(OldCodeRead(vchain, vcont, vmap, n), vchain, vcont, vmap, n)
        => D1(vchain, vcont, n) \/ D2(vchain, vcont, n) \/ D3(vchain, vcont, n)
\* (ii) the safe half: d1 and d3 only ever turn answers into errors or into bytes verified against the
\* winning patch; only d2 with an unparsable *winning* patch returns bytes no digest vouches for
CodeSafeModuloD2 ==
  \A n \in NamesOf(vcont) :
     LET o == OldCodeRead(vchain, vcont, vmap, n)
     IN  (vmap[n] # 0 /\ WinnerEntry(vchain, vcont, vmap, n).kind = "patch" /\ o.res = "ok"
          /\ WinnerEntry(vchain, vcont, vmap, n).cls # "garbage")
         => o.c = WinnerEntry(vchain, vcont, vmap, n).after

\* each single deviation is REFUTED by the model: some chain makes it return an unacceptable answer
DevRefutedOn(d, ch) ==
  LET m == Rebuild(ch, vcont)
  IN  \E n \in NamesOf(vcont) : ~Acceptable(ReadWith({d}, ch, vcont, m, n), ch, vcont, m, n)

\* sequential and parallel construction agree (checked over all short lists by the MC instance)
ParallelAgrees(cont, l) ==
  LET par == StableSortDesc(Stamped(l))
      sq  == SeqBuild(<<>>, l)
  IN  par = sq
=============================================================================
