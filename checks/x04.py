"""X04 -- the M2 animation state machine wow_m2::animation::AnimationManager (beyond the twenty listed properties)."""
import json
import os

from vlib import core

DEVS = {  # must-refute deviations of AnimMgr.tla -> the invariants one of which TLC has to report
    "RepeatNoRewind": ("TimeBound",), "ZeroDurNaN": ("NoNaN",), "VarCycleHang": ("Terminates",), "GlobalNoMod": ("GlobalRange",),
    "LoopSubtract": ("Additive", "TimeBound"), "AliasOneHop": ("AliasResolved",), "AliasNoLimit": ("AliasResolved", "Terminates"),
}
ASCODED = ("RepeatNoRewind", "ZeroDurNaN", "VarCycleHang")

META = {
    "disabled": False,
    "extra": True,
    "level": "model_checking",
    "level_text": "AnimMgr.tla models wow_m2's AnimationManager over integer milliseconds: sequence table (duration, flags, frequency, replay "
                  "min/max, blend time, variation_next, alias_next), current / next AnimationState, repeat counter, blend factor as a fraction, "
                  "global timers; new / empty / set_animation_id / set_animation_index and update(dt) split into the code's steps (advance, global "
                  "timers modulo duration, select variation | set up repeat, blending window, completion: swap to the alias-resolved next | loop). "
                  "The LCG is a nondeterministic choice bounded by what it can return. TLC checks for nine table shapes x dt in {0, 1, 3, 5, 13, "
                  "1000003} x 4 calls: index valid, time a number in [0, duration), blend in [0, 1], global timers in [0, duration), alias "
                  "resolution ends in range and in a non-alias when the chain ends, every call returns, update(a); update(b) = update(a + b) "
                  "where no chaining is involved; seven named deviations (three of them = the code today) must each be refuted. TLC generates call "
                  "histories (simulated behaviours + one boundary program per table of the families); the driver replays them on the real "
                  "object and logs its projection after every call; TLC validates every event against the specification's successor states.",
    "level_note": "The repeat counters and the next state are read from the derived Debug rendering (hid); without it only the public accessors "
                  "bind. Frequencies are restricted to {0} and >= 8192 (the variation walk is then decided within 6 laps); alias sequences have "
                  "the duration of their target; quaternion / blended track values are not judged.",
    "technique": "TLA+ state machine of the manager with update() unfolded into its steps, exhaustively model-checked with must-refute deviations; "
                 "TLC-generated call histories; TLC trace validation over all LCG outcomes",
    "design_ref": "notes/X04.md",
    "crates": ["x04"],
}


def sig(b):
    r = b.get("rec") or {}
    reset = b.get("reset") or {}
    tab = reset.get("tab") or []
    return {"why": (b.get("why") or "").strip('"'), "ev": r.get("ev"), "op": r.get("op", "new"), "res": r.get("res"),
            "zero_duration": any(q.get("dur") == 0 for q in tab), "repeats": any(q.get("rmin", 0) > 0 or q.get("rmax", 0) > 0 for q in tab),
            "variation_cycle_freq0": _cycle0(tab)}


def _cycle0(tab):
    """some variation_next cycle all of whose members have frequency 0 (class attribute of the table)"""
    for s in range(len(tab)):
        i, seen = s, []
        while 0 <= i < len(tab) and i not in seen:
            seen.append(i)
            i = tab[i].get("vnext", -1)
        if 0 <= i < len(tab) and i in seen:
            cyc = seen[seen.index(i):]
            if all(tab[j].get("freq", 1) == 0 for j in cyc):
                return True
    return False


def _sim(ctx, num, depth=60):
    rc, text = ctx.tlc("Gen_AnimMgr", "Gen_AnimMgr", workers=1, timeout=300, simulate=f"num={num}",
                       extra=("-seed", str(ctx.seed), "-depth", str(depth)), tag="sim")
    out = []
    for line in text.splitlines():
        line = line.strip()
        if line.startswith('"CASE '):
            out.append(json.loads(json.loads(line)[5:]))
    if not out:
        raise core.ToolError("stage B: simulation produced no case:\n" + core._tail(text))
    core.log(f"(B) Gen_AnimMgr: {len(out)} simulated behaviours")
    return out


def _fixed_env(ctx):
    """deviations whose finding is marked fixed (or X04_FIXED=all|<names> for a patched scratch worktree) are not part of the machine followed"""
    fixed = set()
    for k in core.load_known(ctx.prop):
        d = (k.get("match", {}).get("why") or "")
        if k.get("status") == "fixed" and isinstance(d, str) and d.startswith("dev:"):
            fixed.add(d[4:])
    ov = os.environ.get("X04_FIXED", "")
    if ov:
        fixed |= set(ASCODED) if ov == "all" else set(ov.split(","))
    return {"X04_FIX_" + d: "1" for d in fixed}


def _cases(ctx):
    th = ctx.thorough
    enum, nenum = ctx.gen("Gen_AnimMgr", cfg="Gen_AnimMgr", env={"GEN_MODE": "enum"}, simulate="num=1", cases_name="enum.ndjson")
    lines = open(enum).read().splitlines()
    step = 1 if th else 8                       # quick: every 8th table of the families, rotating with the seed
    pick = [l for i, l in enumerate(lines) if (i + ctx.seed) % step == 0]
    sims = _sim(ctx, 600 if th else 90)
    cases = ctx.path("cases.ndjson")
    with open(cases, "w") as f:
        for l in pick:
            f.write(l + "\n")
        for c in sims:
            f.write(json.dumps(c) + "\n")
    return cases


def run(ctx, cases=None):
    ctx.env["CARGO_BUILD_JOBS"] = "3"
    th = ctx.thorough
    if os.environ.get("X04_SELFTEST_SKIP_MC") and core.repo_root() != "/repo":
        # self-test runs on a scratch worktree only (mutants / refactors / the fix): stage A does not depend on the tree
        ctx.mc("MC_AnimMgr", cfg="MC_AnimMgr_small", workers=2, timeout=300)
        return _rest(ctx, cases)
    # ---- stage A: the intended machine, the machine as coded today, and the must-refute deviations
    ctx.mc("MC_AnimMgr", cfg="MC_AnimMgr_deep" if th else "MC_AnimMgr", workers=3, timeout=1500)
    ctx.mc("MC_AnimMgr", cfg="MC_AnimMgr_ascoded", workers=3, timeout=600)
    ctx.notes.append("MC_AnimMgr_ascoded (Dev = the code today): IndexValid, BlendRange, GlobalRange, AliasResolved, Additive, NoStuck hold; "
                     "TimeBound, NoNaN, Terminates do not (refuted one by one below)")
    for dev, invs in DEVS.items():
        rc, text = ctx.tlc("MC_AnimMgr", "MC_AnimMgr_dev" + dev, workers=2, timeout=300, tag="dev-" + dev)
        hit = [i for i in invs if f"Invariant {i} is violated" in text]
        if not hit:
            raise core.ToolError(f"stage A: deviation {dev} of AnimMgr is not refuted by the model checker:\n" + core._tail(text, 12))
        ctx.notes.append(f"MC_AnimMgr_dev{dev}: refuted ({hit[0]})")
    return _rest(ctx, cases)


def _rest(ctx, cases):
    # ---- stage B
    if cases is None:
        cases = _cases(ctx)
    recs = [json.loads(l) for l in open(cases)]
    # ---- stage C, D
    binary = ctx.build("x04")
    trace = ctx.harness(binary, cases, timeout=1500)
    res = ctx.validate("Trace_AnimMgr", trace, shards=3, heap="2g", timeout=1500, env=_fixed_env(ctx))
    ops, outcomes, samples = {}, {}, []
    with open(trace) as f:
        for line in f:
            r = json.loads(line)
            if r["ev"] == "Call":
                ops[r["op"]] = ops.get(r["op"], 0) + 1
                outcomes[r["res"]] = outcomes.get(r["res"], 0) + 1
                if len(samples) < 4 and r["op"] in ("update", "split") and r["obs"]["nidx"] >= 0:
                    samples.append(r)
    if not samples:
        samples = [json.loads(open(trace).readline())]
    cov = {
        "traces_validated_against_impl": res["traces"],
        "samples": samples,
        "evaluations": res["events"] - res["traces"],
        "programs": len(recs),
        "calls_by_kind": ops,
        "calls_by_outcome": outcomes,
        "distinct_nontrivial": len({json.dumps(c, sort_keys=True) for c in recs if c.get("ops")}),
        "rule": "one case = sequence table x global durations x call history, distinct as JSON, at least one call",
        "exhaustive": False,
    }
    assumptions = ["durations, dt and track keys are integral milliseconds below 2^31 (f64 arithmetic is then exact)",
                   "frequencies are 0 or >= 8192; alias sequences have the duration of their target",
                   "a call that burns 1.5 s of CPU without returning is a hang"]
    return core.finish(ctx, "model_checking", cov, assumptions, res["bad"], sig_fn=sig, trace=trace)


def replay(ctx, payload):
    idx = int(str(payload.get("case", "0")).split(":")[0])
    full = _cases(ctx)
    lines = open(full).read().splitlines()
    sel = ctx.path("replay-cases.ndjson")
    with open(sel, "w") as f:
        for i, l in enumerate(lines[:idx + 1]):
            f.write((l if i == idx else json.dumps({"kind": "skip"})) + "\n")
    return run(ctx, cases=sel)
