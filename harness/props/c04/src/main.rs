//! C04 driver: evaluate the library's hash / cipher primitives on the cases TLC generated and log
//! the observed values. No comparison happens here; Trace_MpqCrypto.tla decides.
use wverif_common::*;
use wow_mpq::crypto::{
    decrypt_block, decrypt_dword, encrypt_block, hash_string, hash_type, het_hash, jenkins_hash, ASCII_TO_LOWER,
    ASCII_TO_UPPER, ENCRYPTION_TABLE,
};
use wow_mpq::simd::scalar::hash_string_scalar;
use wow_mpq::SimdOps;
use wow_mpq::crypto::file_key;
use wow_mpq::{calculate_het_hashes, calculate_mpq_hashes, decrypt_file_data, ArchiveBuilder};

fn w(v: u32) -> Value {
    json!([(v >> 16) as u32, v & 0xFFFF])
}
fn ws(v: &[u32]) -> Value {
    Value::Array(v.iter().map(|x| w(*x)).collect())
}
fn limbs64(v: u64) -> Value {
    json!([(v >> 48) & 0xFFFF, (v >> 32) & 0xFFFF, (v >> 16) & 0xFFFF, v & 0xFFFF])
}

struct Out<'a> {
    t: &'a Trace,
    n: usize,
}
impl<'a> Out<'a> {
    fn ev(&mut self, v: Value) {
        if self.n % 400 == 0 {
            self.t.ev(json!({"ev":"Reset","case":"-"}));
        }
        self.n += 1;
        self.t.ev(v);
    }
}

fn hash_ev(case: &str, s: &str) -> Value {
    json!({"ev":"Hash","case":case,"b":s.as_bytes(),
        "v":[w(hash_string(s, hash_type::TABLE_OFFSET)), w(hash_string(s, hash_type::NAME_A)),
             w(hash_string(s, hash_type::NAME_B)), w(hash_string(s, hash_type::FILE_KEY))]})
}

fn gen_buf(cls: &str, len: usize, rng: &mut Rng) -> Vec<u8> {
    match cls {
        "zeros" => vec![0; len],
        "ones" => vec![0xFF; len],
        "ramp" => (0..len).map(|i| i as u8).collect(),
        "ascii" => (0..len).map(|_| 0x20 + rng.below(95) as u8).collect(),
        "high" => (0..len).map(|_| 0x80 | rng.byte()).collect(),
        _ => rng.bytes(len),
    }
}

fn enc_events(out: &mut Out, case: &str, key: u32, buf: &[u8]) {
    // word level on the full dwords of the buffer
    let words: Vec<u32> = buf.chunks_exact(4).map(|c| u32::from_le_bytes([c[0], c[1], c[2], c[3]])).collect();
    let mut enc = words.clone();
    encrypt_block(&mut enc, key);
    let mut dec = enc.clone();
    decrypt_block(&mut dec, key);
    let dd = if enc.is_empty() { 0 } else { decrypt_dword(enc[0], key) };
    out.ev(json!({"ev":"Enc","case":case,"key":w(key),"w":ws(&words),"enc":ws(&enc),"dec":ws(&dec),"dd":w(dd)}));
    // byte level wrappers, any length, at every alignment of the slice start relative to a dword
    // boundary (the API takes &mut [u8]; nothing entitles it to an aligned start)
    let b = ArchiveBuilder::new();
    for off in 0..4usize {
        let mut backing = vec![0u8; buf.len() + 8];
        let base = (4 - (backing.as_ptr() as usize % 4)) % 4 + off;
        backing[base..base + buf.len()].copy_from_slice(buf);
        b.encrypt_data(&mut backing[base..base + buf.len()], key);
        let e = backing[base..base + buf.len()].to_vec();
        decrypt_file_data(&mut backing[base..base + buf.len()], key);
        let d = backing[base..base + buf.len()].to_vec();
        out.ev(json!({"ev":"EncBytes","case":case,"key":w(key),"off":off,"b":buf,"enc":e,"dec":d}));
        if buf.len() > 64 && off == 1 {
            break; // long random buffers: aligned + one unaligned start keep the trace small
        }
    }
}

/// Large buffers (> 1 MiB): the plaintext is a constant byte, so TLC can regenerate it; only probe
/// words of the ciphertext are logged (first, around every 64 Ki-word boundary passed, last) plus tokens.
fn enc_big(out: &mut Out, case: &str, key: u32, byte: u8, len: usize) {
    let b = ArchiveBuilder::new();
    let plain = vec![byte; len];
    let mut e = plain.clone();
    b.encrypt_data(&mut e, key);
    let nwords = len / 4;
    let mut probes: Vec<usize> = vec![1, 2, nwords - 1, nwords];
    let mut k = 65536;
    while k < nwords {
        probes.extend_from_slice(&[k - 1, k, k + 1, k + 2]);
        k *= 2;
    }
    k = 262144;
    while k < nwords {
        probes.extend_from_slice(&[k, k + 1]);
        k += 262144;
    }
    probes.sort();
    probes.dedup();
    let pv: Vec<Value> = probes.iter().filter(|&&i| i >= 1 && i <= nwords).map(|&i| {
        let o = (i - 1) * 4;
        json!([i, w(u32::from_le_bytes([e[o], e[o + 1], e[o + 2], e[o + 3]]))])
    }).collect();
    let tail: Vec<u8> = e[nwords * 4..].to_vec();
    let mut d = e.clone();
    decrypt_file_data(&mut d, key);
    out.ev(json!({"ev":"EncBig","case":case,"key":w(key),"byte":byte,"nwords":nwords,"tail":tail,"tailplain":plain[nwords*4..].to_vec(),
        "probes":pv,"ptok":tok(&plain),"dtok":tok(&d)}));
}

// ---------------------------------------------------------------------------------------------
// round 4: every HET width, extended-table bodies through HetTable::read / BetTable::read,
// encrypted files through ArchiveBuilder -> Archive::read_file
// ---------------------------------------------------------------------------------------------
use std::io::{Cursor, Read, Seek, SeekFrom};
use wow_mpq::{Archive, BetTable, FormatVersion, HetTable};

const HET_TABLE_KEY: u32 = 0xC3AF_3770; // published value of the key of "(hash table)"
const BET_TABLE_KEY: u32 = 0xEC83_B3A3; // ... of "(block table)"

fn put32(v: &mut Vec<u8>, x: u32) {
    v.extend_from_slice(&x.to_le_bytes());
}

/// Plain body (what follows the 12-byte extended header) of a HET table with n slots and ib index bits.
fn het_body(n: usize, ib: usize, sparse: bool, rng: &mut Rng) -> Vec<u8> {
    let idx = (n * ib).div_ceil(8);
    let mut b = Vec::new();
    for x in [32 + n + idx, n, n, 8, n * ib, 0, ib, idx] {
        put32(&mut b, x as u32);
    }
    for _ in 0..n + idx {
        b.push(if sparse && rng.below(4) != 0 { 0x80 } else { rng.byte() });
    }
    b
}

/// Plain body of a BET table: fc entries of es bits, nf flag words, fc 64-bit hashes.
fn bet_body(fc: usize, es: usize, nf: usize, sparse: bool, rng: &mut Rng) -> Vec<u8> {
    let ft = (fc * es).div_ceil(8);
    let total = 76 + 4 * nf + ft + 8 * fc;
    let q = es / 4;
    let mut b = Vec::new();
    for x in [total, fc, 0x10, es, 0, q, 2 * q, 3 * q, es, q, q, q, es - 3 * q, 0, 64 * fc, 0, 64, 8 * fc, nf] {
        put32(&mut b, x as u32);
    }
    for _ in 0..4 * nf + ft + 8 * fc {
        b.push(if sparse && rng.below(4) != 0 { 0 } else { rng.byte() });
    }
    b
}

fn het_obs(t: &HetTable) -> Vec<u8> {
    let h = t.header;
    let mut o = Vec::new();
    for x in [h.table_size, h.max_file_count, h.hash_table_size, h.hash_entry_size, h.total_index_size, h.index_size_extra, h.index_size, h.block_table_size] {
        put32(&mut o, x);
    }
    o.extend_from_slice(&t.hash_table);
    o.extend_from_slice(&t.file_indices);
    o
}

fn bet_obs(t: &BetTable) -> Vec<u8> {
    let h = t.header;
    let mut o = Vec::new();
    for x in [h.table_size, h.file_count, h.unknown_08, h.table_entry_size, h.bit_index_file_pos, h.bit_index_file_size,
        h.bit_index_cmp_size, h.bit_index_flag_index, h.bit_index_unknown, h.bit_count_file_pos, h.bit_count_file_size,
        h.bit_count_cmp_size, h.bit_count_flag_index, h.bit_count_unknown, h.total_bet_hash_size, h.bet_hash_size_extra,
        h.bet_hash_size, h.bet_hash_array_size, h.flag_count] {
        put32(&mut o, x);
    }
    for f in &t.file_flags {
        put32(&mut o, *f);
    }
    o.extend_from_slice(&t.file_table);
    for x in &t.bet_hashes {
        o.extend_from_slice(&x.to_le_bytes());
    }
    o
}

fn tbl_event(case: &str, c: &Value, rng: &mut Rng) -> Value {
    let which = gs(c, "which");
    let keycls = gs(c, "keycls");
    let comp = gb(c, "comp");
    let key = match keycls {
        "table" => if which == "het" { HET_TABLE_KEY } else { BET_TABLE_KEY },
        "zero" => 0,
        "one" => 1,
        "ffff" => 0xFFFF_FFFF,
        _ => rng.next_u32() | 0x100,
    };
    let mk = |rng: &mut Rng| if which == "het" {
        het_body(gi(c, "n") as usize, gi(c, "ib") as usize, comp, rng)
    } else {
        bet_body(gi(c, "fc") as usize, gi(c, "es") as usize, gi(c, "nf") as usize, comp, rng)
    };
    // body as stored before encryption: plain, or (compressed tables) method byte + zlib stream whose
    // length has the residue mod 4 the case asks for (the content is varied until it has)
    let mut plain = mk(rng);
    let mut stored_body = plain.clone();
    if comp {
        let want = gi(c, "cr") as usize;
        for _ in 0..400 {
            let z = wow_mpq::compress(&plain, 0x02).unwrap_or_else(|_| plain.clone());
            if z.len() < plain.len() {
                stored_body = z;
                if stored_body.len() % 4 == want {
                    break;
                }
            }
            plain = mk(rng);
            stored_body = plain.clone();
        }
    }
    let mut pre = Vec::new();
    put32(&mut pre, if which == "het" { 0x1A54_4548 } else { 0x1A54_4542 });
    put32(&mut pre, 1);
    put32(&mut pre, plain.len() as u32);
    pre.extend_from_slice(&stored_body);
    let mut st = pre.clone();
    ArchiveBuilder::new().encrypt_data(&mut st[12..], key);
    // the table sits at some offset of a larger file
    let lead = rng.below(7) as usize;
    let mut file = rng.bytes(lead);
    file.extend_from_slice(&st);
    file.extend_from_slice(&rng.bytes(9));
    let (res, obs) = match guarded(|| {
        let mut cur = Cursor::new(&file);
        if which == "het" {
            HetTable::read(&mut cur, lead as u64, st.len() as u64, key).map(|t| het_obs(&t))
        } else {
            BetTable::read(&mut cur, lead as u64, st.len() as u64, key).map(|t| bet_obs(&t))
        }
    }) {
        Outcome::Done(r) => (res_class(&r), r.unwrap_or_default()),
        Outcome::Panic(_) => ("panic".to_string(), Vec::new()),
        Outcome::Hang => ("hang".to_string(), Vec::new()),
    };
    json!({"ev":"Tbl","case":case,"which":which,"keycls":keycls,"key":w(key),"comp":comp,"r":stored_body.len() % 4,
        "pre":pre,"st":st,"plain":plain,"obs":obs,"res":res})
}

struct FilePlan {
    name: String,
    size: usize,
}

fn fver(v: i64) -> FormatVersion {
    match v { 1 => FormatVersion::V1, 2 => FormatVersion::V2, 3 => FormatVersion::V3, _ => FormatVersion::V4 }
}
fn shape_bs(shape: &str) -> (u16, u32) {
    if shape == "single" { (3, 4096) } else { (0, 512) }
}

/// Where the builder puts the first file of an archive of this version / sector size (learnt, not assumed).
fn probe_pos(sc: &Scratch, ver: i64, bs: u16) -> u32 {
    let path = sc.file(&format!("probe-{ver}-{bs}.mpq"));
    ArchiveBuilder::new().version(fver(ver)).block_size(bs)
        .add_file_data_with_encryption(vec![7u8; 3000], "Probe\\p.bin", 0, true, 0)
        .build(&path).unwrap_or_else(|e| tool_error(&format!("probe build: {e:?}")));
    let a = Archive::open(&path).unwrap_or_else(|e| tool_error(&format!("probe open: {e:?}")));
    let info = a.find_file("Probe\\p.bin").ok().flatten().unwrap_or_else(|| tool_error("probe file missing"));
    (info.file_pos - a.archive_offset()) as u32
}

/// Choose name and size so that the cipher unit named by `zero` gets key 0 under the FIX_KEY equation
/// final = (file_key(name) + pos) ^ size.  Only a search: TLC recomputes the key from what is logged.
fn plan_file(c: &Value, ci: usize, pos: u32, rng: &mut Rng) -> FilePlan {
    let (shape, zero, rem) = (gs(c, "shape"), gs(c, "zero"), gi(c, "rem") as u32);
    let (_, ss) = shape_bs(shape);
    let single = shape == "single";
    let fits = |size: u32| size >= 1 && size % 4 == rem && if single { size <= ss } else { size > ss && size <= 12 * ss };
    if !gb(c, "fix") || zero == "none" {
        let mut size = if single { rng.range(1, ss as u64 - 4) } else { rng.range(ss as u64 + 1, 12 * ss as u64 - 4) } as u32;
        while size % 4 != rem {
            size += 1;
        }
        return FilePlan { name: format!("Data\\c{ci}/Sub\\n{}.bin", rng.below(100000)), size: size as usize };
    }
    let mut name = format!("Z{ci}\\aaaaaaaa.q").into_bytes();
    let at = name.len() - 10;
    let n0 = rng.next_u32() as u64; // the search starts somewhere else for every (seed, case)
    for i in 0u64..(1u64 << 32) {
        let n = (n0 + i) & 0xFFFF_FFFF;
        for d in 0..8 {
            name[at + d] = b'a' + ((n >> (4 * d)) & 15) as u8;
        }
        let s = std::str::from_utf8(&name).unwrap();
        let x = file_key(s).wrapping_add(pos);
        let size = match zero {
            "s0" => Some(x),
            "ot" => Some(x ^ 1),
            "s1" => Some(!x),
            _ => (3u32..=12).map(|ns| (ns, x ^ 0u32.wrapping_sub(ns - 1))).find(|&(ns, sz)| fits(sz) && sz.div_ceil(ss) == ns).map(|p| p.1),
        };
        if let Some(sz) = size {
            if fits(sz) {
                return FilePlan { name: s.to_string(), size: sz as usize };
            }
        }
    }
    tool_error("no name found for the zero-unit class")
}

fn encfile_event(case: &str, c: &Value, plan: &FilePlan, sc: &Scratch, rng: &mut Rng) -> Value {
    let (shape, zero, comp, ver, fix) = (gs(c, "shape"), gs(c, "zero"), gi(c, "comp") as u8, gi(c, "ver"), gb(c, "fix"));
    let (bs, ss) = shape_bs(shape);
    let raw = comp == 0;
    let plain = if raw { rng.bytes(plan.size) } else { gen_content(if rng.chance(1, 2) { "text" } else { "mixed" }, plan.size, rng) };
    let path = sc.file("encfile.mpq");
    let _ = std::fs::remove_file(&path);
    let mut ev = json!({"ev":"EncFile","case":case,"zero":zero,"shape":shape,"ver":ver,"fix":fix,"comp":comp,"raw":raw,
        "b":plan.name.as_bytes(),"pos":w(0),"size":plan.size,"ss":ss,"enc":false,"fixf":false,"single":false,
        "p":if raw { plain.clone() } else { Vec::new() },"st":Vec::<u8>::new(),"stlen":0,"res":"","ptok":tok(&plain),"gtok":"","glen":0});
    let built = guarded(|| {
        ArchiveBuilder::new().version(fver(ver)).block_size(bs)
            .add_file_data_with_encryption(plain.clone(), &plan.name, comp, fix, 0)
            .build(&path)
    });
    match built {
        Outcome::Done(Ok(())) => {}
        Outcome::Done(Err(e)) => { ev["res"] = json!(format!("build:err:{}", variant_name(&e))); return ev; }
        _ => { ev["res"] = json!("build:panic"); return ev; }
    }
    let opened = guarded(|| Archive::open(&path));
    let mut a = match opened {
        Outcome::Done(Ok(a)) => a,
        Outcome::Done(Err(e)) => { ev["res"] = json!(format!("open:err:{}", variant_name(&e))); return ev; }
        _ => { ev["res"] = json!("open:panic"); return ev; }
    };
    let info = match a.find_file(&plan.name) {
        Ok(Some(i)) => i,
        _ => { ev["res"] = json!("notfound"); return ev; }
    };
    let rel = (info.file_pos - a.archive_offset()) as u32;
    ev["pos"] = w(rel);
    ev["enc"] = json!(info.is_encrypted());
    ev["fixf"] = json!(info.has_fix_key());
    ev["single"] = json!(info.is_single_unit());
    ev["stlen"] = json!(info.compressed_size);
    // the stored image (raw sectors: all of it; otherwise its sector offset table)
    let nsect = plan.size.div_ceil(ss as usize);
    let want = if raw { info.compressed_size as usize } else if plan.size > ss as usize { 4 * (nsect + 1) } else { 0 };
    let mut st = vec![0u8; want.min(1 << 20)];
    if let Ok(mut f) = std::fs::File::open(&path) {
        let _ = f.seek(SeekFrom::Start(info.file_pos));
        let _ = f.read_exact(&mut st);
    }
    ev["st"] = json!(st);
    let name = plan.name.clone();
    match guarded(move || { let r = a.read_file(&name); r }) {
        Outcome::Done(r) => {
            ev["res"] = json!(res_class(&r));
            if let Ok(g) = r {
                ev["gtok"] = json!(tok(&g));
                ev["glen"] = json!(g.len());
            }
        }
        Outcome::Panic(_) => ev["res"] = json!("panic"),
        Outcome::Hang => ev["res"] = json!("hang"),
    }
    ev
}

fn main() {
    let a = args();
    install_quiet_panic_hook();
    let cases = read_cases(&a.cases);
    let trace = Trace::create(&a.trace);
    let mut out = Out { t: &trace, n: 0 };
    let seed = seed();
    // round 4 pre-pass: the name searches of the encrypted-file cases run in parallel
    let sc = Scratch::new("c04");
    let mut probes: std::collections::HashMap<(i64, u16), u32> = std::collections::HashMap::new();
    for c in cases.iter().filter(|c| gs(c, "kind") == "encfile") {
        let k = (gi(c, "ver"), shape_bs(gs(c, "shape")).0);
        if !probes.contains_key(&k) {
            let p = probe_pos(&sc, k.0, k.1);
            probes.insert(k, p);
        }
    }
    let plans: Vec<std::sync::Mutex<Option<FilePlan>>> = cases.iter().map(|_| std::sync::Mutex::new(None)).collect();
    par_for(cases.len(), 4, |ci| {
        let c = &cases[ci];
        if gs(c, "kind") == "encfile" {
            let mut rng = Rng::derive(seed, &format!("{ci}:plan"));
            let pos = probes[&(gi(c, "ver"), shape_bs(gs(c, "shape")).0)];
            *plans[ci].lock().unwrap() = Some(plan_file(c, ci, pos, &mut rng));
        }
    });
    for (ci, c) in cases.iter().enumerate() {
        let kind = gs(c, "kind");
        let case = format!("{ci}:{kind}");
        let mut rng = Rng::derive(seed, &case);
        match kind {
            "table" => {
                for base in (0..1280).step_by(64) {
                    let vals: Vec<Value> = (base..base + 64).map(|i| w(ENCRYPTION_TABLE[i])).collect();
                    out.ev(json!({"ev":"Table","case":case,"base":base,"vals":vals}));
                }
            }
            "fold" => {
                out.ev(json!({"ev":"Fold","case":case,"upper":ASCII_TO_UPPER.to_vec(),"lower":ASCII_TO_LOWER.to_vec()}));
            }
            "hash_exh" => {
                // every valid UTF-8 string of <= maxlen bytes (hash_string takes &str); with
                // stride > 1 a seed-rotated residue class of the two-byte strings is taken
                let stride = gi(c, "stride") as u64;
                let phase = seed % stride.max(1);
                let mut idx = 0u64;
                out.ev(hash_ev(&case, ""));
                for b0 in 0u32..0x80 {
                    out.ev(hash_ev(&case, &char::from_u32(b0).unwrap().to_string()));
                }
                for c0 in 0u32..0x800 {
                    // 1-byte pairs and 2-byte code points
                    if c0 >= 0x80 {
                        idx += 1;
                        if idx % stride == phase {
                            out.ev(hash_ev(&case, &char::from_u32(c0).unwrap().to_string()));
                        }
                    }
                }
                for b0 in 0u32..0x80 {
                    for b1 in 0u32..0x80 {
                        idx += 1;
                        if idx % stride != phase {
                            continue;
                        }
                        let s: String = [char::from_u32(b0).unwrap(), char::from_u32(b1).unwrap()].iter().collect();
                        out.ev(hash_ev(&case, &s));
                    }
                }
            }
            "hash_rand" => {
                let n = gi(c, "count");
                let maxlen = gi(c, "maxlen") as u64;
                let alphabet: Vec<char> = "abcdefghijklmnopqrstuvwxyzABCDEFGHIJKLMNOPQRSTUVWXYZ0123456789\\/._- ()é\u{00FF}\u{0100}\u{20AC}\u{FFFD}\u{10348}\u{10FFFF}{}~\u{7f}\u{1}".chars().collect();
                for _ in 0..n {
                    let l = rng.range(3, maxlen);
                    let s: String = (0..l).map(|_| *rng.pick(&alphabet)).collect();
                    out.ev(hash_ev(&case, &s));
                    // the spellings the property names: upper, lower, flipped slashes
                    out.ev(hash_ev(&case, &s.to_ascii_uppercase()));
                    out.ev(hash_ev(&case, &s.to_ascii_lowercase().replace('\\', "/")));
                    // the convenience wrappers of crypto/mod.rs must agree with the primitive hashes
                    let (ha, hb, ho) = calculate_mpq_hashes(&s);
                    let (hf, hn) = calculate_het_hashes(&s, 48);
                    // crypto::file_key: key of the plain name after the LAST separator of either kind
                    for nm in [s.clone(), format!("Dir\\Sub/{s}"), format!("Dir/Sub\\{s}"), format!("a/b\\c/{s}"), format!("{s}\\"), format!("{s}/")] {
                        out.ev(json!({"ev":"FileKey","case":case,"b":nm.as_bytes(),"v":w(file_key(&nm))}));
                    }
                    out.ev(json!({"ev":"Wrap","case":case,"b":s.as_bytes(),"a":w(ha),"bb":w(hb),"off":w(ho),
                        "bits":48,"file":limbs64(hf),"name1":hn}));
                }
            }
            "hashb_exh" => {
                let stride = gi(c, "stride") as u64;
                let phase = seed % stride.max(1);
                let simd = SimdOps::new();
                let hb = |via: &str, b: &[u8]| -> Value {
                    let f = |t: u32| if via == "simd" { simd.hash_string_simd(b, t) } else { hash_string_scalar(b, t) };
                    json!({"ev":"HashB","case":case,"via":via,"b":b,
                        "v":[w(f(hash_type::TABLE_OFFSET)), w(f(hash_type::NAME_A)), w(f(hash_type::NAME_B)), w(f(hash_type::FILE_KEY))]})
                };
                out.ev(hb("scalar", &[]));
                for b0 in 0u32..256 {
                    out.ev(hb("scalar", &[b0 as u8]));
                    out.ev(hb("simd", &[b0 as u8]));
                }
                let mut idx = 0u64;
                for b0 in 0u32..256 {
                    for b1 in 0u32..256 {
                        idx += 1;
                        if idx % stride != phase {
                            continue;
                        }
                        out.ev(hb("scalar", &[b0 as u8, b1 as u8]));
                    }
                }
            }
            "hashb_rand" => {
                let simd = SimdOps::new();
                let maxlen = gi(c, "maxlen") as u64;
                let mut names: Vec<String> = Vec::new();
                for i in 0..gi(c, "count") {
                    // lengths around the SIMD thresholds (16 NEON, 32 AVX2) and block multiples
                    let l = match i % 6 { 0 => 31, 1 => 32, 2 => 33, 3 => 64, _ => rng.range(3, maxlen) } as usize;
                    let mut b = rng.bytes(l);
                    if i % 3 == 0 {
                        for x in b.iter_mut() { *x = 0x20 + (*x % 0x5f); }      // printable: letters, slashes
                    }
                    let f = |t: u32| simd.hash_string_simd(&b, t);
                    out.ev(json!({"ev":"HashB","case":case,"via":"simd","b":b,
                        "v":[w(f(hash_type::TABLE_OFFSET)), w(f(hash_type::NAME_A)), w(f(hash_type::NAME_B)), w(f(hash_type::FILE_KEY))]}));
                    if i % 3 == 0 {
                        names.push(String::from_utf8(b.clone()).unwrap());
                    }
                }
                // batch one-at-a-time (AVX2 path takes >= 4 names; it folds 32-byte chunks vectorised and the
                // tail bytes separately): lengths around every chunk multiple, separators and upper-case letters
                // forced into the first chunk, a middle chunk and the tail
                let mut bnames: Vec<String> = Vec::new();
                for (j, &l) in [1usize, 5, 31, 32, 33, 34, 40, 63, 64, 65, 66, 95, 96, 97, 100, 129, 200].iter().cycle().take(68).enumerate() {
                    let mut b: Vec<u8> = (0..l).map(|_| 0x20 + (rng.byte() % 0x5f)).collect();
                    let marks = [b'/', b'\\', b'Q', b'z'];
                    for (q, pos) in [0usize, l / 2, l.saturating_sub(1), l.saturating_sub(2)].iter().enumerate() {
                        if *pos < l && (j + q) % 2 == 0 {
                            b[*pos] = marks[(j + q) % 4];
                        }
                    }
                    bnames.push(String::from_utf8(b).unwrap());
                }
                names.extend(bnames);
                let refs: Vec<&str> = names.iter().map(|s| s.as_str()).collect();
                for chunk in refs.chunks(7) {
                    let hs = simd.jenkins_hash_batch(chunk);
                    for (n, h) in chunk.iter().zip(hs) {
                        out.ev(json!({"ev":"Oaat","case":case,"b":n.as_bytes(),"v":limbs64(h)}));
                    }
                }
            }
            "enc" => {
                let k = ga(c, "key");
                let key = ((k[0].as_u64().unwrap() as u32) << 16) | k[1].as_u64().unwrap() as u32;
                let len = gi(c, "len") as usize;
                let buf = gen_buf(gs(c, "cls"), len, &mut rng);
                enc_events(&mut out, &case, key, &buf);
            }
            "enc_big" => {
                let k = ga(c, "key");
                let key = ((k[0].as_u64().unwrap() as u32) << 16) | k[1].as_u64().unwrap() as u32;
                enc_big(&mut out, &case, key, gi(c, "byte") as u8, gi(c, "len") as usize);
            }
            "enc_rand" => {
                for _ in 0..gi(c, "count") {
                    let len = rng.range(18, gi(c, "maxlen") as u64) as usize;
                    let key = rng.next_u32();
                    let buf = rng.bytes(len);
                    enc_events(&mut out, &case, key, &buf);
                }
            }
            "het" => {
                let widths: Vec<u32> = ga(c, "widths").iter().map(|x| x.as_u64().unwrap() as u32).collect();
                let alphabet: Vec<char> = "abcxyzABCXYZ0189\\/._-() é".chars().collect();
                for &bits in &widths {
                    // the empty name: lookup3 returns its initial state without the final mix
                    let (file, name1) = het_hash("", bits);
                    out.ev(json!({"ev":"Het","case":case,"b":Vec::<u8>::new(),"bits":bits,"file":limbs64(file),"name1":name1}));
                }
                for i in 0..gi(c, "count") {
                    let l = if i < 30 { i as u64 + 1 } else { rng.range(1, 70) };
                    let s: String = (0..l).map(|_| *rng.pick(&alphabet)).collect();
                    for sp in [s.clone(), s.to_ascii_uppercase(), s.to_ascii_lowercase().replace('\\', "/")] {
                        out.ev(json!({"ev":"Oaat","case":case,"b":sp.as_bytes(),"v":limbs64(jenkins_hash(&sp))}));
                        for &bits in &widths {
                            let (file, name1) = het_hash(&sp, bits);
                            out.ev(json!({"ev":"Het","case":case,"b":sp.as_bytes(),"bits":bits,"file":limbs64(file),"name1":name1}));
                        }
                    }
                }
            }
            "het_all" => {
                // every table width: one event per spelling carrying the pair for all widths
                let widths: Vec<u32> = ga(c, "widths").iter().map(|x| x.as_u64().unwrap() as u32).collect();
                let alphabet: Vec<char> = "abcxyzABCXYZ0189\\/._-() é".chars().collect();
                for i in 0..gi(c, "count") {
                    let l = match i { 0 => 0, 1 => 1, 2 => 12, 3 => 13, _ => rng.range(2, 40) };
                    let s: String = (0..l).map(|_| *rng.pick(&alphabet)).collect();
                    for sp in [s.clone(), s.to_ascii_uppercase(), s.to_ascii_lowercase().replace('\\', "/")] {
                        let r: Vec<Value> = widths.iter().map(|&bits| {
                            let (file, name1) = het_hash(&sp, bits);
                            json!([bits, limbs64(file), name1])
                        }).collect();
                        out.ev(json!({"ev":"HetW","case":case,"b":sp.as_bytes(),"r":r}));
                        // the convenience wrapper crypto::calculate_het_hashes at every width as well (round 5: it was only
                        // driven at width 48): same reference, one more entry point
                        let rw: Vec<Value> = widths.iter().map(|&bits| {
                            let (file, name1) = calculate_het_hashes(&sp, bits as u8);
                            json!([bits, limbs64(file), name1])
                        }).collect();
                        out.ev(json!({"ev":"HetW","case":case,"via":"wrap","b":sp.as_bytes(),"r":rw}));
                    }
                }
            }
            "tbl" => {
                let e = tbl_event(&case, c, &mut rng);
                out.ev(e);
            }
            "encfile" => {
                let plan = plans[ci].lock().unwrap().take().unwrap_or_else(|| tool_error("no plan"));
                let e = encfile_event(&case, c, &plan, &sc, &mut rng);
                out.ev(e);
            }
            other => tool_error(&format!("unknown case kind {other}")),
        }
    }
    trace.flush();
}
