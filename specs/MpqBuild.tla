------------------------------- MODULE MpqBuild -------------------------------
(***************************************************************************)
(* ArchiveBuilder (writer) and Archive (reader) of wow-mpq as one state    *)
(* machine (property C01), transcribed from builder.rs:write_file /        *)
(* add_to_hash_table / calculate_file_key and archive.rs:find_file /       *)
(* read_file / read_sectored_file, tables/hash.rs:find_file.               *)
(*                                                                         *)
(* Modelled decision logic:                                                *)
(*   writer: single unit  <=>  len <= S;  per sector (or whole file) the   *)
(*           store-raw rule of the codec layer (CodecDefs!StoresRaw);      *)
(*           flag word; block entry (pos, csize, fsize, flags);            *)
(*           key derivation incl. FIX_KEY (base + pos) XOR fsize;          *)
(*           hash-table insertion by linear probing, duplicate detection.  *)
(*   reader: hash-table lookup by linear probing under any spelling of the *)
(*           name; branch (SINGLE_UNIT or not COMPRESS) vs sectored;       *)
(*           csize = fsize shortcut; per-sector "is compressed" test       *)
(*           stored_i < expected_i; key re-derivation from the spelled     *)
(*           name and the block entry; limit checks of the codec layer;    *)
(*           Err -> zeros for a sector that fails to decompress.           *)
(* Content is abstract: the outcome of a read is a class ("exact", or the  *)
(* way in which it differs).  Compressed sizes are chosen by the writer    *)
(* actions from a small set per compressibility class that includes the    *)
(* boundary values raw-2, raw-1 of the store-raw rule.                     *)
(*                                                                         *)
(* Deviations of today's code from the intended design are NAMED           *)
(* (DevSectoredNoCompressFlag, DevLimitRejectsOwnOutput, DevZeroFill, the  *)
(* dispatch deviations of CodecDefs); the invariants hold outside them,    *)
(* and with FlagFix = TRUE (the proposed one-line fix) the first one       *)
(* disappears.                                                             *)
(***************************************************************************)
EXTENDS CodecDefs, MpqCrypto
LOCAL INSTANCE Bitwise

CONSTANTS SectorSize,     \* bytes per sector (512 << shift in the implementation; 4 in the small model)
          TableSize,      \* hash table size (power of two)
          FlagFix,        \* FALSE: builder before 9cf2783; TRUE: COMPRESS is set for every sectored file
          UseHetBet,      \* the archive carries HET/BET tables (V3/V4) and the reader consults them first
          HetSize,        \* number of HET slots (power of two >= 2 * files)
          BetFix          \* FALSE: the builder stores one-at-a-time hashes in the BET table; TRUE: the lookup3
                          \*        value the reader verifies against

\* ---------------------------------------------------------------------------------------------
\* names and their spellings

Spellings == {"asis", "upper", "lower", "flip"}
FlipSlash(c) == IF c = 47 THEN 92 ELSE IF c = 92 THEN 47 ELSE c
Spell(nm, sp) == CASE sp = "asis"  -> nm
                   [] sp = "upper" -> [j \in 1..Len(nm) |-> Upper(nm[j])]
                   [] sp = "lower" -> [j \in 1..Len(nm) |-> Lower(nm[j])]
                   [] sp = "flip"  -> [j \in 1..Len(nm) |-> FlipSlash(nm[j])]

\* the key is derived from the plain file name (the part after the last separator), as the format prescribes
\* (crypto::file_key since f4d4c14; before that the library hashed the full path on both sides)
LibFileKeyDef(nm) == FileKey(nm)
NameHashDef(nm) == [home |-> HashString(nm, TABLE_OFFSET)[2] % TableSize,   \* & (size - 1), size a power of two
                    a    |-> HashString(nm, NAME_A),
                    b    |-> HashString(nm, NAME_B)]
\* (model-checking configurations replace these two by tables pre-computed from the definitions above)
LibFileKey(nm) == LibFileKeyDef(nm)
NameHash(nm)   == NameHashDef(nm)

\* HET / BET name hashes (reference: MpqCrypto).  HET slots hold the top 8 bits of the hash_entry_size-bit lookup3 hash
\* (the builder uses hash_entry_size = 8, so start slot = that byte mod HetSize); the BET table holds one 64-bit name
\* hash per file, which the reader compares with the 64-bit lookup3 hash of the spelled name.
Het8Def(nm)    == HetHash(nm, 8).name1
BetL3Def(nm)   == HetHash(nm, 64).file          \* what bet.verify_file_hash computes
BetOaatDef(nm) == Oaat64(nm)                    \* what create_bet_table stored before the fix (crypto::jenkins_hash)
Het8(nm)    == Het8Def(nm)
BetL3(nm)   == BetL3Def(nm)
BetOaat(nm) == BetOaatDef(nm)
BetWriterHash(nm) == IF BetFix THEN BetL3(nm) ELSE BetOaat(nm)

\* ---------------------------------------------------------------------------------------------
\* writer, functional core

Empty == [a |-> <<0, 0>>, b |-> <<0, 0>>, blk |-> 0]          \* block_index = 0xFFFFFFFF; blocks are 1-based here

SectorCount(len) == (len + SectorSize - 1) \div SectorSize
SectorRaw(len, j) == IF j < SectorCount(len) THEN SectorSize ELSE len - (SectorCount(len) - 1) * SectorSize
IsSingleUnit(len) == len <= SectorSize

\* one stored unit (whole file or sector): raw length r, pipeline output length c, selector m
StoredUnit(r, c, m) ==
  IF m = 0 \/ r = 0 \/ ~CompressPlan(m).ok THEN [r |-> r, st |-> r, shrunk |-> FALSE]     \* "compression != 0 && !empty"
  ELSE IF StoresRaw(r, c) THEN [r |-> r, st |-> r, shrunk |-> FALSE]
  ELSE [r |-> r, st |-> 1 + c, shrunk |-> TRUE]
\* compress() returning Err aborts the build; the builder cannot store such a file
AdpcmAlignedAll(f) == \A j \in 1..SectorCount(f.len) :
                         AdpcmAligned(f.method, IF IsSingleUnit(f.len) THEN f.len ELSE SectorRaw(f.len, j))
BuildRefuses(f) == f.method # 0 /\ f.len > 0 /\ (~CompressPlan(f.method).ok \/ ~AdpcmAlignedAll(f))

AnyShrunk(secs) == \E j \in 1..Len(secs) : secs[j].shrunk
SumStored(secs) == LET F[j \in 0..Len(secs)] == IF j = 0 THEN 0 ELSE F[j-1] + secs[j].st IN F[Len(secs)]

WriterFlags(f, crc, secs) ==
  (IF IsSingleUnit(f.len) THEN {"SINGLE_UNIT"} ELSE {})
  \* no sector checksum on a single-unit file that went through a lossy stage (759f687; before that the flag was
  \* always set and the reader's checksum comparison could never succeed: DevLossyCrc)
  \cup (IF crc /\ ~(IsSingleUnit(f.len) /\ AnyShrunk(secs) /\ LossySel(f.method)) THEN {"SECTOR_CRC"} ELSE {})
  \cup (IF AnyShrunk(secs) \/ (FlagFix /\ ~IsSingleUnit(f.len)) THEN {"COMPRESS"} ELSE {})
  \cup (IF f.enc # "plain" THEN {"ENCRYPTED"} ELSE {})
  \cup (IF f.enc = "encfix" THEN {"FIX_KEY"} ELSE {})
  \cup {"EXISTS"}

\* sector offset table: n + 1 entries, one more (end of the checksum sector) when the file carries sector checksums
\* (standard MPQ layout since 7734a50; before that the builder put a checksum table between offset table and data and
\* did not count it in the block size)
OffsetTableSize(len, crc) == 4 * (SectorCount(len) + 1 + (IF crc THEN 1 ELSE 0))
\* the checksum sector behind the data sectors: one ADLER32 per sector of the sector as stored, raw, never encrypted
CrcSectorSize(len, crc) == IF crc THEN 4 * SectorCount(len) ELSE 0
\* block entry's compressed size (CRC bytes are not counted)
WriterCsize(f, crc, secs) == IF IsSingleUnit(f.len) THEN secs[1].st
                             ELSE OffsetTableSize(f.len, crc) + SumStored(secs) + CrcSectorSize(f.len, crc)
\* bytes the file occupies in the archive
WriterSpan(f, crc, secs) == IF IsSingleUnit(f.len)
                            THEN secs[1].st + (IF crc /\ ~(AnyShrunk(secs) /\ LossySel(f.method)) THEN 4 ELSE 0)
                            ELSE WriterCsize(f, crc, secs)          \* everything is counted in the block size

KeyFor(nm, fix, pos, fsize) == IF fix THEN FixKey(LibFileKey(nm), WFromNat(pos), WFromNat(fsize)) ELSE LibFileKey(nm)

MkBlock(f, crc, secs, pos) ==
  [pos |-> pos, csize |-> WriterCsize(f, crc, secs), fsize |-> f.len, flags |-> WriterFlags(f, crc, secs),
   \* ghost fields: what the writer really laid down
   secs |-> secs, method |-> f.method, single |-> IsSingleUnit(f.len), crc |-> crc,
   key |-> KeyFor(f.name, f.enc = "encfix", pos, f.len)]

\* linear probing insertion; result [ok, slots]
Insert(slots, nm, blk) ==
  LET h == NameHash(nm)
      F[k \in 0..TableSize] ==
        IF k = TableSize THEN [ok |-> FALSE, slots |-> slots]            \* (the code would loop; the builder sizes the table >= 2n)
        ELSE LET ix == (h.home + k) % TableSize IN
             IF slots[ix] = Empty THEN [ok |-> TRUE, slots |-> [slots EXCEPT ![ix] = [a |-> h.a, b |-> h.b, blk |-> blk]]]
             ELSE IF slots[ix].a = h.a /\ slots[ix].b = h.b THEN [ok |-> FALSE, slots |-> slots]   \* duplicate
             ELSE F[k + 1]
  IN F[0]

\* HET insertion (create_het_table_with_hash_table): linear probing from h8 mod size; a slot is free iff its byte is
\* 0xFF -- which is also a legal name hash (named deviation DevHet8FF: such an entry looks free)
EmptyHet == [h8 |-> 255, fidx |-> 0]
HetInsert(het, nm, fidx) ==
  LET F[k \in 0..HetSize] ==
        IF k = HetSize THEN [ok |-> FALSE, het |-> het]                       \* "HET table full"
        ELSE LET ix == (Het8(nm) + k) % HetSize IN
             IF het[ix].h8 = 255 THEN [ok |-> TRUE, het |-> [het EXCEPT ![ix] = [h8 |-> Het8(nm), fidx |-> fidx]]]
             ELSE F[k + 1]
  IN F[0]
DevHet8FF(nm) == Het8(nm) = 255

\* ---------------------------------------------------------------------------------------------
\* reader, functional core

\* HET probe (het.find_file_with_collision_info): file indices of the slots on the probe path whose byte matches,
\* in probe order, up to the first free slot
HetCandidates(het, nm) ==
  LET F[k \in 0..HetSize] ==
        IF k = HetSize THEN <<>>
        ELSE LET e == het[(Het8(nm) + k) % HetSize] IN
             IF e.h8 = 255 THEN <<>>
             ELSE IF e.h8 = Het8(nm) THEN <<e.fidx>> \o F[k + 1] ELSE F[k + 1]
  IN F[0]
\* BET verification (archive.find_file): the first candidate whose stored hash equals the reader's hash; 0 = none
BetFirstVerified(beth, cands, nm) ==
  LET F[k \in 1..(Len(cands) + 1)] ==
        IF k > Len(cands) THEN 0
        ELSE IF cands[k] \in 1..Len(beth) /\ beth[cands[k]] = BetL3(nm) THEN cands[k] ELSE F[k + 1]
  IN F[1]

Lookup(slots, nm) ==
  LET h == NameHash(nm)
      F[k \in 0..TableSize] ==
        IF k = TableSize THEN 0                                          \* wrapped around
        ELSE LET e == slots[(h.home + k) % TableSize] IN
             IF e # Empty /\ e.a = h.a /\ e.b = h.b THEN e.blk
             ELSE IF e = Empty THEN 0
             ELSE F[k + 1]
  IN F[0]

\* the reader's branch
ReaderDirect(b) == "SINGLE_UNIT" \in b.flags \/ "COMPRESS" \notin b.flags
\* per-sector "is compressed" test of read_sectored_file
ReaderSectorCompressed(b, j) == "COMPRESS" \in b.flags /\ b.secs[j].st < b.secs[j].r
\* the layout the reader assumes vs the layout the writer produced
ReaderLayout(b) == IF ReaderDirect(b)
                   THEN [mode |-> "direct", comp |-> <<"COMPRESS" \in b.flags /\ "SINGLE_UNIT" \in b.flags /\ b.csize # b.fsize>>]
                   ELSE [mode |-> "sectored", comp |-> [j \in 1..Len(b.secs) |-> ReaderSectorCompressed(b, j)]]
WriterLayout(b) == IF b.single THEN [mode |-> "direct", comp |-> <<b.secs[1].shrunk>>]
                   ELSE [mode |-> "sectored", comp |-> [j \in 1..Len(b.secs) |-> b.secs[j].shrunk]]

\* named deviations
DevSectoredNoCompressFlag(b) == ~b.single /\ "COMPRESS" \notin b.flags       \* F-C01-a
UnitRejected(b, j) == b.secs[j].shrunk /\ PreCheck(b.method, b.secs[j].st - 1, b.secs[j].r) # "ok"
DevLimitRejectsOwnOutput(b) == \E j \in 1..Len(b.secs) : UnitRejected(b, j)  \* F-C01-b
DevCodec(b) == AnyShrunk(b.secs) /\ DecodeClass(b.method) # "ok"              \* dispatch deviations of the codec layer
\* single-unit + SECTOR_CRC: the writer's checksum is over the ORIGINAL bytes, the reader compares it with the
\* DECODED bytes -- which differ whenever a lossy (ADPCM) stage was applied
DevLossyCrc(b) == b.single /\ "SECTOR_CRC" \in b.flags /\ b.secs[1].shrunk /\ LossySel(b.method)

\* Whether the reader decrypts a block is decided by the block's ENCRYPTED flag -- not by the derived key being non-zero:
\* 0 is a legal key ((base + pos) XOR size with FIX_KEY, or a name whose FILE_KEY hash is 0), and it is also what read_file
\* passes down for "not encrypted".  The writer encrypts the offset table with key - 1 = 0xFFFFFFFF and sector j with
\* key + j whatever the key is.  ReaderDecryptsOn = "key" is the must-refute variant (`encrypted = key != 0`,
\* MC_MpqBuild_negzkey): a sectored file whose key is exactly 0 then comes back as the stored bytes.
ReaderDecryptsOn == "flag"
ReaderTakesEncrypted(b, rkey) == IF ReaderDecryptsOn = "flag" THEN "ENCRYPTED" \in b.flags ELSE rkey # <<0, 0>>
DevZeroKeyTakenAsPlain(b, rkey) == "ENCRYPTED" \in b.flags /\ ~ReaderTakesEncrypted(b, rkey) /\ ~b.single

\* Outcome class of reading block b under name nm:
\*   "exact" | "err:limit" | "err:codec" | "err:crc" | "panic" | "zerofill" (F-C01-c) | "table-prepended" | "garbage"
ReadBlock(b, nm) ==
  LET rkey  == IF "ENCRYPTED" \in b.flags THEN KeyFor(nm, "FIX_KEY" \in b.flags, b.pos, b.fsize) ELSE <<0, 0>>
      keyOk == "ENCRYPTED" \notin b.flags \/ (rkey = b.key /\ ~DevZeroKeyTakenAsPlain(b, rkey)) IN
  IF ReaderDirect(b) THEN
     IF ~b.single THEN (IF "ENCRYPTED" \in b.flags THEN "garbage" ELSE "table-prepended")   \* reads csize bytes: table + data
     ELSE IF ~keyOk THEN "garbage"
     ELSE IF "COMPRESS" \in b.flags THEN
          IF b.csize = b.fsize THEN (IF b.secs[1].shrunk THEN "garbage" ELSE "exact")        \* the shortcut
          ELSE IF UnitRejected(b, 1) THEN "err:limit"
          ELSE IF DecodeClass(b.method) = "panic" THEN "panic"
          ELSE IF DecodeClass(b.method) = "err" THEN "err:codec"
          ELSE IF DevLossyCrc(b) THEN "err:crc"
          ELSE "exact"
     ELSE "exact"
  ELSE \* sectored
     IF ~keyOk THEN "garbage"
     ELSE IF \E j \in 1..Len(b.secs) : ReaderSectorCompressed(b, j) # b.secs[j].shrunk THEN "garbage"
     ELSE IF AnyShrunk(b.secs) /\ DecodeClass(b.method) = "panic" THEN "panic"
     \* a sector that fails to decode ends the read with its error (5c764f6; before that the sector was replaced by
     \* zeros and the read returned Ok: outcome "zerofill", F-C01-c)
     ELSE IF DevLimitRejectsOwnOutput(b) THEN "err:limit"
     ELSE IF AnyShrunk(b.secs) /\ DecodeClass(b.method) = "err" THEN "err:codec"
     ELSE "exact"

\* ---------------------------------------------------------------------------------------------
\* HET / BET table compression (builder.rs:write_het_table / write_bet_table vs tables/het.rs, bet.rs:read), V3/V4 with
\* compress_tables(true).  n = table bytes behind the 12-byte extended header, c = codec output length.
\* The builder calls compress() -- which already returns either the raw bytes or <<m>> \o payload -- and then prepends
\* the method byte AGAIN.  The reader takes the table as compressed iff the declared size exceeds the stored size, and
\* then treats byte 0 as the method and the rest as payload.
TableStoredLen(n, c) == 1 + OutLen(n, c)
TableReaderSaysCompressed(n, c) == n > TableStoredLen(n, c)
\* "ignored": decode error, the table is dropped and lookups fall back to the classic tables (harmless);
\* "misaligned": the stored bytes (method byte + raw table) are parsed as the table, one byte off: header fields are
\*               garbage (e.g. flag_count -> a multi-gigabyte Vec::with_capacity);  "exact" would need one prefix only
TableOutcome(n, c) == IF TableReaderSaysCompressed(n, c)
                      THEN (IF StoresRaw(n, c) THEN "garbage" ELSE "ignored")          \* payload = <<m>> \o real payload
                      ELSE (IF StoresRaw(n, c) THEN "misaligned" ELSE "misaligned")
DevTableCompression(n, c) == TableOutcome(n, c) # "exact"                             \* F-C01-e: always
\* the dangerous half: the codec did not shrink the table, or shrank it by a single byte (then the second prefix
\* brings the stored size back to n and the reader takes <<m, m>> \o payload for the raw table)
TableMisaligned(n, c) == StoresRaw(n, c) \/ c = n - 2

\* ---------------------------------------------------------------------------------------------
\* BET file table: bit-packed entries (builder.rs:create_bet_table / tables/bet.rs:get_file_info).  The width of each
\* field is the number of bits of the LARGEST value of that field over all blocks (file position, file size, STORED
\* size -- which for a sectored file includes the offset table and the checksum sector and so can need more bits than
\* any file size --, index into the array of distinct flag words); an entry is the OR of the fields shifted to their
\* positions, the reader cuts the fields out again.
BitsNeeded(x) == IF x = 0 THEN 1 ELSE CHOOSE w \in 1..30 : x < 2^w /\ x >= 2^(w - 1)          \* calculate_bits_needed
MaxOf(S) == CHOOSE x \in S : \A y \in S : y <= x
FlagWord(fl) == (IF "SINGLE_UNIT" \in fl THEN 1 ELSE 0) + (IF "COMPRESS" \in fl THEN 2 ELSE 0)
                + (IF "ENCRYPTED" \in fl THEN 4 ELSE 0) + (IF "FIX_KEY" \in fl THEN 8 ELSE 0)
                + (IF "SECTOR_CRC" \in fl THEN 16 ELSE 0) + (IF "EXISTS" \in fl THEN 32 ELSE 0)
FlagWords(blocks) == {FlagWord(blocks[j].flags) : j \in 1..Len(blocks)}
FlagIndex(blocks, fl) == Cardinality({x \in FlagWords(blocks) : x < FlagWord(fl)})          \* position in the sorted array
\* which field the width of the stored-size column is taken from ("csize" in the code; a configuration that takes it from
\* "fsize" is the negative control MC_MpqBuild_negbet)
BetCsizeWidthSource == "csize"
BetWidths(blocks) ==
  [pos   |-> BitsNeeded(MaxOf({blocks[j].pos : j \in 1..Len(blocks)})),
   fsize |-> BitsNeeded(MaxOf({blocks[j].fsize : j \in 1..Len(blocks)})),
   csize |-> BitsNeeded(MaxOf({IF BetCsizeWidthSource = "csize" THEN blocks[j].csize ELSE blocks[j].fsize : j \in 1..Len(blocks)})),
   flag  |-> BitsNeeded(Cardinality(FlagWords(blocks)) - 1)]
BetPack(blocks, j) ==
  LET w == BetWidths(blocks)  b == blocks[j] IN
  b.pos | (b.fsize * 2^w.pos) | (b.csize * 2^(w.pos + w.fsize)) | (FlagIndex(blocks, b.flags) * 2^(w.pos + w.fsize + w.csize))
BetUnpack(blocks, v) ==
  LET w == BetWidths(blocks) IN
  [pos |-> v % 2^w.pos, fsize |-> (v \div 2^w.pos) % 2^w.fsize, csize |-> (v \div 2^(w.pos + w.fsize)) % 2^w.csize,
   flag |-> (v \div 2^(w.pos + w.fsize + w.csize)) % 2^w.flag]
\* width of one entry, and an upper bound of it from the largest member and the summed member lengths (positions and
\* stored sizes are below total + tables, file sizes below the largest member)
BetEntryWidth(blocks) == LET w == BetWidths(blocks) IN w.pos + w.fsize + w.csize + w.flag
BetEntryWidthBound(maxlen, total) == 2 * (BitsNeeded(maxlen) + 1) + BitsNeeded(total) + 1 + 3
\* As coded since b2fa63f the four fields are written one by one at their bit positions, so the entry width is not
\* limited.  Kept as a deviation that the traces must refute (F-C01-g): before that, create_bet_table assembled the entry
\* in a u64 (`x << bit_index`), which overflows -- a panic in debug builds, dropped bits in release builds -- as soon as
\* the entry is wider than 64 bits.  A V3/V4 build that panics in that region is reported under this name, and the
\* finding being "fixed" makes it a violation.
DevBetEntryOver64(blocks) == BetEntryWidth(blocks) > 64
BetEntryExact(blocks, j) ==
  BetUnpack(blocks, BetPack(blocks, j)) =
    [pos |-> blocks[j].pos, fsize |-> blocks[j].fsize, csize |-> blocks[j].csize, flag |-> FlagIndex(blocks, blocks[j].flags)]

\* ---------------------------------------------------------------------------------------------
\* state machine

VARIABLES vph,      \* "writing" | "hashing" | "built" | "failed"
          vfiles,   \* the files to add (chosen in Init)
          vcrc,     \* generate_crcs
          vcur,     \* index of the file being written
          vsecs,    \* sectors of the current file written so far
          vpos,     \* write cursor
          vblocks,  \* block table
          vslots,   \* hash table
          vhet,     \* HET table
          vbeth,    \* BET name hashes, one per file index
          vlk,      \* the lookup in progress: [st, kind, file, sp, name, cands, blk, via]
          vlast     \* the last observation of the reader: [kind, file, sp, out, via]
bvars == <<vph, vfiles, vcrc, vcur, vsecs, vpos, vblocks, vslots, vhet, vbeth, vlk, vlast>>

NoObs == [kind |-> "none", file |-> 0, sp |-> "asis", out |-> "-", via |-> "-"]
Idle  == [st |-> "idle", kind |-> "none", file |-> 0, sp |-> "asis", name |-> <<>>, cands |-> <<>>, blk |-> 0, via |-> "-"]
HeaderSize == 32

\* compressed-size choices per compressibility class, incl. the store-raw boundary
CompChoices(cls, r) == CASE cls = "run"    -> {1, 2}
                         [] cls = "edge"   -> IF r <= 1 THEN {1} ELSE {c \in {r - 3, r - 2, r - 1} : c >= 1}
                         [] cls = "random" -> {r + 3}

BInitWith(FileSeqs) ==
  /\ vfiles \in FileSeqs /\ vcrc \in BOOLEAN
  /\ vph = "writing" /\ vcur = 1 /\ vsecs = <<>> /\ vpos = HeaderSize
  /\ vblocks = <<>> /\ vslots = [ix \in 0..(TableSize - 1) |-> Empty] /\ vlast = NoObs
  /\ vhet = [ix \in 0..(HetSize - 1) |-> EmptyHet] /\ vbeth = <<>> /\ vlk = Idle

CurFile == vfiles[vcur]

\* compress() returns Err: build() reports an error, no archive
BuildFailCodec ==
  /\ vph = "writing" /\ BuildRefuses(CurFile)
  /\ vph' = "failed" /\ UNCHANGED <<vfiles, vcrc, vcur, vsecs, vpos, vblocks, vslots, vhet, vbeth, vlk, vlast>>

FinishWith(secs) ==
  /\ vblocks' = Append(vblocks, MkBlock(CurFile, vcrc, secs, vpos))
  /\ vpos' = vpos + WriterSpan(CurFile, vcrc, secs)
  /\ vph' = "hashing" /\ vsecs' = <<>>
  /\ UNCHANGED <<vfiles, vcrc, vcur, vslots, vhet, vbeth, vlk, vlast>>

WriteSingleUnit ==
  /\ vph = "writing" /\ ~BuildRefuses(CurFile) /\ IsSingleUnit(CurFile.len)
  /\ \E c \in CompChoices(CurFile.cls, CurFile.len) : FinishWith(<<StoredUnit(CurFile.len, c, CurFile.method)>>)

WriteSector ==
  /\ vph = "writing" /\ ~BuildRefuses(CurFile) /\ ~IsSingleUnit(CurFile.len)
  /\ Len(vsecs) < SectorCount(CurFile.len)
  /\ LET r == SectorRaw(CurFile.len, Len(vsecs) + 1) IN
     \E c \in CompChoices(CurFile.cls, r) : vsecs' = Append(vsecs, StoredUnit(r, c, CurFile.method))
  /\ UNCHANGED <<vph, vfiles, vcrc, vcur, vpos, vblocks, vslots, vhet, vbeth, vlk, vlast>>

FinishFile ==
  /\ vph = "writing" /\ ~IsSingleUnit(CurFile.len) /\ Len(vsecs) = SectorCount(CurFile.len)
  /\ FinishWith(vsecs)

AddHash ==
  /\ vph = "hashing"
  /\ LET ins == Insert(vslots, CurFile.name, vcur)
         hin == HetInsert(vhet, CurFile.name, vcur)
     IN
     IF ins.ok /\ (hin.ok \/ ~UseHetBet)
     THEN /\ vslots' = ins.slots /\ vcur' = vcur + 1
          /\ vhet' = IF UseHetBet THEN hin.het ELSE vhet
          /\ vbeth' = IF UseHetBet THEN Append(vbeth, BetWriterHash(CurFile.name)) ELSE vbeth
          /\ vph' = IF vcur = Len(vfiles) THEN "built" ELSE "writing"
     ELSE /\ vph' = "failed" /\ UNCHANGED <<vslots, vcur, vhet, vbeth>>          \* "Duplicate file in archive" / "HET table full"
  /\ UNCHANGED <<vfiles, vcrc, vsecs, vpos, vblocks, vlk, vlast>>

\* ---- reader: archive.find_file as a little machine -------------------------------------------------------------
BeginLookup(kind, i, sp, nm) ==
  /\ vph = "built" /\ vlk.st = "idle"
  /\ vlk' = [Idle EXCEPT !.st = IF UseHetBet THEN "het" ELSE "classic", !.kind = kind, !.file = i, !.sp = sp, !.name = nm]
  /\ UNCHANGED <<vph, vfiles, vcrc, vcur, vsecs, vpos, vblocks, vslots, vhet, vbeth, vlast>>
ReadFile(i, sp)    == BeginLookup("file", i, sp, Spell(vfiles[i].name, sp))
ReadAbsent(nm, sp) == BeginLookup("absent", 0, sp, Spell(nm, sp))

HetProbe ==
  /\ vlk.st = "het"
  /\ vlk' = [vlk EXCEPT !.st = "bet", !.cands = HetCandidates(vhet, vlk.name)]
  /\ UNCHANGED <<vph, vfiles, vcrc, vcur, vsecs, vpos, vblocks, vslots, vhet, vbeth, vlast>>
BetVerify ==
  /\ vlk.st = "bet"
  /\ LET hit == BetFirstVerified(vbeth, vlk.cands, vlk.name) IN
     vlk' = IF hit # 0 THEN [vlk EXCEPT !.st = "found", !.blk = hit, !.via = "hetbet"]
            ELSE [vlk EXCEPT !.st = "classic"]                 \* "no candidate matched": fall back while hash tables exist
  /\ UNCHANGED <<vph, vfiles, vcrc, vcur, vsecs, vpos, vblocks, vslots, vhet, vbeth, vlast>>
ClassicFallback ==
  /\ vlk.st = "classic"
  /\ vlk' = [vlk EXCEPT !.st = "found", !.blk = Lookup(vslots, vlk.name), !.via = "classic"]
  /\ UNCHANGED <<vph, vfiles, vcrc, vcur, vsecs, vpos, vblocks, vslots, vhet, vbeth, vlast>>
\* read_file on the block that find_file returned
Deliver ==
  /\ vlk.st = "found"
  /\ vlast' = [kind |-> vlk.kind, file |-> vlk.file, sp |-> vlk.sp, via |-> vlk.via,
               out |-> IF vlk.blk = 0 THEN "notfound" ELSE ReadBlock(vblocks[vlk.blk], vlk.name)]
  /\ vlk' = Idle
  /\ UNCHANGED <<vph, vfiles, vcrc, vcur, vsecs, vpos, vblocks, vslots, vhet, vbeth>>

\* ---------------------------------------------------------------------------------------------
\* invariants

\* the reader re-derives the writer's layout -- except in the named deviation (none with FlagFix)
LayoutAgreement == \A j \in 1..Len(vblocks) :
                      ReaderLayout(vblocks[j]) = WriterLayout(vblocks[j]) \/ DevSectoredNoCompressFlag(vblocks[j])
FixRemovesDeviation == FlagFix => \A j \in 1..Len(vblocks) : ~DevSectoredNoCompressFlag(vblocks[j])
\* the writer's COMPRESS + size arithmetic makes the reader's shortcut and per-sector test sound
ShortcutUnreachable == \A j \in 1..Len(vblocks) : LET b == vblocks[j] IN
                          (b.single /\ "COMPRESS" \in b.flags) => b.csize < b.fsize
SectorTestSound == \A j \in 1..Len(vblocks) : \A q \in 1..Len(vblocks[j].secs) :
                      (vblocks[j].secs[q].st < vblocks[j].secs[q].r) <=> vblocks[j].secs[q].shrunk
\* stored never exceeds raw plus the table
StoredBound == \A j \in 1..Len(vblocks) : LET b == vblocks[j] IN
                  b.csize <= b.fsize + (IF b.single THEN 0 ELSE OffsetTableSize(b.fsize, b.crc) + CrcSectorSize(b.fsize, b.crc))
\* files do not overlap
NoOverlap == \A j \in 1..Len(vblocks) : vblocks[j].pos + vblocks[j].csize <= (IF j < Len(vblocks) THEN vblocks[j+1].pos ELSE vpos)
\* every added name sits in exactly one slot, every spelling finds its block
TableWellFormed == (vph = "built" /\ vlast = NoObs /\ vlk = Idle) =>
  \A i \in 1..Len(vfiles) : /\ Cardinality({ix \in DOMAIN vslots : vslots[ix].blk = i}) = 1
                            /\ \A sp \in Spellings : Lookup(vslots, Spell(vfiles[i].name, sp)) = i
\* the key the reader derives from the spelled name and the block entry is the writer's key
KeyAgreement == (vph = "built" /\ vlast = NoObs /\ vlk = Idle) => \A i \in 1..Len(vfiles) : \A sp \in Spellings :
  LET b == vblocks[i] IN KeyFor(Spell(vfiles[i].name, sp), "FIX_KEY" \in b.flags, b.pos, b.fsize) = b.key

\* THE PROPERTY on the model: every read of an added file under every spelling is exact, unless a named
\* deviation applies to its block; an absent name is not found
Explained(b, out) ==
  \/ DevSectoredNoCompressFlag(b) /\ out \in {"table-prepended", "garbage"}
  \/ DevLimitRejectsOwnOutput(b) /\ out \in {"err:limit", "zerofill"}
  \/ DevCodec(b) /\ out \in {"panic", "err:codec", "zerofill"}
  \/ DevLossyCrc(b) /\ out = "err:crc"
ReadBack == vlast.kind = "file" => (vlast.out = "exact" \/ Explained(vblocks[vlast.file], vlast.out))
ReadBackNeverNotFound == vlast.kind = "file" => vlast.out # "notfound"
AbsentNotFound == vlast.kind = "absent" => vlast.out = "notfound"
\* an accepted build never holds two names with one lookup key (Insert refuses the second): what read_file returns for
\* a name is the file added under that name
DistinctKeys == vph = "built" => \A i \in 1..Len(vfiles) : \A j \in 1..Len(vfiles) :
                   (i # j) => (NameHash(vfiles[i].name).a # NameHash(vfiles[j].name).a \/ NameHash(vfiles[i].name).b # NameHash(vfiles[j].name).b)
\* every BET entry gives the reader back the block's position, sizes and flag word (field widths are sufficient, fields
\* do not spill into their neighbours)
BetRoundTrip == (UseHetBet /\ vph = "built" /\ vlast = NoObs /\ vlk = Idle) => \A j \in 1..Len(vblocks) : BetEntryExact(vblocks, j)
\* the reader accepts the checksum sector of every sectored file with sector checksums: its size is 4 per sector, which
\* exceeds the sector size as soon as the file has more than SectorSize / 4 sectors (the test in read_sectored_file is
\* stored <= 4 * sectors, NOT bounded by the sector size)
CrcSectorAccepted == \A j \in 1..Len(vblocks) : LET b == vblocks[j] IN
                        (~b.single /\ b.crc) => CrcSectorSize(b.fsize, TRUE) <= 4 * Len(b.secs)
CrcSectorMayExceedSector == TRUE    \* (documented: MC reaches files with 4 sectors of size 4, checksum sector 16 bytes)
\* the HET/BET path: whatever it answers is the file that was asked for (never another file, never an absent name)
HetBetAnswersOwn == (vlk.st = "found" /\ vlk.via = "hetbet") => (vlk.kind = "file" /\ vlk.blk = vlk.file)
\* with lookup3 values in the BET table the HET/BET path answers for every added name under every spelling
\* (except names whose 8-bit hash is the free marker)
BetFixAnswers == (BetFix /\ UseHetBet /\ vlk.st = "found" /\ vlk.kind = "file") =>
                    (vlk.via = "hetbet" \/ \E i \in 1..Len(vfiles) : DevHet8FF(vfiles[i].name))
\* named deviation DevBetHashMismatch (builder before the fix): the stored one-at-a-time values never verify, every
\* lookup falls back to the classic tables
DevBetHashMismatch == ~BetFix
AsIsAlwaysFallsBack == (DevBetHashMismatch /\ vlk.st = "found") => vlk.via = "classic"
=============================================================================
