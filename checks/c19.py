"""C19 -- the StormLib-style C API is memory-safe, deadlock-free, invalidates handles on close and agrees
with the Rust API (specs/StormFfi.tla, one action per critical section of ffi/storm-ffi/src/lib.rs)."""
import concurrent.futures as cf
import json
import os

from vlib import core

META = {
    "level": "model_checking",
    "level_text": "StormFfi.tla models the three handle tables, the id counter, the four Mutexes (owner per lock), per-thread program "
                  "counters and last error, with one action per critical section of lib.rs. Stage A: TLC checks the machine as written "
                  "(Dev = {}: lib.rs after fix commits 872df55 d1f6866 def3ee6, wow-mpq 20d617c) exhaustively in small scope (quick: 2 threads x 2 calls over the lock-relevant functions and 1 thread x 2 calls over all 23 call kinds; "
                  "thorough adds 1 x 3, 3 threads x 1 call, and 2 x 2 over all functions; handles range over NULL / valid / closed / other-table / never-issued): deadlock freedom (TLC deadlock check), "
                  "no wait cycle, CloseInvalidatesOwn, cursor in 0..len, unique ids; and checks that each named deviation (the code before each fix commit: CloseSplit, "
                  "NoFindPurge, FindLate, FindNextNested, VerifyRelock, ProbeForever, HasFileStale; and the mutants CloseFileNested, GetInfoNested, OpenFileGap) "
                  "is refuted with a counterexample. Stage B: TLC emits every single call x handle class x buffer/offset class after a fixed setup history, "
                  "forged handles derived from live ones (upper-bit aliases etc.) on every entry point, archived names of 259/260/261/1024 bytes, "
                  "search masks x interleaved listings, cross-archive frame histories (every mutating call on one archive, probes of the handles of "
                  "two others holding same-named files), a lock-trace family (every function x handle class with the held locks probed at each "
                  "verif_sync point), "
                  "close-then-any-call pairs, cursor-observer pairs, id-allocation chains after a close, three-archive close histories, multi-sector "
                  "(9000-byte) read/seek histories, sampled pairs, simulated single-thread histories (<= 5 calls) and 2-thread programs, plus the "
                  "counterexample schedules (replayed turn by turn through the verif_sync hook). "
                  "Stage C: the real extern \"C\" functions are driven with canary-guarded buffers in a child process (hang / abort = data). "
                  "Stage D: TLC searches, for every recorded Inv/Ret history, an execution of the machine (Dev = {}) that explains it "
                  "(linearisation search); contents, sizes, names, existence are compared with what the Rust API reported; canaries intact, C strings "
                  "NUL-terminated inside their arrays, and the observed per-call lock trace (lock requested + locks held at each acquisition) must "
                  "EQUAL the one the spec's actions produce (LockHeldAcross) and respect the lock order (LockOrderRespected).",
    "level_note": "No memory-safety proof: canaries, crash isolation and the watchdog are testing aids. TLC counterexample schedules are "
                  "replayed exactly through the verif_sync hook (without the hook: start order + an SFileEnumFiles-callback gate on ARCHIVES); "
                  "simulated 2-thread programs run free. File contents are explicit byte sequences (<= 40 bytes, plus one 9000-byte multi-sector "
                  "family). In multi-thread histories the events after the first rejected one are not examined (single-thread histories are "
                  "validated to their end; later mismatches are listed as secondary). A read failure of SFileOpenFileEx/ExtractFile on a writable "
                  "archive is accepted when the Rust API fails on the same name (wow-mpq cannot read back a compressed file added in the session).",
    "technique": "TLA+ state machine with lock owners and per-thread pcs, TLC exhaustive check + counterexample export; "
                 "model-based test generation; linearisation-search trace validation by TLC",
    "design_ref": "DESIGN.md section 5 C19, appendix A.2",
    "crates": ["c19"],
    "disabled": False,
}

AS_CODED_ONLY = ("M_CA_PurgeFiles_Split", "M_CA_Remove_Split", "M_FF_Fill_Late", "M_CF_Acquire", "M_CF_Remove")   # deviation-only actions
# single-lock functions left out of the quick 2-/3-thread configurations (they are covered by the 1-thread one)
LIGHT = ("M_EnumFiles", "M_ExtractFile", "M_FlushArchive", "M_GetArchiveName", "M_GetFileName", "M_GetFileSize", "M_HasFile",
         "M_RemoveFile", "M_RenameFile", "M_SetFilePointer", "M_VerifyFile", "M_CloseFile", "M_GI_File", "M_GI_Archive", "M_FindClose")
# deviation -> (cfg suffix, what TLC must report)
DEVS = {
    "VerifyRelock": "NoSelfDeadlock",
    "CloseSplit": "CloseInvalidatesOwn",
    "NoFindPurge": "CloseInvalidatesOwn",
    "FindLate": "CloseInvalidatesOwn",
    "FindNextNested": "NoWaitCycle",
    "ProbeForever": "NoHang",
    "HasFileStale": "ExistenceAgrees",
    "OpenFileGap": "CloseInvalidatesOwn",   # seeded/C19-s9: ARCHIVES dropped between the lookup and the insert into FILES
    "GetInfoNested": "NoWaitCycle",        # seeded/C19-s4: FILES kept while ARCHIVES is looked up in SFileGetFileInfo
    "CloseFileNested": "NoWaitCycle",      # lock-order mutant (selftest/C19/mutant-6.diff): FILES -> ARCH against ARCH -> FILES
}
# actions of the as-written machine that start with a lock acquisition (= one verif_sync point each)
NO_SYNC = {"MCInvoke", "M_OA_Open", "M_CA_Null", "M_OF_Null", "M_VA_Null", "M_FF_Null", "M_FN_Null", "Terminated"}
ARCH_FIRST = {"M_OF_Lookup", "M_CA_Remove_Split", "M_CA_Remove", "M_FF_List", "M_VA_Begin", "M_FN_Fill", "M_HasFile", "M_AddFile"}
LATE_FIRST = {"M_CF_Acquire"}     # threads that must reach their first lock before the ARCHIVES gate opens


def _dev_run(ctx, dev, expect):
    """Model-check the machine with ONE deviation of the code enabled; TLC must find the expected violation.
    Returns a case (programs + schedule) built from TLC's counterexample."""
    cfg = f"MC_StormFfi_dev{dev}"
    dump = ctx.path(f"cex-{dev}.json")
    rc, text = ctx.tlc("MC_StormFfi", cfg, workers=2, timeout=300, extra=("-dumpTrace", "json", dump), tag="dev-" + dev)
    ok = (f"Invariant {expect} is violated" in text) or (expect == "Deadlock" and "Deadlock reached" in text)
    if not ok or not os.path.exists(dump):
        raise core.ToolError(f"stage A: deviation {dev} no longer yields the expected counterexample ({expect}):\n" + core._tail(text))
    cex = json.load(open(dump))["counterexample"]
    progs, turns, first_arch = {}, [], []
    init = cex["state"][0][1] if cex.get("state") else cex["action"][0][0][1]
    for pre, act, post in cex["action"]:
        t = act["context"].get("t")
        if t is None:
            continue
        T = t.upper()
        if act["name"] == "MCInvoke":
            fr = post[1]["vfr"][t]
            progs.setdefault(T, []).append({"fn": fr["fn"], "h": fr["h"], "name": fr["name"], "n1": fr["n1"],
                                            "n2": 0 if fr["fn"] == "OpenArchive" else fr["n2"], "dat": fr["dat"]})
        if act["name"] not in NO_SYNC:
            turns.append(T)
        if act["name"] in ARCH_FIRST and T not in first_arch:
            first_arch.append(T)
    order = first_arch + [T for T in sorted(progs) if T not in first_arch]
    # after the schedule: probe every file / search handle the final state of the model still (or no longer) holds,
    # and every handle the programs obtained
    last = cex["action"][-1][2][1]
    post = []
    def keys(tab):
        return [int(k) for k in tab] if isinstance(tab, dict) else list(range(1, len(tab) + 1))
    ids = set(keys(init["vfiles"])) | set(keys(init["vfinds"])) | set(keys(last["vfiles"])) | set(keys(last["vfinds"]))
    ids |= set(range(init["vnext"], last["vnext"] + 2))
    for h in sorted(ids):
        post.append({"fn": "GetFileSize", "h": h, "name": "", "n1": 0, "n2": 0, "dat": []})
        post.append({"fn": "FindNext", "h": h, "name": "", "n1": 0, "n2": 0, "dat": []})
    pre = len(init["varch"]) + len(init["vfiles"]) + len(init["vfinds"])
    return {"kind": "mt" if len(progs) > 1 else "seq", "label": "cex:" + dev, "preopen": pre, "prog": progs,
            "turns": turns, "order": order, "gate": len(progs) > 1, "post": post, "steps": [[a["context"].get("t", "-"), a["name"]] for _, a, _ in cex["action"]]}


def _sim(ctx, cfg, num, name):
    """TLC -simulate (seeded): every behaviour ends with one printed CASE line = one case."""
    rc, text = ctx.tlc("Gen_StormFfi", cfg, workers=1, timeout=900, simulate=f"num={num}",
                       extra=("-seed", str(ctx.seed), "-depth", "150"), tag="sim-" + cfg)
    out = ctx.path(name)
    n = 0
    with open(out, "w") as f:
        for line in text.splitlines():
            line = line.strip()
            if line.startswith('"CASE '):
                f.write(json.dumps(json.loads(json.loads(line)[5:])) + "\n")
                n += 1
    if n == 0:
        raise core.ToolError(f"stage B: simulation {cfg} produced no case:\n" + core._tail(text))
    core.log(f"(B) {cfg}: {n} simulated behaviours")
    return out, n


def _sig_fn(trace_recs):
    def sig(b):
        ln = b["line"] - 1
        rec = b["rec"]
        start = b.get("reset_line", 1) - 1
        hist = trace_recs[start:ln + 1]
        label = b.get("reset", {}).get("label", "")
        kind = b.get("reset", {}).get("kind", "")
        inv = None
        for r in reversed(hist[:-1]):
            if r.get("ev") == "Inv" and r.get("th") == rec.get("th"):
                inv = r
                break
        s = {"ev": rec.get("ev"), "fn": rec.get("fn", ""), "st": rec.get("st", ""), "kind": kind, "cls": "other",
             "why": b.get("why", "").strip('"')}
        if rec.get("ev") != "Ret":
            return s
        if rec.get("canary") is False or rec.get("nul") is False:
            s["cls"] = "canary" if rec.get("canary") is False else "no_nul"
            # which archived name the file handle of an SFileGetFileName call belongs to (length class n<bytes>)
            fname, pend2 = {}, {}
            for r in hist:
                if r.get("ev") == "Inv":
                    pend2[r["th"]] = r
                elif r.get("ev") == "Ret" and r.get("fn") == "OpenFileEx" and r.get("ret", 0) > 0 and r["th"] in pend2:
                    fname[r["ret"]] = pend2[r["th"]]["name"]
            nm = fname.get(inv["h"], "") if inv else ""
            s["longname"] = nm.startswith("n") and nm[1:].isdigit() and int(nm[1:]) >= 260
            return s
        if rec.get("lt") and rec.get("st") == "ok":
            # lock-trace family: always show the observed lock trace of the rejected call
            s["locks"] = "/".join(x["l"] + ("<" + "+".join(x["held"]) if x["held"] else "") for x in rec.get("locks", []))
        if "lockheld" in s["why"]:
            s["cls"] = "lock_trace_differs"  # the locks held at the call's acquisitions differ from the spec's lock trace
            s["locks"] = "/".join(x["l"] + ("<" + "+".join(x["held"]) if x["held"] else "") for x in rec.get("locks", []))
            return s
        if "lockorder" in s["why"]:
            s["cls"] = "lock_order"          # a lock requested while a lock that must come after it was held
            s["locks"] = "/".join(x["l"] + ("<" + "+".join(x["held"]) if x["held"] else "") for x in rec.get("locks", []))
            return s
        # bookkeeping over the history: which archive every file / search handle belongs to, what was closed / mutated
        owner, closed, mutated, mut_arch = {}, set(), set(), set()
        pend = {}
        hung = []
        for r in hist:
            if r.get("ev") == "Inv":
                pend[r["th"]] = r
            elif r.get("ev") == "Ret":
                i = pend.get(r["th"])
                if not i:
                    continue
                if r["st"] != "ok":
                    hung.append((i["fn"], i["n1"]))
                    continue
                if i["fn"] in ("OpenFileEx", "FindFirst") and r["ret"] > 0:
                    owner[r["ret"]] = i["h"]
                if i["fn"] == "OpenArchive" and i["n1"] == 1 and r["ret"] > 0:
                    mut_arch.add(r["ret"])
                if i["fn"] == "CloseArchive" and r["ret"] == 1 and r is not rec:
                    closed.add(i["h"])
                if i["fn"] in ("AddFile", "RemoveFile", "RenameFile") and r["ret"] == 1:
                    mutated.add(i["h"])
        if rec["st"] != "ok":
            culprit = rec["fn"]
            if any(f == "VerifyArchive" and n1 == 1 for f, n1 in hung):
                culprit = "VerifyArchive(ALL_FILES)"
            elif any(f == "AddFile" for f, _ in hung):
                culprit = "AddFile"
            s["cls"] = "nonreturn"
            s["culprit"] = culprit
            s["fill"] = label == "fill"
            s["fn"] = culprit          # which thread's Ret is logged first is incidental
            return s
        if inv is not None and inv.get("hf", 0) != 0:
            s["cls"] = "forged_handle_accepted"      # a value derived from a live handle (upper-bit alias ...) was not refused
            s["forge"] = inv["hf"]
            return s
        if inv is not None:
            h = inv["h"]
            if rec["fn"] in ("HasFile", "VerifyFile") and h in mutated and h in mut_arch:
                s["cls"] = "stale_snapshot_after_mutation"
            elif rec["fn"] in ("FindNext", "FindClose") and owner.get(h) in closed and rec["err"] != "invalid_handle":
                s["cls"] = "search_handle_of_closed_archive"
            elif rec["fn"] in ("ReadFile", "CloseFile", "GetFileSize", "SetFilePointer", "GetFileName", "GetFileInfo") \
                    and owner.get(h) in closed and rec["err"] != "invalid_handle":
                s["cls"] = "file_handle_of_closed_archive"
        return s
    return sig


def run(ctx, cases_override=None):
    quick = not ctx.thorough
    try:
        hooked = "pub fn verif_set_sync" in open(os.path.join(core.repo_root(), "ffi/storm-ffi/src/lib.rs")).read()
    except OSError:
        hooked = False
    # ---------------------------------------------------------------- stage A (parallel with the build)
    ex = cf.ThreadPoolExecutor(max_workers=8)
    fut_build = ex.submit(ctx.build, "c19")
    mcs = [("MC_StormFfi", 4, 800)] + ([("MC_StormFfi_seq", 4, 600)] if True else [])
    if ctx.thorough:
        mcs += [("MC_StormFfi_seq3", 4, 900), ("MC_StormFfi_t3", 4, 1500), ("MC_StormFfi_full", 6, 1700)]
        # MC_StormFfi_t3full.cfg (3 threads x 1 call, all functions; 2.28 M states, 8 min on an idle box) is kept for manual runs
    fut_mc = [ex.submit(ctx.mc, "MC_StormFfi", cfg, workers=w, timeout=to,
                        allow_uncovered=AS_CODED_ONLY + (LIGHT if cfg in ("MC_StormFfi", "MC_StormFfi_t3") else ()))
              for cfg, w, to in mcs]
    fut_dev = {d: ex.submit(_dev_run, ctx, d, e) for d, e in DEVS.items()}
    # ---------------------------------------------------------------- stage B
    if cases_override:
        cases = cases_override
    else:
        nsim = (60, 60) if quick else (600, 400)
        f_enum = ex.submit(ctx.gen, "Gen_StormFfi", None, {"GEN_MODE": "enum"}, 600, "enum.ndjson")
        f_seq = ex.submit(_sim, ctx, "Gen_StormFfi_seq", nsim[0], "simseq.ndjson")
        f_mt = ex.submit(_sim, ctx, "Gen_StormFfi_mt", nsim[1], "simmt.ndjson")
        parts = [f_enum.result()[0], f_seq.result()[0], f_mt.result()[0]]
        allc = []
        for p in parts:
            allc += [json.loads(l) for l in open(p)]
        # the counterexample schedules found by TLC on the as-written machine (stage A) are cases as well
        setup5 = next(c["setup"] for c in allc if len(c.get("setup", [])) == 11)
        disk = allc[0]["disk"]
        for d, f in fut_dev.items():
            c = f.result()
            n = {0: 0, 2: 2, 3: 4, 4: 5}.get(c.pop("preopen"), 5)      # table sizes -> length of the setup history
            c["setup"] = setup5[:n]
            c["disk"] = disk
            # with the verif_sync hook the schedule is replayed turn by turn (deterministic): few repetitions;
            # without it the threads are only steered (start order + ARCHIVES gate): best effort, more repetitions
            reps = 1 if c["kind"] == "seq" else ((2 if quick else 5) if hooked else (6 if quick else 25))
            for r in range(reps):
                allc.append(dict(c, rep=r))
        # bound the number of histories that hang on the unchanged tree (each costs one watchdog period)
        lim, kept, out = (4 if quick else 12), 0, []
        for c in allc:
            hangy = any(x["fn"] == "VerifyArchive" and x["n1"] == 1 and x["h"] == 1
                        for p in c["prog"].values() for x in p) and not str(c.get("label", "")).startswith("cex")
            if hangy:
                kept += 1
                if kept > lim:
                    continue
            out.append(c)
        cases = ctx.path("cases.ndjson")
        with open(cases, "w") as f:
            for i, c in enumerate(out):
                c["id"] = i
                c["prog"] = {k.upper(): v for k, v in c["prog"].items()}
                f.write(json.dumps(c) + "\n")
    ncases = sum(1 for _ in open(cases))
    for f in fut_mc:
        f.result()
    devs_seen = sorted(fut_dev)
    for f in fut_dev.values():
        f.result()
    binary = fut_build.result()
    ex.shutdown()
    # ---------------------------------------------------------------- stage C / D
    trace = ctx.harness(binary, cases, timeout=2400)
    recs = [json.loads(l) for l in open(trace)]
    res = ctx.validate("Trace_StormFfi", trace, timeout=1500)
    # single-thread histories are validated to their end (BAD + continue from the model's state): only the first
    # rejected event of a history decides; later ones may be consequences of it and are reported as secondary
    first, secondary = {}, []
    for b in sorted(res["bad"], key=lambda b: b["line"]):
        if b.get("reset_line") in first:
            secondary.append(b)
        else:
            first[b.get("reset_line")] = b
    res["bad"] = list(first.values())
    if secondary:
        ctx.notes.append(f"{len(secondary)} further mismatching event(s) after the first rejected event of their history (secondary, not counted): "
                         + ", ".join(f"line {b['line']} {b['rec'].get('fn')} {b['why']}" for b in secondary[:12]))
    fns, sts, kinds = {}, {}, {}
    for r in recs:
        if r["ev"] == "Ret":
            fns[r["fn"]] = fns.get(r["fn"], 0) + 1
            sts[r["st"]] = sts.get(r["st"], 0) + 1
        if r["ev"] == "Reset":
            kinds[r["kind"] + "/" + (r.get("label") or "")] = kinds.get(r["kind"] + "/" + (r.get("label") or ""), 0) + 1
    hook = any(r.get("hook") for r in recs if r["ev"] == "Reset")
    ctx.notes.append(f"verif_sync hook present in the tree under test: {hook}")
    ctx.notes.append("deviations of the as-written machine for which TLC produced a counterexample in this run: " + ", ".join(devs_seen))
    ctx.notes.append("out of scope: callbacks re-entering the API from SFileEnumFiles (the callback runs under ARCHIVES)")
    cov = {
        "traces_validated_against_impl": res["traces"],
        "samples": [json.loads(l) for l in open(cases).read().splitlines()[:2]] + recs[1:5],
        "evaluations": res["events"],
        "distinct_nontrivial": ncases,
        "rule": "one case = one TLC-generated call history (or set of thread programs) replayed on the real C API and validated by TLC as one "
                "trace; every case is non-trivial: it has a non-empty setup history (open archive(s), open file, open search) followed by the "
                "generated calls; families are counted in cases_by_kind (single, pair, closepair, cursorpair, allocchain, threearch, forged, "
                "longname, mask, xarch, lockorder, big, fill, sim, cex:<deviation>)",
        "exhaustive": False,
        "calls_by_function": fns, "results_by_status": sts, "cases_by_kind": kinds,
    }
    assumptions = ["the id allocation scheme is not part of the property (any fresh non-zero id is accepted)",
                   "buffers without a length argument (SFileGetFileName, SFILE_FIND_DATA.cFileName) are MAX_PATH = 260 chars, as in StormLib",
                   "lock probing: a table lock counts as held when a helper call that needs it gives no answer for 500 ms while the caller is parked",
                   "file contents <= 40 bytes; oversize read requests are served from a 256-byte guarded buffer",
                   "created and built archives are format V1..V4 (seeded); contents after flush/compact are re-read through the Rust API (Sync)"]
    return core.finish(ctx, "model_checking", cov, assumptions, res["bad"], sig_fn=_sig_fn(recs), trace=trace)


def replay(ctx, payload):
    # the replay file carries the whole rejected history; rebuild its case from the Inv events
    pre = payload.get("trace_prefix") or []
    rs = payload.get("reset") or {}
    progs, setup = {}, []
    for r in pre:
        if r.get("ev") == "Inv":
            c = {"fn": r["fn"], "h": r["h"], "name": r["name"], "n1": r["n1"], "n2": r["n2"], "dat": r["dat"]}
            (setup if r["th"] == "T0" else progs.setdefault(r["th"], [])).append(c)
    # handles in the log are real ids; in a fresh process they coincide with the model ids of the case
    case = {"id": 0, "kind": rs.get("kind", "seq"), "label": rs.get("label", ""), "disk": rs.get("disk"), "setup": setup, "prog": progs,
            "gate": len(progs) > 1}
    p = ctx.path("replay-cases.ndjson")
    with open(p, "w") as f:
        f.write(json.dumps(case) + "\n")
    return run(ctx, cases_override=p)
