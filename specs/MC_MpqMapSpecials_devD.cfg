\* hypothetical (round-4 seed 3): a big listfile is rewritten compressed and then read through the stale Archive object - TLC must exhibit a file of the map that the listfile does not name
CONSTANTS
  Names = {"a", "b"}
  Toks = {"t1"}
  LfBig = TRUE
  QDevs = {"lfstalebig"}
  MaxBlocks = 4
  StartKinds <- KindsQuick
SPECIFICATION MCSpec
CONSTRAINT Bound
INVARIANT ListfileComplete
CHECK_DEADLOCK FALSE
