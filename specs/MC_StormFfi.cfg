\* intended machine (Dev = {}): every invariant holds, no deadlock; 2 threads x 3 calls, core handle API
CONSTANTS
  Threads = {t1, t2}
  ArchFiles = {"A", "B"}
  Names = {"x", "y"}
  Dev = {}
  Budget = 3
  CallFns = {"OpenArchive", "CloseArchive", "OpenFileEx", "ReadFile", "FindFirst", "FindNext", "VerifyArchive"}
  MaxOpen = 4
  HashCap = 2
INIT MCInit
NEXT MCNext
SYMMETRY Symm
INVARIANTS TypeOK CloseInvalidatesOwn NoOrphans CursorInRange IdsUnique NoSelfDeadlock NoHang NoWaitCycle LocksOwned ExistenceAgrees ReadCopiesMin InvalidReported
CHECK_DEADLOCK TRUE
