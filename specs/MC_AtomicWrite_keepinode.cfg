CONSTANTS
  Paths = {"D", "T1", "T2"}
  Fds = {3, 4, 5, 6, 7}
  NW = 3
  NF = 2
  MaxFaults = 3
  Ops = {"compact"}
  Strategy = "keep_inode"
  SkipUnreadable = FALSE
  StrictErr = FALSE
  DirtySession = FALSE
INIT Init
NEXT Next
CHECK_DEADLOCK FALSE
INVARIANT TypeOK
INVARIANT DestPrevOrNew
INVARIANT NoWriteToDest
