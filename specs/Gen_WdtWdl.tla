----------------------------- MODULE Gen_WdtWdl -----------------------------
(* Stage (B) for C18: TLC enumerates the shape space of the quantifier -- WDT / WDL definitions    *)
(* that are valid for their version (WdtValid / WdlValid of the specification decide), over every  *)
(* version, optional chunk, flag, list cardinality class and grid class -- and the coordinate case.*)
(* quick = deterministic low-dimensional slices + a seed-rotated sample of the same set;           *)
(* thorough = the slices + a seed-rotated sample of 12 000 shapes + 80 heavy-grid shapes.           *)
EXTENDS WdtWdl, Json, IOUtils

Thorough == IOEnv.VERIF_TIER = "thorough"
Seed     == atoi(IOEnv.VERIF_SEED)

All == (0..63) \X (0..63)
\* a fixed pseudo-random looking, asymmetric set (no TLC randomness: cases must not depend on -seed)
Scatter(gk) == {<<(gi * 37 + gk * 11) % 64, (gi * gi * 5 + gi * 3 + gk) % 64>> : gi \in 0..40}
Grids == [empty |-> {}, c00 |-> {<<0,0>>}, c63_0 |-> {<<63,0>>}, c0_63 |-> {<<0,63>>}, c63_63 |-> {<<63,63>>},
          t10 |-> {<<1,0>>}, t01 |-> {<<0,1>>}, corners |-> {<<0,0>>, <<63,0>>, <<0,63>>, <<63,63>>},
          row0 |-> {<<gx, 0>> : gx \in 0..63}, col0 |-> {<<0, gy>> : gy \in 0..63},
          lshape |-> {<<gx, 2>> : gx \in 0..9} \cup {<<5, gy>> : gy \in 3..40},
          scatter |-> Scatter(Seed % 13),
          checker |-> {gt \in All : (gt[1] + gt[2]) % 2 = 0}, dense |-> All]
LightGrids == {"empty", "c00", "c63_0", "c0_63", "c63_63", "t10", "t01", "corners", "row0", "col0", "lshape", "scatter"}
HeavyGrids == {"checker", "dense"}
TileList(gset) == TileOrder(gset)
GridNames == DOMAIN Grids
GridLists == [gg \in GridNames |-> TileList(Grids[gg])]                 \* evaluated once per grid class

\* ---- WDT ---------------------------------------------------------------------------------------
WdtVers == {WdtVersions[gi] : gi \in 1..Len(WdtVersions)}
ExtraFlags == {{}, {2}, {4}, {8}, {16}, {32}, {64}, {128}, {256}, {32768}, {2, 4, 8}, {2, 16, 64, 128, 256}}
NameClasses == {<<>>, <<1>>, <<24>>, <<17, 3, 40>>, <<200, 9>>}
\* only combinations that can be valid are built (the filter WdtValid still decides)
WdtShapes(ggrids) ==
    {gd \in UNION {
        {[ver |-> gv, flags |-> gx \cup (IF gw THEN {1} ELSE {}) \cup (IF gm > 0 THEN {512} ELSE {}),
          hasMwmo |-> gw \/ HasTerrainMwmo(gv), names |-> gn,
          hasModf |-> gw, nModf |-> gf, hasMaid |-> gm > 0, nSec |-> gm, grid |-> gg] :
           gx \in {gxx \in ExtraFlags : FlagsValidFor(gxx, gv)},
           gm \in IF HasMaidChunk(gv) THEN {0, 5, 8} ELSE {0},
           gn \in IF gw \/ HasTerrainMwmo(gv) THEN NameClasses ELSE {<<>>},
           gf \in IF gw THEN {0, 1, 3} ELSE {0}, gg \in ggrids} : gv \in WdtVers, gw \in BOOLEAN} :
       WdtValid(gd)}

\* ---- WDL ---------------------------------------------------------------------------------------
WdlVers == {WdlVersions[gi] : gi \in 1..Len(WdlVersions)}
WdlShapes(ggrids) ==
    UNION {
      {[ver |-> gv, grid |-> gg, holesCls |-> gh, names |-> gn,
        nIdx |-> IF gn = <<>> THEN 0 ELSE gi, nPlace |-> IF gn = <<>> THEN 0 ELSE gp,
        nMldd |-> g1, nMlmd |-> g2, mode |-> gmo] :
         gg \in ggrids, gh \in IF HasMaho(gv) THEN {"none", "all", "some"} ELSE {"none"},
         gn \in IF HasWmoChunks(gv) THEN NameClasses ELSE {<<>>},
         gi \in {1, 3}, gp \in {0, 1, 3},
         g1 \in IF HasMlChunks(gv) THEN {0, 1, 3} ELSE {0}, g2 \in IF HasMlChunks(gv) THEN {0, 2} ELSE {0},
         gmo \in {"same", "latest"}} : gv \in WdlVers}
HolesOf(gtiles, gcls) == CASE gcls = "none" -> {} [] gcls = "all" -> gtiles
                           [] OTHER -> {gt \in gtiles : (gt[1] + 3 * gt[2]) % 3 # 1}

\* deterministic, seed-rotated selection of gcount elements of a set
PickSome(gset, gcount, gsalt) ==
    LET gseq == SetToSeq(gset)  gl == Len(gseq)
        gstride == IF gl > 7919 THEN 7919 ELSE 997 IN
    IF gl <= gcount THEN gset
    ELSE {gseq[((Seed * 131 + gsalt + gj * gstride) % gl) + 1] : gj \in 1..gcount}

WdtLight == WdtShapes(LightGrids)
WdtHeavy == WdtShapes(HeavyGrids)
WdlLight == WdlShapes(LightGrids)
WdlHeavy == WdlShapes(HeavyGrids)

\* low-dimensional deterministic slices: every version x map kind x MAID with default everything else;
\* every flag and every grid at one version of each era
Plain(gd) == gd.names \in {<<>>, <<24>>} /\ gd.nModf \in {0, 1} /\ gd.nSec \in {0, 8}
WdtSlices == {gd \in WdtLight : Plain(gd) /\
                \/ (gd.grid = "t10" /\ gd.flags \subseteq {1, 512})                                   \* every version x kind x MAID
                \/ (gd.ver \in {"WotLK", "BfA"} /\ gd.flags \subseteq {1, 512} /\ gd.names = <<>>)     \* every grid
                \/ (gd.ver \in {"WotLK", "MoP", "BfA"} /\ gd.grid = "t01" /\ gd.names = <<>> /\ gd.nModf = 0)}  \* every flag
LPlain(gd) == gd.names \in {<<>>, <<24>>} /\ gd.nIdx \in {0, 1} /\ gd.nPlace \in {0, 1} /\ gd.nMldd \in {0, 1} /\ gd.nMlmd = 0
WdlSlices == {gd \in WdlLight : LPlain(gd) /\
                \/ (gd.grid = "t10")                                                                   \* every version x optional group x holes x mode
                \/ (gd.ver \in {"Vanilla", "Wotlk", "Legion"} /\ gd.holesCls \in {"none", "some"} /\ gd.names = <<>> /\ gd.nMldd = 0 /\ gd.mode = "same")}

WdtChosen == IF Thorough THEN WdtSlices \cup PickSome(WdtLight, 7000, 1) \cup PickSome(WdtHeavy, 40, 5)
             ELSE WdtSlices \cup PickSome(WdtLight, 150, 1) \cup PickSome(WdtHeavy, 3, 2)
WdlChosen == IF Thorough THEN WdlSlices \cup PickSome(WdlLight, 5000, 3) \cup PickSome(WdlHeavy, 40, 6)
             ELSE WdlSlices \cup PickSome(WdlLight, 150, 3) \cup PickSome(WdlHeavy, 3, 4)

WdtCase(gd) == [kind |-> "wdt", ver |-> gd.ver, flags |-> SetToSeq(gd.flags), hasMwmo |-> gd.hasMwmo, names |-> gd.names,
                hasModf |-> gd.hasModf, nModf |-> gd.nModf, hasMaid |-> gd.hasMaid, nSec |-> gd.nSec,
                grid |-> gd.grid, tiles |-> GridLists[gd.grid],
                layout |-> WdtChunkSpecs([gd EXCEPT !.grid = 0] @@ [tiles |-> {}]),
                conv |-> WdtVersions]
HoleLists == [gg \in GridNames |-> [gc \in {"none", "all", "some"} |-> TileList(HolesOf(Grids[gg], gc))]]
WdlCase(gd) == [kind |-> "wdl", ver |-> gd.ver, grid |-> gd.grid, tiles |-> GridLists[gd.grid],
                holes |-> HoleLists[gd.grid][gd.holesCls], holesCls |-> gd.holesCls, names |-> gd.names,
                nIdx |-> gd.nIdx, nPlace |-> gd.nPlace, nMldd |-> gd.nMldd, nMlmd |-> gd.nMlmd, mode |-> gd.mode,
                conv |-> WdlVersions]
CoordCase == [kind |-> "coord"]

WdtSeq == SetToSeq(WdtChosen)
WdlSeq == SetToSeq(WdlChosen)
Cases == <<CoordCase>> \o [gi \in 1..Len(WdtSeq) |-> WdtCase(WdtSeq[gi])] \o [gi \in 1..Len(WdlSeq) |-> WdlCase(WdlSeq[gi])]
GInit == vfmt = "gen" /\ vdef = 0 /\ vpc = "" /\ vcf = 0 /\ vrd = 0 /\ vrpos = 0 /\ vmaof = 0
GNext == UNCHANGED mvars
ASSUME ndJsonSerialize(IOEnv.CASES, Cases)
ASSUME PrintT(<<"GENERATED", Len(Cases), Cardinality(WdtLight), Cardinality(WdtHeavy), Cardinality(WdlLight), Cardinality(WdlHeavy)>>)
=============================================================================
