//! C05 seeds, field inventory and entry points for "mpq" (wow_mpq::Archive).
//!
//! Every seed is written by the library's own `ArchiveBuilder` into a scratch file and read back;
//! the field inventory is located by an independent walk over the produced bytes (header, the
//! encrypted hash/block tables, sector offset tables, HET/BET tables).
//!
//! Two post-build fix-ups exist because the builder and the reader of the crate disagree (both are
//! reported as observations by the caller, neither touches /repo):
//!   * the builder writes the V3 header positions as (HET, BET) while the reader (and the format)
//!     has (BET, HET): as built, neither table loads. Seeds whose name ends in "-hetbet" have the
//!     two 8-byte header fields swapped so that the reader reaches its HET/BET code;
//!   * the builder fills the BET name hashes with Jenkins one-at-a-time while the reader verifies
//!     them with hashlittle2: "-hetbet" seeds get the hash array rewritten with the reader's
//!     function so that lookups resolve through HET/BET (bit-packed entry extraction).
//! "v3-asbuilt" keeps the builder's output untouched. "v1-userdata" is a builder archive behind a
//! hand-made 512-byte 'MPQ\x1B' user-data block (the builder cannot write one).
//! (On the current /repo the builder writes the positions in the reader's order, so the first fix-up
//! changes nothing any more; it is kept because it is idempotent.)
//!
//! Variants the builder offers and that have a seed of their own: no (listfile) (anonymous
//! enumeration through the hash table, "v1-nolistfile", and through HET/BET, "v4-nolistfile"),
//! (attributes) with all arrays (GenerateFull; an External file written by `Attributes::to_bytes`
//! with the patch bits and an entry for itself), files under a non-neutral locale ("v1-bzip2"),
//! two-stage codecs ADPCM + zlib / bzip2 / sparse ("v1-codecs"), compressed HET/BET bodies
//! ("v4-cmptables" with the sparse codec, "v3-cmptables" with zlib: the builder keeps a body raw
//! unless the codec shrinks it).
//! Hand-made parts, each marked where it is made, because the builder cannot produce them:
//!   * "v3-hdr208": the V4 archive with format_version 2 (V3 archives with 208-byte headers exist),
//!   * "v1-scan-offset": 1024 bytes in front of the archive (text, then a user-data block that does
//!     not lead to a header): the header is found by the 0x200 scan, without user data,
//!   * "v2-hiblock-signed": a hi-block table behind the block table, and the "(signature)" file
//!     filled by the crate's `generate_weak_signature`,
//!   * in "v1-codecs": a stored single-unit file with COMPRESS set afterwards (compressed size ==
//!     file size) and a hand-made Huffman unit (the crate has no Huffman encoder),
//!   * fixed FILETIME values in the GenerateFull (attributes) file (the builder stamps the clock).
use crate::seed::{Aux, Enc, Seed};
use crate::worker::{errname, Runner};
use wow_mpq::compression::flags as cf;
use wow_mpq::crypto::{decrypt_block, encrypt_block, hash_string, hash_type, het_hash};
use wow_mpq::crypto::{generate_weak_signature, SignatureInfo};
use wow_mpq::special_files::{AttributeFlags, Attributes, FileAttributes};
use wow_mpq::{Archive, ArchiveBuilder, AttributesOption, FormatVersion, ListfileOption};

/// Register the ADPCM code-byte stream of one compressed unit `[method_pos, end)` as a token site: method byte
/// 0x40 (mono) / 0x80 (stereo), 2 header bytes (zero, shift), one initial sample per channel, then code bytes.
/// 0x81 raises the step index by 8 from the initial 0x2C: the 6th consecutive marker saturates it at 0x58;
/// 0x80 lowers it by 1 (0x2C markers reach 0).
fn adpcm_site(s: &mut Seed, name: String, method_pos: usize, end: usize) {
    let ch = match s.bytes[method_pos] {
        0x40 => 1,
        0x80 => 2,
        _ => return,
    };
    let start = method_pos + 1 + 2 + 2 * ch;
    if start + 16 > end || end > s.bytes.len() {
        return;
    }
    s.tokens.push(crate::seed::TokenSite { name, start, end, markers: vec![(0x81, 6), (0x80, 0x2C)], ordinary: vec![0x00, 0x7F, 0x3F] });
}

/// Register a raw-stored special file as a structured region; its size fields are the block entry's
/// compressed_size and file_size (present in the inventory for the listed blocks).
fn special_region(s: &mut Seed, name: &str, block: usize, start: usize, len: usize, arrays: Vec<(String, usize, usize)>) {
    let want = [format!("block[{block}].compressed_size"), format!("block[{block}].file_size")];
    let size_fields: Vec<usize> = s.fields.iter().enumerate().filter(|(_, f)| want.contains(&f.name)).map(|(i, _)| i).collect();
    if size_fields.len() == 2 && start + len <= s.bytes.len() && len > 1 {
        s.regions.push(crate::seed::Region { name: name.to_string(), start, len, size_fields, arrays });
    }
}

pub fn seed_names(thorough: bool) -> Vec<String> {
    // quick also has the user-data archive (header scan, archive at a non-zero offset) and the codec archive
    // (ADPCM / sparse / lzma payloads: token-stream items)
    // quick: also the archive with the full external (attributes) file (all four arrays incl. patch bits), the
    // patch-bit-only one, and the crate's own PKWARE output (a seed whose baseline turns into a panic is a violation)
    let mut v = vec![
        "v1-zlib-mixed".to_string(),
        "v2-crc-attrs".to_string(),
        "v4-hetbet".to_string(),
        "v1-userdata".to_string(),
        "v1-codecs".to_string(),
        "v1-nolistfile".to_string(),
        "v1-attrs-f8".to_string(),
        "v1-pkware-asbuilt".to_string(),
    ];
    if thorough {
        let combos: Vec<String> = (1u8..15).filter(|f| *f != 8).map(|f| format!("v1-attrs-f{f}")).collect();
        let mut names: Vec<&str> = vec![
            "v3-hetbet",
            "v3-asbuilt",
            "v1-bzip2",
            "v4-cmptables",
            "v4-nolistfile",
            "v3-hdr208",
            "v3-cmptables",
            "v1-scan-offset",
            "v2-hiblock-signed",
        ];
        names.extend(combos.iter().map(|x| x.as_str()));
        for n in names {
            v.push(n.to_string());
        }
    }
    v
}

// ------------------------------------------------------------------------------------------
// deterministic file contents
// ------------------------------------------------------------------------------------------

fn lcg(x: &mut u32) -> u8 {
    *x = x.wrapping_mul(1_664_525).wrapping_add(1_013_904_223);
    (*x >> 24) as u8
}

/// compressible text with some variation
fn text(n: usize, salt: u32) -> Vec<u8> {
    let words = ["Interface\\", "Glues\\", "World\\Maps\\", "Azeroth", ".blp", ".m2", "Creature\\", "Textures\\", "\r\n"];
    let mut x = 0x1234_5678u32 ^ salt;
    let mut v = Vec::with_capacity(n + 16);
    while v.len() < n {
        let w = words[(lcg(&mut x) as usize) % words.len()];
        v.extend_from_slice(w.as_bytes());
    }
    v.truncate(n);
    v
}

/// incompressible bytes
fn noise(n: usize, salt: u32) -> Vec<u8> {
    let mut x = 0xCAFE_F00Du32 ^ salt;
    (0..n).map(|_| lcg(&mut x)).collect()
}

/// long zero runs with islands of data
fn sparse(n: usize) -> Vec<u8> {
    let mut x = 77u32;
    (0..n).map(|i| if i % 200 < 12 { lcg(&mut x) | 1 } else { 0 }).collect()
}

/// 16-bit PCM-like samples
fn wave(n: usize) -> Vec<u8> {
    let mut v = Vec::with_capacity(n);
    let mut i = 0i32;
    while v.len() + 2 <= n {
        // triangle wave with a slow drift
        let p = (i % 64 - 32).abs() * 400 - 6000 + (i / 7) % 50;
        v.extend_from_slice(&(p as i16).to_le_bytes());
        i += 1;
    }
    v.resize(n, 0);
    v
}

/// a single-unit Huffman payload: method byte 0x01, tree type, `n` bytes of code bits
fn huffman_unit(tree: u8, n: usize) -> Vec<u8> {
    let mut v = vec![cf::HUFFMAN, tree];
    v.extend_from_slice(&noise(n, 46));
    v
}

// ------------------------------------------------------------------------------------------
// seed specifications
// ------------------------------------------------------------------------------------------

#[derive(Clone, Copy, PartialEq)]
enum Crypt {
    No,
    Key,
    FixKey,
}

struct F {
    name: &'static str,
    data: Vec<u8>,
    comp: u8,
    crypt: Crypt,
    locale: u16,
    /// block-entry surgery after the build: OR these bits into the flags of the file's block entry
    or_flags: u32,
    /// block-entry surgery after the build: the file size of the block entry (the data handed to the builder is
    /// an already encoded unit, stored as it is)
    set_fsize: Option<u32>,
}

fn f(name: &'static str, data: Vec<u8>, comp: u8, crypt: Crypt) -> F {
    F { name, data, comp, crypt, locale: 0, or_flags: 0, set_fsize: None }
}

/// a file stored under a non-neutral locale
fn fl(name: &'static str, data: Vec<u8>, comp: u8, locale: u16) -> F {
    F { name, data, comp, crypt: Crypt::No, locale, or_flags: 0, set_fsize: None }
}

impl F {
    /// name used in field names and nowhere else: the archive name, with the locale when it is not neutral
    fn display(&self) -> String {
        if self.locale != 0 {
            format!("{}@{:x}", self.name, self.locale)
        } else {
            self.name.to_string()
        }
    }
}

#[derive(Clone, Copy, PartialEq)]
enum Attrs {
    No,
    /// AttributesOption::GenerateCrc32: CRC32 array, one entry per block except (attributes) itself
    Crc,
    /// AttributesOption::GenerateFull: CRC32 + FILETIME + MD5, one entry per block except (attributes) itself
    Full,
    /// AttributesOption::External with a file written by the crate's `Attributes::to_bytes`: all four arrays
    /// (CRC32, FILETIME, MD5, PATCH_BIT), one entry per block INCLUDING (attributes) itself
    /// AttributesOption::External with a file written by Attributes::to_bytes with these flag bits (1 CRC32,
    /// 2 FILETIME, 4 MD5, 8 PATCH_BIT), one entry per block including (attributes) itself
    External(u8),
}

#[derive(Clone, Copy, PartialEq)]
enum Prefix {
    No,
    /// 512-byte 'MPQ\x1B' user data block whose header_offset points at the archive
    UserData,
    /// 1024 bytes in front of the archive: 512 bytes that are no signature at all, then a 'MPQ\x1B' block whose
    /// header_offset points at something that is not an archive header: the 0x200 scan has to walk on twice
    Scan,
}

struct Spec {
    ver: FormatVersion,
    shift: u16,
    files: Vec<F>,
    attrs: Attrs,
    listfile: bool,
    compress_tables: bool,
    /// codec for the HET/BET bodies when compress_tables is set. The builder keeps a body raw when the codec does
    /// not shrink it; with zlib that is the case for most small tables, the sparse codec always shrinks them.
    table_comp: u8,
    prefix: Prefix,
    fix_hetbet: bool,
    /// built as V4, then format_version := 2: a V3 archive whose 208-byte header carries the V4 fields
    hdr_v3: bool,
    /// append a hi-block table (all zero) and point the header at it (the builder only writes one for
    /// archives beyond 4 GiB)
    hiblock: bool,
    /// fill the 72-byte "(signature)" file with the weak signature of the finished archive
    sign: bool,
    /// list every block entry (otherwise the first two and the last)
    all_blocks: bool,
}

const ABSENT: &str = "no\\such\\file.bin";

fn mixed_files(comp: u8) -> Vec<F> {
    vec![
        f("big.bin", text(2900, 1), comp, Crypt::No),
        f("small.txt", text(300, 2), comp, Crypt::No),
        f("stored.dat", noise(1200, 3), 0, Crypt::No), // multi-sector stored file (readable since 9cf2783)
        f("enc.bin", text(1700, 4), comp, Crypt::Key),
        f("dir\\fix.bin", text(1300, 5), comp, Crypt::FixKey),
        f("encsmall.txt", text(260, 6), comp, Crypt::Key),
        f("encstored.dat", noise(100, 7), 0, Crypt::FixKey),
        f("noisy.bin", noise(1100, 8), comp, Crypt::No),
    ]
}

fn spec(name: &str) -> Spec {
    let base = Spec {
        ver: FormatVersion::V1,
        shift: 0,
        files: Vec::new(),
        attrs: Attrs::No,
        listfile: true,
        compress_tables: false,
        table_comp: cf::ZLIB,
        prefix: Prefix::No,
        fix_hetbet: false,
        hdr_v3: false,
        hiblock: false,
        sign: false,
        all_blocks: false,
    };
    match name {
        "v1-zlib-mixed" => Spec { files: mixed_files(cf::ZLIB), all_blocks: true, ..base },
        "v2-crc-attrs" => Spec {
            ver: FormatVersion::V2,
            attrs: Attrs::Crc,
            files: vec![
                f("big.bin", text(2100, 11), cf::ZLIB, Crypt::No),
                f("small.txt", text(280, 12), cf::ZLIB, Crypt::No),
                f("enc.bin", text(1500, 13), cf::ZLIB, Crypt::FixKey),
                f("stored.dat", noise(150, 14), 0, Crypt::No),
            ],
            ..base
        },
        "v3-hetbet" | "v3-asbuilt" => Spec {
            ver: FormatVersion::V3,
            fix_hetbet: name == "v3-hetbet",
            files: vec![
                f("big.bin", text(2300, 21), cf::ZLIB, Crypt::No),
                f("small.txt", text(290, 22), cf::ZLIB, Crypt::No),
                f("enc.bin", text(1200, 23), cf::ZLIB, Crypt::Key),
                f("stored.dat", noise(120, 24), 0, Crypt::No),
            ],
            ..base
        },
        "v4-hetbet" | "v4-cmptables" => Spec {
            ver: FormatVersion::V4,
            fix_hetbet: true,
            attrs: if name == "v4-hetbet" { Attrs::Crc } else { Attrs::No },
            compress_tables: name == "v4-cmptables",
            table_comp: cf::SPARSE,
            files: vec![
                f("big.bin", text(2200, 31), cf::ZLIB, Crypt::No),
                f("small.txt", text(270, 32), cf::ZLIB, Crypt::No),
                f("fix.bin", text(1100, 33), cf::ZLIB, Crypt::FixKey),
                f("stored.dat", noise(90, 34), 0, Crypt::No),
                f("Sound\\tone.wav", wave(700), cf::ZLIB, Crypt::No),
            ],
            ..base
        },
        "v1-bzip2" => {
            // hash entries with a locale: "loc.txt" first under 0x409, then neutral (the probe passes the
            // non-neutral entry and returns the neutral one); "onlyloc.txt" exists under 0x407 only (the
            // lookup falls back to the first entry of that name)
            let mut files = mixed_files(cf::BZIP2);
            files.push(fl("loc.txt", text(210, 9), cf::BZIP2, 0x409));
            files.push(f("loc.txt", text(190, 10), cf::BZIP2, Crypt::No));
            files.push(fl("onlyloc.txt", text(170, 11), 0, 0x407));
            Spec { shift: 1, files, ..base }
        }
        "v1-codecs" => Spec {
            shift: 1,
            all_blocks: true,
            files: vec![
                f("lzma.bin", text(2600, 41), cf::LZMA, Crypt::No),
                f("lzma-small.txt", text(500, 42), cf::LZMA, Crypt::No),
                f("sparse.bin", sparse(2500), cf::SPARSE, Crypt::No),
                f("adpcm-mono.wav", wave(2200), cf::ADPCM_MONO, Crypt::No),
                f("adpcm-stereo.wav", wave(900), cf::ADPCM_STEREO, Crypt::No),
                f("adpcm-zlib.wav", wave(2100), cf::ADPCM_MONO | cf::ZLIB, Crypt::No),
                // further two-stage units the crate's compress() can write (it has no Huffman encoder):
                // 0x50 bzip2 stage (bounded variant), 0x60 sparse stage, 0x82 stereo behind zlib
                f("adpcm-bzip2.wav", wave(2300), cf::ADPCM_MONO | cf::BZIP2, Crypt::No),
                f("adpcm-sparse.wav", wave(1900), cf::ADPCM_MONO | cf::SPARSE, Crypt::No),
                f("adpcm-stereo-zlib.wav", wave(2000), cf::ADPCM_STEREO | cf::ZLIB, Crypt::No),
                // a stored single-unit file whose block entry gets COMPRESS set afterwards: compressed size ==
                // file size, which the reader returns raw (the builder never sets COMPRESS on such a unit)
                F { or_flags: FLAG_COMPRESS, ..f("rawflag.dat", noise(180, 45), 0, Crypt::No) },
                // Method byte 0x01 (Huffman) alone. The crate has no Huffman encoder, so the unit is hand-made
                // (method byte, tree type 7, code bits) and handed to the builder as a stored file; the block
                // entry then gets COMPRESS and the decoded size. The crate's decoder returns one byte per symbol
                // until the file size is reached whatever the code bits say, so any bits give a readable file.
                F { or_flags: FLAG_COMPRESS, set_fsize: Some(400), ..f("huffman.wav", huffman_unit(7, 90), 0, Crypt::No) },
            ],
            ..base
        },
        // The builder compresses PKWARE in ASCII mode, which the reader's exploder does not
        // implement (unimplemented!() in implode-0.1.1): read_file panics on the UNMUTATED seed.
        "v1-pkware-asbuilt" => Spec {
            shift: 1,
            all_blocks: true,
            files: vec![
                f("pkware.bin", text(2400, 43), cf::PKWARE, Crypt::No),
                f("pkware-small.txt", text(600, 44), cf::PKWARE, Crypt::Key),
            ],
            ..base
        },
        "v1-userdata" => Spec {
            prefix: Prefix::UserData,
            files: vec![
                f("big.bin", text(1900, 51), cf::ZLIB, Crypt::No),
                f("small.txt", text(250, 52), cf::ZLIB, Crypt::No),
                f("fix.bin", text(1250, 53), cf::ZLIB, Crypt::FixKey),
            ],
            ..base
        },
        // every combination of the (attributes) flag bits, written by Attributes::to_bytes
        n if n.starts_with("v1-attrs-f") => {
            let fl: u8 = n["v1-attrs-f".len()..].parse().unwrap_or_else(|_| wverif_common::tool_error(&format!("mpq: unknown seed {n}")));
            Spec {
                attrs: Attrs::External(fl),
                all_blocks: true,
                files: vec![
                    f("big.bin", text(900, 71 + fl as u32), cf::ZLIB, Crypt::No),
                    f("small.txt", text(200, 72), cf::ZLIB, Crypt::No),
                    f("stored.dat", noise(90, 73), 0, Crypt::No),
                ],
                ..base
            }
        }
        // no (listfile): list() enumerates the hash table anonymously; the (attributes) file is an external
        // one with all four arrays and an entry for itself
        "v1-nolistfile" => Spec {
            listfile: false,
            attrs: Attrs::External(0xF),
            all_blocks: true,
            files: vec![
                f("big.bin", text(1600, 61), cf::ZLIB, Crypt::No),
                f("small.txt", text(240, 62), cf::ZLIB, Crypt::No),
                f("enc.bin", text(700, 63), cf::ZLIB, Crypt::Key),
                f("stored.dat", noise(110, 64), 0, Crypt::No),
            ],
            ..base
        },
        // no (listfile), HET/BET present: list() enumerates the BET table; (attributes) as GenerateFull
        "v4-nolistfile" => Spec {
            ver: FormatVersion::V4,
            fix_hetbet: true,
            listfile: false,
            attrs: Attrs::Full,
            files: vec![
                f("big.bin", text(1500, 65), cf::ZLIB, Crypt::No),
                f("small.txt", text(230, 66), cf::ZLIB, Crypt::No),
                f("fix.bin", text(800, 67), cf::ZLIB, Crypt::FixKey),
                f("stored.dat", noise(95, 68), 0, Crypt::No),
            ],
            ..base
        },
        // the v4-hetbet archive with format_version 2: a V3 archive with a 208-byte header and V4 data
        "v3-hdr208" => Spec { hdr_v3: true, ..spec("v4-hetbet") },
        // V3 with compressed HET/BET bodies: no V4 sizes, the table sizes come from the table positions
        // (with zlib and four blocks the BET body shrinks and is stored compressed, the HET body stays raw)
        "v3-cmptables" => Spec {
            ver: FormatVersion::V3,
            fix_hetbet: true,
            compress_tables: true,
            files: vec![
                f("big.bin", text(1250, 25), cf::ZLIB, Crypt::No),
                f("small.txt", text(280, 26), cf::ZLIB, Crypt::No),
                f("enc.bin", text(640, 27), cf::ZLIB, Crypt::Key),
            ],
            ..base
        },
        "v1-scan-offset" => Spec {
            prefix: Prefix::Scan,
            files: vec![
                f("big.bin", text(1400, 71), cf::ZLIB, Crypt::No),
                f("small.txt", text(220, 72), cf::ZLIB, Crypt::No),
                f("fix.bin", text(600, 73), cf::ZLIB, Crypt::FixKey),
            ],
            ..base
        },
        "v2-hiblock-signed" => Spec {
            ver: FormatVersion::V2,
            hiblock: true,
            sign: true,
            all_blocks: true,
            files: vec![
                f("big.bin", text(1300, 74), cf::ZLIB, Crypt::No),
                f("small.txt", text(210, 75), cf::ZLIB, Crypt::No),
                f("(signature)", vec![0u8; 72], 0, Crypt::No),
            ],
            ..base
        },
        _ => wverif_common::tool_error(&format!("mpq: unknown seed {name}")),
    }
}

// ------------------------------------------------------------------------------------------
// reading the produced bytes
// ------------------------------------------------------------------------------------------

fn r32(b: &[u8], o: usize) -> u32 {
    u32::from_le_bytes([b[o], b[o + 1], b[o + 2], b[o + 3]])
}
fn r64(b: &[u8], o: usize) -> u64 {
    r32(b, o) as u64 | (r32(b, o + 4) as u64) << 32
}
fn w64(b: &mut [u8], o: usize, v: u64) {
    b[o..o + 8].copy_from_slice(&v.to_le_bytes());
}

fn words(b: &[u8], start: usize, len: usize) -> Vec<u32> {
    b[start..start + len].chunks_exact(4).map(|c| u32::from_le_bytes([c[0], c[1], c[2], c[3]])).collect()
}

/// plaintext of an encrypted region (len is cut down to whole words)
fn plain(b: &[u8], start: usize, len: usize, key: u32) -> Vec<u8> {
    let mut w = words(b, start, len & !3);
    decrypt_block(&mut w, key);
    w.iter().flat_map(|x| x.to_le_bytes()).collect()
}

/// plaintext of a whole encrypted table; the `len % 4` bytes behind the last whole word are stored in the clear
/// (the MPQ cipher works on whole dwords: ArchiveBuilder::encrypt_data and tables/common.rs leave them alone)
fn plain_full(b: &[u8], start: usize, len: usize, key: u32) -> Vec<u8> {
    let mut p = plain(b, start, len, key);
    p.extend_from_slice(&b[start + (len & !3)..start + len]);
    p
}

fn store_encrypted(b: &mut [u8], start: usize, plain: &[u8], key: u32) {
    let whole = plain.len() & !3;
    let mut w: Vec<u32> = plain[..whole].chunks_exact(4).map(|c| u32::from_le_bytes([c[0], c[1], c[2], c[3]])).collect();
    encrypt_block(&mut w, key);
    for (i, x) in w.iter().enumerate() {
        b[start + 4 * i..start + 4 * i + 4].copy_from_slice(&x.to_le_bytes());
    }
    b[start + whole..start + plain.len()].copy_from_slice(&plain[whole..]);
}

fn scratch_path(name: &str) -> std::path::PathBuf {
    let base = std::env::var("VERIF_SCRATCH").or_else(|_| std::env::var("TMPDIR")).unwrap_or_else(|_| "/var/tmp".into());
    let t = format!("{:?}", std::thread::current().id());
    let t: String = t.chars().filter(|c| c.is_ascii_digit()).collect();
    std::path::PathBuf::from(base).join(format!("c05-mpqseed-{}-{}-{}.mpq", std::process::id(), t, name))
}

/// CRC-32 (IEEE) as stored in the (attributes) file
fn crc32(d: &[u8]) -> u32 {
    let mut c = 0xFFFF_FFFFu32;
    for &b in d {
        c ^= b as u32;
        for _ in 0..8 {
            c = if c & 1 != 0 { (c >> 1) ^ 0xEDB8_8320 } else { c >> 1 };
        }
    }
    !c
}

/// a fixed FILETIME (2009-ish) per block: the builder stamps the current time, seeds must not depend on it
fn filetime(i: usize) -> u64 {
    0x01C9_8000_0000_0000 + 0x1_0000_0000 * i as u64
}

/// names of the blocks in block-table order: the files, then (listfile), then (attributes)
fn block_names(sp: &Spec) -> Vec<String> {
    let mut v: Vec<String> = sp.files.iter().map(|f| f.name.to_string()).collect();
    if sp.listfile {
        v.push("(listfile)".into());
    }
    if sp.attrs != Attrs::No {
        v.push("(attributes)".into());
    }
    v
}

fn build_bytes(name: &str, sp: &Spec) -> Vec<u8> {
    let mut b = ArchiveBuilder::new()
        .version(sp.ver)
        .block_size(sp.shift)
        .listfile_option(if sp.listfile { ListfileOption::Generate } else { ListfileOption::None })
        .compress_tables(sp.compress_tables)
        .table_compression(sp.table_comp);
    let p = scratch_path(name);
    let ext = p.with_extension("attributes");
    b = match sp.attrs {
        Attrs::No => b.attributes_option(AttributesOption::None),
        Attrs::Crc => b.attributes_option(AttributesOption::GenerateCrc32),
        Attrs::Full => b.attributes_option(AttributesOption::GenerateFull),
        Attrs::External(fl) => {
            // written by the crate's own serializer; one entry per block, the last one for (attributes) itself
            let n = block_names(sp).len();
            let file_attributes: Vec<FileAttributes> = (0..n)
                .map(|i| {
                    let d: &[u8] = sp.files.get(i).map(|f| f.data.as_slice()).unwrap_or(&[]);
                    FileAttributes {
                        crc32: Some(if i < sp.files.len() { crc32(d) } else { 0 }),
                        filetime: Some(filetime(i)),
                        md5: Some(if i < sp.files.len() { wverif_common::md5_raw(d) } else { [0u8; 16] }),
                        is_patch: Some(i == 1),
                    }
                })
                .collect();
            let at = Attributes { version: Attributes::EXPECTED_VERSION, flags: AttributeFlags::new(fl as u32), file_attributes, crc32: None, md5: None, filetime: None };
            let data = at.to_bytes().unwrap_or_else(|e| wverif_common::tool_error(&format!("mpq: Attributes::to_bytes: {e:?}")));
            std::fs::write(&ext, data).unwrap_or_else(|e| wverif_common::tool_error(&format!("mpq: write {ext:?}: {e}")));
            b.attributes_option(AttributesOption::External(ext.clone()))
        }
    };
    for fl in &sp.files {
        b = match fl.crypt {
            Crypt::No => b.add_file_data_with_options(fl.data.clone(), fl.name, fl.comp, false, fl.locale),
            Crypt::Key => b.add_file_data_with_encryption(fl.data.clone(), fl.name, fl.comp, false, fl.locale),
            Crypt::FixKey => b.add_file_data_with_encryption(fl.data.clone(), fl.name, fl.comp, true, fl.locale),
        };
    }
    let r = b.build(&p);
    let _ = std::fs::remove_file(&ext);
    if let Err(e) = r {
        wverif_common::tool_error(&format!("mpq: ArchiveBuilder failed for seed {name}: {e:?}"));
    }
    let bytes = std::fs::read(&p).unwrap_or_else(|e| wverif_common::tool_error(&format!("mpq: read back {p:?}: {e}")));
    let _ = std::fs::remove_file(&p);
    bytes
}

struct Blk {
    pos: usize,
    csize: usize,
    fsize: usize,
    flags: u32,
}

const FLAG_COMPRESS: u32 = 0x0000_0200;
const FLAG_ENCRYPTED: u32 = 0x0001_0000;
const FLAG_FIX_KEY: u32 = 0x0002_0000;
const FLAG_SINGLE_UNIT: u32 = 0x0100_0000;
const FLAG_SECTOR_CRC: u32 = 0x0400_0000;

pub fn build(name: &str) -> Seed {
    let sp = spec(name);
    let mut bytes = build_bytes(name, &sp);
    let hash_key = hash_string("(hash table)", hash_type::FILE_KEY);
    let block_key = hash_string("(block table)", hash_type::FILE_KEY);
    let v = sp.ver as u16;

    // ---- post-build fix-ups (see the module comment) -----------------------------------------
    // positions as the builder meant them
    let (mut het_pos, mut bet_pos) = (0usize, 0usize);
    if v >= 2 {
        for o in [52usize, 60] {
            let p = r64(&bytes, o) as usize;
            if p + 4 <= bytes.len() {
                match &bytes[p..p + 4] {
                    b"HET\x1A" => het_pos = p,
                    b"BET\x1A" => bet_pos = p,
                    _ => {}
                }
            }
        }
        if het_pos == 0 || bet_pos == 0 {
            wverif_common::tool_error(&format!("mpq: seed {name}: HET/BET tables not found where the header says"));
        }
    }
    let hash_pos0 = r32(&bytes, 16) as usize;
    // on-disk sizes of the HET / BET tables (they are written back to back before the hash table)
    let het_size = bet_pos.saturating_sub(het_pos);
    let bet_size = hash_pos0.saturating_sub(bet_pos);
    // a body is stored compressed exactly when it is shorter on disk than the extended header declares
    let het_cmp = v >= 2 && het_size < 12 + r32(&bytes, het_pos + 8) as usize;
    let bet_cmp = v >= 2 && bet_size < 12 + r32(&bytes, bet_pos + 8) as usize;
    if sp.compress_tables && !bet_cmp && !het_cmp {
        wverif_common::tool_error(&format!("mpq: seed {name}: compress_tables requested but both table bodies are stored raw"));
    }
    if v >= 2 && sp.fix_hetbet {
        // the reader takes offset 52 as the BET and offset 60 as the HET position
        w64(&mut bytes, 52, bet_pos as u64);
        w64(&mut bytes, 60, het_pos as u64);
        if !bet_cmp {
            // BET name hashes := the reader's hash function
            let mut pl = plain_full(&bytes, bet_pos + 12, bet_size - 12, block_key);
            let g = |i: usize| r32(&pl, 4 * i) as usize;
            let (file_count, entry_bits, hash_bits, flag_count) = (g(1), g(3), g(16), g(18));
            let ho = 76 + 4 * flag_count + (file_count * entry_bits).div_ceil(8);
            let names = block_names(&sp);
            if hash_bits != 64 || names.len() != file_count || ho + 8 * file_count > pl.len() {
                wverif_common::tool_error(&format!("mpq: seed {name}: unexpected BET layout fc={file_count} eb={entry_bits} hb={hash_bits} flc={flag_count} ho={ho} pl={} names={}", pl.len(), names.len()));
            }
            for (i, n) in names.iter().enumerate() {
                let h = het_hash(n, 64).0;
                pl[ho + 8 * i..ho + 8 * i + 8].copy_from_slice(&h.to_le_bytes());
            }
            store_encrypted(&mut bytes, bet_pos + 12, &pl, block_key);
        }
        if v == 3 {
            // keep the V4 header self-consistent: MD5 of the BET table and of the header
            let m = wverif_common::md5_raw(&bytes[bet_pos..bet_pos + bet_size]);
            bytes[112 + 48..112 + 64].copy_from_slice(&m);
            let m = wverif_common::md5_raw(&bytes[..192]);
            bytes[192..208].copy_from_slice(&m);
        }
    }
    if sp.hdr_v3 {
        // The builder writes 208-byte headers only with format_version 3 (V4). Archives of the MoP era carry the
        // same header under format_version 2 (V3); the header MD5 covers the version field.
        bytes[12..14].copy_from_slice(&2u16.to_le_bytes());
        let m = wverif_common::md5_raw(&bytes[..192]);
        bytes[192..208].copy_from_slice(&m);
    }
    // block-entry surgery (flags the builder never combines) and, for GenerateFull, fixed time stamps
    {
        let bp = r32(&bytes, 20) as usize;
        let bn = r32(&bytes, 28) as usize;
        let mut pl = plain(&bytes, bp, 16 * bn, block_key);
        let mut changed = false;
        for (i, fl) in sp.files.iter().enumerate() {
            if fl.or_flags != 0 {
                let fw = r32(&pl, 16 * i + 12) | fl.or_flags;
                pl[16 * i + 12..16 * i + 16].copy_from_slice(&fw.to_le_bytes());
                changed = true;
            }
            if let Some(fs) = fl.set_fsize {
                pl[16 * i + 8..16 * i + 12].copy_from_slice(&fs.to_le_bytes());
                changed = true;
            }
        }
        if changed {
            if v >= 2 {
                wverif_common::tool_error(&format!("mpq: seed {name}: block-entry surgery is only done on V1/V2 seeds (no BET copy, no MD5)"));
            }
            store_encrypted(&mut bytes, bp, &pl, block_key);
        }
        if sp.attrs == Attrs::Full {
            // (attributes) is the last block, stored raw: version, flags, crc32[n], filetime[n], md5[n]
            let n = bn - 1;
            let ap = r32(&pl, 16 * n) as usize;
            let asz = r32(&pl, 16 * n + 4) as usize;
            if asz != 8 + 28 * n || r32(&bytes, ap) != 100 || r32(&bytes, ap + 4) != 7 {
                wverif_common::tool_error(&format!("mpq: seed {name}: unexpected (attributes) layout size={asz} n={n}"));
            }
            for i in 0..n {
                w64(&mut bytes, ap + 8 + 4 * n + 8 * i, filetime(i));
            }
        }
    }
    if sp.hiblock {
        // Hand-made: the builder writes a hi-block table only when a file lies beyond 4 GiB. One u16 (zero) per
        // block behind the block table. The reader only loads the table when 8 bytes per block follow its
        // position (archive.rs: `block_table_size * 8`), so the table is followed by zero padding outside the
        // archive proper.
        let bn = r32(&bytes, 28) as usize;
        let hp = bytes.len();
        bytes.extend(std::iter::repeat(0u8).take(2 * bn));
        w64(&mut bytes, 32, hp as u64);
        let asz = bytes.len() as u32;
        bytes[8..12].copy_from_slice(&asz.to_le_bytes());
        bytes.extend(std::iter::repeat(0u8).take(6 * bn));
    }
    if sp.sign {
        // weak signature over the finished archive (the 72-byte file itself counts as zeros), by the crate's
        // own generator
        let bp = r32(&bytes, 20) as usize;
        let bn = r32(&bytes, 28) as usize;
        let pl = plain(&bytes, bp, 16 * bn, block_key);
        let i = sp.files.iter().position(|f| f.name == "(signature)").unwrap_or_else(|| wverif_common::tool_error("mpq: signed seed without (signature)"));
        let (sp_pos, sp_len) = (r32(&pl, 16 * i) as usize, r32(&pl, 16 * i + 4) as usize);
        if sp_len != 72 {
            wverif_common::tool_error(&format!("mpq: seed {name}: (signature) block has {sp_len} bytes"));
        }
        let info = SignatureInfo::new_weak(0, r32(&bytes, 8) as u64, sp_pos as u64, sp_len as u64, Vec::new());
        let sig = generate_weak_signature(std::io::Cursor::new(&bytes), &info)
            .unwrap_or_else(|e| wverif_common::tool_error(&format!("mpq: generate_weak_signature: {e:?}")));
        bytes[sp_pos..sp_pos + 72].copy_from_slice(&sig);
    }
    let a = match sp.prefix {
        Prefix::No => 0usize,
        Prefix::UserData => 512,
        Prefix::Scan => 1024,
    };
    if sp.prefix == Prefix::UserData {
        let mut u = Vec::with_capacity(512 + bytes.len());
        u.extend_from_slice(b"MPQ\x1B");
        u.extend_from_slice(&496u32.to_le_bytes()); // user_data_size
        u.extend_from_slice(&512u32.to_le_bytes()); // header_offset
        u.extend_from_slice(&16u32.to_le_bytes()); // user_data_header_size
        u.extend_from_slice(&text(496, 99));
        u.extend_from_slice(&bytes);
        bytes = u;
    }
    if sp.prefix == Prefix::Scan {
        // hand-made (the builder writes archives at offset 0 only): text, then a user data block at 0x200 whose
        // header_offset (0x100 -> file offset 0x300) does not hit an archive header, then the archive at 0x400
        let mut u = Vec::with_capacity(1024 + bytes.len());
        u.extend_from_slice(&text(512, 97));
        u.extend_from_slice(b"MPQ\x1B");
        u.extend_from_slice(&240u32.to_le_bytes()); // user_data_size
        u.extend_from_slice(&256u32.to_le_bytes()); // header_offset
        u.extend_from_slice(&16u32.to_le_bytes()); // user_data_header_size
        u.extend_from_slice(&text(496, 98));
        u.extend_from_slice(&bytes);
        bytes = u;
    }

    // ---- inventory ---------------------------------------------------------------------------
    let hash_pos = a + r32(&bytes, a + 16) as usize;
    let block_pos = a + r32(&bytes, a + 20) as usize;
    let hash_n = r32(&bytes, a + 24) as usize;
    let block_n = r32(&bytes, a + 28) as usize;
    let sector = 512usize << sp.shift;
    let hash_plain = plain(&bytes, hash_pos, 16 * hash_n, hash_key);
    let block_plain = plain(&bytes, block_pos, 16 * block_n, block_key);
    let blocks: Vec<Blk> = (0..block_n)
        .map(|i| Blk {
            pos: a + r32(&block_plain, 16 * i) as usize,
            csize: r32(&block_plain, 16 * i + 4) as usize,
            fsize: r32(&block_plain, 16 * i + 8) as usize,
            flags: r32(&block_plain, 16 * i + 12),
        })
        .collect();

    let mut s = Seed::new("mpq", name, bytes);
    let len = s.bytes.len();
    if sp.prefix == Prefix::Scan {
        s.field_ex(512, 4, "tag", "stray.signature", 528, 1, None);
        s.field_ex(516, 4, "bsize", "stray.user_data_size", 528, 1, None);
        s.field_ex(520, 4, "offset", "stray.header_offset", 512, 1, None);
        s.field_ex(524, 4, "bsize", "stray.user_data_header_size", 512, 1, None);
    }
    if sp.prefix == Prefix::UserData {
        s.field_ex(0, 4, "tag", "user.signature", 16, 1, None);
        s.field_ex(4, 4, "bsize", "user.user_data_size", 16, 1, None);
        s.field_ex(8, 4, "offset", "user.header_offset", 0, 1, None);
        s.field_ex(12, 4, "bsize", "user.user_data_header_size", 0, 1, None);
    }
    s.field_ex(a, 4, "tag", "hdr.signature", a + 32, 1, None);
    s.field_ex(a + 4, 4, "bsize", "hdr.header_size", a, 1, None);
    s.field_ex(a + 8, 4, "bsize", "hdr.archive_size", a, 1, None);
    s.field_ex(a + 12, 2, "index", "hdr.format_version", a + 32, 1, None);
    s.field_ex(a + 14, 2, "shift", "hdr.block_size", a + 32, 1, None);
    s.field_ex(a + 16, 4, "offset", "hdr.hash_table_pos", a, 1, None);
    s.field_ex(a + 20, 4, "offset", "hdr.block_table_pos", a, 1, None);
    s.field_ex(a + 24, 4, "count", "hdr.hash_table_size", hash_pos, 16, None);
    s.field_ex(a + 28, 4, "count", "hdr.block_table_size", block_pos, 16, None);
    if v >= 1 {
        s.field_ex(a + 32, 8, "offset", "hdr.hi_block_table_pos", a, 1, None);
        s.field_ex(a + 40, 2, "offset", "hdr.hash_table_pos_hi", a, 1, None);
        s.field_ex(a + 42, 2, "offset", "hdr.block_table_pos_hi", a, 1, None);
    }
    if v >= 2 {
        s.field_ex(a + 44, 8, "bsize", "hdr.archive_size_64", a, 1, None);
        // named as the reader interprets them
        s.field_ex(a + 52, 8, "offset", "hdr.bet_table_pos", a, 1, None);
        s.field_ex(a + 60, 8, "offset", "hdr.het_table_pos", a, 1, None);
    }
    if v >= 3 {
        s.field_ex(a + 68, 8, "bsize", "hdr.hash_table_size_64", hash_pos, 1, None);
        s.field_ex(a + 76, 8, "bsize", "hdr.block_table_size_64", block_pos, 1, None);
        s.field_ex(a + 84, 8, "bsize", "hdr.hi_block_table_size_64", len, 1, None);
        s.field_ex(a + 92, 8, "bsize", "hdr.het_table_size_64", a + het_pos, 1, None);
        s.field_ex(a + 100, 8, "bsize", "hdr.bet_table_size_64", a + bet_pos, 1, None);
        s.field_ex(a + 108, 4, "bsize", "hdr.raw_chunk_size", a, 1, None);
    }

    // hash table: the first two and the last occupied entries and the first free one
    let henc = Enc { start: hash_pos, len: 16 * hash_n, key: hash_key };
    let occupied: Vec<usize> = (0..hash_n).filter(|i| r32(&hash_plain, 16 * i + 12) < 0xFFFF_FFFE).collect();
    let mut pick: Vec<usize> = occupied.iter().take(2).cloned().collect();
    if let Some(l) = occupied.last() {
        pick.push(*l);
    }
    if let Some(fr) = (0..hash_n).find(|i| !occupied.contains(i)) {
        pick.push(fr);
    }
    // every entry of a name that exists under a non-neutral locale
    for (bi, fl) in sp.files.iter().enumerate() {
        if sp.files.iter().any(|g| g.name == fl.name && g.locale != 0) {
            if let Some(h) = occupied.iter().find(|&&h| r32(&hash_plain, 16 * h + 12) as usize == bi) {
                pick.push(*h);
            }
        }
    }
    pick.sort();
    pick.dedup();
    for i in pick {
        let o = hash_pos + 16 * i;
        s.field_ex(o + 8, 2, "index", format!("hash[{i}].locale"), o + 16, 1, Some(henc.clone()));
        s.field_ex(o + 10, 2, "index", format!("hash[{i}].platform"), o + 16, 1, Some(henc.clone()));
        s.field_ex(o + 12, 4, "index", format!("hash[{i}].block_index"), block_pos, 16, Some(henc.clone()));
    }

    // block table
    let benc = Enc { start: block_pos, len: 16 * block_n, key: block_key };
    for i in 0..block_n {
        if !(sp.all_blocks || i < 2 || i + 1 == block_n) {
            continue;
        }
        let o = block_pos + 16 * i;
        let fp = blocks[i].pos;
        s.field_ex(o, 4, "offset", format!("block[{i}].file_pos"), a, 1, Some(benc.clone()));
        s.field_ex(o + 4, 4, "bsize", format!("block[{i}].compressed_size"), fp, 1, Some(benc.clone()));
        s.field_ex(o + 8, 4, "bsize", format!("block[{i}].file_size"), fp, 1, Some(benc.clone()));
        s.field_ex(o + 12, 4, "index", format!("block[{i}].flags"), o + 16, 1, Some(benc.clone()));
    }
    if v >= 1 && r64(&s.bytes, a + 32) != 0 {
        // not produced by the builder for small archives; kept for completeness
        let hp = a + r64(&s.bytes, a + 32) as usize;
        if hp + 2 <= len {
            s.field_ex(hp, 2, "offset", "hiblock[0]", a, 1, None);
        }
    }

    // per-file structures: sector offset tables and compression method bytes
    let mut names = block_names(&sp);
    let mut budget_sectored = 3; // files whose sector tables are listed
    let mut budget_single = 3;
    for (i, real) in names.iter().enumerate() {
        if i >= blocks.len() {
            break;
        }
        let b = &blocks[i];
        // name used in field names (the locale is part of it when not neutral)
        let nm = &sp.files.get(i).map(|f| f.display()).unwrap_or_else(|| real.clone());
        let special = real.starts_with('(');
        if special && real == "(attributes)" {
            s.field_ex(b.pos, 4, "index", "attr.version", b.pos + 8, 1, None);
            s.field_ex(b.pos + 4, 4, "index", "attr.flags", b.pos + 8, 4, None);
            if matches!(sp.attrs, Attrs::Full | Attrs::External(_)) && b.flags & (FLAG_COMPRESS | FLAG_ENCRYPTED) == 0 {
                // the arrays behind the header, in file order; n entries each (the builder's own generator leaves
                // the (attributes) block itself out, the external file has it)
                let n = if matches!(sp.attrs, Attrs::External(_)) { block_n } else { block_n - 1 };
                let fw = r32(&s.bytes, b.pos + 4);
                let end = b.pos + b.csize;
                let mut o = b.pos + 8;
                let mut arrays: Vec<(String, usize, usize)> = vec![("header".to_string(), b.pos + 8, 4)];
                for (bit, w, nm) in [(1u32, 4usize, "crc32"), (2, 8, "filetime"), (4, 16, "md5")] {
                    if fw & bit != 0 && o + w * n <= end {
                        for k in [0, n - 1] {
                            s.field_ex(o + w * k, w.min(8) as u8, "index", format!("attr.{nm}[{k}]"), o + w * n, 1, None);
                        }
                        o += w * n;
                        arrays.push((nm.to_string(), o, w));
                    }
                }
                if fw & 8 != 0 && o < end {
                    s.field_ex(o, 1, "index", "attr.patch_bits[0]", end, 1, None);
                    arrays.push(("patch_bits".to_string(), end, 1));
                }
                special_region(&mut s, "(attributes)", i, b.pos, b.csize, arrays);
            }
            continue;
        }
        if special && b.flags & (FLAG_COMPRESS | FLAG_ENCRYPTED) == 0 && b.csize > 1 {
            // (listfile) / (signature) stored raw: the region as a whole one byte short / long
            special_region(&mut s, real, i, b.pos, b.csize, Vec::new());
        }
        let key = if b.flags & FLAG_ENCRYPTED != 0 {
            let k = hash_string(real, hash_type::FILE_KEY);
            if b.flags & FLAG_FIX_KEY != 0 {
                k.wrapping_add((b.pos - a) as u32) ^ b.fsize as u32
            } else {
                k
            }
        } else {
            0
        };
        let want_all = sp.all_blocks;
        if b.flags & FLAG_SINGLE_UNIT != 0 {
            if b.flags & FLAG_COMPRESS == 0 || b.csize >= b.fsize {
                continue;
            }
            if !want_all && (special || budget_single == 0) {
                continue;
            }
            budget_single -= 1;
            let enc = if key != 0 { Some(Enc { start: b.pos, len: b.csize & !3, key }) } else { None };
            if key != 0 && b.csize < 4 {
                continue;
            }
            s.field_ex(b.pos, 1, "index", format!("file[{nm}].method"), b.pos + 1, 1, enc);
            if key == 0 && s.bytes[b.pos] == cf::HUFFMAN && b.csize > 2 {
                // the tree selector of a Huffman unit
                s.field_ex(b.pos + 1, 1, "index", format!("file[{nm}].huffman_tree"), b.pos + 2, 1, None);
            }
            if key == 0 {
                adpcm_site(&mut s, format!("file[{nm}]"), b.pos, b.pos + b.csize);
            }
            if b.flags & FLAG_SECTOR_CRC != 0 && b.pos + b.csize + 4 <= len {
                s.field_ex(b.pos + b.csize, 4, "index", format!("file[{nm}].crc"), b.pos + b.csize + 4, 1, None);
            }
        } else if b.flags & FLAG_COMPRESS != 0 {
            if !want_all && (special || budget_sectored == 0) {
                continue;
            }
            budget_sectored -= 1;
            let n = b.fsize.div_ceil(sector);
            let tl = 4 * (n + 1);
            let tab: Vec<u32> = if key != 0 {
                let p = plain(&s.bytes, b.pos, tl, key.wrapping_sub(1));
                (0..=n).map(|k| r32(&p, 4 * k)).collect()
            } else {
                (0..=n).map(|k| r32(&s.bytes, b.pos + 4 * k)).collect()
            };
            let tenc = if key != 0 { Some(Enc { start: b.pos, len: tl, key: key.wrapping_sub(1) }) } else { None };
            for k in 0..=n {
                if k < 2 || k == n {
                    s.field_ex(b.pos + 4 * k, 4, "offset", format!("file[{nm}].sector[{k}]"), b.pos, 1, tenc.clone());
                }
            }
            // the method byte of the first compressed sector
            for k in 0..n {
                let (st, en) = (tab[k] as usize, tab[k + 1] as usize);
                let expect = (b.fsize - k * sector).min(sector);
                if en > st && en - st < expect && b.pos + en <= len {
                    let sl = en - st;
                    if key != 0 && sl < 4 {
                        continue;
                    }
                    let enc = if key != 0 { Some(Enc { start: b.pos + st, len: sl & !3, key: key.wrapping_add(k as u32) }) } else { None };
                    s.field_ex(b.pos + st, 1, "index", format!("file[{nm}].sector[{k}].method"), b.pos + st + 1, 1, enc);
                    if key == 0 {
                        adpcm_site(&mut s, format!("file[{nm}].sector[{k}]"), b.pos + st, b.pos + en);
                    }
                    break;
                }
            }
        }
    }

    // HET / BET
    if v >= 2 {
        let (hp, bp) = (a + het_pos, a + bet_pos);
        s.field_ex(hp, 4, "tag", "het.signature", hp + 12, 1, None);
        s.field_ex(hp + 4, 4, "index", "het.version", hp + 12, 1, None);
        s.field_ex(hp + 8, 4, "bsize", "het.data_size", hp + 12, 1, None);
        s.field_ex(bp, 4, "tag", "bet.signature", bp + 12, 1, None);
        s.field_ex(bp + 4, 4, "index", "bet.version", bp + 12, 1, None);
        s.field_ex(bp + 8, 4, "bsize", "bet.data_size", bp + 12, 1, None);
        // a compressed body is compressed, then encrypted: only its method byte is addressable
        if het_cmp {
            let he = Enc { start: hp + 12, len: (het_size - 12) & !3, key: hash_key };
            s.field_ex(hp + 12, 1, "index", "het.method", hp + 13, 1, Some(he));
        } else if sp.fix_hetbet {
            // (as built, the tables never load: their inner fields would be dead weight)
            let he = Enc { start: hp + 12, len: (het_size - 12) & !3, key: hash_key };
            let hd = hp + 12;
            let hpl = plain(&s.bytes, hd, het_size - 12, hash_key);
            let het_entries = r32(&hpl, 8) as usize;
            let hf: [(&str, &'static str, usize, usize); 8] = [
                ("table_size", "bsize", hp, 1),
                ("max_file_count", "count", hd + 32 + het_entries, 1),
                ("hash_table_size", "count", hd + 32, 1),
                ("hash_entry_size", "shift", hd + 32, 1),
                ("total_index_size", "bsize", hd + 32 + het_entries, 1),
                ("index_size_extra", "shift", hd + 32, 1),
                ("index_size", "shift", hd + 32 + het_entries, 1),
                ("block_table_size", "bsize", hd + 32, 1),
            ];
            for (k, (n, role, base, unit)) in hf.iter().enumerate() {
                s.field_ex(hd + 4 * k, 4, role, format!("het.{n}"), *base, *unit, Some(he.clone()));
            }
            // one occupied 8-bit name hash slot and the first byte of the packed index array
            if let Some(slot) = (0..het_entries).find(|k| hpl[32 + k] != 0xFF) {
                s.field_ex(hd + 32 + slot, 1, "index", format!("het.hash[{slot}]"), hd + 32 + het_entries, 1, Some(he.clone()));
            }
            if 32 + het_entries < hpl.len() {
                s.field_ex(hd + 32 + het_entries, 1, "index", "het.index_bits[0]", hd + 32 + het_entries, 1, Some(he.clone()));
            }
        }
        if bet_cmp {
            let be = Enc { start: bp + 12, len: (bet_size - 12) & !3, key: block_key };
            s.field_ex(bp + 12, 1, "index", "bet.method", bp + 13, 1, Some(be));
        } else if sp.fix_hetbet {
            let be = Enc { start: bp + 12, len: (bet_size - 12) & !3, key: block_key };
            let bd = bp + 12;
            let bpl = plain(&s.bytes, bd, bet_size - 12, block_key);
            let flag_count = r32(&bpl, 72) as usize;
            let ftab = bd + 76 + 4 * flag_count;
            let bf: [(&str, &'static str, usize, usize); 19] = [
                ("table_size", "bsize", bp, 1),
                ("file_count", "count", ftab, (r32(&bpl, 12) as usize).div_ceil(8).max(1)),
                ("unknown_08", "index", bd + 76, 1),
                ("table_entry_size", "shift", ftab, 1),
                ("bit_index_file_pos", "shift", ftab, 1),
                ("bit_index_file_size", "shift", ftab, 1),
                ("bit_index_cmp_size", "shift", ftab, 1),
                ("bit_index_flag_index", "shift", ftab, 1),
                ("bit_index_unknown", "shift", ftab, 1),
                ("bit_count_file_pos", "shift", ftab, 1),
                ("bit_count_file_size", "shift", ftab, 1),
                ("bit_count_cmp_size", "shift", ftab, 1),
                ("bit_count_flag_index", "shift", ftab, 1),
                ("bit_count_unknown", "shift", ftab, 1),
                ("total_bet_hash_size", "bsize", ftab, 1),
                ("bet_hash_size_extra", "shift", ftab, 1),
                ("bet_hash_size", "shift", ftab, 1),
                ("bet_hash_array_size", "bsize", ftab, 1),
                ("flag_count", "count", bd + 76, 4),
            ];
            for (k, (n, role, base, unit)) in bf.iter().enumerate() {
                s.field_ex(bd + 4 * k, 4, role, format!("bet.{n}"), *base, *unit, Some(be.clone()));
            }
            for k in 0..flag_count {
                if k == 0 || k + 1 == flag_count {
                    s.field_ex(bd + 76 + 4 * k, 4, "index", format!("bet.flags[{k}]"), ftab, 1, Some(be.clone()));
                }
            }
            // the first word of the bit-packed file table (file_pos / file_size of entry 0)
            if ftab + 4 <= bd + ((bet_size - 12) & !3) {
                let fo = (ftab - bd) & !3;
                s.field_ex(bd + fo, 4, "offset", "bet.entry_bits[0]", a, 1, Some(be.clone()));
            }
        }
    }

    names.push(ABSENT.to_string());
    let mut uniq: Vec<String> = Vec::new();
    for n in names {
        if !uniq.contains(&n) {
            uniq.push(n);
        }
    }
    s.aux = Aux::Names(uniq);
    s
}

pub fn run(r: &mut Runner, bytes: &[u8], aux: &Aux) {
    let path = r.file(bytes);
    let ar = r.call("Archive::open", || Archive::open(&path).map_err(errname));
    if let Some(mut ar) = ar {
        r.call("Archive::get_info", || ar.get_info().map(|_| ()).map_err(errname));
        let listed = r.call("Archive::list", || ar.list().map(|v| v.into_iter().map(|e| e.name).collect::<Vec<String>>()).map_err(errname));
        let mut names: Vec<String> = Vec::new();
        if let Aux::Names(v) = aux {
            names.extend(v.iter().cloned());
        }
        for n in listed.unwrap_or_default() {
            if !names.contains(&n) {
                names.push(n);
            }
        }
        names.truncate(40);
        for n in &names {
            r.call("Archive::read_file", || ar.read_file(n).map(|_| ()).map_err(errname));
        }
    }
    let _ = std::fs::remove_file(&path);
}
