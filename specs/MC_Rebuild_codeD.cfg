CONSTANTS
  RFiles <- MListedNoSelf
  RTok <- MTok
  REnc = {"secret"}
  RSig = {"(signature)"}
  REmpty = {"empty"}
  RHetBet = FALSE
  RUnlisted <- MUnlisted
SPECIFICATION HeadSpec
INVARIANT NeverFails
CHECK_DEADLOCK FALSE
