----------------------------- MODULE ChunkFile -----------------------------
(* Generic IFF-style chunk framing, shared by the WDT / WDL / ADT / WMO layout specifications.    *)
(*                                                                                                 *)
(*   file   ::= chunk*                                                                             *)
(*   chunk  ::= tag:4 bytes, size:u32 little endian, payload: size bytes                           *)
(*                                                                                                 *)
(* The module is VARIABLE-FREE on purpose: a client declares its own state variable (say `vcf`)    *)
(* and advances it with the operators below, e.g.                                                  *)
(*        /\ CF_Fits(vcf, c)  /\  vcf' = CF_Walk(vcf, c)             (reader / walker side)        *)
(*        /\ vcf' = CF_Emit(vcf, tag, size)                            (writer side)                *)
(* so that several clients can EXTEND it without sharing variables.  All identifiers carry the     *)
(* prefix CF_ ; bound identifiers carry the prefix cf (TLC name-capture rule of BUILDING.md 8).     *)
(*                                                                                                 *)
(* A chunk observation is a record with at least the fields                                        *)
(*        tag  : STRING   (as the client spells it, e.g. "MVER" or "REVM")                         *)
(*        off  : Nat      offset of the 8-byte chunk HEADER in the file                            *)
(*        size : Nat      payload size stored in the header                                        *)
(* further fields (payload token, ...) are carried along untouched.                                *)
(*                                                                                                 *)
(* The cursor state is a record                                                                    *)
(*        cur  : Nat          next unread / unwritten byte                                         *)
(*        lim  : Seq(Nat)     stack of end positions; Head = innermost open container, last = file *)
(*        seen : Seq(chunk)   chunk headers passed so far, in file order (containers included)     *)
(* Containers (ADT MCNK, WMO MOGP) are chunks whose payload is  <fixed sub-header> chunk* .         *)
EXTENDS Integers, Sequences, SequencesExt, FiniteSets

CF_HDR == 8                                   \* bytes of a chunk header

CF_End(cfc)     == cfc.off + CF_HDR + cfc.size   \* first byte after the chunk
CF_Payload(cfc) == cfc.off + CF_HDR              \* first payload byte

\* ---- cursor state machine ----------------------------------------------------------------------
CF_Init(cfstart, cflen) == [cur |-> cfstart, lim |-> <<cflen>>, seen |-> <<>>]

\* the chunk `cfc` is exactly the next thing in the file and lies inside the innermost container
CF_Fits(cfst, cfc) == /\ cfc.off = cfst.cur
                      /\ cfc.size >= 0
                      /\ CF_End(cfc) <= Head(cfst.lim)

\* pass over a leaf chunk
CF_Walk(cfst, cfc) == [cfst EXCEPT !.cur = CF_End(cfc), !.seen = Append(@, cfc)]

\* writer side: emit a chunk of `cfsize` payload bytes at the cursor
CF_Chunk(cfst, cftag, cfsize) == [tag |-> cftag, off |-> cfst.cur, size |-> cfsize]
CF_Emit(cfst, cftag, cfsize)  == CF_Walk(cfst, CF_Chunk(cfst, cftag, cfsize))

\* enter a container chunk whose payload starts with `cfsub` bytes of fixed sub-header
CF_CanEnter(cfst, cfc, cfsub) == CF_Fits(cfst, cfc) /\ cfsub <= cfc.size
CF_Enter(cfst, cfc, cfsub) == [cur  |-> CF_Payload(cfc) + cfsub,
                               lim  |-> <<CF_End(cfc)>> \o cfst.lim,
                               seen |-> Append(cfst.seen, cfc)]
\* leave the innermost container: its sub-chunks must tile it exactly
CF_CanLeave(cfst) == Len(cfst.lim) > 1 /\ cfst.cur = Head(cfst.lim)
CF_Leave(cfst)    == [cfst EXCEPT !.lim = Tail(@)]

\* the file is finished: no open container, cursor at end of file
CF_Done(cfst) == Len(cfst.lim) = 1 /\ cfst.cur = Head(cfst.lim)

\* pass over a run of leaf chunks in one step (observations folded into one event)
CF_FitsAll(cfst, cfcs) ==
    /\ \A cfi \in 1..Len(cfcs) : cfcs[cfi].size >= 0
    /\ Len(cfcs) > 0 => cfcs[1].off = cfst.cur
    /\ \A cfi \in 1..(Len(cfcs) - 1) : cfcs[cfi + 1].off = CF_End(cfcs[cfi])
    /\ Len(cfcs) > 0 => CF_End(cfcs[Len(cfcs)]) <= Head(cfst.lim)
CF_WalkAll(cfst, cfcs) ==
    IF Len(cfcs) = 0 THEN cfst
    ELSE [cfst EXCEPT !.cur = CF_End(cfcs[Len(cfcs)]), !.seen = @ \o cfcs]

\* ---- predicates over a sequence of chunk observations ------------------------------------------
\* the chunks tile [cfstart, cflen) without gap or overlap (flat files)
CF_Tiles(cfcs, cfstart, cflen) ==
    IF Len(cfcs) = 0 THEN cfstart = cflen
    ELSE /\ cfcs[1].off = cfstart
         /\ \A cfi \in 1..(Len(cfcs) - 1) : cfcs[cfi + 1].off = CF_End(cfcs[cfi])
         /\ CF_End(cfcs[Len(cfcs)]) = cflen

CF_Tags(cfcs) == [cfi \in 1..Len(cfcs) |-> cfcs[cfi].tag]

\* index of the chunk whose header starts at `cfoff` (0 if none)
CF_IndexAt(cfcs, cfoff) ==
    LET cfhits == {cfi \in 1..Len(cfcs) : cfcs[cfi].off = cfoff}
    IN IF cfhits = {} THEN 0 ELSE CHOOSE cfi \in cfhits : TRUE

\* an absolute offset-table entry points at the HEADER of a chunk with the given tag
CF_PointsAt(cfcs, cftarget, cftag) ==
    \E cfi \in 1..Len(cfcs) : cfcs[cfi].off = cftarget /\ cfcs[cfi].tag = cftag
\* the same, relative to a base position (ADT MHDR entries are relative to the MHDR payload)
CF_PointsAtRel(cfcs, cfbase, cfrel, cftag) == CF_PointsAt(cfcs, cfbase + cfrel, cftag)
\* a claimed index is verified in O(1): `cfj` is the index of a chunk with that header offset and tag
CF_IsAt(cfcs, cfj, cftarget, cftag) ==
    /\ cfj \in 1..Len(cfcs)
    /\ cfcs[cfj].off = cftarget
    /\ cfcs[cfj].tag = cftag
\* an (offset, size) entry describes the whole chunk including / excluding its header
CF_SpanWithHeader(cfc)    == <<cfc.off, cfc.size + CF_HDR>>
CF_SpanWithoutHeader(cfc) == <<CF_Payload(cfc), cfc.size>>

\* byte ranges <<off, size>> are pairwise disjoint and inside [cflo, cfhi)
CF_RangesDisjoint(cfrs) ==
    \A cfi \in 1..Len(cfrs) : \A cfj \in (cfi + 1)..Len(cfrs) :
        \/ cfrs[cfi][2] = 0 \/ cfrs[cfj][2] = 0
        \/ cfrs[cfi][1] + cfrs[cfi][2] <= cfrs[cfj][1]
        \/ cfrs[cfj][1] + cfrs[cfj][2] <= cfrs[cfi][1]
CF_RangesInside(cfrs, cflo, cfhi) ==
    \A cfi \in 1..Len(cfrs) : cfrs[cfi][1] >= cflo /\ cfrs[cfi][1] + cfrs[cfi][2] <= cfhi

\* layout of a list of <<tag, size>> pairs written back to back from `cfstart`
CF_LayOut(cfspecs, cfstart) ==
    LET cfstep(cfacc, cfp) == CF_Emit(cfacc, cfp[1], cfp[2])
    IN FoldLeft(cfstep, CF_Init(cfstart, 2147483647), cfspecs).seen
CF_TotalSize(cfspecs) == FoldLeft(LAMBDA cfa, cfp : cfa + CF_HDR + cfp[2], 0, cfspecs)
=============================================================================
