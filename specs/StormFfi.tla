------------------------------ MODULE StormFfi ------------------------------
(***************************************************************************)
(* C19 -- the StormLib-style C API of /repo/ffi/storm-ffi/src/lib.rs as a  *)
(* state machine: three handle tables behind three Mutexes, a shared id    *)
(* counter behind a fourth, per-thread program counters, per-thread last   *)
(* error.  ONE ACTION PER CRITICAL SECTION, in the order in which lib.rs   *)
(* takes and releases its locks.  A critical section that is not nested    *)
(* inside another one and cannot block is a single atomic step (guard:     *)
(* the lock is free); a section during which a second lock is requested,   *)
(* or which may never end, is split into acquire / inner steps / release.  *)
(*                                                                         *)
(* `Dev` (a set of names) switches NAMED DEVIATIONS on.  Dev = {} is lib.rs AS IT IS WRITTEN NOW   *)
(* (after the fix commits 872df55, d1f6866, def3ee6 in storm-ffi and 20d617c in wow-mpq) and it    *)
(* satisfies every invariant below.  Each deviation is the code as it was before one of those      *)
(* commits (or a lock-order mutant); for each of them TLC must refute an invariant                 *)
(* (MC_StormFfi_dev<Name>.cfg, "must-refute"), and the counterexample is replayed on the real code:*)
(*                                                                                                 *)
(*   "CloseSplit"      (before d1f6866) SFileCloseArchive purged FILES in one critical section and *)
(*                     removed the archive from ARCHIVES in a second one             [F-C19-b]     *)
(*   "NoFindPurge"     (before d1f6866) SFileCloseArchive never touched FIND_HANDLES [F-C19-b]     *)
(*   "FindLate"        (before d1f6866) SFileFindFirstFile released ARCHIVES before it inserted    *)
(*                     into FIND_HANDLES                                                           *)
(*   "FindNextNested"  (before d1f6866) SFileFindNextFile called fill_find_data (locks ARCHIVES)    *)
(*                     while holding FIND_HANDLES: harmless with the old close, a lock-order        *)
(*                     inversion with the new one                                                  *)
(*   "VerifyRelock"    (before 872df55) SFileVerifyArchive(SFILE_VERIFY_ALL_FILES) called           *)
(*                     SFileVerifyFile, which locks ARCHIVES, while holding ARCHIVES  [F-C19-a]     *)
(*   "ProbeForever"    (before 20d617c) MutableArchive::add_to_hash_table probed for ever on a full *)
(*                     table, SFileAddFileEx holding ARCHIVES                         [F-C06-b]     *)
(*   "HasFileStale"    (before def3ee6) SFileHasFile / SFileVerifyFile on a writable archive        *)
(*                     consulted the read-only snapshot taken at open                 [F-C19-c]     *)
(*   "OpenFileGap"     (mutant, seeded/C19-s9) SFileOpenFileEx drops ARCHIVES after the lookup, before the   *)
(*                     new handle is inserted into FILES                                            *)
(*   "GetInfoNested"   (mutant, seeded/C19-s4) SFileGetFileInfo keeps FILES while it looks the    *)
(*                     handle up in ARCHIVES (named guards instead of temporaries)                 *)
(*   "CloseFileNested" (mutant, selftest/C19/mutant-6) SFileCloseFile takes ARCHIVES while it       *)
(*                     holds FILES: lock-order inversion against SFileOpenFileEx                    *)
(***************************************************************************)
EXTENDS Integers, Sequences, FiniteSets, TLC

CONSTANTS
    Threads,      \* thread identifiers
    ArchFiles,    \* archive files on disk
    Names,        \* file names inside archives
    Dev,          \* enabled deviations (subset of CodeDev)
    NextId(_)     \* the id the next allocation of thread t obtains: the counter in the model (MC: vnext),
                  \* the handle actually returned in trace validation (any fresh non-zero id is accepted:
                  \* the allocation scheme is not part of the property)

CodeDev == {"CloseSplit", "NoFindPurge", "FindLate", "FindNextNested", "VerifyRelock", "ProbeForever",
            "HasFileStale", "CloseFileNested", "GetInfoNested", "OpenFileGap"}

VARIABLES
    vdisk,     \* [ArchFiles -> [Names -> content]]   what is on disk
    vcap,      \* [ArchFiles -> Nat]                   hash-table capacity (names) of the file on disk
    vlist,     \* [ArchFiles -> Seq(name)]             listing order of the file on disk
    varch,     \* id :> [file, mut, sess, snap, lst, cap]  ARCHIVES  (lst: listing of the underlying
               \*                                      read-only Archive, "(listfile)" included)
    vfiles,    \* id :> [arch, name, data, pos]        FILES
    vfinds,    \* id :> [arch, list, idx]              FIND_HANDLES
    vnext,     \* NEXT_HANDLE
    vlock,     \* [Locks -> Threads \cup {Free}]       Mutex owners
    vpc,       \* [Threads -> label]
    vfr,       \* [Threads -> frame]                   arguments and locals of the call in progress
    vret,      \* [Threads -> result of the last completed call]
    vlast,     \* [Threads -> error class]             thread-local LAST_ERROR
    vclosed    \* archive ids whose SFileCloseArchive has returned TRUE (ghost)

tables == <<vdisk, vcap, vlist, varch, vfiles, vfinds, vnext>>
vars   == <<vdisk, vcap, vlist, varch, vfiles, vfinds, vnext, vlock, vpc, vfr, vret, vlast, vclosed>>

Locks  == {"ARCH", "FILES", "FINDS", "NEXT"}
Free   == "free"
None   == <<-1>>                 \* "no such file" (contents are sequences of bytes 0..255)
NoMap  == [x \in Names |-> None]

\* ---------------------------------------------------------------- small helpers
Min(a, b) == IF a <= b THEN a ELSE b
Max(a, b) == IF a >= b THEN a ELSE b
Present(m) == {x \in Names : m[x] # None}
Drop(f, ks) == [x \in DOMAIN f \ ks |-> f[x]]
\* names of a map in a fixed (arbitrary but deterministic) order: the listfile order is not part of
\* the abstract state, so lists are compared as sets by the trace specification
RECURSIVE SetSeq(_)
SetSeq(S) == IF S = {} THEN <<>> ELSE LET x == CHOOSE y \in S : TRUE IN <<x>> \o SetSeq(S \ {x})

NullFrame == [fn |-> "-", h |-> 0, name |-> "", n1 |-> 0, n2 |-> 0, dat |-> <<>>, tmp |-> 0, lst |-> <<>>]
NoRet     == [fn |-> "-", ret |-> 0, out |-> <<>>, err |-> "ok"]

\* clamp of SFileSetFilePointer, written so that no intermediate value leaves the 32-bit range of
\* TLC (off ranges over i32).  A target before the start of the file is clamped into 0..len as
\* well (the code wraps it to a huge usize and clamps to len; any value in 0..len is in range).
SeekTarget(pos, len, off, method) ==
    LET base == CASE method = 0 -> 0 [] method = 1 -> pos [] OTHER -> len IN
    IF off >= 0 THEN (IF off >= len - base THEN len ELSE base + off)
                ELSE (IF off + base < 0 THEN -1 ELSE off + base)
\* SeekTarget = -1  <=>  the target lies before the start of the file

TypeOK ==
    /\ vnext \in Nat \ {0}
    /\ vlock \in [Locks -> Threads \cup {Free}]
    /\ DOMAIN varch \subseteq 1..(vnext - 1)
    /\ DOMAIN vfiles \subseteq 1..(vnext - 1)
    /\ DOMAIN vfinds \subseteq 1..(vnext - 1)

LF == "(listfile)"
Special(x) == x = LF
UserNames(l) == SelectSeq(l, LAMBDA x : ~Special(x))
\* default listing of a name->content map: the present names in a fixed order, then the listfile
ListOf(m) == SetSeq(Present(m)) \o <<LF>>
InitWith(disk, cap, lst) ==
    /\ vdisk = disk
    /\ vcap = cap
    /\ vlist = lst
    /\ varch = <<>> /\ vfiles = <<>> /\ vfinds = <<>>
    /\ vnext = 1
    /\ vlock = [l \in Locks |-> Free]
    /\ vpc = [t \in Threads |-> "Idle"]
    /\ vfr = [t \in Threads |-> NullFrame]
    /\ vret = [t \in Threads |-> NoRet]
    /\ vlast = [t \in Threads |-> "ok"]
    /\ vclosed = {}
Init == InitWith([f \in ArchFiles |-> NoMap], [f \in ArchFiles |-> 16], [f \in ArchFiles |-> <<LF>>])

\* ---------------------------------------------------------------- call / return plumbing
\* A call is started by Invoke (the MC and Trace modules choose the arguments).
Entry(fn) == fn \o "0"
Invoke(t, fn, h, name, n1, n2, dat) ==
    /\ vpc[t] = "Idle"
    /\ vfr' = [vfr EXCEPT ![t] = [fn |-> fn, h |-> h, name |-> name, n1 |-> n1, n2 |-> n2, dat |-> dat,
                                  tmp |-> 0, lst |-> <<>>]]
    /\ vpc' = [vpc EXCEPT ![t] = Entry(fn)]
    /\ UNCHANGED <<tables, vlock, vret, vlast, vclosed>>

\* the call of thread t returns ret/out and sets the thread-local last error ("keep": untouched)
Finish(t, ret, out, err) ==
    /\ vpc' = [vpc EXCEPT ![t] = "Idle"]
    /\ vret' = [vret EXCEPT ![t] = [fn |-> vfr[t].fn, ret |-> ret, out |-> out,
                                    err |-> IF err = "keep" THEN vlast[t] ELSE err]]
    /\ vlast' = [vlast EXCEPT ![t] = IF err = "keep" THEN @ ELSE err]
    /\ vfr' = [vfr EXCEPT ![t] = NullFrame]
Goto(t, l)    == vpc' = [vpc EXCEPT ![t] = l] /\ UNCHANGED <<vret, vlast>>
At(t, l)      == vpc[t] = l
CanLock(l)    == vlock[l] = Free
Acquire(t, l) == vlock[l] = Free /\ vlock' = [vlock EXCEPT ![l] = t]
Release(t, l) == vlock[l] = t /\ vlock' = [vlock EXCEPT ![l] = Free]
Arg(t)        == vfr[t]
FreshId(id)   == id > 0 /\ id \notin (DOMAIN varch \cup DOMAIN vfiles \cup DOMAIN vfinds)
SetTmp(t, v)  == vfr' = [vfr EXCEPT ![t].tmp = v]
SetLst(t, v)  == vfr' = [vfr EXCEPT ![t].lst = v]

\* ============================================================================================
\* SFileOpenArchive / SFileCreateArchive2                       lib.rs:169-223, 2186-2305
\*   n1 = 0: SFileOpenArchive (read-only)   n1 = 1: SFileCreateArchive2 (truncate, open writable: the
\*   only way to a MutableArchive)   n1 = 2: SFileCreateArchive(CREATE_ALWAYS) (truncate, open
\*   read-only)   name = archive file (unknown file = does not exist)   n2 = capacity when creating
\* ============================================================================================
OA_Open(t) ==                               \* no lock: Archive::open / ArchiveBuilder::build
    /\ At(t, "OpenArchive0")
    /\ IF Arg(t).name \notin ArchFiles
       THEN /\ Finish(t, 0, <<>>, "not_found") /\ UNCHANGED <<tables, vlock, vclosed>>
       ELSE /\ vdisk' = IF Arg(t).n1 # 0 THEN [vdisk EXCEPT ![Arg(t).name] = NoMap] ELSE vdisk
            /\ vcap'  = IF Arg(t).n1 # 0 THEN [vcap EXCEPT ![Arg(t).name] = Arg(t).n2] ELSE vcap
            /\ vlist' = IF Arg(t).n1 # 0 THEN [vlist EXCEPT ![Arg(t).name] = <<LF>>] ELSE vlist
            /\ Goto(t, "OpenArchive1") /\ UNCHANGED <<varch, vfiles, vfinds, vnext, vlock, vfr, vclosed>>
OA_Id(t) ==                                 \* [NEXT]
    /\ At(t, "OpenArchive1") /\ CanLock("NEXT")
    /\ FreshId(NextId(t)) /\ SetTmp(t, NextId(t)) /\ vnext' = Max(vnext, NextId(t)) + 1
    /\ Goto(t, "OpenArchive2") /\ UNCHANGED <<vdisk, vcap, vlist, varch, vfiles, vfinds, vlock, vclosed>>
OA_Insert(t) ==                             \* [ARCH]
    /\ At(t, "OpenArchive2") /\ CanLock("ARCH")
    /\ LET f == Arg(t).name IN
       varch' = (Arg(t).tmp :> [file |-> f, mut |-> (Arg(t).n1 = 1), sess |-> vdisk[f], snap |-> vdisk[f],
                                lst |-> vlist[f], cap |-> vcap[f]]) @@ varch
    /\ Finish(t, Arg(t).tmp, <<>>, "ok")
    /\ UNCHANGED <<vdisk, vcap, vlist, vfiles, vfinds, vnext, vlock, vclosed>>

\* ============================================================================================
\* SFileCloseArchive                                              lib.rs:329-349
\* ============================================================================================
Purge(tab, a) == Drop(tab, {x \in DOMAIN tab : tab[x].arch = a})
\* dropping a MutableArchive flushes it (Drop for MutableArchive)
DiskAfterDrop(a) == IF varch[a].mut THEN [vdisk EXCEPT ![varch[a].file] = varch[a].sess] ELSE vdisk

CA_Null(t) ==
    /\ At(t, "CloseArchive0") /\ Arg(t).h = 0
    /\ Finish(t, 0, <<>>, "invalid_handle") /\ UNCHANGED <<tables, vlock, vclosed>>
\* --- deviation CloseSplit (before d1f6866): two separate critical sections, FIND_HANDLES forgotten
CA_PurgeFiles_Split(t) ==                   \* [FILES]
    /\ "CloseSplit" \in Dev
    /\ At(t, "CloseArchive0") /\ Arg(t).h # 0 /\ CanLock("FILES")
    /\ vfiles' = Purge(vfiles, Arg(t).h)
    /\ Goto(t, "CloseArchive1") /\ UNCHANGED <<vdisk, vcap, vlist, varch, vfinds, vnext, vlock, vfr, vclosed>>
CA_Remove_Split(t) ==                       \* [ARCH]
    /\ At(t, "CloseArchive1") /\ CanLock("ARCH")
    /\ LET a == Arg(t).h IN
       IF a \in DOMAIN varch
       THEN /\ varch' = Drop(varch, {a}) /\ vdisk' = DiskAfterDrop(a)
            /\ vfinds' = IF "NoFindPurge" \in Dev THEN vfinds ELSE Purge(vfinds, a)   \* (would need FINDS)
            /\ vclosed' = vclosed \cup {a}
            /\ Finish(t, 1, <<>>, "ok")
       ELSE /\ Finish(t, 0, <<>>, "invalid_handle") /\ UNCHANGED <<vdisk, varch, vfinds, vclosed>>
    /\ UNCHANGED <<vcap, vlist, vfiles, vnext, vlock>>
\* --- as written: remove the archive first and purge both tables before ARCHIVES is released
CA_Remove(t) ==                             \* acquire ARCH; remove
    /\ "CloseSplit" \notin Dev
    /\ At(t, "CloseArchive0") /\ Arg(t).h # 0 /\ CanLock("ARCH")
    /\ LET a == Arg(t).h IN
       IF a \in DOMAIN varch
       THEN /\ varch' = Drop(varch, {a}) /\ vdisk' = DiskAfterDrop(a)
            /\ vlock' = [vlock EXCEPT !["ARCH"] = t]
            /\ Goto(t, "CloseArchive2") /\ UNCHANGED <<vfr>>
       ELSE /\ Finish(t, 0, <<>>, "invalid_handle") /\ UNCHANGED <<vdisk, varch, vlock>>
    /\ UNCHANGED <<vcap, vlist, vfiles, vfinds, vnext, vclosed>>
CA_PurgeFiles(t) ==                         \* ARCH held; [FILES]
    /\ At(t, "CloseArchive2") /\ CanLock("FILES")
    /\ vfiles' = Purge(vfiles, Arg(t).h)
    /\ Goto(t, "CloseArchive3") /\ UNCHANGED <<vdisk, vcap, vlist, varch, vfinds, vnext, vlock, vfr, vclosed>>
CA_PurgeFinds(t) ==                         \* ARCH held; [FINDS]; release ARCH
    /\ At(t, "CloseArchive3") /\ CanLock("FINDS")
    /\ vfinds' = IF "NoFindPurge" \in Dev THEN vfinds ELSE Purge(vfinds, Arg(t).h)
    /\ Release(t, "ARCH")
    /\ vclosed' = vclosed \cup {Arg(t).h}
    /\ Finish(t, 1, <<>>, "ok") /\ UNCHANGED <<vdisk, vcap, vlist, varch, vfiles, vnext>>

\* ============================================================================================
\* SFileOpenFileEx                                                lib.rs:358-452
\*   ARCHIVES is held from the lookup until the function returns; NEXT_HANDLE and FILES are
\*   taken inside.
\* ============================================================================================
\* what a lookup of `name` through handle record `r` sees (session state of a writable archive)
View(r) == r.sess
OF_Null(t) ==
    /\ At(t, "OpenFileEx0") /\ Arg(t).h = 0
    /\ Finish(t, 0, <<>>, "invalid_handle") /\ UNCHANGED <<tables, vlock, vclosed>>
OF_Lookup(t) ==                             \* acquire ARCH; find_file + read_file
    /\ At(t, "OpenFileEx0") /\ Arg(t).h # 0 /\ CanLock("ARCH")
    /\ LET a == Arg(t).h IN
       IF a \notin DOMAIN varch
       THEN Finish(t, 0, <<>>, "invalid_handle") /\ UNCHANGED vlock
       ELSE IF Arg(t).name \notin Names \/ View(varch[a])[Arg(t).name] = None
       THEN Finish(t, 0, <<>>, "not_found") /\ UNCHANGED vlock
       ELSE \/ /\ vfr' = [vfr EXCEPT ![t].dat = View(varch[a])[Arg(t).name]]
               /\ IF "OpenFileGap" \in Dev THEN UNCHANGED vlock ELSE vlock' = [vlock EXCEPT !["ARCH"] = t]
               /\ Goto(t, "OpenFileEx1")
            \* find_file succeeds but read_file fails (ERROR_FILE_CORRUPT).  For a writable archive this is an
            \* outcome the Rust API itself produces (MutableArchive::read_file cannot decode a compressed file
            \* added in the current session until the archive is reopened -- wow-mpq's business, C06); the
            \* trace specification accepts it only when the Rust API fails on the same name as well.
            \/ /\ varch[a].mut
               /\ Finish(t, 0, <<>>, "corrupt") /\ UNCHANGED vlock
    /\ UNCHANGED <<tables, vclosed>>
OF_Id(t) ==                                 \* ARCH held; [NEXT]
    /\ At(t, "OpenFileEx1") /\ CanLock("NEXT")
    /\ FreshId(NextId(t)) /\ SetTmp(t, NextId(t)) /\ vnext' = Max(vnext, NextId(t)) + 1
    /\ Goto(t, "OpenFileEx2") /\ UNCHANGED <<vdisk, vcap, vlist, varch, vfiles, vfinds, vlock, vclosed>>
OF_Insert(t) ==                             \* ARCH held; [FILES]; release ARCH on return
    /\ At(t, "OpenFileEx2") /\ CanLock("FILES")
    /\ vfiles' = (Arg(t).tmp :> [arch |-> Arg(t).h, name |-> Arg(t).name, data |-> Arg(t).dat, pos |-> 0]) @@ vfiles
    /\ IF "OpenFileGap" \in Dev THEN UNCHANGED vlock ELSE Release(t, "ARCH")
    /\ Finish(t, Arg(t).tmp, <<>>, "ok")
    /\ UNCHANGED <<vdisk, vcap, vlist, varch, vfinds, vnext, vclosed>>

\* ============================================================================================
\* functions that are one critical section on FILES            lib.rs:456-612, 970-999
\* ============================================================================================
FileCall(t, fn) == At(t, Entry(fn)) /\ (Arg(t).h = 0 \/ CanLock("FILES"))
BadFile(t)      == Arg(t).h = 0 \/ Arg(t).h \notin DOMAIN vfiles

CloseFile(t) ==
    /\ ("CloseFileNested" \notin Dev \/ Arg(t).h = 0)
    /\ FileCall(t, "CloseFile")
    /\ IF BadFile(t) THEN Finish(t, 0, <<>>, "invalid_handle") /\ UNCHANGED vfiles
       ELSE vfiles' = Drop(vfiles, {Arg(t).h}) /\ Finish(t, 1, <<>>, "ok")
    /\ UNCHANGED <<vdisk, vcap, vlist, varch, vfinds, vnext, vlock, vclosed>>

\* --- mutant: FILES is kept while ARCHIVES is requested (FILES -> ARCH; SFileOpenFileEx goes ARCH -> FILES)
CF_Acquire(t) ==
    /\ "CloseFileNested" \in Dev
    /\ At(t, "CloseFile0") /\ Arg(t).h # 0 /\ Acquire(t, "FILES")
    /\ Goto(t, "CloseFile1") /\ UNCHANGED <<tables, vfr, vclosed>>
CF_Remove(t) ==
    /\ At(t, "CloseFile1") /\ CanLock("ARCH")
    /\ IF BadFile(t) THEN Finish(t, 0, <<>>, "invalid_handle") /\ UNCHANGED vfiles
       ELSE vfiles' = Drop(vfiles, {Arg(t).h}) /\ Finish(t, 1, <<>>, "ok")
    /\ Release(t, "FILES")
    /\ UNCHANGED <<vdisk, vcap, vlist, varch, vfinds, vnext, vclosed>>

\* n1 = to_read (u32; the trace clamps it to the buffer it really supplies)
ReadFile(t) ==
    /\ FileCall(t, "ReadFile")
    /\ IF BadFile(t) THEN Finish(t, 0, <<>>, "invalid_handle") /\ UNCHANGED vfiles
       ELSE LET f == vfiles[Arg(t).h]
                n == Min(Arg(t).n1, Len(f.data) - f.pos) IN
            /\ vfiles' = [vfiles EXCEPT ![Arg(t).h].pos = f.pos + n]
            /\ Finish(t, 1, SubSeq(f.data, f.pos + 1, f.pos + n), "ok")
    /\ UNCHANGED <<vdisk, vcap, vlist, varch, vfinds, vnext, vlock, vclosed>>

GetFileSize(t) ==
    /\ FileCall(t, "GetFileSize")
    /\ IF BadFile(t) THEN Finish(t, -1, <<>>, "invalid_handle")
       ELSE Finish(t, Len(vfiles[Arg(t).h].data), <<>>, "ok")
    /\ UNCHANGED <<tables, vlock, vclosed>>

\* n1 = offset (i32), n2 = move method.  A target before the start of the file may be answered
\* with any position in 0..len (SeekBefore: the code answers len); see SeekTarget.
SetFilePointer(t) ==
    /\ FileCall(t, "SetFilePointer")
    /\ IF BadFile(t) THEN Finish(t, -1, <<>>, "invalid_handle") /\ UNCHANGED vfiles
       ELSE IF Arg(t).n2 \notin {0, 1, 2} THEN Finish(t, -1, <<>>, "invalid_param") /\ UNCHANGED vfiles
       ELSE LET f  == vfiles[Arg(t).h]
                tg == SeekTarget(f.pos, Len(f.data), Arg(t).n1, Arg(t).n2) IN
            \E np \in (IF tg = -1 THEN 0..Len(f.data) ELSE {tg}) :
               /\ vfiles' = [vfiles EXCEPT ![Arg(t).h].pos = np]
               /\ Finish(t, np, <<>>, "ok")
    /\ UNCHANGED <<vdisk, vcap, vlist, varch, vfinds, vnext, vlock, vclosed>>

GetFileName(t) ==
    /\ FileCall(t, "GetFileName")
    /\ IF BadFile(t) THEN Finish(t, 0, <<>>, "invalid_handle")
       ELSE Finish(t, 1, <<vfiles[Arg(t).h].name>>, "ok")
    /\ UNCHANGED <<tables, vlock, vclosed>>

\* ============================================================================================
\* SFileGetFileInfo: FILES first, then ARCHIVES (two consecutive sections)   lib.rs:652-685
\*   n1 = info class (1 archive size, 2 hash table size: archives; 7 file size, 10 position: files)
\*   n2 = buffer size in bytes
\* ============================================================================================
GI_File(t) ==
    /\ At(t, "GetFileInfo0") /\ (Arg(t).h = 0 \/ CanLock("FILES"))
    /\ IF Arg(t).h = 0 THEN Finish(t, 0, <<>>, "invalid_handle")
       ELSE IF Arg(t).h \in DOMAIN vfiles
       THEN LET f == vfiles[Arg(t).h] IN
            /\ IF Arg(t).n1 \notin {7, 10} THEN Finish(t, 0, <<>>, "not_supported")
               ELSE IF Arg(t).n2 < 8 THEN Finish(t, 0, <<>>, "insufficient_buffer")
               ELSE Finish(t, 1, <<IF Arg(t).n1 = 7 THEN Len(f.data) ELSE f.pos>>, "ok")
       ELSE Goto(t, "GetFileInfo1") /\ UNCHANGED vfr
    /\ IF "GetInfoNested" \in Dev /\ Arg(t).h # 0 /\ Arg(t).h \notin DOMAIN vfiles
       THEN vlock' = [vlock EXCEPT !["FILES"] = t]        \* mutant: the FILES guard stays alive
       ELSE UNCHANGED vlock
    /\ UNCHANGED <<tables, vclosed>>
GI_Archive(t) ==
    /\ At(t, "GetFileInfo1") /\ CanLock("ARCH")
    /\ IF "GetInfoNested" \in Dev THEN Release(t, "FILES") ELSE UNCHANGED vlock
    /\ IF Arg(t).h \notin DOMAIN varch THEN Finish(t, 0, <<>>, "invalid_handle")
       ELSE IF Arg(t).n1 \notin {1, 2} THEN Finish(t, 0, <<>>, "not_supported")
       ELSE IF Arg(t).n2 < (IF Arg(t).n1 = 1 THEN 8 ELSE 4) THEN Finish(t, 0, <<>>, "insufficient_buffer")
       ELSE Finish(t, 1, <<>>, "ok")
    /\ UNCHANGED <<tables, vclosed>>

\* ============================================================================================
\* functions that are one critical section on ARCHIVES
\* ============================================================================================
ArchCall(t, fn) == At(t, Entry(fn)) /\ (Arg(t).h = 0 \/ CanLock("ARCH"))
BadArch(t)      == Arg(t).h = 0 \/ Arg(t).h \notin DOMAIN varch
\* what SFileHasFile / SFileVerifyFile look at
Stale(r) == IF r.mut /\ "HasFileStale" \in Dev THEN r.snap ELSE r.sess

HasFile(t) ==                               \* lib.rs:620-643 (never touches the last error)
    /\ ArchCall(t, "HasFile")
    /\ IF BadArch(t) THEN Finish(t, 0, <<0>>, "keep")
       ELSE LET m  == Stale(varch[Arg(t).h])
                mt == varch[Arg(t).h].sess IN             \* out = what MutableArchive::find_file answers
            Finish(t, IF Arg(t).name \in Names /\ m[Arg(t).name] # None THEN 1 ELSE 0,
                   <<IF Arg(t).name \in Names /\ mt[Arg(t).name] # None THEN 1 ELSE 0>>, "keep")
    /\ UNCHANGED <<tables, vlock, vclosed>>

VerifyFile(t) ==                            \* lib.rs:1098-1253
    /\ ArchCall(t, "VerifyFile")
    /\ IF BadArch(t) THEN Finish(t, 0, <<>>, "invalid_handle")
       ELSE LET m == Stale(varch[Arg(t).h]) IN
            IF Arg(t).name \in Names /\ m[Arg(t).name] # None THEN Finish(t, 1, <<>>, "ok")
            ELSE Finish(t, 0, <<>>, "not_found")
    /\ UNCHANGED <<tables, vlock, vclosed>>

\* names as the (listfile) of the underlying read-only Archive gives them (MutableArchive::list
\* delegates to it, so the Rust API and the C API agree on the stale list)
Listing(r) == r.lst

EnumFiles(t) ==                             \* lib.rs:862-931  (callback runs under ARCHIVES)
    /\ ArchCall(t, "EnumFiles")
    /\ IF BadArch(t) THEN Finish(t, 0, <<>>, "invalid_handle")
       ELSE Finish(t, 1, UserNames(Listing(varch[Arg(t).h])), "ok")
    /\ UNCHANGED <<tables, vlock, vclosed>>

\* n2 = buffer size class: 0 = zero bytes, 1 = ample, 2 = path length (NUL does not fit), 3 = exact
GetArchiveName(t) ==                        \* lib.rs:811-852
    /\ ArchCall(t, "GetArchiveName")
    /\ IF Arg(t).n2 = 0 THEN Finish(t, 0, <<>>, "invalid_param")
       ELSE IF BadArch(t) THEN Finish(t, 0, <<>>, "invalid_handle")
       ELSE IF Arg(t).n2 = 2 THEN Finish(t, 0, <<>>, "insufficient_buffer")    \* one byte short
       ELSE Finish(t, 1, <<varch[Arg(t).h].file>>, "ok")
    /\ UNCHANGED <<tables, vlock, vclosed>>

ExtractFile(t) ==                           \* lib.rs:1008-1090
    /\ ArchCall(t, "ExtractFile")
    /\ IF BadArch(t) THEN Finish(t, 0, <<>>, "invalid_handle")
       ELSE LET m == View(varch[Arg(t).h]) IN
            IF Arg(t).name \in Names /\ m[Arg(t).name] # None
            THEN \/ Finish(t, 1, m[Arg(t).name], "ok")
                 \/ varch[Arg(t).h].mut /\ Finish(t, 0, <<>>, "corrupt")      \* see OF_Lookup
            ELSE Finish(t, 0, <<>>, "not_found")
    /\ UNCHANGED <<tables, vlock, vclosed>>

\* --- modification (SFileAddFileEx / RemoveFile / RenameFile / FlushArchive / CompactArchive)
Used(r) == Cardinality(Present(r.sess)) + 1            \* + (listfile)
AddFile(t) ==                               \* lib.rs:1377-1485; n1 = 1: MPQ_FILE_REPLACEEXISTING
    /\ ArchCall(t, "AddFile")
    /\ IF Arg(t).h = 0 THEN Finish(t, 0, <<>>, "invalid_param") /\ UNCHANGED <<varch, vlock>>
       ELSE IF BadArch(t) THEN Finish(t, 0, <<>>, "invalid_handle") /\ UNCHANGED <<varch, vlock>>
       ELSE LET r == varch[Arg(t).h] IN
            IF ~r.mut THEN Finish(t, 0, <<>>, "access_denied") /\ UNCHANGED <<varch, vlock>>
            ELSE IF Arg(t).name \notin Names THEN Finish(t, 0, <<>>, "other") /\ UNCHANGED <<varch, vlock>>
            ELSE IF r.sess[Arg(t).name] # None /\ Arg(t).n1 = 0
                 THEN \* without MPQ_FILE_REPLACEEXISTING StormLib answers ERROR_ALREADY_EXISTS; lib.rs leaves
                      \* AddFileOptions::replace_existing at its default (true) and replaces.  C19 does not
                      \* state either behaviour (the Rust API with the same options agrees): both are accepted.
                      \/ Finish(t, 0, <<>>, "exists") /\ UNCHANGED <<varch, vlock>>
                      \/ /\ varch' = [varch EXCEPT ![Arg(t).h].sess[Arg(t).name] = Arg(t).dat]
                         /\ Finish(t, 1, <<>>, "ok") /\ UNCHANGED vlock
            ELSE IF r.sess[Arg(t).name] = None /\ Used(r) >= r.cap
                 THEN IF "ProbeForever" \in Dev
                      THEN \* AF_ProbeForever: the probe loop never ends; ARCHIVES stays locked
                           /\ vlock' = [vlock EXCEPT !["ARCH"] = t]
                           /\ Goto(t, "AddFileSpin") /\ UNCHANGED <<varch, vfr>>
                      ELSE Finish(t, 0, <<>>, "full") /\ UNCHANGED <<varch, vlock>>
            ELSE /\ varch' = [varch EXCEPT ![Arg(t).h].sess[Arg(t).name] = Arg(t).dat]
                 /\ Finish(t, 1, <<>>, "ok") /\ UNCHANGED vlock
    /\ UNCHANGED <<vdisk, vcap, vlist, vfiles, vfinds, vnext, vclosed>>

RemoveFile(t) ==                            \* lib.rs:1510-1572
    /\ ArchCall(t, "RemoveFile")
    /\ IF Arg(t).h = 0 THEN Finish(t, 0, <<>>, "invalid_param") /\ UNCHANGED varch
       ELSE IF BadArch(t) THEN Finish(t, 0, <<>>, "invalid_handle") /\ UNCHANGED varch
       ELSE LET r == varch[Arg(t).h] IN
            IF ~r.mut THEN Finish(t, 0, <<>>, "access_denied") /\ UNCHANGED varch
            ELSE IF Arg(t).name \notin Names \/ r.sess[Arg(t).name] = None
                 THEN Finish(t, 0, <<>>, "not_found") /\ UNCHANGED varch
            ELSE /\ varch' = [varch EXCEPT ![Arg(t).h].sess[Arg(t).name] = None]
                 /\ Finish(t, 1, <<>>, "ok")
    /\ UNCHANGED <<vdisk, vcap, vlist, vfiles, vfinds, vnext, vlock, vclosed>>

\* name -> dat[1] (the new name is carried in lst of the invocation: vfr.dat = <<newname>>)
RenameFile(t) ==                            \* lib.rs:1581-1652
    /\ ArchCall(t, "RenameFile")
    /\ LET nn == Arg(t).dat[1] IN
       IF Arg(t).h = 0 THEN Finish(t, 0, <<>>, "invalid_param") /\ UNCHANGED varch
       ELSE IF BadArch(t) THEN Finish(t, 0, <<>>, "invalid_handle") /\ UNCHANGED varch
       ELSE LET r == varch[Arg(t).h] IN
            IF ~r.mut THEN Finish(t, 0, <<>>, "access_denied") /\ UNCHANGED varch
            ELSE IF Arg(t).name \notin Names \/ r.sess[Arg(t).name] = None
                 THEN Finish(t, 0, <<>>, "not_found") /\ UNCHANGED varch
            ELSE IF nn \notin Names THEN Finish(t, 0, <<>>, "other") /\ UNCHANGED varch
            ELSE IF r.sess[nn] # None THEN Finish(t, 0, <<>>, "exists") /\ UNCHANGED varch
            ELSE /\ varch' = [varch EXCEPT ![Arg(t).h].sess = [@ EXCEPT ![nn] = r.sess[Arg(t).name],
                                                                          ![Arg(t).name] = None]]
                 /\ Finish(t, 1, <<>>, "ok")
    /\ UNCHANGED <<vdisk, vcap, vlist, vfiles, vfinds, vnext, vlock, vclosed>>

\* n1 = 0: SFileFlushArchive, n1 = 1: SFileCompactArchive (re-opens: the snapshot is refreshed)
FlushArchive(t) ==                          \* lib.rs:1660-1763
    /\ ArchCall(t, "FlushArchive")
    /\ IF Arg(t).h = 0 THEN Finish(t, 0, <<>>, "invalid_param") /\ UNCHANGED <<vdisk, varch>>
       ELSE IF BadArch(t) THEN Finish(t, 0, <<>>, "invalid_handle") /\ UNCHANGED <<vdisk, varch>>
       ELSE LET r == varch[Arg(t).h] IN
            IF ~r.mut THEN /\ (IF Arg(t).n1 = 0 THEN Finish(t, 1, <<>>, "ok") ELSE Finish(t, 0, <<>>, "access_denied"))
                           /\ UNCHANGED <<vdisk, varch>>
            ELSE /\ vdisk' = [vdisk EXCEPT ![r.file] = r.sess]
                 /\ varch' = IF Arg(t).n1 = 1 THEN [varch EXCEPT ![Arg(t).h].snap = r.sess,
                                                                    ![Arg(t).h].lst = ListOf(r.sess)] ELSE varch
                 /\ Finish(t, 1, <<>>, "ok")
    /\ UNCHANGED <<vcap, vlist, vfiles, vfinds, vnext, vlock, vclosed>>

\* ============================================================================================
\* SFileVerifyArchive                                             lib.rs:1264-1368
\*   n1 = 1: SFILE_VERIFY_ALL_FILES
\* ============================================================================================
VA_Null(t) ==
    /\ At(t, "VerifyArchive0") /\ Arg(t).h = 0
    /\ Finish(t, 0, <<>>, "invalid_handle") /\ UNCHANGED <<tables, vlock, vclosed>>
VA_Begin(t) ==                              \* acquire ARCH; signature; list
    /\ At(t, "VerifyArchive0") /\ Arg(t).h # 0 /\ CanLock("ARCH")
    /\ IF Arg(t).h \notin DOMAIN varch THEN Finish(t, 0, <<>>, "invalid_handle") /\ UNCHANGED vlock
       ELSE IF Arg(t).n1 = 0 \/ UserNames(Listing(varch[Arg(t).h])) = <<>> THEN Finish(t, 1, <<>>, "ok") /\ UNCHANGED vlock
       ELSE /\ SetLst(t, UserNames(Listing(varch[Arg(t).h])))
            /\ IF "VerifyRelock" \in Dev
               THEN vlock' = [vlock EXCEPT !["ARCH"] = t]          \* the guard stays alive during the loop
               ELSE UNCHANGED vlock                                  \* intended: names collected, guard dropped
            /\ Goto(t, "VerifyArchive1")
    /\ UNCHANGED <<tables, vclosed>>
\* one iteration: SFileVerifyFile(archive, name) -- a critical section on ARCHIVES of its own.
\* As written the calling thread still owns ARCHIVES, so this step is never enabled
\* (std::sync::Mutex is not re-entrant): the named deviation VerifyRelock.
VA_VerifyOne(t) ==
    /\ At(t, "VerifyArchive1") /\ CanLock("ARCH")
    /\ IF Len(Arg(t).lst) = 1 THEN Finish(t, 1, <<>>, "ok")
       ELSE SetLst(t, Tail(Arg(t).lst)) /\ Goto(t, "VerifyArchive1")
    /\ UNCHANGED <<tables, vlock, vclosed>>

\* ============================================================================================
\* SFileFindFirstFile / SFileFindNextFile / SFileFindClose      lib.rs:1907-2101
\* ============================================================================================
\* Search masks (the `name` argument of FindFirst).  The model works on abstract names, so a mask is a class:
\*   "" / "m0" = "*", "m1" = "*.*" (everything), "m2" = "*.bin" and "m3" = "data\*" (the data files f*, g*),
\*   "m4" = "data\?0.bin" (f0 and g0: non-matching entries in between), "m5" = the exact name of f2,
\*   "m6" = no match, "m7" = "D\*" (the long names n*, upper-case directory)
DataName(x) == x \in {"f0", "f1", "f2", "f3", "g0", "g1", "g2", "g3", "g4", "g5", "g6", "g7", "g8", "g9", "ga", "gb"}
MaskMatch(m, x) ==
    CASE m \in {"", "m0", "m1"} -> TRUE
      [] m \in {"m2", "m3"}     -> DataName(x)
      [] m = "m4"               -> x \in {"f0", "g0"}
      [] m = "m5"               -> x = "f2"
      [] m = "m7"               -> x \in {"n259", "n260", "n261", "n1024"}
      [] OTHER                  -> FALSE
\* a search = the listing filtered by the mask, delivered in order, every name once
Filtered(r, m) == SelectSeq(Listing(r), LAMBDA x : MaskMatch(m, x))
FF_Null(t) ==
    /\ At(t, "FindFirst0") /\ Arg(t).h = 0
    /\ Finish(t, 0, <<>>, "invalid_handle") /\ UNCHANGED <<tables, vlock, vclosed>>
FF_List(t) ==                               \* [ARCH] list   (intended: ARCH stays held until FF_Insert)
    /\ At(t, "FindFirst0") /\ Arg(t).h # 0 /\ CanLock("ARCH")
    /\ IF Arg(t).h \notin DOMAIN varch THEN Finish(t, 0, <<>>, "invalid_handle") /\ UNCHANGED vlock
       ELSE IF Filtered(varch[Arg(t).h], Arg(t).name) = <<>> THEN Finish(t, 0, <<>>, "not_found") /\ UNCHANGED vlock
       ELSE /\ SetLst(t, Filtered(varch[Arg(t).h], Arg(t).name))
            /\ IF "FindLate" \in Dev THEN UNCHANGED vlock ELSE vlock' = [vlock EXCEPT !["ARCH"] = t]
            /\ Goto(t, IF "FindLate" \in Dev THEN "FindFirst1" ELSE "FindFirst2")
    /\ UNCHANGED <<tables, vclosed>>
FF_Fill_Late(t) ==                          \* as written: fill_find_data re-locks [ARCH] (released before)
    /\ At(t, "FindFirst1") /\ CanLock("ARCH")
    /\ Goto(t, "FindFirst2") /\ UNCHANGED <<tables, vlock, vfr, vclosed>>
FF_Id(t) ==                                 \* [NEXT]
    /\ At(t, "FindFirst2") /\ CanLock("NEXT")
    /\ FreshId(NextId(t)) /\ SetTmp(t, NextId(t)) /\ vnext' = Max(vnext, NextId(t)) + 1
    /\ Goto(t, "FindFirst3") /\ UNCHANGED <<vdisk, vcap, vlist, varch, vfiles, vfinds, vlock, vclosed>>
FF_Insert(t) ==                             \* [FINDS] insert (intended: then release ARCH)
    /\ At(t, "FindFirst3") /\ CanLock("FINDS")
    /\ vfinds' = (Arg(t).tmp :> [arch |-> Arg(t).h, list |-> Arg(t).lst, idx |-> 1]) @@ vfinds
    /\ IF "FindLate" \in Dev THEN UNCHANGED vlock ELSE Release(t, "ARCH")
    /\ Finish(t, Arg(t).tmp, <<Arg(t).lst[1]>>, "ok")
    /\ UNCHANGED <<vdisk, vcap, vlist, varch, vfiles, vnext, vclosed>>

FN_Null(t) ==
    /\ At(t, "FindNext0") /\ Arg(t).h = 0
    /\ Finish(t, 0, <<>>, "invalid_handle") /\ UNCHANGED <<tables, vlock, vclosed>>
FN_Advance(t) ==                            \* FINDS: advance the cursor
    /\ At(t, "FindNext0") /\ Arg(t).h # 0 /\ CanLock("FINDS")
    /\ IF Arg(t).h \notin DOMAIN vfinds THEN Finish(t, 0, <<>>, "invalid_handle") /\ UNCHANGED <<vfinds, vlock>>
       ELSE LET s == vfinds[Arg(t).h] IN
            IF s.idx >= Len(s.list) THEN Finish(t, 0, <<>>, "no_more_files") /\ UNCHANGED <<vfinds, vlock>>
            ELSE /\ vfinds' = [vfinds EXCEPT ![Arg(t).h].idx = s.idx + 1]
                 /\ SetLst(t, <<s.list[s.idx + 1]>>)
                 /\ IF "FindNextNested" \in Dev THEN vlock' = [vlock EXCEPT !["FINDS"] = t] ELSE UNCHANGED vlock
                 /\ Goto(t, "FindNext1")
    /\ UNCHANGED <<vdisk, vcap, vlist, varch, vfiles, vnext, vclosed>>
FN_Fill(t) ==                               \* fill_find_data: [ARCH] (as written: FINDS still held)
    /\ At(t, "FindNext1") /\ CanLock("ARCH")
    /\ IF "FindNextNested" \in Dev THEN Release(t, "FINDS") ELSE UNCHANGED vlock
    /\ Finish(t, 1, Arg(t).lst, "ok")
    /\ UNCHANGED <<tables, vclosed>>

FindClose(t) ==
    /\ At(t, "FindClose0") /\ (Arg(t).h = 0 \/ CanLock("FINDS"))
    /\ IF Arg(t).h = 0 \/ Arg(t).h \notin DOMAIN vfinds
       THEN Finish(t, 0, <<>>, "invalid_handle") /\ UNCHANGED vfinds
       ELSE vfinds' = Drop(vfinds, {Arg(t).h}) /\ Finish(t, 1, <<>>, "ok")
    /\ UNCHANGED <<vdisk, vcap, vlist, varch, vfiles, vnext, vlock, vclosed>>

\* ---------------------------------------------------------------- all steps of thread t but Invoke
Step(t) ==
    \/ OA_Open(t) \/ OA_Id(t) \/ OA_Insert(t)
    \/ CA_Null(t) \/ CA_PurgeFiles_Split(t) \/ CA_Remove_Split(t) \/ CA_Remove(t) \/ CA_PurgeFiles(t) \/ CA_PurgeFinds(t)
    \/ OF_Null(t) \/ OF_Lookup(t) \/ OF_Id(t) \/ OF_Insert(t)
    \/ CloseFile(t) \/ CF_Acquire(t) \/ CF_Remove(t) \/ ReadFile(t) \/ GetFileSize(t) \/ SetFilePointer(t) \/ GetFileName(t)
    \/ GI_File(t) \/ GI_Archive(t)
    \/ HasFile(t) \/ VerifyFile(t) \/ EnumFiles(t) \/ GetArchiveName(t) \/ ExtractFile(t)
    \/ AddFile(t) \/ RemoveFile(t) \/ RenameFile(t) \/ FlushArchive(t)
    \/ VA_Null(t) \/ VA_Begin(t) \/ VA_VerifyOne(t)
    \/ FF_Null(t) \/ FF_List(t) \/ FF_Fill_Late(t) \/ FF_Id(t) \/ FF_Insert(t)
    \/ FN_Null(t) \/ FN_Advance(t) \/ FN_Fill(t)
    \/ FindClose(t)

Fns == {"OpenArchive", "CloseArchive", "OpenFileEx", "CloseFile", "ReadFile", "GetFileSize", "SetFilePointer",
        "GetFileName", "GetFileInfo", "HasFile", "VerifyFile", "EnumFiles", "GetArchiveName", "ExtractFile",
        "AddFile", "RemoveFile", "RenameFile", "FlushArchive", "VerifyArchive", "FindFirst", "FindNext", "FindClose"}

\* ============================================================================================
\* Invariants (the property)
\* ============================================================================================
\* once SFileCloseArchive(a) has returned TRUE no table holds a file or search handle of a
CloseInvalidatesOwn ==
    \A a \in vclosed : /\ a \notin DOMAIN varch
                       /\ \A f \in DOMAIN vfiles : vfiles[f].arch # a
                       /\ \A s \in DOMAIN vfinds : vfinds[s].arch # a
\* a handle in FILES / FIND_HANDLES whose archive is gone belongs to a close that is still in progress
NoOrphans ==
    LET closing == {vfr[t].h : t \in {u \in Threads : vfr[u].fn = "CloseArchive"}} IN
    /\ \A f \in DOMAIN vfiles : vfiles[f].arch \in DOMAIN varch \cup closing
    /\ \A s \in DOMAIN vfinds : vfinds[s].arch \in DOMAIN varch \cup closing
CursorInRange == \A f \in DOMAIN vfiles : vfiles[f].pos \in 0..Len(vfiles[f].data)
IdsUnique ==
    /\ DOMAIN varch \cap DOMAIN vfiles = {} /\ DOMAIN varch \cap DOMAIN vfinds = {}
    /\ DOMAIN vfiles \cap DOMAIN vfinds = {}
\* a thread never waits for a Mutex it owns itself (std::sync::Mutex is not re-entrant)
Waits(t) == CASE vpc[t] \in {"VerifyArchive1", "FindNext1", "GetFileInfo1", "CloseArchive1", "FindFirst1", "CloseFile1"} -> {"ARCH"}
              [] vpc[t] \in {"OpenArchive1", "OpenFileEx1", "FindFirst2"} -> {"NEXT"}
              [] vpc[t] \in {"OpenFileEx2", "CloseArchive2"} -> {"FILES"}
              [] vpc[t] \in {"FindFirst3", "CloseArchive3"} -> {"FINDS"}
              [] vpc[t] = "OpenArchive2" -> {"ARCH"}
              [] OTHER -> {}
\* The lock the NEXT step of thread t acquires ("none": its next step takes no lock) -- one verif_sync point of the real
\* code each.  Together with HeldBy(t) this is the spec's per-call lock trace: which lock is requested with which locks
\* held (SFileOpenFileEx holds ARCHIVES from the lookup through the insert, ...).
FilesFns == {"CloseFile", "ReadFile", "GetFileSize", "SetFilePointer", "GetFileName", "GetFileInfo"}
ArchFns  == {"HasFile", "VerifyFile", "EnumFiles", "ExtractFile", "AddFile", "RemoveFile", "RenameFile", "FlushArchive",
             "OpenFileEx", "VerifyArchive", "FindFirst", "GetArchiveName"}
Requests(t) ==
    IF vpc[t] = "Idle" \/ vpc[t] = "AddFileSpin" THEN "none"
    ELSE IF Waits(t) # {} THEN CHOOSE l \in Waits(t) : TRUE
    ELSE LET f == vfr[t] IN
         IF vpc[t] # Entry(f.fn) \/ f.h = 0 THEN "none"
         ELSE CASE f.fn \in FilesFns -> "FILES"
                [] f.fn = "GetArchiveName" -> IF f.n2 = 0 THEN "none" ELSE "ARCH"
                [] f.fn \in ArchFns -> "ARCH"
                [] f.fn = "CloseArchive" -> IF "CloseSplit" \in Dev THEN "FILES" ELSE "ARCH"
                [] f.fn \in {"FindNext", "FindClose"} -> "FINDS"
                [] OTHER -> "none"
NoSelfDeadlock == \A t \in Threads : \A l \in Waits(t) : vlock[l] # t
NoHang == \A t \in Threads : vpc[t] # "AddFileSpin"
\* no cycle in the waits-for graph of at most 3 threads x 4 locks: t waits for l held by u
WaitsFor(t, u) == \E l \in Waits(t) : vlock[l] = u
NoWaitCycle ==
    /\ \A t \in Threads : ~WaitsFor(t, t)
    /\ \A t, u \in Threads : ~(t # u /\ WaitsFor(t, u) /\ WaitsFor(u, t))
    /\ \A t, u, w \in Threads : ~(Cardinality({t, u, w}) = 3 /\ WaitsFor(t, u) /\ WaitsFor(u, w) /\ WaitsFor(w, t))
\* existence answers of the C API = existence in the session state (= the Rust API's answer)
ExistenceAgrees == \A t \in Threads : vret[t].fn = "HasFile" => vret[t].ret = vret[t].out[1]
\* The lock discipline of the design: ARCHIVES is the outermost lock; NEXT_HANDLE, FILES and FIND_HANDLES are only ever
\* requested with nothing or with ARCHIVES held.  <<h, l>> \in LockOrder: l may be requested while h is held.
LockOrder == {<<"ARCH", "NEXT">>, <<"ARCH", "FILES">>, <<"ARCH", "FINDS">>}
HeldBy(t) == {l \in Locks : vlock[l] = t}
LockOrderInv == \A t \in Threads : \A l \in Waits(t) : \A h \in HeldBy(t) : <<h, l>> \in LockOrder
\* an observed acquisition record <<lock, set of locks held at that moment>> respects the discipline
AcqRespects(lock, held) == \A h \in held : <<h, lock>> \in LockOrder
\* locks are only held by threads that are inside a call
LocksOwned == \A l \in Locks : vlock[l] # Free => vpc[vlock[l]] # "Idle"
=============================================================================
