------------------------------ MODULE WmoEditor ------------------------------
(* X03: wow_wmo::editor::WmoEditor as a state machine over an abstract WMO.                                      *)
(*                                                                                                                *)
(* The abstract WMO (one record, `vwst` in the model-checking / generation instances):                            *)
(*   tex  : Seq(id)                         root.textures (an id stands for the file name)                        *)
(*   mat  : Seq([id, t1, t2])               root.materials; t1 / t2 = texture1 / texture2 (0-based texture index)  *)
(*   gi   : Seq(id)                         root.groups (group infos; the id stands for the name)                  *)
(*   grp  : Seq([gidx, v, ix, bm, ml, dr])  editor.groups (loaded group data): header.group_index, vertices (ids), *)
(*                                          triangle indices (0-based into v), batches' material_id, the group's   *)
(*                                          materials list, doodad_refs (0-based into dd; None = <<>>),             *)
(*                                          na = number of per-vertex normals (0 = the group carries none)         *)
(*   pr   : Seq(group index)                root.portal_references[..].group_index                                  *)
(*   gmod : Seq(BOOLEAN)                    editor.group_modified                                                  *)
(*   dd   : Seq(id)                         root.doodad_defs                                                       *)
(*   ds   : Seq([id, st, n])                root.doodad_sets (start_doodad, n_doodads)                             *)
(*   hdr  : [nmat, ngrp, ndd, ndn, nds]     root.header counts                                                     *)
(*   rmod : BOOLEAN, ver, orig              root_modified, root.version, original_version                          *)
(* One operator per public editing call (`Apply` dispatches); every operator returns [st, res, ret]:               *)
(* res in {"ok", "err", "panic"}; a failed call returns the state it was given.                                    *)
(*                                                                                                                *)
(* Dev is the set of named DEVIATIONS of the code from the machine a user relies on.  Dev = {} is that machine     *)
(* (all invariants hold, checked by TLC); Dev = AsCoded is /repo today.  Each deviation alone must be refuted.     *)
(*   CreateMisplaced  create_group: `if groups.len() <= idx { resize_with(idx + 1) }` and THEN push: the new       *)
(*                    group's data lands at idx + 1 behind a zero placeholder; groups is longer than root.groups.   *)
(*   StaleGroupIndex  remove_group renumbers header.group_index of the groups at positions >= index BEFORE it      *)
(*                    removes groups[index]: every shifted group keeps position + 1 as its index.                  *)
(*   DanglingZero     remove_texture / remove_material / remove_vertex set a reference to the removed element to   *)
(*                    0 ("use a default one instead") also when the removed element was the last one: the          *)
(*                    reference 0 then points past the empty list (likewise doodad_refs in remove_doodad, portal references *)
(*                    in remove_group).  The relied-upon machine refuses (err).                                     *)
(*   ErrUnderflow     every out-of-range error is built with `max: len as u32 - 1`: on an empty list the failing   *)
(*                    call panics (debug / overflow-checked builds) instead of returning InvalidReference.          *)
(*   NamesCountDrift  add_doodad increments header.n_doodad_names, remove_doodad does not decrement it.            *)
(*   VertexNoFlag     add_vertex / remove_vertex change group data but do not set group_modified[group].           *)
(*   AttrsNotParallel add_vertex pushes the vertex only: in a group that carries per-vertex normals (tex coords, colours)  *)
(*                    the attribute arrays stay one short of the vertices (remove_vertex does remove from all of them).     *)
(*   NoRenumber       (not in /repo; a must-refute control) removal does not shift references > i down.            *)
EXTENDS Integers, Sequences, FiniteSets

CONSTANT Dev
AsCoded == {"CreateMisplaced", "StaleGroupIndex", "DanglingZero", "ErrUnderflow", "NamesCountDrift", "VertexNoFlag", "AttrsNotParallel"}

\* ---- helpers (refs are 0-based like in the code; sequences 1-based) ----------------------------------------------
DropAt(sq, i0) == [j \in 1..(Len(sq) - 1) |-> IF j <= i0 THEN sq[j] ELSE sq[j + 1]]
Renum(r, i0, D) == IF r = i0 THEN 0 ELSE IF r > i0 /\ "NoRenumber" \notin D THEN r - 1 ELSE r
PadTo(sq, len, x) == IF Len(sq) >= len THEN sq ELSE sq \o [j \in 1..(len - Len(sq)) |-> x]
NoGroup == [gidx |-> 0, v |-> <<>>, ix |-> <<>>, bm |-> <<>>, ml |-> <<>>, dr |-> <<>>, na |-> 0]     \* the zero placeholder of resize_with
SetAt(sq, i0, x) == IF i0 < Len(sq) THEN [sq EXCEPT ![i0 + 1] = x] ELSE sq
Ok(s, r) == [st |-> s, res |-> "ok", ret |-> r]
\* InvalidReference { max: len as u32 - 1 }: len = 0 underflows
Err(s, len, D) == [st |-> s, res |-> IF len = 0 /\ "ErrUnderflow" \in D THEN "panic" ELSE "err", ret |-> -1]
Refuse(s) == [st |-> s, res |-> "err", ret |-> -1]

\* ---- textures ---------------------------------------------------------------------------------------------------------
AddTexture(s, o, D) == Ok([s EXCEPT !.tex = Append(@, o.id), !.rmod = TRUE], Len(s.tex))
RemoveTexture(s, o, D) ==
  LET i0 == o.a IN
  IF i0 >= Len(s.tex) THEN Err(s, Len(s.tex), D)
  ELSE IF "DanglingZero" \notin D /\ Len(s.tex) = 1 /\ s.mat # <<>> THEN Refuse(s)
  ELSE Ok([s EXCEPT !.tex = DropAt(@, i0), !.rmod = TRUE,
                    !.mat = [m \in 1..Len(s.mat) |-> [s.mat[m] EXCEPT !.t1 = Renum(@, i0, D), !.t2 = Renum(@, i0, D)]]], 0)

\* ---- materials -------------------------------------------------------------------------------------------------------
AddMaterial(s, o, D) ==
  Ok([s EXCEPT !.mat = Append(@, [id |-> o.id, t1 |-> o.a, t2 |-> o.b]), !.hdr.nmat = @ + 1, !.rmod = TRUE], Len(s.mat))
Touched(g, i0) == (\E b \in 1..Len(g.bm) : g.bm[b] >= i0) \/ (\E b \in 1..Len(g.ml) : g.ml[b] >= i0)
RemoveMaterial(s, o, D) ==
  LET i0 == o.a IN
  IF i0 >= Len(s.mat) THEN Err(s, Len(s.mat), D)
  ELSE IF "DanglingZero" \notin D /\ Len(s.mat) = 1 /\ (\E p \in 1..Len(s.grp) : s.grp[p].bm # <<>> \/ s.grp[p].ml # <<>>) THEN Refuse(s)
  ELSE Ok([s EXCEPT !.mat = DropAt(@, i0), !.hdr.nmat = @ - 1, !.rmod = TRUE,
                    !.grp = [p \in 1..Len(s.grp) |-> [s.grp[p] EXCEPT !.bm = [b \in 1..Len(s.grp[p].bm) |-> Renum(s.grp[p].bm[b], i0, D)],
                                                                      !.ml = [b \in 1..Len(s.grp[p].ml) |-> Renum(s.grp[p].ml[b], i0, D)]]],
                    !.gmod = [p \in 1..Len(s.gmod) |-> s.gmod[p] \/ (p <= Len(s.grp) /\ Touched(s.grp[p], i0))]], 0)

\* ---- groups ----------------------------------------------------------------------------------------------------------
CreateGroup(s, o, D) ==
  LET idx == Len(s.gi)
      padded == IF "CreateMisplaced" \in D
                THEN (IF Len(s.grp) <= idx THEN PadTo(s.grp, idx + 1, NoGroup) ELSE s.grp)
                ELSE PadTo(s.grp, idx, NoGroup)
  IN Ok([s EXCEPT !.gi = Append(@, o.id), !.hdr.ngrp = @ + 1, !.rmod = TRUE,
                  !.grp = Append(padded, [NoGroup EXCEPT !.gidx = idx]), !.gmod = Append(@, TRUE)], idx)
\* the group a caller hands to add_group: b vertices (ids o.id*10 + k), one triangle over them, one batch with material c (c < 0: none;
\* the same index in the group's materials list), one doodad reference d (d < 0: doodad_refs = None)
MkGroup(o) == [gidx |-> o.a, v |-> [k \in 1..o.b |-> o.id * 10 + k],
               ix |-> IF o.b = 0 THEN <<>> ELSE [k \in 1..3 |-> (k - 1) % o.b],
               bm |-> IF o.c < 0 THEN <<>> ELSE <<o.c>>, ml |-> IF o.c < 0 THEN <<>> ELSE <<o.c>>,
               dr |-> IF o.d < 0 THEN <<>> ELSE <<o.d>>, na |-> IF o.b = 3 THEN 3 ELSE 0]     \* the 3-vertex shape carries normals
AddGroup(s, o, D) ==
  LET i0 == o.a IN
  IF i0 >= Len(s.gi) THEN Err(s, Len(s.gi), D)
  ELSE Ok([s EXCEPT !.grp = SetAt(PadTo(@, i0 + 1, NoGroup), i0, MkGroup(o)), !.gmod = SetAt(@, i0, TRUE)], 0)
RemoveGroup(s, o, D) ==
  LET i0 == o.a
      n2 == Len(s.gi) - 1                       \* groups left
  IN
  IF i0 >= Len(s.gi) THEN Err(s, Len(s.gi), D)
  ELSE IF "DanglingZero" \notin D /\ Len(s.gi) = 1 /\ s.pr # <<>> THEN Refuse(s)
  ELSE IF "StaleGroupIndex" \in D
  THEN LET g1 == [p \in 1..Len(s.grp) |-> IF p - 1 >= i0 /\ p - 1 < n2 THEN [s.grp[p] EXCEPT !.gidx = p - 1] ELSE s.grp[p]]
           m1 == [p \in 1..Len(s.gmod) |-> s.gmod[p] \/ (p - 1 >= i0 /\ p - 1 < n2 /\ p <= Len(s.grp))]
       IN Ok([s EXCEPT !.gi = DropAt(@, i0), !.hdr.ngrp = @ - 1, !.rmod = TRUE, !.pr = [k \in 1..Len(s.pr) |-> Renum(s.pr[k], i0, D)],
                       !.grp = IF i0 < Len(g1) THEN DropAt(g1, i0) ELSE g1,
                       !.gmod = IF i0 < Len(m1) THEN DropAt(m1, i0) ELSE m1], 0)
  ELSE LET g1 == IF i0 < Len(s.grp) THEN DropAt(s.grp, i0) ELSE s.grp
           m1 == IF i0 < Len(s.gmod) THEN DropAt(s.gmod, i0) ELSE s.gmod
       IN Ok([s EXCEPT !.gi = DropAt(@, i0), !.hdr.ngrp = @ - 1, !.rmod = TRUE, !.pr = [k \in 1..Len(s.pr) |-> Renum(s.pr[k], i0, D)],
                       !.grp = [p \in 1..Len(g1) |-> IF p - 1 >= i0 /\ p - 1 < n2 THEN [g1[p] EXCEPT !.gidx = p - 1] ELSE g1[p]],
                       !.gmod = [p \in 1..Len(m1) |-> m1[p] \/ (p - 1 >= i0 /\ p - 1 < n2 /\ p <= Len(g1))]], 0)

\* ---- vertices --------------------------------------------------------------------------------------------------------
Flag(s, g0, D) == IF "VertexNoFlag" \in D THEN s.gmod ELSE SetAt(s.gmod, g0, TRUE)
AddVertex(s, o, D) ==
  LET g0 == o.a IN
  IF g0 >= Len(s.grp) THEN Err(s, Len(s.grp), D)
  ELSE Ok([s EXCEPT !.grp[g0 + 1].v = Append(@, o.id),
                    !.grp[g0 + 1].na = IF "AttrsNotParallel" \notin D /\ @ > 0 /\ @ = Len(s.grp[g0 + 1].v) THEN @ + 1 ELSE @, !.rmod = @ \/ g0 < Len(s.gi), !.gmod = Flag(s, g0, D)], Len(s.grp[g0 + 1].v))
RemoveVertex(s, o, D) ==
  LET g0 == o.a  v0 == o.b IN
  IF g0 >= Len(s.grp) THEN Err(s, Len(s.grp), D)
  ELSE LET g == s.grp[g0 + 1] IN
  IF v0 >= Len(g.v) THEN Err(s, Len(g.v), D)
  ELSE IF "DanglingZero" \notin D /\ Len(g.v) = 1 /\ g.ix # <<>> THEN Refuse(s)
  ELSE Ok([s EXCEPT !.grp[g0 + 1].v = DropAt(@, v0), !.grp[g0 + 1].na = IF v0 < @ THEN @ - 1 ELSE @, !.grp[g0 + 1].ix = [k \in 1..Len(g.ix) |-> Renum(g.ix[k], v0, D)],
                    !.rmod = @ \/ g0 < Len(s.gi), !.gmod = Flag(s, g0, D)], 0)

\* ---- doodads ---------------------------------------------------------------------------------------------------------
AddDoodad(s, o, D) == Ok([s EXCEPT !.dd = Append(@, o.id), !.hdr.ndd = @ + 1, !.hdr.ndn = @ + 1, !.rmod = TRUE], Len(s.dd))
SetAfterRemoval(z, i0, D) ==
  LET inside == z.st <= i0 /\ i0 < z.st + z.n IN
  [z EXCEPT !.n = IF inside THEN @ - 1 ELSE @, !.st = IF z.st > i0 /\ "NoRenumber" \notin D THEN @ - 1 ELSE @]
RemoveDoodad(s, o, D) ==
  LET i0 == o.a IN
  IF i0 >= Len(s.dd) THEN Err(s, Len(s.dd), D)
  ELSE IF "DanglingZero" \notin D /\ Len(s.dd) = 1 /\ (\E p \in 1..Len(s.grp) : s.grp[p].dr # <<>>) THEN Refuse(s)
  ELSE Ok([s EXCEPT !.dd = DropAt(@, i0), !.hdr.ndd = @ - 1, !.hdr.ndn = IF "NamesCountDrift" \in D THEN @ ELSE @ - 1, !.rmod = TRUE,
                    !.ds = [z \in 1..Len(s.ds) |-> SetAfterRemoval(s.ds[z], i0, D)],
                    !.grp = [p \in 1..Len(s.grp) |-> [s.grp[p] EXCEPT !.dr = [k \in 1..Len(s.grp[p].dr) |-> Renum(s.grp[p].dr[k], i0, D)]]],
                    !.gmod = [p \in 1..Len(s.gmod) |-> s.gmod[p] \/ (p <= Len(s.grp) /\ \E k \in 1..Len(s.grp[p].dr) : s.grp[p].dr[k] >= i0)]], 0)
AddDoodadSet(s, o, D) == Ok([s EXCEPT !.ds = Append(@, [id |-> o.id, st |-> o.a, n |-> o.b]), !.hdr.nds = @ + 1, !.rmod = TRUE], Len(s.ds))
RemoveDoodadSet(s, o, D) ==
  IF o.a >= Len(s.ds) THEN Err(s, Len(s.ds), D)
  ELSE Ok([s EXCEPT !.ds = DropAt(@, o.a), !.hdr.nds = @ - 1, !.rmod = TRUE], 0)

\* ---- version, save ---------------------------------------------------------------------------------------------------
Convert(s, o, D) ==
  IF s.ver = o.a THEN Ok(s, 0)
  ELSE Ok([s EXCEPT !.ver = o.a, !.rmod = TRUE, !.gmod = [p \in 1..Len(s.gmod) |-> s.gmod[p] \/ p <= Len(s.grp)]], 0)
SaveRoot(s, o, D) == Ok(s, 0)
SaveGroup(s, o, D) == IF o.a >= Len(s.grp) THEN Err(s, Len(s.grp), D) ELSE Ok(s, 0)
\* what the wow_wmo parser must read back from the bytes save_root wrote: the lengths of the five lists
SavedLengths(s) == <<Len(s.tex), Len(s.mat), Len(s.gi), Len(s.dd), Len(s.ds)>>

OpNames == {"add_texture", "remove_texture", "add_material", "remove_material", "create_group", "add_group", "remove_group",
            "add_vertex", "remove_vertex", "add_doodad", "remove_doodad", "add_doodad_set", "remove_doodad_set",
            "convert", "save_root", "save_group"}
Apply(s, o, D) ==
  CASE o.op = "add_texture"       -> AddTexture(s, o, D)
    [] o.op = "remove_texture"    -> RemoveTexture(s, o, D)
    [] o.op = "add_material"      -> AddMaterial(s, o, D)
    [] o.op = "remove_material"   -> RemoveMaterial(s, o, D)
    [] o.op = "create_group"      -> CreateGroup(s, o, D)
    [] o.op = "add_group"         -> AddGroup(s, o, D)
    [] o.op = "remove_group"      -> RemoveGroup(s, o, D)
    [] o.op = "add_vertex"        -> AddVertex(s, o, D)
    [] o.op = "remove_vertex"     -> RemoveVertex(s, o, D)
    [] o.op = "add_doodad"        -> AddDoodad(s, o, D)
    [] o.op = "remove_doodad"     -> RemoveDoodad(s, o, D)
    [] o.op = "add_doodad_set"    -> AddDoodadSet(s, o, D)
    [] o.op = "remove_doodad_set" -> RemoveDoodadSet(s, o, D)
    [] o.op = "convert"           -> Convert(s, o, D)
    [] o.op = "save_root"         -> SaveRoot(s, o, D)
    [] o.op = "save_group"        -> SaveGroup(s, o, D)

\* ---- initial objects: WmoEditor::new(root) ----------------------------------------------------------------------------
Hdr(s) == [nmat |-> Len(s.mat), ngrp |-> Len(s.gi), ndd |-> Len(s.dd), ndn |-> Len(s.dd), nds |-> Len(s.ds)]
Bare(tex, mat, gi, dd, ds, pr) ==
  [pr |-> pr, tex |-> tex, mat |-> mat, gi |-> gi, grp |-> <<>>, gmod |-> [p \in 1..Len(gi) |-> FALSE], dd |-> dd, ds |-> ds,
   hdr |-> [nmat |-> Len(mat), ngrp |-> Len(gi), ndd |-> Len(dd), ndn |-> Len(dd), nds |-> Len(ds)],
   rmod |-> FALSE, ver |-> 0, orig |-> 0]
M(i, a, b) == [id |-> i, t1 |-> a, t2 |-> b]
Z(i, a, b) == [id |-> i, st |-> a, n |-> b]
Init1 == Bare(<<1, 2>>, <<M(3, 0, 1), M(4, 1, 1)>>, <<5, 6>>, <<7, 8, 9>>, <<Z(10, 0, 2), Z(11, 2, 1)>>, <<0, 1, 1>>)
InitState(k) ==
  CASE k = 0 -> Bare(<<>>, <<>>, <<>>, <<>>, <<>>, <<>>)
    [] k = 1 -> Init1
    [] k = 2 -> Bare(<<1>>, <<M(3, 0, 0)>>, <<5>>, <<7>>, <<Z(10, 0, 1), Z(11, 1, 0)>>, <<0>>)
    \* k = 3: object 1 with both groups loaded (reachable from 1 by two add_group calls; a deeper start for the model checker)
    [] k = 3 -> Apply(Apply(Init1, [op |-> "add_group", id |-> 20, a |-> 0, b |-> 3, c |-> 1, d |-> 2], {}).st,
                      [op |-> "add_group", id |-> 21, a |-> 1, b |-> 2, c |-> 0, d |-> -1], {}).st

\* ---- the invariants a user relies on ------------------------------------------------------------------------------------
TexRefs(s)   == \A m \in 1..Len(s.mat) : s.mat[m].t1 < Len(s.tex) /\ s.mat[m].t2 < Len(s.tex)
MatRefs(s)   == \A p \in 1..Len(s.grp) : /\ \A b \in 1..Len(s.grp[p].bm) : s.grp[p].bm[b] < Len(s.mat)
                                         /\ \A b \in 1..Len(s.grp[p].ml) : s.grp[p].ml[b] < Len(s.mat)
DoodadRefs(s) == \A p \in 1..Len(s.grp) : \A k \in 1..Len(s.grp[p].dr) : s.grp[p].dr[k] < Len(s.dd)
PortalRefs(s) == \A k \in 1..Len(s.pr) : s.pr[k] < Len(s.gi)
IdxRefs(s)   == \A p \in 1..Len(s.grp) : \A k \in 1..Len(s.grp[p].ix) : s.grp[p].ix[k] < Len(s.grp[p].v)
AttrsParallel(s) == \A p \in 1..Len(s.grp) : s.grp[p].na \in {0, Len(s.grp[p].v)}
SetRanges(s) == \A z \in 1..Len(s.ds) : s.ds[z].st >= 0 /\ s.ds[z].n >= 0 /\ s.ds[z].st + s.ds[z].n <= Len(s.dd)
HeaderCounts(s) == s.hdr = Hdr(s)
GroupsParallel(s) == /\ Len(s.grp) <= Len(s.gi) /\ Len(s.gmod) = Len(s.gi)
                     /\ \A p \in 1..Len(s.grp) : s.grp[p].gidx \in {p - 1, 0}      \* 0: the slot of a group that was never loaded (placeholder)
FlagsCoverData(s) == \A p \in 1..Len(s.grp) : s.grp[p] \notin {NoGroup, [NoGroup EXCEPT !.gidx = p - 1]} => (p <= Len(s.gmod) /\ s.gmod[p])
VersionSane(s) == s.rmod \/ s.ver = s.orig
Integrity(s) == AttrsParallel(s) /\ DoodadRefs(s) /\ PortalRefs(s) /\ TexRefs(s) /\ MatRefs(s) /\ IdxRefs(s) /\ SetRanges(s) /\ HeaderCounts(s) /\ GroupsParallel(s) /\ FlagsCoverData(s) /\ VersionSane(s)

\* ---- per-call postconditions (s --o--> r) -----------------------------------------------------------------------------
At(sq, r) == IF r >= 0 /\ r < Len(sq) THEN sq[r + 1] ELSE -1          \* what a 0-based reference resolves to
Covered(s, z) == [k \in 1..z.n |-> At(s.dd, z.st + k - 1)]           \* the definitions a doodad set covers
Without(sq, x) == SelectSeq(sq, LAMBDA y : y # x)
\* a reference that did not point at the removed element still resolves to the same element
KeepsTarget(before, after, rb, ra, i0) == rb = i0 \/ At(before, rb) = At(after, ra)
FailedUnchanged(s, r) == r.res # "ok" => r.st = s
NoPanic(r) == r.res # "panic"
RenumberOK(s, o, r) ==
  LET t == r.st IN
  r.res # "ok" \/
  CASE o.op = "remove_texture" ->
         /\ t.tex = DropAt(s.tex, o.a) /\ Len(t.mat) = Len(s.mat)
         /\ \A m \in 1..Len(s.mat) : KeepsTarget(s.tex, t.tex, s.mat[m].t1, t.mat[m].t1, o.a) /\ KeepsTarget(s.tex, t.tex, s.mat[m].t2, t.mat[m].t2, o.a)
    [] o.op = "remove_material" ->
         /\ t.mat = DropAt(s.mat, o.a) /\ Len(t.grp) = Len(s.grp)
         /\ \A p \in 1..Len(s.grp) : /\ Len(t.grp[p].bm) = Len(s.grp[p].bm)
                                     /\ \A b \in 1..Len(s.grp[p].bm) : KeepsTarget(s.mat, t.mat, s.grp[p].bm[b], t.grp[p].bm[b], o.a)
                                     /\ Len(t.grp[p].ml) = Len(s.grp[p].ml)
                                     /\ \A b \in 1..Len(s.grp[p].ml) : KeepsTarget(s.mat, t.mat, s.grp[p].ml[b], t.grp[p].ml[b], o.a)
    [] o.op = "remove_vertex" ->
         LET g == s.grp[o.a + 1]  h == t.grp[o.a + 1] IN
         /\ h.v = DropAt(g.v, o.b) /\ Len(h.ix) = Len(g.ix)
         /\ \A k \in 1..Len(g.ix) : KeepsTarget(g.v, h.v, g.ix[k], h.ix[k], o.b)
    [] o.op = "remove_doodad" ->
         /\ t.dd = DropAt(s.dd, o.a) /\ Len(t.ds) = Len(s.ds)
         /\ \A z \in 1..Len(s.ds) : Covered(t, t.ds[z]) = Without(Covered(s, s.ds[z]), s.dd[o.a + 1])
         /\ Len(t.grp) = Len(s.grp)
         /\ \A p \in 1..Len(s.grp) : /\ Len(t.grp[p].dr) = Len(s.grp[p].dr)
                                     /\ \A k \in 1..Len(s.grp[p].dr) : KeepsTarget(s.dd, t.dd, s.grp[p].dr[k], t.grp[p].dr[k], o.a)
    [] o.op = "remove_group" ->
         /\ t.gi = DropAt(s.gi, o.a) /\ Len(t.pr) = Len(s.pr)
         /\ \A k \in 1..Len(s.pr) : KeepsTarget(s.gi, t.gi, s.pr[k], t.pr[k], o.a)
         /\ \A p \in 1..Len(t.grp) : p - 1 >= o.a /\ p + 1 <= Len(s.grp) => t.grp[p].v = s.grp[p + 1].v
    [] OTHER -> TRUE
\* the flags say exactly what changed: a call that changed the root part sets rmod, one that changed a group's data sets its flag,
\* flags are never cleared, and a call that changed nothing sets nothing (convert to the current version, saves, failed calls)
RootPart(s) == <<s.tex, s.mat, s.gi, s.dd, s.ds, s.hdr, s.ver, s.pr>>
FlagsExact(s, o, r) ==
  LET t == r.st IN
  /\ (s.rmod => t.rmod)
  /\ (RootPart(t) # RootPart(s) => t.rmod)
  /\ (o.op \in {"save_root", "save_group"} \/ r.res # "ok" \/ (o.op = "convert" /\ o.a = s.ver) => t.rmod = s.rmod /\ t.gmod = s.gmod)
  /\ (o.op \notin {"remove_group", "create_group"} /\ Len(t.grp) = Len(s.grp) =>
        \A p \in 1..Len(s.grp) : t.grp[p] # s.grp[p] => p <= Len(t.gmod) /\ t.gmod[p])
PostOK(s, o, r) == FailedUnchanged(s, r) /\ NoPanic(r) /\ RenumberOK(s, o, r) /\ FlagsExact(s, o, r)
=============================================================================
