---------------------------------- MODULE Ptch ----------------------------------
(***************************************************************************)
(* C08 -- reference semantics of MPQ binary patch files (PTCH container,   *)
(* COPY and BSD0 transformations), written from the format description     *)
(* (zezula.net/en/mpq/patchfiles.html; bsdiff40 with 32-bit sign-magnitude *)
(* seeks and an RLE-packed image), independent of patch/apply.rs.          *)
(*                                                                         *)
(* Two layers:                                                             *)
(*  - byte level (ParsePtch, RleDecode, Bsd0Image, RefApply): evaluated by *)
(*    TLC on the very bytes the driver fed to apply_patch (Trace_Ptch);    *)
(*  - plan level (a patch as old file + control triples + data + extra):   *)
(*    CtrlStep is the one-triple transition used both by the fold and by   *)
(*    the state machine below (VerifyBase, ApplyCopy, Bsd0Header,          *)
(*    ApplyBsd0Ctrl, VerifyPatched, Reject), model-checked in MC_Ptch      *)
(*    against a closed-form (positional) definition of the new file.       *)
(*                                                                         *)
(* SeekMode = "signed"   the format: raw >= 2^31 means  old -= raw - 2^31   *)
(*          = "saturate" NAMED DEVIATION d3 of apply_bsd0_patch:            *)
(*                       old = old.saturating_sub(2^32 - raw), i.e. 0       *)
(* The reference is deliberately STRICT (sizes must agree exactly, streams *)
(* must be consumed exactly, the old offset never leaves the file): only   *)
(* patches it accepts are called well-formed, and only for those does C08  *)
(* demand success.  For everything else C08 demands only the safe half.    *)
(***************************************************************************)
EXTENDS Integers, Sequences, SequencesExt, FiniteSets, TLC

CONSTANT SeekMode

Byte == 0..255
Sum(f, S) == FoldLeft(LAMBDA acc, x : acc + f[x], 0, SetToSeq(S))
Zeros(k)  == [j \in 1..k |-> 0]

\* ------------------------------------------------------------------ plan level
\* triple == [add, mov, seek] with seek a signed integer; acc == [no, op, dp, ep, ok]
OldByte(old, pos) == IF pos >= 0 /\ pos < Len(old) THEN old[pos + 1] ELSE 0
Seek(op, s) == IF s >= 0 THEN op + s
               ELSE IF SeekMode = "signed" THEN op + s ELSE 0          \* d3: saturating_sub of ~2^32
CtrlStep(old, data, extra, newSize, acc, t) ==
  IF ~acc.ok THEN acc
  ELSE IF \/ t.add < 0 \/ t.mov < 0
          \/ Len(acc.no) + t.add + t.mov > newSize              \* output overflow
          \/ acc.dp + t.add > Len(data)                          \* data block overflow
          \/ acc.ep + t.mov > Len(extra)                         \* extra block overflow
          \/ acc.op < 0                                          \* strict: old offset inside the file
       THEN [acc EXCEPT !.ok = FALSE]
  ELSE [no |-> acc.no \o [j \in 1..t.add |-> (data[acc.dp + j] + OldByte(old, acc.op + j - 1)) % 256]
                      \o [j \in 1..t.mov |-> extra[acc.ep + j]],
        op |-> Seek(acc.op + t.add, t.seek),
        dp |-> acc.dp + t.add, ep |-> acc.ep + t.mov, ok |-> TRUE]
Acc0 == [no |-> <<>>, op |-> 0, dp |-> 0, ep |-> 0, ok |-> TRUE]
RunCtrl(old, ctrl, data, extra, newSize) ==
  FoldLeft(LAMBDA acc, t : CtrlStep(old, data, extra, newSize, acc, t), Acc0, ctrl)
\* strict acceptance of a finished run
Finished(acc, data, extra, newSize) ==
  acc.ok /\ acc.op >= 0 /\ Len(acc.no) = newSize /\ acc.dp = Len(data) /\ acc.ep = Len(extra)

\* closed form: byte k (1-based) of the new file, from prefix sums instead of an iteration
NewPre(ctrl, i)  == Sum([j \in 1..Len(ctrl) |-> ctrl[j].add + ctrl[j].mov], 1..(i-1))
DataPre(ctrl, i) == Sum([j \in 1..Len(ctrl) |-> ctrl[j].add], 1..(i-1))
ExtPre(ctrl, i)  == Sum([j \in 1..Len(ctrl) |-> ctrl[j].mov], 1..(i-1))
OldPre(ctrl, i)  == Sum([j \in 1..Len(ctrl) |-> ctrl[j].add + ctrl[j].seek], 1..(i-1))
DeclNew(old, ctrl, data, extra) ==
  [k \in 1..NewPre(ctrl, Len(ctrl) + 1) |->
     LET i == CHOOSE i \in 1..Len(ctrl) : NewPre(ctrl, i) < k /\ k <= NewPre(ctrl, i + 1)
         r == k - NewPre(ctrl, i)
     IN  IF r <= ctrl[i].add
         THEN (data[DataPre(ctrl, i) + r] + OldByte(old, OldPre(ctrl, i) + r - 1)) % 256
         ELSE extra[ExtPre(ctrl, i) + r - ctrl[i].add]]
WellFormedPlan(old, ctrl, data, extra) ==
  /\ \A i \in 1..Len(ctrl) : ctrl[i].add >= 0 /\ ctrl[i].mov >= 0
  /\ \A i \in 1..(Len(ctrl) + 1) : OldPre(ctrl, i) >= 0
  /\ DataPre(ctrl, Len(ctrl) + 1) = Len(data) /\ ExtPre(ctrl, Len(ctrl) + 1) = Len(extra)

\* ------------------------------------------------------------------ state machine (MC_Ptch)
\* pplan == [kind, old, ctrl, data, extra, copy, baseOk, decl]  (md5 is abstracted as identity:
\*          `baseOk` = the base has the digest the header names, `decl` = the content whose digest
\*          the header declares for the result)
VARIABLES pplan, pphase, pacc, pci
ptvars == <<pplan, pphase, pacc, pci>>
VerifyBase    == /\ pphase = "start" /\ pplan.baseOk
                 /\ pphase' = "base_ok" /\ UNCHANGED <<pplan, pacc, pci>>
RejectBase    == /\ pphase = "start" /\ ~pplan.baseOk
                 /\ pphase' = "rejected" /\ UNCHANGED <<pplan, pacc, pci>>
ApplyCopy     == /\ pphase = "base_ok" /\ pplan.kind = "copy"
                 /\ pacc' = [Acc0 EXCEPT !.no = pplan.copy] /\ pphase' = "verify" /\ UNCHANGED <<pplan, pci>>
Bsd0Header    == /\ pphase = "base_ok" /\ pplan.kind = "bsd0"
                 /\ pphase' = "ctrl" /\ pci' = 1 /\ pacc' = Acc0 /\ UNCHANGED pplan
ApplyBsd0Ctrl == /\ pphase = "ctrl" /\ pci <= Len(pplan.ctrl)
                 /\ pacc' = CtrlStep(pplan.old, pplan.data, pplan.extra, Len(pplan.decl), pacc, pplan.ctrl[pci])
                 /\ pci' = pci + 1 /\ UNCHANGED <<pplan, pphase>>
EndCtrl       == /\ pphase = "ctrl" /\ pci > Len(pplan.ctrl)
                 /\ pphase' = IF Finished(pacc, pplan.data, pplan.extra, Len(pplan.decl)) THEN "verify" ELSE "rejected"
                 /\ UNCHANGED <<pplan, pacc, pci>>
VerifyPatched == /\ pphase = "verify" /\ pacc.no = pplan.decl
                 /\ pphase' = "ok" /\ UNCHANGED <<pplan, pacc, pci>>
RejectPatched == /\ pphase = "verify" /\ pacc.no # pplan.decl
                 /\ pphase' = "rejected" /\ UNCHANGED <<pplan, pacc, pci>>
PtchNext == \/ VerifyBase \/ RejectBase \/ ApplyCopy \/ Bsd0Header \/ ApplyBsd0Ctrl \/ EndCtrl
            \/ VerifyPatched \/ RejectPatched

\* the safe half: whatever is returned carries the declared digest and was made from the declared base
PtchSafety   == pphase = "ok" => (pacc.no = pplan.decl /\ pplan.baseOk)
\* well-formed patches are applied (holds for SeekMode = "signed" only)
PlanIsWellFormed == /\ pplan.baseOk
                    /\ IF pplan.kind = "copy" THEN pplan.decl = pplan.copy
                       ELSE /\ WellFormedPlan(pplan.old, pplan.ctrl, pplan.data, pplan.extra)
                            /\ pplan.decl = DeclNew(pplan.old, pplan.ctrl, pplan.data, pplan.extra)
PtchLiveness == (pphase = "rejected" => ~PlanIsWellFormed)
\* the iteration agrees with the closed form on well-formed plans, and with the fold always
FoldAgrees   == (pphase = "ctrl" /\ pci > Len(pplan.ctrl))
                  => pacc = RunCtrl(pplan.old, pplan.ctrl, pplan.data, pplan.extra, Len(pplan.decl))
ClosedFormAgrees ==
  (pphase = "verify" /\ pplan.kind = "bsd0" /\ WellFormedPlan(pplan.old, pplan.ctrl, pplan.data, pplan.extra)
     /\ SeekMode = "signed" /\ Len(pplan.decl) = NewPre(pplan.ctrl, Len(pplan.ctrl) + 1))
     => pacc.no = DeclNew(pplan.old, pplan.ctrl, pplan.data, pplan.extra)

\* ------------------------------------------------------------------ byte level
\* little-endian u32 at 0-based offset o; `huge` = bit 31 set, `v` = the low 31 bits
U32(b, o) == [huge |-> b[o + 4] >= 128,
              v    |-> b[o + 1] + 256 * b[o + 2] + 65536 * b[o + 3] + 16777216 * (b[o + 4] % 128)]
Nat32(b, o) == IF U32(b, o).huge THEN -1 ELSE U32(b, o).v          \* -1 = not a usable size
\* u64 that must fit 31 bits to be usable
Nat64(b, o) == IF \E j \in 5..8 : b[o + j] # 0 THEN -1 ELSE Nat32(b, o)
Tag(b, o, s) == /\ Len(b) >= o + Len(s) /\ \A j \in 1..Len(s) : b[o + j] = s[j]
PTCHsig == <<80, 84, 67, 72>>       \* "PTCH"
MD5sig  == <<77, 68, 53, 95>>       \* "MD5_"
XFRMsig == <<88, 70, 82, 77>>       \* "XFRM"
COPYsig == <<67, 79, 80, 89>>       \* "COPY"
BSD0sig == <<66, 83, 68, 48>>       \* "BSD0"
BSDIFF40 == <<66, 83, 68, 73, 70, 70, 52, 48>>

Bad(w) == [ok |-> FALSE, why |-> w]
ParsePtch(f) ==
  IF Len(f) < 68 THEN Bad("short")
  ELSE IF ~Tag(f, 0, PTCHsig) \/ ~Tag(f, 16, MD5sig) \/ ~Tag(f, 56, XFRMsig) THEN Bad("signature")
  ELSE IF Nat32(f, 20) # 40 THEN Bad("md5 block size")
  ELSE IF ~Tag(f, 64, COPYsig) /\ ~Tag(f, 64, BSD0sig) THEN Bad("type")
  ELSE IF Nat32(f, 60) # Len(f) - 56 THEN Bad("xfrm size")          \* strict
  ELSE [ok |-> TRUE, why |-> "",
        patchDataSize |-> Nat32(f, 4), sizeBefore |-> Nat32(f, 8), sizeAfter |-> Nat32(f, 12),
        md5Before |-> SubSeq(f, 25, 40), md5After |-> SubSeq(f, 41, 56),
        kind |-> IF Tag(f, 64, COPYsig) THEN "copy" ELSE "bsd0",
        payload |-> SubSeq(f, 69, Len(f))]

\* RLE: 0x80|k-1 then k literals; k-1 (< 0x80) = k zeros.  Strict: fills `size` exactly, no dangling run.
RleDecode(src, size) ==
  LET st == FoldLeft(LAMBDA s, x :
                IF s.lit > 0 THEN [s EXCEPT !.out = Append(@, x), !.lit = @ - 1]
                ELSE IF x >= 128 THEN [s EXCEPT !.lit = x - 127]
                ELSE [s EXCEPT !.out = @ \o Zeros(x + 1)],
              [out |-> <<>>, lit |-> 0], src)
  IN  IF st.lit = 0 /\ Len(st.out) = size THEN [ok |-> TRUE, out |-> st.out] ELSE [ok |-> FALSE, out |-> <<>>]

\* The RLE layer as a code over the control-byte space 0..255 (round 4): every control byte cb means a run of
\* RunLen(cb) bytes -- cb < 128: zeros, nothing follows; cb >= 128: that many literal bytes follow.  Both halves
\* reach 128 (0x7F = 128 zeros, 0xFF = 128 literals).
RunLen(cb)  == IF cb >= 128 THEN cb - 127 ELSE cb + 1
RunIsLit(cb) == cb >= 128
\* the control bytes of a stream (literal bytes are skipped)
CtlBytes(src) ==
  FoldLeft(LAMBDA s, x : IF s.lit > 0 THEN [s EXCEPT !.lit = @ - 1]
                         ELSE [ctl |-> s.ctl \cup {x}, lit |-> IF x >= 128 THEN x - 127 ELSE 0],
           [ctl |-> {}, lit |-> 0], src).ctl
\* canonical (greedy) encoder: maximal runs of zero / non-zero bytes, each cut into pieces of at most 128
RleFlush(b, s, i) == IF s.len = 0 THEN <<>>
                     ELSE IF s.z THEN <<s.len - 1>> ELSE <<127 + s.len>> \o SubSeq(b, i - s.len, i - 1)
RleEncode(b) ==
  LET st == FoldLeft(LAMBDA s, i :
                IF s.len > 0 /\ s.len < 128 /\ ((b[i] = 0) = s.z) THEN [s EXCEPT !.len = @ + 1]
                ELSE [out |-> s.out \o RleFlush(b, s, i), z |-> (b[i] = 0), len |-> 1],
              [out |-> <<>>, z |-> TRUE, len |-> 0], [i \in 1..Len(b) |-> i])
  IN  st.out \o RleFlush(b, st, Len(b) + 1)

\* the bsdiff40 image: 32-byte header, control triples, data block, extra block
LE32(v) == <<v % 256, (v \div 256) % 256, (v \div 65536) % 256, (v \div 16777216) % 256>>
LE64(v) == LE32(v) \o <<0, 0, 0, 0>>
\* encoder side (forward seeks only): the image of a plan; Bsd0Image below is its inverse (MC_Ptch: ImageRoundTrip)
ImageOf(ctrl, data, extra, newSize) ==
  BSDIFF40 \o LE64(12 * Len(ctrl)) \o LE64(Len(data)) \o LE64(newSize)
  \o FoldLeft(LAMBDA acc, t : acc \o LE32(t.add) \o LE32(t.mov) \o LE32(t.seek), <<>>, ctrl)
  \o data \o extra
Triple(img, o) == [add  |-> Nat32(img, o), mov |-> Nat32(img, o + 4),
                   seek |-> IF U32(img, o + 8).huge THEN 0 - U32(img, o + 8).v ELSE U32(img, o + 8).v]
Bsd0Image(img) ==
  IF Len(img) < 32 \/ ~Tag(img, 0, BSDIFF40) THEN Bad("bsdiff header")
  ELSE LET cs == Nat64(img, 8) ds == Nat64(img, 16) ns == Nat64(img, 24)
       IN  IF cs < 0 \/ ds < 0 \/ ns < 0 \/ cs % 12 # 0 \/ 32 + cs + ds > Len(img) THEN Bad("bsdiff sizes")
           ELSE [ok |-> TRUE, why |-> "", newSize |-> ns,
                 ctrl  |-> [i \in 1..(cs \div 12) |-> Triple(img, 32 + 12 * (i - 1))],
                 data  |-> SubSeq(img, 33 + cs, 32 + cs + ds),
                 extra |-> SubSeq(img, 33 + cs + ds, Len(img))]

\* RefApply(file bytes, base bytes) = [ok, out, why]  (the digest guards are applied by the caller,
\* who knows digests only as opaque tokens)
RefApply(f, base) ==
  LET h == ParsePtch(f)
  IN  IF ~h.ok THEN [ok |-> FALSE, out |-> <<>>, why |-> h.why]
      ELSE IF h.sizeBefore # Len(base) THEN [ok |-> FALSE, out |-> <<>>, why |-> "size before"]
      ELSE IF h.kind = "copy"
           THEN IF Len(h.payload) = h.sizeAfter /\ h.patchDataSize = Len(h.payload)
                THEN [ok |-> TRUE, out |-> h.payload, why |-> ""]
                ELSE [ok |-> FALSE, out |-> <<>>, why |-> "copy size"]
      ELSE IF Len(h.payload) < 4 \/ Nat32(h.payload, 0) # h.patchDataSize \/ h.patchDataSize < 0
           THEN [ok |-> FALSE, out |-> <<>>, why |-> "rle header"]
      ELSE LET rle == RleDecode(SubSeq(h.payload, 5, Len(h.payload)), h.patchDataSize)
           IN  IF ~rle.ok THEN [ok |-> FALSE, out |-> <<>>, why |-> "rle"]
               ELSE LET im == Bsd0Image(rle.out)
                    IN  IF ~im.ok THEN [ok |-> FALSE, out |-> <<>>, why |-> im.why]
                        ELSE IF im.newSize # h.sizeAfter THEN [ok |-> FALSE, out |-> <<>>, why |-> "size after"]
                        ELSE LET acc == RunCtrl(base, im.ctrl, im.data, im.extra, im.newSize)
                             IN  IF Finished(acc, im.data, im.extra, im.newSize)
                                 THEN [ok |-> TRUE, out |-> acc.no, why |-> ""]
                                 ELSE [ok |-> FALSE, out |-> <<>>, why |-> "control"]
HasBackwardSeek(f) ==
  LET h == ParsePtch(f)
  IN  h.ok /\ h.kind = "bsd0" /\ Len(h.payload) >= 4 /\ h.patchDataSize >= 0
      /\ LET rle == RleDecode(SubSeq(h.payload, 5, Len(h.payload)), h.patchDataSize)
         IN  rle.ok /\ LET im == Bsd0Image(rle.out) IN im.ok /\ \E i \in 1..Len(im.ctrl) : im.ctrl[i].seek < 0
=============================================================================
