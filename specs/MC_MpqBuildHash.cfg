CONSTANTS
  SectorSize = 4
  TableSize = 4
  FlagFix = FALSE
INIT HInit
NEXT HNext
CHECK_DEADLOCK FALSE
