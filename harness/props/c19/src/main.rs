//! C19 driver: replays TLC-generated call histories / thread programs on the REAL `extern "C"`
//! functions of /repo/ffi/storm-ffi (source-included) and records one `Inv` and one `Ret` event per
//! call. It records only; Trace_StormFfi.tla decides.
//!
//!   c19 <cases.ndjson> <trace.ndjson>                 parent: runs workers, stitches the trace
//!   c19 <cases.ndjson> <part> worker <start> <stem>   worker: cases start.. in this process
//!
//! A crash (abort / signal) of the code under test kills the worker: the parent closes the open
//! calls with `Ret{st:"abort"}` and restarts behind the case. A call that does not return within the
//! watchdog limit is closed with `Ret{st:"hang"}` by the worker itself, which then asks for a
//! restart (exit status 3) because the hung thread may own a global Mutex.
#![allow(non_snake_case, non_camel_case_types, dead_code, unused_unsafe, clippy::all)]

#[path = "/repo/ffi/storm-ffi/src/lib.rs"]
#[allow(warnings)]
mod storm;

use std::collections::HashMap;
use std::ffi::{c_void, CStr, CString};
use std::path::{Path, PathBuf};
use std::sync::atomic::{AtomicBool, AtomicUsize, Ordering};
use std::sync::{Arc, Condvar, Mutex};
use std::time::{Duration, Instant};
use wverif_common::*;

const CANARY: usize = 64;
const FILL: u8 = 0xA5;
const NAMES: [&str; 20] = ["f0", "f1", "f2", "f3", "g0", "g1", "g2", "g3", "g4", "g5", "g6", "g7", "g8", "g9", "ga", "gb",
                           "n259", "n260", "n261", "n1024"];
/// MAX_PATH of the StormLib API: SFILE_FIND_DATA.cFileName and the buffer of SFileGetFileName hold 260 chars
const MAX_PATH: usize = 260;

// ------------------------------------------------------------------------------------------
// canary-guarded buffers
// ------------------------------------------------------------------------------------------
struct Guarded {
    raw: Vec<u8>,
    cap: usize,
    pad: usize,
}
impl Guarded {
    fn new(cap: usize) -> Self {
        Guarded::wide(cap, CANARY)
    }
    /// guard zones of `pad` bytes (wide ones keep an unbounded copy of the callee inside our allocation)
    fn wide(cap: usize, pad: usize) -> Self {
        Guarded { raw: vec![FILL; cap + 2 * pad], cap, pad }
    }
    fn ptr(&mut self) -> *mut u8 {
        unsafe { self.raw.as_mut_ptr().add(self.pad) }
    }
    fn data(&self) -> &[u8] {
        &self.raw[self.pad..self.pad + self.cap]
    }
    fn intact(&self) -> bool {
        self.raw[..self.pad].iter().all(|b| *b == FILL) && self.raw[self.pad + self.cap..].iter().all(|b| *b == FILL)
    }
}

fn err_class(e: u32) -> &'static str {
    match e {
        0 => "ok",
        2 => "not_found",
        5 => "access_denied",
        6 => "invalid_handle",
        18 => "no_more_files",
        50 => "not_supported",
        87 => "invalid_param",
        122 => "insufficient_buffer",
        183 => "exists",
        1392 => "corrupt",
        _ => "other",
    }
}

fn real_name(n: &str) -> String {
    // name-length classes around MAX_PATH: "n<len>" is an archived name of exactly <len> bytes, each with its own
    // fill letter so that a truncated prefix still identifies the name
    if let Some(len) = n.strip_prefix('n').and_then(|x| x.parse::<usize>().ok()) {
        let fill = match len { 259 => 'p', 260 => 'q', 261 => 'r', _ => 's' };
        return format!("d\\{}", fill.to_string().repeat(len - 2));
    }
    if NAMES.contains(&n) {
        format!("data\\{n}.bin")
    } else {
        n.to_string()
    }
}
fn model_name(n: &str) -> String {
    for m in NAMES {
        if n.eq_ignore_ascii_case(&real_name(m)) {
            return m.to_string();
        }
    }
    n.to_string()
}
/// Name read out of a MAX_PATH field: the model name if it is exactly the archived name cut to 259 bytes.
fn model_name_maxpath(n: &str) -> String {
    for m in NAMES {
        let r = real_name(m);
        let cut = &r.as_bytes()[..r.len().min(MAX_PATH - 1)];
        if n.as_bytes().eq_ignore_ascii_case(cut) {
            return m.to_string();
        }
    }
    n.to_string()
}
/// (string up to the first NUL within the array or the whole array, is there a NUL inside the array)
fn cstr_in(arr: &[u8]) -> (String, bool) {
    match arr.iter().position(|b| *b == 0) {
        Some(p) => (String::from_utf8_lossy(&arr[..p]).into_owned(), true),
        None => (String::from_utf8_lossy(arr).into_owned(), false),
    }
}
/// forged handle values derived from a live handle (all of them are invalid handles)
fn forge(real: usize, kind: i64) -> usize {
    match kind {
        1 => real | (1usize << 32),
        2 => real | (1usize << 63),
        3 => real.wrapping_add(7usize << 32),
        4 => real | 0xFFFF_FFFF_0000_0000usize,
        5 => real + (1usize << 16),
        6 => real + (1usize << 31),
        _ => real,
    }
}

// ------------------------------------------------------------------------------------------
// per-case world
// ------------------------------------------------------------------------------------------
struct World {
    dir: PathBuf,
    hmap: HashMap<i64, usize>,          // model handle -> real handle
    next_model: i64,
    arch_file: HashMap<usize, String>,  // real archive handle -> model file ("A"/"B")
    twins: HashMap<usize, wow_mpq::MutableArchive>,
    src_n: usize,
    version: u32,
    compression: u32,
}

impl World {
    fn path(&self, f: &str) -> PathBuf {
        self.dir.join(format!("{f}.mpq"))
    }
    fn real(&self, h: i64) -> usize {
        if h == 0 {
            0
        } else {
            *self.hmap.get(&h).unwrap_or(&(1_000_000 + h as usize))
        }
    }
    fn learn(&mut self, real: usize) {
        let m = self.next_model;
        self.hmap.insert(m, real);
        self.next_model += 1;
    }
}

fn bytes_of(v: &Value) -> Option<Vec<u8>> {
    let a = v.as_array()?;
    if a.len() == 1 && a[0].as_i64() == Some(-1) {
        return None;
    }
    Some(a.iter().map(|x| x.as_i64().unwrap_or(0) as u8).collect())
}
fn jbytes(b: &Option<Vec<u8>>) -> Value {
    match b {
        None => json!([-1]),
        Some(v) => json!(v),
    }
}

/// Build the archive files of the case with ArchiveBuilder and observe them through the Rust API.
fn build_disk(case: &Value, w: &World, rng: &mut Rng) -> (Value, Value) {
    let mut disk = Map::new();
    let mut order = Map::new();
    for f in ["A", "B"] {
        let spec = &case["disk"][f];
        let mut b = wow_mpq::ArchiveBuilder::new()
            .version(match rng.below(4) {
                0 => wow_mpq::FormatVersion::V1,
                1 => wow_mpq::FormatVersion::V2,
                2 => wow_mpq::FormatVersion::V3,
                _ => wow_mpq::FormatVersion::V4,
            })
            .default_compression(if rng.chance(1, 3) { 0 } else { 0x02 })
            .listfile_option(wow_mpq::ListfileOption::Generate);
        for n in NAMES {
            if let Some(bytes) = spec.get(n).and_then(bytes_of) {
                b = b.add_file_data(bytes, &real_name(n));
            }
        }
        let p = w.path(f);
        if let Err(e) = b.build(&p) {
            tool_error(&format!("cannot build {p:?}: {e:?}"));
        }
        let (m, o) = observe_archive(&p);
        disk.insert(f.to_string(), m);
        order.insert(f.to_string(), o);
    }
    (Value::Object(disk), Value::Object(order))
}

/// name -> bytes map and listing order of an archive file as the Rust API (`Archive`) reports them.
fn observe_archive(p: &Path) -> (Value, Value) {
    let mut m = Map::new();
    let mut order = Vec::new();
    match wow_mpq::Archive::open(p) {
        Ok(mut a) => {
            if let Ok(l) = a.list() {
                for e in l {
                    order.push(Value::String(model_name(&e.name)));
                }
            }
            for n in NAMES {
                let r = match a.find_file(&real_name(n)) {
                    Ok(Some(_)) => a.read_file(&real_name(n)).ok(),
                    _ => None,
                };
                m.insert(n.to_string(), jbytes(&r));
            }
        }
        Err(_) => {
            for n in NAMES {
                m.insert(n.to_string(), json!([-1]));
            }
        }
    }
    (Value::Object(m), Value::Array(order))
}

fn observe_twin(t: &mut wow_mpq::MutableArchive) -> Value {
    let mut m = Map::new();
    for n in NAMES {
        let r = match t.find_file(&real_name(n)) {
            Ok(Some(_)) => t.read_file(&real_name(n)).ok(),
            _ => None,
        };
        m.insert(n.to_string(), jbytes(&r));
    }
    Value::Object(m)
}

// ------------------------------------------------------------------------------------------
// event log shared by the threads of a case (Inv strictly before the call, Ret strictly after)
// ------------------------------------------------------------------------------------------
struct Log {
    t: Trace,
    pending: Mutex<HashMap<String, (String, Instant)>>,
}
impl Log {
    fn ev(&self, v: Value) {
        self.t.ev(v);
        self.t.flush();
    }
}

struct Res {
    ret: i64,
    out: Value,
    err: &'static str,
    rres: &'static str,
    canary: bool,
    nul: bool,
    sync: Option<(i64, Value)>,
    newh: Option<usize>,
}

fn last_err() -> &'static str {
    err_class(storm::SFileGetLastError())
}

extern "C" fn enum_cb(name: *const libc::c_char, user: *mut c_void) -> bool {
    let v = unsafe { &mut *(user as *mut Vec<String>) };
    v.push(unsafe { CStr::from_ptr(name) }.to_string_lossy().into_owned());
    true
}

/// What the Rust API (twin MutableArchive) says about reading `name`: rd_ok / rd_fail (found, unreadable) / rd_none.
fn twin_read(w: &Mutex<World>, h: usize, name: &str) -> &'static str {
    let mut g = w.lock().unwrap();
    match g.twins.get_mut(&h) {
        None => "-",
        Some(t) => match t.find_file(&real_name(name)) {
            Ok(Some(_)) => {
                if t.read_file(&real_name(name)).is_ok() {
                    "rd_ok"
                } else {
                    "rd_fail"
                }
            }
            _ => "rd_none",
        },
    }
}

/// Execute one abstract call on the real C API.
fn exec(w: &Mutex<World>, call: &Value) -> Res {
    let f = gs(call, "fn");
    let hm = gi(call, "h");
    let name = gs(call, "name");
    let n1 = gi(call, "n1");
    let n2 = gi(call, "n2");
    let dat = &call["dat"];
    let hf = call.get("hf").and_then(|x| x.as_i64()).unwrap_or(0);
    let h = forge({ w.lock().unwrap().real(hm) }, hf);
    let hp = h as storm::HANDLE;
    let cname = CString::new(real_name(name)).unwrap();
    let mut r = Res { ret: 0, out: json!([]), err: "ok", rres: "-", canary: true, nul: true, sync: None, newh: None };
    unsafe {
        match f {
            "OpenArchive" => {
                let (p, version) = {
                    let g = w.lock().unwrap();
                    (g.path(name), g.version)
                };
                let cp = CString::new(p.to_str().unwrap()).unwrap();
                let mut out = Guarded::new(8);
                let ok = match n1 {
                    0 => storm::SFileOpenArchive(cp.as_ptr(), 0, 0, out.ptr() as *mut storm::HANDLE),
                    1 => {
                        let info = storm::SFILE_CREATE_MPQ {
                            cb_size: std::mem::size_of::<storm::SFILE_CREATE_MPQ>() as u32,
                            mpq_version: version,
                            user_data: std::ptr::null_mut(),
                            cb_user_data: 0,
                            stream_flags: 0,
                            file_flags_1: 1,
                            file_flags_2: 0,
                            file_flags_3: 0,
                            attr_flags: 0,
                            sector_size: 3,
                            raw_chunk_size: 0,
                            max_file_count: n2 as u32,
                        };
                        storm::SFileCreateArchive2(cp.as_ptr(), &info, out.ptr() as *mut storm::HANDLE)
                    }
                    _ => storm::SFileCreateArchive(cp.as_ptr(), 2, 16, out.ptr() as *mut storm::HANDLE),
                };
                r.err = last_err();
                r.canary = out.intact();
                if ok {
                    let hv = usize::from_ne_bytes(out.data()[..8].try_into().unwrap());
                    r.ret = hv as i64;
                    r.newh = Some(hv);
                    let mut g = w.lock().unwrap();
                    g.arch_file.insert(hv, name.to_string());
                    if n1 == 1 {
                        // reference: the Rust API on a twin copy of the freshly created archive
                        let tp = g.dir.join(format!("{name}.twin{hv}.mpq"));
                        if std::fs::copy(&p, &tp).is_ok() {
                            if let Ok(t) = wow_mpq::MutableArchive::open(&tp) {
                                g.twins.insert(hv, t);
                            }
                        }
                    }
                }
            }
            "CloseArchive" => {
                r.ret = storm::SFileCloseArchive(hp) as i64;
                r.err = last_err();
                if r.ret == 1 {
                    let mut g = w.lock().unwrap();
                    g.twins.remove(&h);
                }
            }
            "OpenFileEx" => {
                let mut out = Guarded::new(8);
                let ok = storm::SFileOpenFileEx(hp, cname.as_ptr(), 0, out.ptr() as *mut storm::HANDLE);
                r.err = last_err();
                r.rres = twin_read(w, h, name);
                r.canary = out.intact();
                if ok {
                    let hv = usize::from_ne_bytes(out.data()[..8].try_into().unwrap());
                    r.ret = hv as i64;
                    r.newh = Some(hv);
                }
            }
            "CloseFile" => {
                r.ret = storm::SFileCloseFile(hp) as i64;
                r.err = last_err();
            }
            "ReadFile" => {
                // n1 = to_read (clamped to 2^31-1 in the log; n2 = 1: really pass 0xFFFFFFFF)
                let to_read: u32 = if n2 == 1 { u32::MAX } else { n1 as u32 };
                let cap = (to_read as usize).min(16384);
                let mut buf = Guarded::new(cap);
                let mut got = Guarded::new(4);
                let ok = storm::SFileReadFile(hp, buf.ptr() as *mut c_void, to_read, got.ptr() as *mut u32, std::ptr::null_mut());
                r.err = last_err();
                r.ret = ok as i64;
                r.canary = buf.intact() && got.intact();
                if ok {
                    let n = u32::from_ne_bytes(got.data()[..4].try_into().unwrap()) as usize;
                    if n <= cap {
                        r.out = json!(buf.data()[..n].to_vec());
                        // bytes behind the reported count must be untouched
                        if !buf.data()[n..].iter().all(|b| *b == FILL) {
                            r.canary = false;
                        }
                    } else {
                        r.out = json!([n as i64, -2]);
                    }
                }
            }
            "GetFileSize" => {
                let mut hi = Guarded::new(4);
                let v = storm::SFileGetFileSize(hp, hi.ptr() as *mut u32);
                r.err = last_err();
                r.canary = hi.intact();
                r.ret = if v == u32::MAX { -1 } else { v as i64 };
            }
            "SetFilePointer" => {
                let v = storm::SFileSetFilePointer(hp, n1 as i32, std::ptr::null_mut(), n2 as u32);
                r.err = last_err();
                r.ret = if v == u32::MAX { -1 } else { v as i64 };
            }
            "GetFileName" => {
                // n2 = 1: the buffer is exactly MAX_PATH chars (what the StormLib API promises the callee), else 1 KiB
                let mut buf = Guarded::wide(if n2 == 1 { MAX_PATH } else { 1024 }, 2048);
                let ok = storm::SFileGetFileName(hp, buf.ptr() as *mut libc::c_char);
                r.err = last_err();
                r.ret = ok as i64;
                r.canary = buf.intact();
                if ok {
                    let (s, nul) = cstr_in(buf.data());
                    r.nul = nul;
                    // the archived name, or (names longer than MAX_PATH - 1) its first 259 bytes
                    let m = model_name(&s);
                    r.out = json!([if NAMES.contains(&m.as_str()) { m } else { model_name_maxpath(&s) }]);
                }
            }
            "GetFileInfo" => {
                let mut buf = Guarded::new(n2 as usize);
                let mut need = Guarded::new(4);
                let ok = storm::SFileGetFileInfo(hp, n1 as u32, buf.ptr() as *mut c_void, n2 as u32, need.ptr() as *mut u32);
                r.err = last_err();
                r.ret = ok as i64;
                r.canary = buf.intact() && need.intact();
                if ok && n2 >= 8 && (n1 == 7 || n1 == 10) {
                    r.out = json!([u64::from_ne_bytes(buf.data()[..8].try_into().unwrap()) as i64]);
                }
            }
            "HasFile" => {
                r.ret = storm::SFileHasFile(hp, cname.as_ptr()) as i64;
                r.err = last_err();
                let mut g = w.lock().unwrap();
                if let Some(t) = g.twins.get_mut(&h) {
                    r.rres = if matches!(t.find_file(&real_name(name)), Ok(Some(_))) { "yes" } else { "no" };
                }
            }
            "VerifyFile" => {
                r.ret = storm::SFileVerifyFile(hp, cname.as_ptr(), 0) as i64;
                r.err = last_err();
            }
            "EnumFiles" => {
                let mut names: Vec<String> = Vec::new();
                let ok = storm::SFileEnumFiles(hp, std::ptr::null(), std::ptr::null(), Some(enum_cb), &mut names as *mut _ as *mut c_void);
                r.err = last_err();
                r.ret = ok as i64;
                let mut l: Vec<String> = names.iter().map(|n| model_name(n)).filter(|n| !n.starts_with('(')).collect();
                l.sort();
                r.out = json!(l);
            }
            "GetArchiveName" => {
                let plen = { let g = w.lock().unwrap(); g.arch_file.get(&h).map(|f| g.path(f).to_str().unwrap().len()).unwrap_or(10) };
                let size = match n2 { 0 => 0, 1 => 4096, 2 => plen, _ => plen + 1 };
                let mut buf = Guarded::new(size);
                let ok = storm::SFileGetArchiveName(hp, buf.ptr() as *mut libc::c_char, size as u32);
                r.err = last_err();
                r.ret = ok as i64;
                r.canary = buf.intact();
                if ok {
                    let s = CStr::from_ptr(buf.ptr() as *const libc::c_char).to_string_lossy().into_owned();
                    let stem = Path::new(&s).file_stem().map(|x| x.to_string_lossy().into_owned()).unwrap_or_default();
                    r.out = json!([stem]);
                }
            }
            "ExtractFile" => {
                let dest = { let mut g = w.lock().unwrap(); g.src_n += 1; g.dir.join(format!("x{}.out", g.src_n)) };
                let cd = CString::new(dest.to_str().unwrap()).unwrap();
                let ok = storm::SFileExtractFile(hp, cname.as_ptr(), cd.as_ptr(), 0);
                r.err = last_err();
                r.rres = twin_read(w, h, name);
                r.ret = ok as i64;
                if ok {
                    r.out = json!(std::fs::read(&dest).unwrap_or_default());
                }
            }
            "AddFile" => {
                let bytes = bytes_of(dat).unwrap_or_default();
                let (src, comp) = { let mut g = w.lock().unwrap(); g.src_n += 1; (g.dir.join(format!("s{}.in", g.src_n)), g.compression) };
                std::fs::write(&src, &bytes).unwrap();
                let cs = CString::new(src.to_str().unwrap()).unwrap();
                let flags: u32 = if n1 == 1 { 0x8000_0000 } else { 0 };
                let ok = storm::SFileAddFileEx(hp, cs.as_ptr(), cname.as_ptr(), flags, comp, 0);
                r.err = last_err();
                r.ret = ok as i64;
                let mut g = w.lock().unwrap();
                if let Some(t) = g.twins.get_mut(&h) {
                    use wow_mpq::compression::CompressionMethod as CM;
                    let mut o = wow_mpq::AddFileOptions::new().compression(if comp == 0 { CM::None } else { CM::Zlib });
                    if n1 == 1 {
                        o = o.replace_existing(true);
                    }
                    r.rres = if t.add_file(&src, &real_name(name), o).is_ok() { "ok" } else { "fail" };
                }
            }
            "RemoveFile" => {
                r.ret = storm::SFileRemoveFile(hp, cname.as_ptr(), 0) as i64;
                r.err = last_err();
                let mut g = w.lock().unwrap();
                if let Some(t) = g.twins.get_mut(&h) {
                    r.rres = if t.remove_file(&real_name(name)).is_ok() { "ok" } else { "fail" };
                }
            }
            "RenameFile" => {
                let nn = dat.as_array().and_then(|a| a.first()).and_then(|x| x.as_str()).unwrap_or("f3").to_string();
                let cn = CString::new(real_name(&nn)).unwrap();
                r.ret = storm::SFileRenameFile(hp, cname.as_ptr(), cn.as_ptr()) as i64;
                r.err = last_err();
                let mut g = w.lock().unwrap();
                if let Some(t) = g.twins.get_mut(&h) {
                    r.rres = if t.rename_file(&real_name(name), &real_name(&nn)).is_ok() { "ok" } else { "fail" };
                }
            }
            "FlushArchive" => {
                r.ret = if n1 == 0 { storm::SFileFlushArchive(hp) } else { storm::SFileCompactArchive(hp, std::ptr::null(), false) } as i64;
                r.err = last_err();
                let mut g = w.lock().unwrap();
                if let Some(t) = g.twins.get_mut(&h) {
                    let rr = if n1 == 0 { t.flush() } else { t.compact() };
                    r.rres = if rr.is_ok() { "ok" } else { "fail" };
                    r.sync = Some((h as i64, observe_twin(t)));
                }
            }
            "VerifyArchive" => {
                r.ret = storm::SFileVerifyArchive(hp, if n1 == 1 { 0x20 } else { 0 }) as i64;
                r.err = last_err();
            }
            "FindFirst" => {
                let sz = std::mem::size_of::<storm::SFILE_FIND_DATA>();
                let mut fd = Guarded::new(sz + 8);
                let p = fd.ptr().add(fd.ptr().align_offset(8)) as *mut storm::SFILE_FIND_DATA;
                // mask classes (the model's MaskMatch): the `name` argument selects the search mask
                let mask = CString::new(match name {
                    "m1" => "*.*",
                    "m2" => "*.bin",
                    "m3" => "data\\*",
                    "m4" => "data\\?0.bin",
                    "m5" => "data\\f2.bin",
                    "m6" => "zz*",
                    "m7" => "D\\*",
                    _ => "*",
                }).unwrap();
                let hv = storm::SFileFindFirstFile(hp, mask.as_ptr(), p, std::ptr::null());
                r.err = last_err();
                r.canary = fd.intact();
                if !hv.is_null() {
                    r.ret = hv as usize as i64;
                    r.newh = Some(hv as usize);
                    let arr: Vec<u8> = (*p).c_file_name.iter().map(|c| *c as u8).collect();
                    let (s, nul) = cstr_in(&arr);
                    r.nul = nul;               // every C string field is NUL-terminated inside its array
                    r.out = json!([model_name_maxpath(&s)]);
                }
            }
            "FindNext" => {
                let sz = std::mem::size_of::<storm::SFILE_FIND_DATA>();
                let mut fd = Guarded::new(sz + 8);
                let p = fd.ptr().add(fd.ptr().align_offset(8)) as *mut storm::SFILE_FIND_DATA;
                let ok = storm::SFileFindNextFile(hp, p);
                r.err = last_err();
                r.ret = ok as i64;
                r.canary = fd.intact();
                if ok {
                    let arr: Vec<u8> = (*p).c_file_name.iter().map(|c| *c as u8).collect();
                    let (s, nul) = cstr_in(&arr);
                    r.nul = nul;               // every C string field is NUL-terminated inside its array
                    r.out = json!([model_name_maxpath(&s)]);
                }
            }
            "FindClose" => {
                r.ret = storm::SFileFindClose(hp) as i64;
                r.err = last_err();
            }
            _ => tool_error(&format!("unknown fn {f}")),
        }
    }
    if let Some(hv) = r.newh {
        w.lock().unwrap().learn(hv);
    }
    r
}

/// One logged call of thread `th`: Inv, the real call, Ret.
fn logged_call(log: &Log, w: &Mutex<World>, case: &str, th: &str, call: &Value) {
    let f = gs(call, "fn").to_string();
    let hf = call.get("hf").and_then(|x| x.as_i64()).unwrap_or(0);
    let mut h = { w.lock().unwrap().real(gi(call, "h")) } as i64;
    if hf != 0 {
        // a forged value does not fit TLC's integers: it is logged as a negative number (never a live id)
        h = -(hf * 100_000_000 + h % 100_000_000);
    }
    let n1 = gi(call, "n1").clamp(i32::MIN as i64, i32::MAX as i64);
    // single-thread histories: what the Rust API lists for a writable archive right now (the listing of the C API is
    // compared with it, not with a model of when wow-mpq refreshes its read-only view)
    if SEQ_CASE.load(Ordering::SeqCst) && matches!(f.as_str(), "EnumFiles" | "FindFirst" | "VerifyArchive") {
        let mut g = w.lock().unwrap();
        if let Some(t) = g.twins.get_mut(&(h as usize)) {
            if let Ok(l) = t.list() {
                let rl: Vec<String> = l.iter().map(|e| model_name(&e.name)).collect();
                drop(g);
                log.ev(json!({"ev":"List","case":case,"th":th,"h":h,"rl":rl}));
            }
        }
    }
    log.pending.lock().unwrap().insert(th.to_string(), (f.clone(), Instant::now()));
    log.ev(json!({"ev":"Inv","case":case,"th":th,"fn":f,"h":h,"name":gs(call,"name"),"n1":n1,"n2":gi(call,"n2"),"dat":call["dat"],"hf":hf}));
    LOCKS.with(|l| l.borrow_mut().clear());
    let r = exec(w, call);
    log.pending.lock().unwrap().remove(th);
    let locks: Vec<Value> = LOCKS.with(|l| l.borrow_mut().drain(..).map(|(k, held)| json!({"l": k, "held": held})).collect());
    log.ev(json!({"ev":"Ret","case":case,"th":th,"fn":f,"st":"ok","ret":r.ret,"out":r.out,"err":r.err,"rres":r.rres,"canary":r.canary,"nul":r.nul,
                  "lt": LTRACE.load(Ordering::SeqCst) && th != "T0", "locks": locks}));
    if let Some((hh, m)) = r.sync {
        log.ev(json!({"ev":"Sync","case":case,"th":th,"h":hh,"rmap":m}));
    }
}

// ------------------------------------------------------------------------------------------
// schedule control
// ------------------------------------------------------------------------------------------
thread_local! { static TH_NAME: std::cell::RefCell<String> = const { std::cell::RefCell::new(String::new()) }; }
// lock acquisitions of the call in progress on this thread: (lock, locks found held at that moment)
thread_local! { static LOCKS: std::cell::RefCell<Vec<(String, Vec<String>)>> = const { std::cell::RefCell::new(Vec::new()) }; }
/// lock-trace mode ("lockorder" cases, single thread): at every sync point the three table locks are probed
static LTRACE: AtomicBool = AtomicBool::new(false);
static SEQ_CASE: AtomicBool = AtomicBool::new(false);

/// Probing whether a table lock is held right now: a helper thread calls an API function that takes exactly
/// that lock (with a never-issued handle). No answer while the probed thread is parked = the lock is held.
struct Probe {
    tx: std::sync::mpsc::Sender<u64>,
    rx: Mutex<std::sync::mpsc::Receiver<u64>>,
    next: AtomicUsize,
}
static PROBES: std::sync::OnceLock<Vec<(&'static str, Probe)>> = std::sync::OnceLock::new();
fn probes() -> &'static Vec<(&'static str, Probe)> {
    PROBES.get_or_init(|| {
        ["ARCH", "FILES", "FINDS"].iter().map(|name| {
            let (tx, rxq) = std::sync::mpsc::channel::<u64>();
            let (txr, rx) = std::sync::mpsc::channel::<u64>();
            let which = *name;
            std::thread::spawn(move || {
                let bogus = 0x7fff_fff1usize as storm::HANDLE;
                let nm = CString::new("zz").unwrap();
                while let Ok(id) = rxq.recv() {
                    unsafe {
                        match which {
                            "ARCH" => { storm::SFileHasFile(bogus, nm.as_ptr()); }
                            "FILES" => { storm::SFileGetFileSize(bogus, std::ptr::null_mut()); }
                            _ => { storm::SFileFindClose(bogus); }
                        }
                    }
                    let _ = txr.send(id);
                }
            });
            (which, Probe { tx, rx: Mutex::new(rx), next: AtomicUsize::new(1) })
        }).collect()
    })
}
/// Locks (other than `about`) that are held while the calling thread is parked at a sync point.
fn held_locks(about: &str) -> Vec<String> {
    let mut held = Vec::new();
    for (name, p) in probes().iter() {
        if *name == about {
            continue;
        }
        let id = p.next.fetch_add(1, Ordering::SeqCst) as u64;
        let rx = p.rx.lock().unwrap();
        let _ = p.tx.send(id);
        let t0 = Instant::now();
        let mut answered = false;
        // generous: a free lock answers in microseconds; only "no answer for 2 x 250 ms" counts as held
        while t0.elapsed() < Duration::from_millis(500) {
            match rx.recv_timeout(Duration::from_millis(250)) {
                Ok(got) if got == id => { answered = true; break; }
                Ok(_) => continue,           // late answer of an earlier probe
                Err(_) => continue,
            }
        }
        if !answered {
            held.push(name.to_string());
        }
    }
    held
}

/// Turn-based scheduler used with the `verif_sync` hook: a thread arriving at a sync point parks
/// until the controller grants it a turn; it then runs up to its next sync point.
struct Sched {
    m: Mutex<SchedState>,
    cv: Condvar,
}
#[derive(Default)]
struct SchedState {
    active: bool,
    parked: HashMap<String, String>, // thread -> point it is parked at
    grant: Option<String>,
    finished: Vec<String>,
    free_run: bool,
}
static SCHED: std::sync::OnceLock<Sched> = std::sync::OnceLock::new();
fn sched() -> &'static Sched {
    SCHED.get_or_init(|| Sched { m: Mutex::new(SchedState::default()), cv: Condvar::new() })
}

#[cfg(c19_has_hook)]
fn sync_hook(point: &'static str) {
    let me = TH_NAME.with(|n| n.borrow().clone());
    if me.is_empty() {
        return;
    }
    let lock = point.rsplit('.').next().unwrap_or("?");
    let held = if LTRACE.load(Ordering::SeqCst) { held_locks(lock) } else { Vec::new() };
    LOCKS.with(|l| l.borrow_mut().push((lock.to_string(), held)));
    let s = sched();
    let mut g = s.m.lock().unwrap();
    if !g.active || g.free_run {
        return;
    }
    g.parked.insert(me.clone(), point.to_string());
    s.cv.notify_all();
    loop {
        if g.free_run || !g.active {
            break;
        }
        if g.grant.as_deref() == Some(me.as_str()) {
            g.grant = None;
            break;
        }
        g = s.cv.wait(g).unwrap();
    }
    g.parked.remove(&me);
    s.cv.notify_all();
}

/// Holds ARCHIVES from inside an SFileEnumFiles callback until released (schedule control that
/// needs no hook: every thread that wants ARCHIVES queues up behind the gate).
struct Gate {
    open: Mutex<bool>,
    cv: Condvar,
    entered: AtomicBool,
}
extern "C" fn gate_cb(_name: *const libc::c_char, user: *mut c_void) -> bool {
    let g = unsafe { &*(user as *const Gate) };
    g.entered.store(true, Ordering::SeqCst);
    let mut o = g.open.lock().unwrap();
    while !*o {
        o = g.cv.wait(o).unwrap();
    }
    false
}

// ------------------------------------------------------------------------------------------
// a case
// ------------------------------------------------------------------------------------------
fn run_case(log: &Arc<Log>, idx: usize, case: &Value, limit: Duration) -> bool {
    let cid = format!("{}:{}", idx, gs(case, "kind"));
    let sc = Scratch::new("c19");
    let mut rng = Rng::derive(seed(), &format!("c19:{}", case.get("id").map(|x| x.to_string()).unwrap_or_default()));
    let world = World {
        dir: sc.path.clone(),
        hmap: HashMap::new(),
        next_model: 1,
        arch_file: HashMap::new(),
        twins: HashMap::new(),
        src_n: 0,
        version: 1 + rng.below(4) as u32,
        compression: if rng.chance(1, 2) { 0 } else { 2 },
    };
    let (disk, order) = build_disk(case, &world, &mut rng);
    let hook = cfg!(c19_has_hook);
    log.ev(json!({"ev":"Reset","case":cid,"kind":gs(case,"kind"),"disk":disk,"order":order,"hook":hook,
                  "label":case.get("label").cloned().unwrap_or(json!("")) }));
    SEQ_CASE.store(gs(case, "kind") == "seq", Ordering::SeqCst);
    let w = Arc::new(Mutex::new(world));
    let done = Arc::new(AtomicUsize::new(0));
    let mut nthreads = 0usize;
    // setup calls run before the threads start, as thread T0
    let setup: Vec<Value> = case.get("setup").and_then(|x| x.as_array()).cloned().unwrap_or_default();
    let progs = case.get("prog").and_then(|x| x.as_object()).cloned().unwrap_or_default();
    let order: Vec<String> = case.get("order").and_then(|x| x.as_array()).map(|a| a.iter().filter_map(|x| x.as_str().map(String::from)).collect())
        .unwrap_or_else(|| { let mut k: Vec<String> = progs.keys().cloned().collect(); k.sort(); k });
    let use_gate = case.get("gate").and_then(|x| x.as_bool()).unwrap_or(false) && !hook;
    let turns: Vec<String> = case.get("turns").and_then(|x| x.as_array()).map(|a| a.iter().filter_map(|x| x.as_str().map(String::from)).collect()).unwrap_or_default();
    let use_turns = hook && !turns.is_empty();
    let ltrace = hook && case.get("label").and_then(|x| x.as_str()) == Some("lockorder");

    let (l2, w2, c2, d2) = (log.clone(), w.clone(), cid.clone(), done.clone());
    let setup_t = std::thread::spawn(move || {
        for c in &setup {
            logged_call(&l2, &w2, &c2, "T0", c);
        }
        d2.fetch_add(1, Ordering::SeqCst);
    });
    nthreads += 1;
    let t0 = Instant::now();
    while done.load(Ordering::SeqCst) < 1 {
        if t0.elapsed() > limit {
            return false;
        }
        std::thread::sleep(Duration::from_micros(200));
    }
    let _ = setup_t.join();

    // optional gate: hold ARCHIVES while the threads are started in the prescribed order
    let gate = Arc::new(Gate { open: Mutex::new(false), cv: Condvar::new(), entered: AtomicBool::new(false) });
    let mut gate_thread = None;
    let mut gate_h: usize = 0;
    if use_gate {
        let gp = sc.path.join("gate.mpq");
        let _ = wow_mpq::ArchiveBuilder::new().add_file_data(vec![1], "g.bin").build(&gp);
        let cp = CString::new(gp.to_str().unwrap()).unwrap();
        let mut hh: storm::HANDLE = std::ptr::null_mut();
        unsafe { storm::SFileOpenArchive(cp.as_ptr(), 0, 0, &mut hh) };
        gate_h = hh as usize;
        let g2 = gate.clone();
        gate_thread = Some(std::thread::spawn(move || unsafe {
            storm::SFileEnumFiles(gate_h as storm::HANDLE, std::ptr::null(), std::ptr::null(), Some(gate_cb), Arc::as_ptr(&g2) as *mut c_void);
        }));
        let t = Instant::now();
        while !gate.entered.load(Ordering::SeqCst) && t.elapsed() < Duration::from_secs(2) {
            std::thread::sleep(Duration::from_micros(200));
        }
    }
    if use_turns {
        let s = sched();
        let mut g = s.m.lock().unwrap();
        *g = SchedState::default();
        g.active = true;
    }
    LTRACE.store(ltrace, Ordering::SeqCst);
    let mut handles = Vec::new();
    for th in &order {
        let Some(p) = progs.get(th) else { continue };
        let calls: Vec<Value> = p.as_array().cloned().unwrap_or_default();
        let (l2, w2, c2, d2, th2) = (log.clone(), w.clone(), cid.clone(), done.clone(), th.to_uppercase());
        let stagger = rng.below(300);
        handles.push(std::thread::spawn(move || {
            TH_NAME.with(|n| *n.borrow_mut() = th2.clone());
            if !use_turns && !use_gate {
                std::thread::sleep(Duration::from_micros(stagger));
            }
            for c in &calls {
                logged_call(&l2, &w2, &c2, &th2, c);
            }
            TH_NAME.with(|n| n.borrow_mut().clear());
            if use_turns {
                let s = sched();
                s.m.lock().unwrap().finished.push(th2.clone());
                s.cv.notify_all();
            }
            d2.fetch_add(1, Ordering::SeqCst);
        }));
        nthreads += 1;
        if use_gate {
            std::thread::sleep(Duration::from_millis(12));
        }
    }
    if use_gate {
        std::thread::sleep(Duration::from_millis(15));
        *gate.open.lock().unwrap() = true;
        gate.cv.notify_all();
    }
    if use_turns {
        // grant the turns of the TLC schedule; a thread that is not parked (blocked on a Mutex, or
        // finished) simply keeps its turn pending for a short while
        let s = sched();
        for th in &turns {
            let t = Instant::now();
            let mut g = s.m.lock().unwrap();
            // wait until the thread is parked at a sync point (or finished)
            while !g.parked.contains_key(th) && !g.finished.contains(th) && t.elapsed() < Duration::from_millis(300) {
                let (g2, _) = s.cv.wait_timeout(g, Duration::from_millis(5)).unwrap();
                g = g2;
            }
            if g.parked.contains_key(th) {
                g.grant = Some(th.clone());
                s.cv.notify_all();
                // wait until it has left the sync point and reached the next one / finished / blocked
                let t2 = Instant::now();
                while g.grant.is_some() && t2.elapsed() < Duration::from_millis(300) {
                    let (g2, _) = s.cv.wait_timeout(g, Duration::from_millis(5)).unwrap();
                    g = g2;
                }
                let t3 = Instant::now();
                while !g.parked.contains_key(th) && !g.finished.contains(th) && t3.elapsed() < Duration::from_millis(60) {
                    let (g2, _) = s.cv.wait_timeout(g, Duration::from_millis(2)).unwrap();
                    g = g2;
                }
            }
        }
        let mut g = s.m.lock().unwrap();
        g.free_run = true;
        s.cv.notify_all();
    }
    let t0 = Instant::now();
    let mut ok = true;
    let limit = if ltrace { limit + Duration::from_secs(8) } else { limit };
    while done.load(Ordering::SeqCst) < nthreads {
        if t0.elapsed() > limit {
            ok = false;
            break;
        }
        std::thread::sleep(Duration::from_micros(200));
    }
    if use_turns {
        let s = sched();
        let mut g = s.m.lock().unwrap();
        g.active = false;
        s.cv.notify_all();
    }
    LTRACE.store(false, Ordering::SeqCst);
    if ok {
        for h in handles {
            let _ = h.join();
        }
        if let Some(g) = gate_thread {
            let _ = g.join();
        }
        // probes after the schedule (thread T0 again), under the same watchdog
        let post: Vec<Value> = case.get("post").and_then(|x| x.as_array()).cloned().unwrap_or_default();
        if !post.is_empty() {
            let (l2, w2, c2, d2) = (log.clone(), w.clone(), cid.clone(), done.clone());
            let pt = std::thread::spawn(move || {
                for c in &post {
                    logged_call(&l2, &w2, &c2, "T0", c);
                }
                d2.fetch_add(1, Ordering::SeqCst);
            });
            let t1 = Instant::now();
            while done.load(Ordering::SeqCst) < nthreads + 1 {
                if t1.elapsed() > limit {
                    return false;
                }
                std::thread::sleep(Duration::from_micros(200));
            }
            let _ = pt.join();
        }
        // leave the global tables clean for the next case of this process: close whatever is left
        let g = w.lock().unwrap();
        for (_, real) in g.hmap.iter() {
            unsafe {
                storm::SFileFindClose(*real as storm::HANDLE);
                storm::SFileCloseFile(*real as storm::HANDLE);
            }
        }
        for (_, real) in g.hmap.iter() {
            storm::SFileCloseArchive(*real as storm::HANDLE);
        }
        if gate_h != 0 {
            storm::SFileCloseArchive(gate_h as storm::HANDLE);
        }
    }
    ok
}

fn worker(a: &Args) -> ! {
    let start: usize = a.extra[1].parse().unwrap();
    let stem = a.extra[2].clone();
    let cases = read_cases(&a.cases);
    let log = Arc::new(Log { t: Trace::create(&a.trace), pending: Mutex::new(HashMap::new()) });
    #[cfg(c19_has_hook)]
    storm::verif_set_sync(sync_hook);
    let limit = Duration::from_millis(if thorough() { 5000 } else { 2500 });
    for i in start..cases.len() {
        std::fs::write(format!("{stem}.idx"), format!("{i}")).ok();
        if !run_case(&log, i, &cases[i], limit) {
            // hang: close the open calls, ask for a restart behind this case
            let cid = format!("{}:{}", i, gs(&cases[i], "kind"));
            let p: Vec<(String, String)> = log.pending.lock().unwrap().iter().map(|(k, v)| (k.clone(), v.0.clone())).collect();
            let mut p = p;
            p.sort();
            for (th, f) in p {
                log.ev(json!({"ev":"Ret","case":cid,"th":th,"fn":f,"st":"hang","ret":0,"out":[],"err":"other","rres":"-","canary":true,"nul":true,"lt":false,"locks":[]}));
            }
            std::fs::write(format!("{stem}.resume"), format!("{}", i + 1)).ok();
            std::process::exit(3);
        }
    }
    std::fs::write(format!("{stem}.resume"), format!("{}", cases.len())).ok();
    std::process::exit(0);
}

fn main() {
    install_quiet_panic_hook();
    let a = args();
    if a.extra.first().map(|s| s.as_str()) == Some("worker") {
        worker(&a);
    }
    let cases = read_cases(&a.cases);
    let exe = std::env::current_exe().unwrap();
    let mut start = 0usize;
    let mut part = 0usize;
    let mut out = std::fs::File::create(&a.trace).unwrap_or_else(|e| tool_error(&format!("create trace: {e}")));
    let mut restarts = 0;
    while start < cases.len() {
        part += 1;
        let stem = format!("{}.p{}", a.trace.display(), part);
        let pfile = format!("{stem}.ndjson");
        let mut child = std::process::Command::new(&exe)
            .arg(&a.cases).arg(&pfile).arg("worker").arg(start.to_string()).arg(&stem)
            .stdout(std::process::Stdio::null()).stderr(std::process::Stdio::null())
            .spawn().unwrap_or_else(|e| tool_error(&format!("spawn worker: {e}")));
        let t0 = Instant::now();
        let status = loop {
            match child.try_wait() {
                Ok(Some(s)) => break Some(s),
                Ok(None) => {
                    if t0.elapsed() > Duration::from_secs(1500) {
                        let _ = child.kill();
                        let _ = child.wait();
                        break None;
                    }
                    std::thread::sleep(Duration::from_millis(5));
                }
                Err(e) => tool_error(&format!("wait: {e}")),
            }
        };
        let text = std::fs::read_to_string(&pfile).unwrap_or_default();
        use std::io::Write;
        let mut lines: Vec<&str> = text.lines().collect();
        // a torn last line (worker died while writing) is dropped
        if let Some(l) = lines.last() {
            if serde_json::from_str::<Value>(l).is_err() {
                lines.pop();
            }
        }
        for l in &lines {
            writeln!(out, "{l}").unwrap();
        }
        let clean = matches!(status.and_then(|s| s.code()), Some(0) | Some(3));
        if clean {
            start = std::fs::read_to_string(format!("{stem}.resume")).ok().and_then(|s| s.trim().parse().ok())
                .unwrap_or_else(|| tool_error("worker left no resume file"));
        } else {
            // the worker died: close the calls that were in flight with st = "abort"
            let idx: usize = std::fs::read_to_string(format!("{stem}.idx")).ok().and_then(|s| s.trim().parse().ok()).unwrap_or(start);
            let mut open: HashMap<String, (String, String)> = HashMap::new();
            for l in &lines {
                let v: Value = serde_json::from_str(l).unwrap();
                match v["ev"].as_str() {
                    Some("Reset") => open.clear(),
                    Some("Inv") => {
                        open.insert(v["th"].as_str().unwrap().to_string(), (v["fn"].as_str().unwrap().to_string(), v["case"].as_str().unwrap().to_string()));
                    }
                    Some("Ret") => {
                        open.remove(v["th"].as_str().unwrap());
                    }
                    _ => {}
                }
            }
            let mut o: Vec<_> = open.into_iter().collect();
            o.sort();
            let st = if status.is_none() { "hang" } else { "abort" };
            for (th, (f, cid)) in o {
                writeln!(out, "{}", json!({"ev":"Ret","case":cid,"th":th,"fn":f,"st":st,"ret":0,"out":[],"err":"other","rres":"-","canary":true,"nul":true,"lt":false,"locks":[]})).unwrap();
            }
            start = idx + 1;
        }
        for ext in ["ndjson", "idx", "resume"] {
            let _ = std::fs::remove_file(format!("{stem}.{ext}"));
        }
        restarts += 1;
        if restarts > cases.len() + 5 {
            tool_error("too many worker restarts");
        }
    }
}
