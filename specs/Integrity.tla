----------------------------- MODULE Integrity -----------------------------
(* C10 -- corruption of protected data is detected; intact data verifies.                         *)
(*                                                                                                 *)
(* An archive is a set of byte REGIONS; its configuration says which integrity metadata it carries *)
(* and hence which DETECTORS cover which region:                                                   *)
(*   Read(f)        adler32 per sector / per single unit    (builder.rs write_file <-> archive.rs  *)
(*                  read_file, read_sectored_file)          + failure of the codec itself          *)
(*   VerifyFile(f)  CRC32 / MD5 of the (attributes) file    (write_file_with_attributes <->        *)
(*                                                           storm-ffi SFileVerifyFile)            *)
(*   Md5Status      version-4 header and table digests      (finalize_v4_header_md5 <->            *)
(*                                                           validate_v4_md5_checksums)            *)
(*   VerifySig      weak signature over MD5 of the archive  (generate_weak_signature <->           *)
(*                                                           verify_weak_signature_stormlib)       *)
(* One corruption is applied; then every detector runs, as the harness does.  Property:            *)
(*      Protected(cfg, region)  =>  Detected \/ ContentsUnchanged                                  *)
(* AsCoded = FALSE, GateHole = FALSE is the intended coverage map and, since 48c5310 (sector        *)
(* checksums compared), 5c764f6 (undecodable sector = error), 7734a50 (standard checksum layout)   *)
(* and da9094c (second layout indicator), also the code's: intended = as coded.                    *)
(* Named deviations kept as refuted / predicted history:                                           *)
(*   AsCoded = TRUE   the code before 48c5310 / 5c764f6:                                           *)
(*     D1 (F-C10-a)  read_sectored_file read the per-sector checksums but never compared them      *)
(*     D2 (F-C01-c)  a sector that failed to decompress was replaced by zeros, Ok                  *)
(*     PredictedGap = multi-sector file data, sector CRCs on, nothing else covering it             *)
(*   GateHole = TRUE  the code at 7734a50, before da9094c: whether the checksums are               *)
(*     looked at at all is decided from the sector offset table alone (first offset = (n+2)*4, and *)
(*     a checksum sector that does not fit is skipped): an altered offset table can switch the     *)
(*     verification of its own file off.  PredictedGateGap = the offset table of such a file.      *)
(* TLC checks Sound for the intended map, "Sound \/ gap" + "gap is real" for each deviation, and   *)
(* refutes plain Sound for each deviation (checks/c10.py demands the refutations).                 *)
EXTENDS IntegrityDefs

CONSTANTS AsCoded, GateHole

\* ------------------------------------------------------------------------------------------------
\* state: one corruption, then the detectors run one after the other
\* ------------------------------------------------------------------------------------------------
VARIABLES icfg, ireg, ieff, istage, idet, ichanged
ivars == <<icfg, ireg, ieff, istage, idet, ichanged>>

Stages == <<"corrupt", "open", "read", "verify", "md5", "sig", "judge", "done">>

IInit == /\ icfg \in Cfgs /\ ireg = "none" /\ ieff = "none" /\ istage = "corrupt"
         /\ idet = {} /\ ichanged = FALSE

\* Corrupt(r, off, kind): offsets and mutation kinds are abstracted into the effect
Corrupt(r, e) ==
    /\ istage = "corrupt" /\ Exists(icfg, r) /\ e \in Effects(r)
    /\ ireg' = r /\ ieff' = e /\ istage' = "open"
    /\ UNCHANGED <<icfg, idet, ichanged>>

\* Archive::open -- fails when the header / tables are unusable
Open ==
    /\ istage = "open" /\ istage' = "read"
    /\ idet' = IF ieff = "lookup" /\ ireg = "header" THEN idet \cup {"Open"} ELSE idet
    /\ UNCHANGED <<icfg, ireg, ieff, ichanged>>

\* does the sector / single-unit adler32 comparison notice?  (D1: not compared for multi-sector files)
SectorCrcNotices ==
    /\ icfg.crc
    /\ \/ SingleRegion(ireg) /\ ieff = "content"
       \/ ireg = "crc_single"
       \/ ~AsCoded /\ MultiRegion(ireg) /\ ieff = "content" /\ ~(GateHole /\ ireg = "multi_offsets")
       \/ ~AsCoded /\ ireg = "crc_multi"

\* Archive::read_file of every file
ReadFiles ==
    /\ istage = "read" /\ istage' = "verify"
    /\ LET zeros  == AsCoded /\ ieff = "decode_fail" /\ MultiRegion(ireg)       \* D2
           fails  == \/ ieff = "lookup"
                     \/ ieff = "decode_fail" /\ ~zeros
                     \/ SectorCrcNotices
       IN /\ idet' = IF fails THEN idet \cup {"Read"} ELSE idet
          /\ ichanged' = (~fails /\ (ieff = "content" \/ zeros))
    /\ UNCHANGED <<icfg, ireg, ieff>>

\* SFileVerifyFile(f, CRC32 | MD5): compares the attributes of f with what read_file returns now.
\* A corrupted (attributes) file may report a spurious mismatch or stop being loaded (verification is
\* then skipped, "let _ = archive.load_attributes()"): both outcomes are allowed, contents are unchanged.
VerifyFiles ==
    /\ istage = "verify" /\ istage' = "md5"
    /\ \/ /\ icfg.attrs # "none" /\ (ichanged \/ "Read" \in idet \/ ireg = "attributes")
          /\ idet' = idet \cup {"Verify"}
       \/ /\ ~(icfg.attrs # "none" /\ (ichanged \/ "Read" \in idet))
          /\ idet' = idet
    /\ UNCHANGED <<icfg, ireg, ieff, ichanged>>

\* Archive::get_info().md5_status -- version 4 only
InfoMd5 ==
    /\ istage = "md5" /\ istage' = "sig"
    /\ idet' = IF icfg.ver = 4 /\ ireg \in MetaRegions THEN idet \cup {"Md5"} ELSE idet
    /\ UNCHANGED <<icfg, ireg, ieff, ichanged>>

\* Archive::verify_signature -- everything inside the archive except the (signature) file's own area
\* is hashed; the 64 signature bytes are the RSA value
VerifySig ==
    /\ istage = "sig" /\ istage' = "judge"
    /\ idet' = IF icfg.signed /\ ireg # "sig_header" THEN idet \cup {"Sig"} ELSE idet
    /\ UNCHANGED <<icfg, ireg, ieff, ichanged>>

Judge == /\ istage = "judge" /\ istage' = "done" /\ UNCHANGED <<icfg, ireg, ieff, idet, ichanged>>

INext == (\E r \in RegionKinds : \E e \in {"content", "decode_fail", "lookup", "benign"} : Corrupt(r, e))
         \/ Open \/ ReadFiles \/ VerifyFiles \/ InfoMd5 \/ VerifySig \/ Judge

\* ------------------------------------------------------------------------------------------------
\* the property and the predicted gap
\* ------------------------------------------------------------------------------------------------
Detected == idet # {}
Sound == istage = "done" => (Protected(icfg, ireg) => (Detected \/ ~ichanged))

\* D1 + D2: data of a multi-sector file, sector CRCs on, nothing else covering it
PredictedGap == /\ MultiRegion(ireg) /\ icfg.crc /\ icfg.attrs = "none" /\ ~icfg.signed
                /\ ieff \in {"content", "decode_fail"}
\* the offset table of a multi-sector file protected by sector checksums only (code at 7734a50)
PredictedGateGap == /\ GateHole /\ ireg = "multi_offsets" /\ icfg.crc /\ icfg.attrs = "none" /\ ~icfg.signed
                    /\ ieff = "content"
SoundUpToGateGap == istage = "done" => (Protected(icfg, ireg) => (Detected \/ ~ichanged \/ PredictedGateGap))
GateGapIsReal == (istage = "done" /\ ~AsCoded /\ PredictedGateGap) => (~Detected /\ ichanged)
SoundUpToPredictedGap == istage = "done" => (Protected(icfg, ireg) => (Detected \/ ~ichanged \/ PredictedGap))
\* the gap is real: every predicted triple is indeed undetected in the as-coded model
GapIsReal == (istage = "done" /\ AsCoded /\ PredictedGap) => (~Detected /\ ichanged)

\* the intended map leaves no protected region without a detector that can fire
ITypeOK == /\ idet \subseteq {"Open", "Read", "Verify", "Md5", "Sig"} /\ ichanged \in BOOLEAN

=============================================================================
