------------------------------ MODULE MpqIoNum ------------------------------
(* 64-bit unsigned quantities as TLC can handle them (TLC integers are 32-bit): a value is known  *)
(* relative to one of the two ends of the u64 range.                                              *)
(*      <<0, n>>  =  n                      (n < 2^30)                                            *)
(*      <<1, k>>  =  2^64 - 1 - k           (k < 2^30)                                            *)
(* Everything the positional-read contract and the session limits talk about happens at these two *)
(* ends (offsets 0, len-1, len, len+1, u64::MAX-k; counters near 0 or wrapped below 0).           *)
(* A third tag (<<2,0>> = "somewhere in between", written by the driver when a value is at        *)
(* neither end) is never equal to anything the specifications predict.                            *)
EXTENDS Integers

Lo(nn) == <<0, nn>>
Hi(kk) == <<1, kk>>
NZero == Lo(0)
NMax == Hi(0)
IsLo(a) == a[1] = 0
IsHi(a) == a[1] = 1
IsN64(a) == (IsLo(a) \/ IsHi(a)) /\ a[2] >= 0

NLe(a, b) == IF a[1] # b[1] THEN a[1] < b[1]
             ELSE IF a[1] = 0 THEN a[2] <= b[2] ELSE a[2] >= b[2]
NLt(a, b) == NLe(a, b) /\ a # b
NMin(a, b) == IF NLe(a, b) THEN a ELSE b
NMaxOf(a, b) == IF NLe(a, b) THEN b ELSE a

\* exact sum in the integers, reported as (overflowed?, value modulo 2^64)
NAdd(a, b) ==
  IF IsLo(a) /\ IsLo(b) THEN [ovf |-> FALSE, v |-> Lo(a[2] + b[2])]
  ELSE IF IsHi(a) /\ IsHi(b) THEN [ovf |-> TRUE, v |-> Hi(a[2] + b[2] + 1)]
  ELSE LET hh == IF IsHi(a) THEN a[2] ELSE b[2]
           ll == IF IsHi(a) THEN b[2] ELSE a[2]
       IN  IF ll <= hh THEN [ovf |-> FALSE, v |-> Hi(hh - ll)]
           ELSE [ovf |-> TRUE, v |-> Lo(ll - hh - 1)]
NSatAdd(a, b)  == IF NAdd(a, b).ovf THEN NMax ELSE NAdd(a, b).v     \* u64::saturating_add
NWrapAdd(a, b) == NAdd(a, b).v                                      \* u64::wrapping_add / fetch_add
NInc(a) == NWrapAdd(a, Lo(1))
\* fetch_sub(1): wraps below zero
NDec(a) == IF a = Lo(0) THEN Hi(0) ELSE IF IsLo(a) THEN Lo(a[2] - 1) ELSE Hi(a[2] + 1)
NAddI(a, ii) == NWrapAdd(a, Lo(ii))
=============================================================================
