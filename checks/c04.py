"""C04 -- hashing and encryption equal the MPQ algorithms and are mutually inverse."""
from vlib import core

META = {
    "level": "translation_validation",
    "level_text": "The TLA+ module MpqCrypto is an independent implementation of the MPQ hash, crypt table, block cipher, "
                  "byte-level tail rule and lookup3 hashlittle2, written from the published descriptions and evaluated by TLC. "
                  "Every value the library computes on the TLC-generated inputs (all 1280 table entries, both fold tables, every valid "
                  "UTF-8 string of <= 2 bytes x 4 hash types in thorough / a seed-rotated residue class in quick, keys covering every low byte x "
                  "lengths 0..17 x buffer classes, random longer ones, HET hashes x 6 widths, one-at-a-time hashes, the convenience wrappers calculate_mpq_hashes/calculate_het_hashes, "
                  "and the byte-level / SIMD entry points simd::scalar::hash_string_scalar, SimdOps::hash_string_simd, jenkins_hash_batch -- through which EVERY byte string of <= 2 bytes over all 256 values is reachable) is compared with the reference by TLC in trace validation; "
                  "the inverse and fold-invariance laws are additionally model-checked on the reference itself. "
                  "Round 4: the Jenkins pair at EVERY table width 1..64 (HetW events, MpqCrypto!HetOfFull), the bodies of the extended tables read through HetTable::read / BetTable::read "
                  "for every body length mod 4, plain and compressed, five key classes (Tbl events, MpqCrypto!TblStore/TblLoad), and encrypted files written by ArchiveBuilder and read through "
                  "Archive::read_file with the zero key placed on every cipher unit of the file (offset table = key-1, first, second, last sector, none; FIX_KEY name/size searched by the driver, "
                  "the final key recomputed by TLC from the logged name, position and size; EncFile events, MpqCrypto!FileStoreRaw/FileLoadOffsets).",
    "level_note": "Trusted: TLC's evaluation of MpqCrypto.tla (limb arithmetic in Word32.tla, checked against the published vectors in MC_MpqCrypto); "
                  "hash_string takes &str, so strings containing bytes 0xC0, 0xC1, 0xF5-0xFF are hashed only through the byte-level entry points (feature simd) and the pub fold tables; jenkins_hash is accepted as either the published 32-bit one-at-a-time value or the library's 64-bit-accumulator variant (named deviation Oaat64).",
    "technique": "TLA+ reference implementation (MpqCrypto.tla) evaluated by TLC; trace validation of library outputs against it",
    "design_ref": "DESIGN.md section 5, C04",
    "crates": ["c04"],
}


def sig(b):
    return {"ev": b["ev"], "kind": str(b.get("case", "")).split(":")[-1]}


def run(ctx, cases_override=None):
    ctx.mc("MC_MpqCrypto", timeout=900)
    if cases_override:
        cases, ncases = cases_override, sum(1 for _ in open(cases_override))
    else:
        cases, ncases = ctx.gen("Gen_MpqCrypto")
    binary = ctx.build("c04")
    trace = ctx.harness(binary, cases)
    res = ctx.validate("Trace_MpqCrypto", trace)
    import json
    kinds = {}
    samples = []
    with open(trace) as f:
        for line in f:
            r = json.loads(line)
            if r["ev"] == "Reset":
                continue
            kinds[r["ev"]] = kinds.get(r["ev"], 0) + 1
            if kinds[r["ev"]] <= 1 and r["ev"] != "Fold":
                s = dict(r)
                if "vals" in s:
                    s["vals"] = s["vals"][:4]
                samples.append(s)
    cov = {
        "programs": res["events"] - res["traces"],       # library evaluations compared with the reference
        "disagreements_checked": res["events"] - res["traces"],
        "samples": samples,
        "traces_validated_against_impl": res["traces"],
        "events_by_kind": kinds,
        "cases_generated_by_tlc": ncases,
        "evaluations": res["events"] - res["traces"],
        "distinct_nontrivial": sum(v for k, v in kinds.items() if k in ("Hash", "HashB", "Enc", "EncBytes", "Het", "Oaat", "Wrap", "HetW", "Tbl", "EncFile")),
        "rule": "one evaluation = one library call result compared by TLC with MpqCrypto.tla; non-trivial = Hash/HashB/Enc/EncBytes/Het/Oaat/Wrap/HetW/Tbl/EncFile events (distinct inputs by construction: enumeration or seeded generation without repetition of (case,index))",
        "exhaustive": False,
    }
    assumptions = ["hash_string accepts only valid UTF-8 (&str): strings with bytes 0xC0,0xC1,0xF5..0xFF are unreachable through the API",
                   "HET/BET folding follows the library (upper case, backslash)",
                   "NameHash1 at table widths < 8 is not defined by the reference (shift by width-8); only the masked file hash is compared there",
                   "a cipher unit whose key is exactly 0 is stored in the clear by the library (named deviation of MpqCrypto!EncryptBlock); every other unit of such a file must still be encrypted with its own key"]
    return core.finish(ctx, "translation_validation", cov, assumptions, res["bad"], sig_fn=sig, trace=trace)


def replay(ctx, payload):
    # the case id is "<index>:<kind>"; regenerate all cases and keep the one that was rejected
    import json
    cases, _ = ctx.gen("Gen_MpqCrypto")
    idx = int(str(payload.get("case", "0:")).split(":")[0])
    lines = open(cases).read().splitlines()
    sel = ctx.path("replay-cases.ndjson")
    # keep positions stable: the driver derives the case label from the index, so pad with no-op
    with open(sel, "w") as f:
        for i, l in enumerate(lines):
            if i == idx:
                f.write(l + "\n")
            elif i < idx:
                f.write(json.dumps({"kind": "het", "count": 0, "widths": []}) + "\n")
    return run(ctx, cases_override=sel)
