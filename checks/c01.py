"""C01 -- MPQ build->open round trip returns every file bit-identically."""
import json
import re
import time
from vlib import core

META = {
    "disabled": False,
    "level": "model_checking",
    "level_text": "MpqBuild.tla models ArchiveBuilder::write_file / add_to_hash_table / key derivation and Archive::find_file / "
                  "read_file / read_sectored_file as one state machine over abstract contents: single-unit vs sectored, the per-unit "
                  "store-raw rule (CodecDefs), the flag word, block entries incl. the standard sector-checksum layout, FIX_KEY key derivation "
                  "from the plain file name with the MpqCrypto reference hash, hash-table insertion and lookup by linear probing under four "
                  "spellings of real byte-string names, absent names sharing a home slot, the V3/V4 lookup path as actions (HetProbe, "
                  "BetVerify, ClassicFallback, Deliver) with 8-bit HET hashes and lookup3 / one-at-a-time BET hashes, HET/BET table "
                  "compression, the reader's branch / shortcut / per-sector test, the codec limits and sector decode errors; "
                  "MpqBuildOpts.tla models the option setters (generate_crcs / attributes_option / listfile_option switch each other "
                  "on: the option state is a function of the call ORDER), the special files and listfile lines build() derives from "
                  "it and Archive::list(). TLC checks "
                  "exhaustively (sector size 4, 3 files in a 4-slot hash table and 8-slot HET table, 8 lengths x 3 compressibility classes x "
                  "6 methods x 3 encryption modes x crc; the as-coded configuration in quick; in thorough also the pre-fix configurations and "
                  "sector size 4096 for the limit region) that the reader re-derives the writer's layout, keys agree, every spelling finds "
                  "its block through the path the code takes, absent names are not found, and every read is exact outside NAMED deviations "
                  "(negative control: TLC must find the F-C01-a counterexample on the pre-fix model). TLC then enumerates archive "
                  "configurations (version x shift x method x enc x crc x attrs x listfile x tablecomp, plus V3/V4 x tablecomp x 1..40 small "
                  "files); the driver builds and reads real archives in child processes with per-call watchdogs (31 files + 8 short-zero-tail files, 4 spellings each, "
                  "3 absent names, listing, which tables open() loaded, HET/BET/classic probe observations, re-open behind a non-zero archive "
                  "offset); TLC validates every recorded event against the model.",
    "level_note": "Codec bytes and digests are observed (token equality), not modelled. HET/BET bit-packing is not modelled: the path is "
                  "bound through observations (candidates, verified index, classic index, loaded tables) and through reads that go "
                  "through BET file info. Key derivation is checked on the model and by the round trip itself, not per trace event. "
                  "ADPCM (lossy) methods: once a lossy stage was applied only result class and length are demanded. quick = 144 "
                  "configurations (slice through version x shift in {0,3,8} x one more dimension, + 24 seed-rotated draws of the 31 104) "
                  "+ 160 table-length, 84 field-width, 16 sector-count, 6 huge-member and 32 colliding-name-set cases "
                  "+ 16 configurations of the option states only the call order attributes_option ; generate_crcs(off) reaches "
                  "+ 353 option-call histories (every sequence of <= 2 setter calls x version, every sequence of 3 "
                  "generate_crcs / attributes_option calls; MpqBuildOpts: the option state is computed by TLC from the Opt events); "
                  "every encfix archive carries a sectored first member whose FIX_KEY key is exactly 0; thorough = the full product of version x shift x method x enc x crc x attrs (7 776) with the "
                  "(listfile, tablecomp) pair rotating by coordinate sum + seed (four consecutive seeds enumerate the whole "
                  "31 104-configuration product) + quick slice + 100 draws + the same 298 table / width / sector-count / huge / name-set cases; the non-zero-offset re-open is done "
                  "for every archive in quick and every fourth in thorough.",
    "technique": "TLA+ writer/reader model checked by TLC; TLC-enumerated configurations replayed on the real builder/reader; trace validation by TLC",
    "design_ref": "DESIGN.md section 5, C01",
    "crates": ["c01"],
}

ACTIONS = ["BuildFailCodec", "WriteSingleUnit", "WriteSector", "FinishFile", "AddHash", "ReadFile", "ReadAbsent", "Deliver"]
HETBET_ACTIONS = ["HetProbe", "BetVerify"]   # only in configurations with UseHetBet


def mc_nocov(ctx, module, cfg, workers=8, timeout=600, expect_violation=None):
    """Stage (A) without -coverage (TLC's cost-model construction does not terminate in reasonable time on the
    MpqBuild module graph). Vacuity guard: every action prints <<"ACTION", name>> once per worker (TLC registers)."""
    t = time.time()
    rc, text = ctx.tlc(module, cfg, workers=workers, timeout=timeout, heap="6g", tag="mc-" + cfg)
    m = re.search(r"(\d+) states generated, (\d+) distinct states found", text)
    if expect_violation:
        if f"Invariant {expect_violation} is violated" not in text:
            raise core.ToolError(f"stage A: negative control {cfg}: TLC did not find the {expect_violation} counterexample:\n" + core._tail(text))
        core.log(f"(A) {module}/{cfg}: negative control ok (TLC found the counterexample to {expect_violation})")
        return
    if rc != 0 or "No error has been found" not in text or not m:
        raise core.ToolError(f"stage A: model check {module}/{cfg} failed rc={rc}:\n" + core._tail(text))
    seen = set(re.findall(r'<<"ACTION", "(\w+)">>', text))
    need = ACTIONS + (HETBET_ACTIONS if cfg in ("MC_MpqBuild_fixed", "MC_MpqBuild_betfix", "MC_MpqBuild_zkey") else []) \
        + (["ClassicFallback"] if cfg != "MC_MpqBuild_betfix" or True else [])
    if cfg == "MC_MpqBuild_zkey":       # file sets of the zero-key configuration hold no method the codec layer refuses
        need = [a for a in need if a != "BuildFailCodec"]
    missing = [a for a in need if a not in seen]
    if missing:
        raise core.ToolError(f"stage A: actions never taken in {cfg}: {missing} (vacuous model)")
    st = {"module": module, "cfg": cfg, "states": int(m.group(2)), "transitions": int(m.group(1)),
          "actions": {a: 1 for a in seen}, "wall_s": round(time.time() - t, 1)}
    ctx.mc_stats.append(st)
    core.log(f"(A) {module}/{cfg}: {st['states']} distinct states, {st['transitions']} generated, "
             f"{len(seen)} actions taken, {st['wall_s']}s")


def sig(b):
    r = b.get("rec") or {}
    why = str(b.get("why", "")).strip().strip('"')
    import os
    # rehearsal of "finding fixed": C01_ASSUME_FIXED=<substring of why> makes matching rejections unmatched by any
    # known finding, exactly as status "fixed" will (used to test the patched worktree while the unchanged tree
    # still needs the finding as "known")
    af = os.environ.get("C01_ASSUME_FIXED")
    if af and af in why:
        why = "regression-of-fixed-finding:" + why
    s = {"why": why, "ev": r.get("ev")}
    if r.get("ev") == "File":
        s["layout"] = "sectored" if len(r.get("secs", [])) > 1 else "single"
        s["compress_flag"] = "COMPRESS" in r.get("flags", [])
    return s


def fix_applied():
    """Does the tree under test carry the F-C01-a fix (COMPRESS set for every sectored file in write_file)?"""
    import os
    src = os.path.join(core.repo_root(), "file-formats/archives/wow-mpq/src/builder.rs")
    try:
        t = open(src).read()
    except OSError:
        return False
    i = t.find("// Multi-sector file")
    j = t.find("// Process each sector", i)
    return i >= 0 and "flags |= BlockEntry::FLAG_COMPRESS;" in t[i:j if j > i else i + 1500]


def bet_fix_applied():
    """Does the builder of the tree under test store the lookup3 value (het_hash) in the BET table?"""
    import os
    src = os.path.join(core.repo_root(), "file-formats/archives/wow-mpq/src/builder.rs")
    try:
        t = open(src).read()
    except OSError:
        return False
    i = t.find("fn create_bet_table")
    j = t.find("fn write_bet_table", i)
    return i >= 0 and "jenkins_hash(filename)" not in t[i:j if j > i else len(t)]


def stage_a(ctx):
    import concurrent.futures as cf
    rc, text = ctx.tlc("MC_MpqBuildHash", "MC_MpqBuildHash", workers=1, timeout=300, tag="mc-hash")
    if "HASH_TABLES_VERIFIED" not in text or "No error has been found" not in text:
        raise core.ToolError("stage A: literal name-hash tables disagree with the MpqCrypto reference:\n" + core._tail(text))
    # Which configuration describes the code: FlagFix = FALSE (as-is, with the named deviation DevSectoredNoCompressFlag and
    # the negative control that TLC finds its counterexample) until fixes/C01-sectored-compress-flag.patch is in the tree,
    # FlagFix = TRUE (no such deviation: FixRemovesDeviation) afterwards.  quick checks that one; thorough checks both
    # and the limit region (sector size 4096).
    fixed = fix_applied()
    betfix = bet_fix_applied()
    ctx.notes.append("tree under test: F-C01-a fix present: %s; BET table holds lookup3 hashes: %s" % (fixed, betfix))
    # the configuration that describes the code under test
    main = "MC_MpqBuild" if not fixed else ("MC_MpqBuild_betfix" if betfix else "MC_MpqBuild_fixed")
    # negative controls: TLC must find the pre-9cf2783 layout counterexample, and the BET field-width counterexample when
    # the stored-size column takes its width from the file sizes
    # key class "final key 0" (FIX_KEY key of a sectored first member is exactly 0): all invariants hold when the reader
    # decrypts on the ENCRYPTED flag (as coded); TLC must refute ReadBack when it decrypts on key != 0 instead
    zk = [("MC_MpqBuild_zkey", 1, None), ("MC_MpqBuild_negzkey", 1, "ReadBack")]
    jobs = [(main, 4, None), ("MC_MpqBuild_neg", 1, "NegNoFlagDeviation"), ("MC_MpqBuild_negbet", 1, "BetRoundTrip")] + zk
    if ctx.thorough:
        others = [c for c in ("MC_MpqBuild", "MC_MpqBuild_fixed", "MC_MpqBuild_betfix") if c != main]
        jobs = [(main, 2, None), ("MC_MpqBuild_limits", 2, None), (others[0], 2, None), (others[1], 2, None),
                ("MC_MpqBuild_neg", 1, "NegNoFlagDeviation"), ("MC_MpqBuild_negbet", 1, "BetRoundTrip")] + zk
    with cf.ThreadPoolExecutor(max_workers=8) as ex:
        futs = [ex.submit(mc_nocov, ctx, "MC_MpqBuild", cfg, w, 1200, neg) for cfg, w, neg in jobs]
        # the option part (MpqBuildOpts): every history of up to 4 setter calls, then build and list; and the must-refute
        # variant in which the "(attributes)" line of the generated listfile follows generate_crcs instead of
        # attributes_option (TLC must find the call order that makes the listing omit the attributes file)
        ctx.mc("MC_MpqBuildOpts", workers=2, timeout=600, heap="2g",
               expect_actions=["MCCallCrcs", "MCCallAttrs", "MCCallListfile", "OBuild", "OList"])
        mc_nocov(ctx, "MC_MpqBuildOpts", "MC_MpqBuildOpts_neg", 1, 600, "MCListingExact")
        for f in futs:
            f.result()


def run(ctx, cases_override=None):
    import os
    if os.environ.get("C01_SELFTEST_SKIP_A") and os.environ.get("VERIF_REPO"):
        # mutant self-tests only (selftest/C01/run.sh): stage A does not depend on the tree under test
        ctx.mc_stats.append({"module": "MC_MpqBuild", "cfg": "skipped-in-selftest", "states": 1, "transitions": 1,
                             "actions": {}, "wall_s": 0})
    else:
        stage_a(ctx)
    if cases_override:
        cases, ncases = cases_override, sum(1 for _ in open(cases_override))
    else:
        cases, ncases = ctx.gen("Gen_MpqBuild")
    binary = ctx.build("c01")
    trace = ctx.harness(binary, cases, timeout=1750)
    # shard by sector size: SectorSize is a constant of MpqBuild
    by_shift, cur = {}, None
    samples, kinds, distinct = [], {}, set()
    optstates, cur_case, zkeys = {}, None, 0     # per archive: [some member carries SECTOR_CRC, specials the archive holds]
    with open(trace) as f:
        for line in f:
            r = json.loads(line)
            if r["ev"] == "Reset":
                cur = r["shift"]
                cur_case = r["case"]
                optstates[cur_case] = [False, None]
            elif r["ev"] == "File":
                optstates[cur_case][0] = optstates[cur_case][0] or "SECTOR_CRC" in r.get("flags", [])
                zkeys += r.get("lencls") == "zkey"
            elif r["ev"] == "List":
                optstates[cur_case][1] = ",".join(sorted(r.get("specials", [])))
            by_shift.setdefault(cur, []).append(line)
            kinds[r["ev"]] = kinds.get(r["ev"], 0) + 1
            if r["ev"] == "File":
                distinct.add((r["case"].split(":", 1)[1], r["lencls"], r["cls"]))
            if kinds[r["ev"]] == 1 and r["ev"] != "List":
                samples.append(r)
    bad, events, traces = [], 0, 0
    import concurrent.futures as cf
    import copy
    import os

    def validate_shift(sh):
        # own scratch sub-directory: ctx.validate's segment file names would collide between concurrent calls
        c = copy.copy(ctx)
        c.scratch = ctx.path(f"tv-s{sh}")
        os.makedirs(c.scratch, exist_ok=True)
        p = os.path.join(c.scratch, f"trace-s{sh}.ndjson")
        with open(p, "w") as f:
            f.write("".join(by_shift[sh]))
        n = len(by_shift[sh])
        return c.validate("Trace_MpqBuild", p, env={"C01_S": 512 << sh, "C01_FLAGFIX": "1" if fix_applied() else "0",
                                                            "C01_BETFIX": "1" if bet_fix_applied() else "0"}, shards=max(1, min(5, n // 2000)) if not ctx.thorough else max(1, min(4, n // 20000)))

    with cf.ThreadPoolExecutor(max_workers=9) as ex:
        for res in ex.map(validate_shift, sorted(by_shift)):
            for b in res["bad"]:
                b["reset_line"] = 0
            bad += res["bad"]
            events += res["events"]
            traces += res["traces"]
    # cases outside the 8-dimensional configuration product: table-length, field-width, sector-count, huge-member, name-set
    nextra = sum(1 for l in open(cases) if '"nfiles"' in l)
    nprod = ncases - nextra
    cov = {
        "traces_validated_against_impl": traces,
        "samples": samples,
        "evaluations": events,
        "distinct_nontrivial": len(distinct),
        "rule": "one evaluation = one recorded event (Build/Open/File with 4 spelling reads/Absent/List) judged by TLC; "
                "non-trivial = distinct (configuration, length class, content class) of File events; "
                + (f"configurations enumerated this run: {nprod} of the 31104 of the property's quantifier "
                   "(thorough: full product of 6 dimensions, (listfile, tablecomp) by coordinate sum + seed -- seeds s..s+3 together cover all 31104)"
                   if ctx.thorough else
                   f"configurations enumerated this run: {nprod} of 31104 (quick slice + seed-rotated draws)")
                + f"; plus {nextra} archives of the table-length / field-width / sector-count / huge-member / colliding-name-set families",
        "configurations_enumerated": nprod,
        "extra_family_archives": nextra,
        "configurations_in_quantifier": 31104,
        "cases_generated_by_tlc": ncases,
        "events_by_kind": kinds,
        "option_states_observed": (lambda d: {k: d[k] for k in sorted(d)})(
            (lambda c: c)(__import__("collections").Counter(
                f"sector_crc={'on' if v[0] else 'off'} specials={v[1]}" for v in optstates.values() if v[1] is not None))),
        "zero_key_members": zkeys,
        "exhaustive": False,
    }
    assumptions = ["names are ASCII without ';' and surrounding blanks (listfile parser trims and cuts at ';')",
                   "lossy ADPCM methods: bit-identity is not demanded once a lossy stage was applied (length and result class only); "
                   "file lengths are rounded up to whole stereo frames for ADPCM methods",
                   "content and name classes are represented by seeded members (VERIF_SEED)",
                   "a library call is a hang after 10 s (build: 120 s), an allocation beyond 1 GiB address space is an abort; both are violations"]
    return core.finish(ctx, "model_checking", cov, assumptions, bad, sig_fn=sig)


def replay(ctx, payload):
    rs = payload.get("reset") or {}
    sel = ctx.path("replay-cases.ndjson")
    with open(sel, "w") as f:
        f.write(json.dumps({k: rs[k] for k in ("ver", "shift", "method", "enc", "crc", "attrs", "listfile", "tablecomp", "opts")
                            if k in rs}) + "\n")
    return run(ctx, cases_override=sel)
