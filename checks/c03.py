"""C03 -- lossless MPQ codecs invert exactly, never expand, and accept their own output."""
import json
from vlib import core

META = {
    "disabled": False,
    "level": "model_checking",
    "level_text": "Codec.tla transcribes the codec layer's decision logic: selector classification, the compressor's pipeline per "
                  "selector, the store-raw rule, the decompressor's pipeline per selector with the expected-size argument each stage "
                  "receives, codec-internal modes (encoder's choice vs decoder's implemented set), and the limit checks in the order the "
                  "code applies them. TLC model-checks all 256 selectors x 25 boundary lengths x 12 abstract output lengths (126 854 states) for "
                  "never-expand, prefix-iff-shrunk, supported-selectors-succeed, own-output-accepted (outside the named 1000:1 region) and "
                  "decode-is-reverse-of-encode (outside named, TLC-proved-exact dispatch deviations). TLC then enumerates "
                  "selector x length x content-class cases, ratio-target cases around the limits the model knows, session-volume history cases, and call histories (CodecHist.tla: a failed call -- damaged stream of every damage kind, refused compress -- between round trips of the selectors the model says it endangers, on two threads; TLC proves CallIndependent for per-call codec objects and refutes it for per-thread / per-process ones); the driver runs the real compress / decompress / decompress_secure on each (child processes, per-case watchdog); "
                  "TLC validates every recorded round trip against the model (content equality as token equality).",
    "level_note": "Byte-level correctness of zlib/bzip2/LZMA/PKWare/sparse is observed (token equality on the enumerated classes), not "
                  "modelled: codecs are uninterpreted stages in Codec.tla. ADPCM (lossy): length, lane-swap equivariance and "
                  "silent-lane placement (peak amplitude thresholds 64 vs half the input peak) only. Lengths up to 2^21 in thorough (every codec at 2^20, 2^20+1, 2^21), up to 65537 in quick plus LZMA and bzip2 at 2^20+1. "
                  "Assumption A1: a codec stage emits at least one byte for non-empty input. Ratio cases: the driver searches the length "
                  "that produces a target expected/stored ratio (126..130 for sparse zeros, 999..1001 for zlib/bzip2/LZMA). History cases: "
                  "one unit decompressed 600 times (1.2 GiB; thorough: 8 300 times = 16.2 GiB) in one process.",
    "technique": "TLA+ model of the codec dispatch/limit logic checked by TLC; TLC-enumerated cases replayed on the real codecs; trace validation by TLC",
    "design_ref": "DESIGN.md section 5, C03",
    "crates": ["c03"],
}


def sig(b):
    r = b.get("rec") or {}
    return {"why": str(b.get("why", "")).strip().strip('"'), "dres": r.get("dres"), "cres": r.get("cres")}


def nontrivial(r):
    return r["ev"] == "RT" and r["cres"] == "ok" and not r["raw"]


def run(ctx, cases_override=None):
    ctx.mc("MC_Codec", timeout=600,
           expect_actions=["RunPipeline", "StoreRaw", "EmitPrefixed", "LimitCheck", "DecodeStep"])
    # negative control: with a decompress() session tracker shared by all calls of the process TLC must find a
    # counterexample to HistoryIndependent (the model can tell the two designs apart)
    rc, text = ctx.tlc("MC_Codec", "MC_Codec_neg", workers=4, timeout=300, tag="mc-neg")
    if "Invariant HistoryIndependent is violated" not in text:
        raise core.ToolError("stage A: negative control MC_Codec_neg: no counterexample to HistoryIndependent:\n" + core._tail(text))
    core.log("(A) MC_Codec/MC_Codec_neg: negative control ok (shared session tracker violates HistoryIndependent)")
    # call histories (CodecHist): with the code's scope TLC proves CallIndependent over all histories of <= 3 calls; with stage
    # state that outlives a call (per thread / per process) it must refute it
    ctx.mc("MC_CodecHist", workers=4, timeout=300, expect_actions=["HGood", "HBad", "HBadC"])
    for neg in ("MC_CodecHist_thread", "MC_CodecHist_process"):
        rc, text = ctx.tlc("MC_CodecHist", neg, workers=2, timeout=300, tag="mc-neg")
        if "Invariant CallIndependent is violated" not in text:
            raise core.ToolError(f"stage A: negative control {neg}: no counterexample to CallIndependent:\n" + core._tail(text))
    core.log("(A) MC_CodecHist_thread/_process: negative controls ok (stage state kept after a failed call violates CallIndependent)")
    if cases_override:
        cases, ncases = cases_override, sum(1 for _ in open(cases_override))
    else:
        cases, ncases = ctx.gen("Gen_Codec")
    binary = ctx.build("c03")
    trace = ctx.harness(binary, cases, timeout=1500)
    res = ctx.validate("Trace_Codec", trace)
    kinds, samples, distinct = {}, [], set()
    with open(trace) as f:
        for line in f:
            r = json.loads(line)
            if r["ev"] != "RT":
                if r["ev"] in ("Hang", "Abort", "Hist", "HangDamaged", "AbortDamaged"):
                    kinds[r["ev"]] = kinds.get(r["ev"], 0) + 1
                if r["ev"] == "Call":
                    k = "call-" + r["op"] + (":" + r["bres"] if r["op"] != "good" else "")
                    kinds[k] = kinds.get(k, 0) + 1
                continue
            k = "compress-" + r["cres"] if r["cres"] != "ok" else ("raw" if r["raw"] else "shrunk:" + r["dres"])
            kinds[k] = kinds.get(k, 0) + 1
            if nontrivial(r):
                distinct.add((r["m"], r["len"], r["cls"]))
            if kinds[k] <= 1 and len(samples) < 8:
                samples.append(r)
    cov = {
        "traces_validated_against_impl": res["traces"],
        "samples": samples,
        "evaluations": res["events"] - res["traces"],
        "distinct_nontrivial": len(distinct),
        "rule": "one evaluation = one compress(+decompress+decompress_secure) round trip of the real code judged by TLC; "
                "non-trivial = compress succeeded and did not store raw (distinct (selector, length, class)); ratio-target cases "
                "are round trips at a length found by bisection over the real compressor; a Hist event = one unit decompressed k "
                "times in one process; a Call event = one op of a call history (round trip / damaged decompress / refused compress "
                "on one of two threads) stepping CodecHist (both counted in `outcomes`)",
        "cases_generated_by_tlc": ncases,
        "outcomes": kinds,
        "exhaustive": False,
    }
    assumptions = ["codec stages emit >= 1 byte for non-empty input (A1)",
                   "selectors with a success obligation: zlib, pkware, bzip2, lzma, sparse, and one ADPCM flavour optionally "
                   "followed by one of zlib/pkware/bzip2/sparse; for all other selectors only never-expand / prefix are demanded",
                   "content classes are represented by seeded members (VERIF_SEED)"]
    return core.finish(ctx, "model_checking", cov, assumptions, res["bad"], sig_fn=sig, trace=trace)


def replay(ctx, payload):
    ev = payload.get("event") or {}
    if ev.get("ev") != "RT":      # a call of a history (or a Hist / Hang event): the whole generated set is re-run
        return run(ctx)
    sel = ctx.path("replay-cases.ndjson")
    with open(sel, "w") as f:
        f.write(json.dumps({"m": ev["m"], "len": ev["len"], "cls": ev["cls"]}) + "\n")
    return run(ctx, cases_override=sel)
