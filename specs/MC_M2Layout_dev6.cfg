\* named deviation (must be refuted): tracks with ranges but neither timestamps nor values are not preserved (as coded in collect_*_track_data; finding C13-RANGES-ONLY-TRACK-DROPPED) -> ASSUME ArraysPreserved false
CONSTANT SubmeshStep = 48
CONSTANT AnimBoneRule = "table"
CONSTANT RelocAdvanceAlways = FALSE
CONSTANT CollectSkipRule = "no-keys"
CONSTANT SaveTruncates = TRUE
CONSTANT ViewBatchBytes = 24
INIT Init
NEXT Next
INVARIANT CursorIsEmitted
INVARIANT SegmentsTile
INVARIANT RegionsInsideFile
INVARIANT RegionsDisjoint
INVARIANT HeaderMatchesEmitted
INVARIANT RoundTrip
INVARIANT RewriteStable
INVARIANT ConvertSame
INVARIANT ConvertKeeps
CHECK_DEADLOCK FALSE
