---------------------------- MODULE Trace_WmoEditor ----------------------------
(* Stage (D) for X03: the recorded behaviour of the real wow_wmo::WmoEditor against WmoEditor.tla.                         *)
(* A trace = Reset (init object k, projection of WmoEditor::new(root)) + one Call event per public call carrying the        *)
(* arguments, the result class (ok / err / panic), the returned index, for save_root the list lengths the wow_wmo parser   *)
(* read back from the written bytes, and the projection of the WHOLE object after the call.                                 *)
(* For every call TLC computes the successor of the model's state under the relied-upon machine (Dev = {}):                *)
(*   P-conjuncts (BAD when violated): result class, returned index, the complete abstract state after the call (all lists,  *)
(*   every reference, header counts, both kinds of modified flags, versions; a failed call = the state before it), and      *)
(*   saved-root lengths = SavedLengths(state).  Since TLC proved Integrity and PostOK for every history of that machine,   *)
(*   equality with it is what carries the invariants to the real object.                                                   *)
(* When the observation is not the relied-upon successor but exactly the successor under a subset of the named deviations  *)
(* AsCoded (the smallest such subset; named by its first member in DevOrder), the event is BAD "dev:<Name>" (a known finding as long as /repo has it) and the model follows the code, so that the     *)
(* rest of the history is still judged call by call.  Anything else is BAD "<what differs>" and the trace is abandoned.    *)
EXTENDS WmoEditor, Json, IOUtils, TLC, TLCExt, SequencesExt

Rec == ndJsonDeserialize(IOEnv.TRACE)
GM == 24
VARIABLES tl, vtst, vtdead
Proj(s) == [s EXCEPT !.gmod = PadTo(@, GM, FALSE)]
NoSave == <<-1, -1, -1, -1, -1>>
OpOf(e) == [op |-> e.op, id |-> e.id, a |-> e.a, b |-> e.b, c |-> e.c, d |-> e.d]
Back(e, r) == IF e.op = "save_root" /\ r.res = "ok" THEN SavedLengths(r.st) ELSE NoSave
Match(e, r) == /\ r.res = e.res
               /\ (r.res = "ok" => r.ret = e.ret)
               /\ e.back = Back(e, r)
               /\ Proj(r.st) = e.st
Fields == <<"tex", "mat", "gi", "grp", "gmod", "dd", "ds", "pr", "hdr", "rmod", "ver", "orig">>
DiffFields(e, r) == LET p == Proj(r.st) IN SelectSeq(Fields, LAMBDA f : p[f] # e.st[f])
\* what differs, relative to the closer of the relied-upon successor r and the as-coded successor rc
Differs(e, r, rc) ==
  IF r.res # e.res /\ rc.res # e.res THEN "result:" \o e.res
  ELSE IF e.res = "ok" /\ r.ret # e.ret /\ rc.ret # e.ret THEN "returned-index"
  ELSE IF e.back # Back(e, r) /\ e.back # Back(e, rc) THEN "saved-root"
  ELSE LET di == DiffFields(e, r)  dc == DiffFields(e, rc)
           bad == IF dc # <<>> /\ Len(dc) < Len(di) THEN dc ELSE di
       IN IF bad = <<>> THEN "result-or-state" ELSE "state:" \o bad[1]
DevOrder == <<"ErrUnderflow", "DanglingZero", "CreateMisplaced", "StaleGroupIndex", "NamesCountDrift", "VertexNoFlag", "AttrsNotParallel">>
T_Reset ==
  /\ Rec[tl].ev = "Reset"
  /\ LET s0 == InitState(Rec[tl].init) IN
     /\ vtst' = s0
     /\ IF Proj(s0) = Rec[tl].st THEN vtdead' = FALSE ELSE PrintT(<<"BAD", tl, "init-object">>) /\ vtdead' = TRUE
T_Call ==
  /\ Rec[tl].ev = "Call"
  /\ LET e == Rec[tl]
         o == OpOf(e)
         ideal == Apply(vtst, o, {})
         expl == {D \in SUBSET AsCoded : D # {} /\ Match(e, Apply(vtst, o, D))}       \* the deviations that explain the observation
         least == CHOOSE D \in expl : \A E \in expl : Cardinality(D) <= Cardinality(E)
     IN IF vtdead THEN UNCHANGED <<vtst, vtdead>>
        ELSE IF e.op \notin OpNames THEN PrintT(<<"BAD", tl, "unknown-op">>) /\ vtdead' = TRUE /\ UNCHANGED vtst
        ELSE IF Match(e, ideal) THEN vtst' = ideal.st /\ UNCHANGED vtdead
        ELSE IF expl # {}
             THEN /\ PrintT(<<"BAD", tl, "dev:" \o SelectSeq(DevOrder, LAMBDA d : d \in least)[1]>>)
                  /\ vtst' = Apply(vtst, o, least).st /\ UNCHANGED vtdead
        ELSE PrintT(<<"BAD", tl, Differs(e, ideal, Apply(vtst, o, AsCoded))>>) /\ vtdead' = TRUE /\ UNCHANGED vtst
Init == tl = 1 /\ vtst = InitState(0) /\ vtdead = FALSE
Next == /\ tl <= Len(Rec) /\ tl' = tl + 1
        /\ (T_Reset \/ T_Call)
Accepted == LET d == TLCGet("stats").diameter IN
            IF d - 1 = Len(Rec) THEN PrintT(<<"CONSUMED", Len(Rec)>>) ELSE Print(<<"TRACE_STUCK_AT", d>>, FALSE)
=============================================================================
