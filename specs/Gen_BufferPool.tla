---------------------------- MODULE Gen_BufferPool ----------------------------
(* Stage (B) for X01: TLC produces the operation programs the driver runs on the real BufferPool.        *)
(*   simulate (Gen_BufferPool_seq / _t2 / _t3 / _t4 .cfg): random behaviours of the specification itself  *)
(*       (MC_BufferPool with the thread-local operations unfolded); the calls each thread made in the     *)
(*       behaviour are its program: get(size class 0..7 relative to the capacities <<2, 4, 6>>: 0, below /*)
(*       at / above every category boundary, oversize), write(few | fill to capacity | grow beyond it),   *)
(*       shrink, drop, take, sizes, stats, for max_buffers_per_size in MaxPers and statistics on / off.   *)
(*   GEN_MODE = "enum": constant-level families: every size class alone and in pairs around a drop        *)
(*       (boundary classes), fill-the-pool-and-overflow programs for max 0..3 and for the default         *)
(*       configuration (max 16: 18 buffers out, 18 back), the take / shrink / grow cycles.                *)
EXTENDS MC_BufferPool, Json, IOUtils, SequencesExt

VARIABLES ghist, gdone
gvars == <<mcvars, ghist, gdone>>
Op(o, s, a) == [op |-> o, slot |-> s, arg |-> a]
Push(t, o) == ghist' = [ghist EXCEPT ![t] = Append(@, o)]
GInit == Init /\ ghist = [t \in Threads |-> <<>>] /\ gdone = FALSE
\* write kinds: 1 = a few bytes, 2 = fill to the capacity exactly, 3 = one more than the capacity (the Vec grows)
WriteN(t, s, kd) == LET b == vbheld[t][s].buf IN CASE kd = 1 -> 1 [] kd = 2 -> Max2(b.cap - b.len, 0) [] OTHER -> Max2(b.cap - b.len, 0) + 1
GCall(t) ==
  /\ ~gdone /\ Spend(t)
  /\ \/ \E r \in Sizes : FreeSlots(t) # {} /\ StartGet(t, r, LowFree(t)) /\ Push(t, Op("get", LowFree(t), r))
     \/ \E s \in 1..MaxHeld : Holds(t, s) /\ \E kd \in 1..3 : DoWrite(t, s, WriteN(t, s, kd)) /\ Push(t, Op("write", s, kd))
     \/ \E s \in 1..MaxHeld : DoShrink(t, s) /\ Push(t, Op("shrink", s, 0))
     \/ \E s \in 1..MaxHeld : DoTake(t, s) /\ Push(t, Op("take", s, 0))
     \/ \E s \in 1..MaxHeld : StartDrop(t, s) /\ Push(t, Op("drop", s, 0))
     \/ \E s \in 1..MaxHeld : StartDrop(t, s) /\ Push(t, Op("drop", s, 0))          \* (drops twice as likely)
     \/ StartSizes(t) /\ Push(t, Op("sizes", 0, 0))
     \/ DoStats(t) /\ Push(t, Op("stats", 0, 0))
  /\ UNCHANGED gdone
GStep(t) == ~gdone /\ Step(t) /\ UNCHANGED <<vbbudget, ghist, gdone>>
GDone ==
  /\ ~gdone /\ Quiescent /\ \A t \in Threads : vbbudget[t] = 0
  /\ gdone' = TRUE
  /\ PrintT("CASE " \o ToJson([kind |-> IF Cardinality(Threads) = 1 THEN "seq" ELSE "conc", label |-> "sim",
                               maxper |-> vbcfg.maxper, stats |-> vbcfg.stats, prog |-> ghist]))
  /\ UNCHANGED <<mcvars, ghist>>
GNext == (\E t \in Threads : GCall(t) \/ GStep(t)) \/ GDone

\* ---- enumeration (constant level) ---------------------------------------------------------------------
EnumMode == "GEN_MODE" \in DOMAIN IOEnv /\ IOEnv.GEN_MODE = "enum"
Thorough == IOEnv.VERIF_TIER = "thorough"
Case(lab, m, st, p) == [kind |-> "seq", label |-> lab, maxper |-> m, stats |-> st, prog |-> <<p>>]
G(s, r) == Op("get", s, r)
D(s)    == Op("drop", s, 0)
W(s, k) == Op("write", s, k)
\* every size class: get, write, drop, get the same class again (hit: empty, capacity), and every ordered pair of classes
Singles == {Case("single", m, st, <<G(1, r), W(1, k), D(1), G(1, r), Op("stats", 0, 0), D(1)>>) :
            r \in 0..7, k \in 1..3, m \in {0, 1}, st \in BOOLEAN}
Pairs   == {Case("pair", 2, TRUE, <<G(1, a), G(2, b), W(1, 3), W(2, 1), D(1), D(2), G(1, b), G(2, a), Op("sizes", 0, 0)>>) :
            a \in 0..7, b \in 0..7}
\* n buffers of one class out at the same time, all back: the pool keeps min(n, max), the rest is discarded; then n + 1 gets
Fill(n, r) == [i \in 1..n |-> G(i, r)] \o [i \in 1..n |-> W(i, 1)] \o [i \in 1..n |-> D(i)] \o [i \in 1..n |-> G(i, r)]
Fills   == {Case("fill", m, st, Fill(n, r)) : m \in 0..3, n \in 1..4, r \in {1, 4, 7}, st \in BOOLEAN}
\* the default configuration (driver: maxper = -1 -> BufferPool::new(), 16 per size, statistics on)
Default == {Case("default", -1, TRUE, Fill(n, r)) : n \in {15, 16, 17, 18}, r \in {2, 3}}
\* guards taken / shrunk / grown, then the category is used again
Cycles  == {Case("cycle", m, TRUE, <<G(1, r), W(1, 3), o, G(2, r), W(2, 2), D(2), G(3, r), G(2, r), Op("stats", 0, 0)>>) :
            m \in 1..2, r \in {0, 2, 5, 7}, o \in {Op("take", 1, 0), Op("shrink", 1, 0), D(1)}}
EnumCases == SetToSeq(Singles) \o SetToSeq(Pairs) \o SetToSeq(Fills) \o SetToSeq(Default) \o SetToSeq(Cycles)
ASSUME EnumMode => ndJsonSerialize(IOEnv.CASES, EnumCases) /\ PrintT(<<"GENERATED", Len(EnumCases)>>)
=============================================================================
