---------------------------- MODULE Trace_MpqMap ----------------------------
(***************************************************************************************************)
(* Stage (D) for C06: the events recorded while replaying a TLC-generated history on a real        *)
(* MutableArchive must be explained by the actions of MpqMap.                                      *)
(*                                                                                                 *)
(* P-conjuncts (verdict):                                                                          *)
(*   - every operation returned (res = "hang" / "panic" matches no action: the trace is stuck)     *)
(*   - res = ok only where the map operation is defined; a failure (a Fail action) only where a       *)
(*     plain map with capacity refuses, and then nothing changes                                   *)
(*   - after every close, a fresh Archive::open succeeds (Check) and read_file of EVERY name of    *)
(*     the universe equals vdisk (token equality; notfound for absent).  Names the history never   *)
(*     touched are part of the universe, so "untouched files stay bit-identical" is the same check.*)
(* A wrong Read is reported (BAD) and the model is resynchronised with the observation so that one *)
(* lost file does not cascade; a wrong operation result stops the trace (TRACE_STUCK_AT).          *)
(* D (DRIFT only): the List observation, the error variant of a refusal.                           *)
(***************************************************************************************************)
EXTENDS MpqMap, Sequences, Json, IOUtils, TLC, TLCExt

Rec == ndJsonDeserialize(IOEnv.TRACE)
VARIABLE tl
tvars == <<tl, vdisk, vsess, vopen, vdirty, vcap, vextra>>

Ev == Rec[tl]
Is(k) == Ev.ev = k

T_Reset == /\ Is("Reset")
           /\ vdisk' = Ev.initial /\ vsess' = Ev.initial /\ vopen' = FALSE /\ vdirty' = FALSE
           /\ vcap' = Ev.hsize /\ vextra' = Ev.nspecial

T_Open  == Is("Open") /\ Ev.res = "ok" /\ Open

T_Add   == /\ Is("Add")
           /\ \/ Ev.res = "ok" /\ Add(Ev.n, Ev.tok, Ev.rep)
              \/ Ev.res = "exists" /\ AddFailExists(Ev.n, Ev.rep)
              \/ Ev.res \notin {"ok", "exists", "hang", "panic", "notfound"} /\ AddFailFull(Ev.n)

T_Remove == /\ Is("Remove")
            /\ \/ Ev.res = "ok" /\ Remove(Ev.n)
               \/ Ev.res = "notfound" /\ RemoveFail(Ev.n)

T_Rename == /\ Is("Rename")
            /\ \/ Ev.res = "ok" /\ Rename(Ev.n, Ev.m)
               \/ Ev.res \in {"notfound", "exists"} /\ RenameFail(Ev.n, Ev.m)

T_Flush   == Is("Flush") /\ Ev.res = "ok" /\ Flush
T_Compact == Is("Compact") /\ Ev.res = "ok" /\ Compact(Ev.hsize, Ev.nspecial)
T_Close   == Is("Close") /\ Ev.res = "ok" /\ Close
\* a fresh Archive::open of the file after the session was closed must succeed
T_Check   == Is("Check") /\ Ev.res = "ok" /\ ~vopen /\ UNCHANGED mvars

ReadWhy(e) == IF vdisk[e.n] = None THEN "ghost"                    \* absent name is readable
              ELSE IF e.res = "notfound" THEN "lost"                \* present name not found
              ELSE IF e.res = "ok" THEN "corrupt"                   \* other bytes than were stored
              ELSE "unreadable"                                     \* present name, read fails
T_Read == /\ Is("Read") /\ ~vopen
          /\ IF ReadIs(Ev.n, Ev.res, Ev.tok)
             THEN UNCHANGED mvars
             ELSE /\ PrintT(<<"BAD", tl, ReadWhy(Ev)>>)
                  /\ vdisk' = [vdisk EXCEPT ![Ev.n] = IF Ev.res = "ok" THEN Ev.tok ELSE None]
                  /\ vsess' = vdisk'
                  /\ UNCHANGED <<vopen, vdirty, vcap, vextra>>

\* D: list() after reopen shows exactly the present names (plus special files, logged with "?")
Listed(e) == {e.names[j] : j \in 1..Len(e.names)}
T_List == /\ Is("List") /\ ~vopen /\ UNCHANGED mvars
          /\ IF Ev.res = "ok" /\ Present(vdisk) = {x \in Listed(Ev) : x \in DOMAIN vdisk}
             THEN TRUE ELSE PrintT(<<"DRIFT", tl, "list">>)

TInit == tl = 1 /\ MapInit(<<>>, 0, 0)
TNext == /\ tl <= Len(Rec)
         /\ tl' = tl + 1
         /\ \/ T_Reset \/ T_Open \/ T_Add \/ T_Remove \/ T_Rename \/ T_Flush \/ T_Compact \/ T_Close
            \/ T_Check \/ T_Read \/ T_List

Accepted == LET d == TLCGet("stats").diameter IN
            IF d - 1 = Len(Rec) THEN PrintT(<<"CONSUMED", Len(Rec)>>) ELSE Print(<<"TRACE_STUCK_AT", d>>, FALSE)
=============================================================================
