------------------------------- MODULE Gen_Ptch -------------------------------
(* Stage (B) for the patch applier of C08: TLC enumerates patch plans = shape x base-content class x *)
(* mutation.  Shapes: COPY; BSD0 forward-only, with backward seeks (also one that seeks exactly to   *)
(* offset 0, where the code's saturation happens to be right), with an add running past the end of   *)
(* the old file, extra-only, empty.  Mutations: none; every header word set to a boundary value or   *)
(* moved by +-1; single bit flips across the file; truncation at every block boundary; a control     *)
(* field / a 64-bit bsdiff header field replaced inside the packed image by 0, +-1, 2^31, 2^32-1,    *)
(* 2^64-1; a different base.  The driver concretises bytes from VERIF_SEED; Trace_Ptch re-evaluates   *)
(* every applied file with the reference semantics of Ptch.tla.                                       *)
EXTENDS Integers, Sequences, SequencesExt, FiniteSets, Json, IOUtils, TLC

Thorough == IOEnv.VERIF_TIER = "thorough"
T(a, m, s) == <<a, m, s>>
Shapes ==
  { [shape |-> "copy",  oldLen |-> 17, newLen |-> 33, ctrl |-> <<>>, neg |-> FALSE],
    [shape |-> "copy",  oldLen |-> 0,  newLen |-> 5,  ctrl |-> <<>>, neg |-> FALSE],
    [shape |-> "copy",  oldLen |-> 9,  newLen |-> 0,  ctrl |-> <<>>, neg |-> FALSE],
    [shape |-> "fwd",   oldLen |-> 24, newLen |-> 0,  ctrl |-> <<T(24, 0, 0)>>, neg |-> FALSE],
    [shape |-> "fwd",   oldLen |-> 30, newLen |-> 0,  ctrl |-> <<T(8, 4, 3), T(6, 0, 2), T(5, 1, 0)>>, neg |-> FALSE],
    [shape |-> "neg",   oldLen |-> 30, newLen |-> 0,  ctrl |-> <<T(12, 2, -7), T(9, 3, 0)>>, neg |-> TRUE],
    [shape |-> "neg",   oldLen |-> 40, newLen |-> 0,  ctrl |-> <<T(5, 1, -2), T(4, 0, -3), T(6, 2, 0)>>, neg |-> TRUE],
    [shape |-> "neg0",  oldLen |-> 20, newLen |-> 0,  ctrl |-> <<T(10, 0, -10), T(10, 0, 0)>>, neg |-> TRUE],
    [shape |-> "over",  oldLen |-> 10, newLen |-> 0,  ctrl |-> <<T(14, 0, 0)>>, neg |-> FALSE],
    [shape |-> "extra", oldLen |-> 6,  newLen |-> 0,  ctrl |-> <<T(0, 5, 0)>>, neg |-> FALSE],
    [shape |-> "empty", oldLen |-> 4,  newLen |-> 0,  ctrl |-> <<>>, neg |-> FALSE] }
  \cup (IF Thorough
        THEN { [shape |-> "fwd", oldLen |-> 300, newLen |-> 0, ctrl |-> <<T(140, 20, 10), T(130, 0, 0)>>, neg |-> FALSE],
               [shape |-> "neg", oldLen |-> 400, newLen |-> 0, ctrl |-> <<T(200, 5, -150), T(180, 1, -30), T(60, 0, 0)>>, neg |-> TRUE],
               [shape |-> "copy", oldLen |-> 200, newLen |-> 700, ctrl |-> <<>>, neg |-> FALSE] }
        ELSE {})
Mut(k, off, v) == [k |-> k, off |-> off, v |-> v]
\* v: -1 = 2^32-1, -2 = 2^31, -3 = 2^31-1, -4 = 2^64-1, -5 = 2^32; v <= -10 means "add v+20" (-21 -> -1, -19 -> +1)
HeaderOffs == {0, 4, 8, 12, 16, 20, 56, 60, 64}
Muts ==
  {Mut("none", 0, 0)}
  \cup {Mut("set32", o, v) : o \in HeaderOffs, v \in {0, -1, -2}}
  \cup {Mut("add32", o, v) : o \in {4, 8, 12, 60}, v \in {1, -1}}
  \cup {Mut("flip", pm, b) : pm \in {0, 150, 300, 450, 600, 750, 900, 1000}, b \in {0, 7}}
  \cup {Mut("trunc", n, 0) : n \in {0, 16, 56, 63, 64, 67, 68, 72}}
  \cup {Mut("truncTail", n, 0) : n \in {1, 4}}
  \cup {Mut("ctrl", f, v) : f \in 0..5, v \in {0, -21, -19, -2, -1}}
  \cup {Mut("img64", o, v) : o \in {8, 16, 24}, v \in {0, -21, -19, -2, -1, -4, -5}}
  \cup {Mut("img64", 0, 0)}
  \* a whole digest field replaced by a constant (all 0x00 / 0xFF / 0x20; off 24 = md5_before, 40 = md5_after),
  \* alone, with a damaged payload byte, and with a base that is not the one the patch was made for
  \cup {Mut(k, o, v) : k \in {"dig", "dig+payload", "dig+base"}, o \in {24, 40}, v \in {0, 255, 32}}
  \cup {Mut("payload", 0, 0)}
  \cup {Mut("base", pm, 0) : pm \in {0, 500, 1000}}
  \cup {Mut("baseLen", 0, v) : v \in {1, -1}}
Alphas == IF Thorough THEN {"random", "zeros", "sparse", "high"} ELSE {"random", "sparse"}
Dens   == IF Thorough THEN {0, 1, 4} ELSE {1}
Applicable(s, m) == (m.k \in {"ctrl", "img64"}) => (s.shape # "copy" /\ (m.k = "ctrl" => m.off < 3 * Len(s.ctrl)))
Cases == { [kind |-> "plan", shape |-> s.shape, oldLen |-> s.oldLen, newLen |-> s.newLen, ctrl |-> s.ctrl,
            neg |-> s.neg, alpha |-> a, density |-> d, mut |-> m]
           : s \in Shapes, a \in Alphas, d \in Dens, m \in {x \in Muts : TRUE} }
Sel == {c \in Cases : Applicable([shape |-> c.shape, ctrl |-> c.ctrl], c.mut)}
ASSUME ndJsonSerialize(IOEnv.CASES, SetToSeq(Sel))
ASSUME PrintT(<<"GENERATED", Cardinality(Sel)>>)
=============================================================================
