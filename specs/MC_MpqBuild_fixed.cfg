CONSTANTS
  SectorSize = 4
  TableSize = 4
  HetSize = 8
  FlagFix = TRUE
  UseHetBet = TRUE
  BetFix = FALSE
  NameHash <- MCNameHash
  LibFileKey <- MCFileKey
  Het8 <- MCHet8
  BetL3 <- MCBetL3
  BetOaat <- MCBetOaat
INIT MCInit
NEXT MCNextOnce
INVARIANT LayoutAgreement
INVARIANT ShortcutUnreachable
INVARIANT SectorTestSound
INVARIANT StoredBound
INVARIANT NoOverlap
INVARIANT TableWellFormed
INVARIANT KeyAgreement
INVARIANT ReadBack
INVARIANT ReadBackNeverNotFound
INVARIANT AbsentNotFound
INVARIANT HetBetAnswersOwn
INVARIANT BetFixAnswers
INVARIANT AsIsAlwaysFallsBack
INVARIANT FixRemovesDeviation
INVARIANT BetRoundTrip
INVARIANT CrcSectorAccepted
INVARIANT DistinctKeys
CHECK_DEADLOCK FALSE
