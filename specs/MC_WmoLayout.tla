---------------------------- MODULE MC_WmoLayout ----------------------------
(* Stage (A) for C15: the format writer of WmoLayout, every combination of empty / populated   *)
(* lists x versions, followed by the independent walker.  TLC checks cursor bookkeeping after  *)
(* every emitted chunk, that the walker is never lost, that the finished file is tiled, that    *)
(* the MOHD counts equal the list lengths and the record counts of the chunks, that string-    *)
(* table offsets resolve, and that the back-patched MOGP size makes the sub-chunks tile its     *)
(* payload.                                                                                     *)
EXTENDS WmoLayout, IOUtils

Thorough == IOEnv.VERIF_TIER = "thorough"
C012 == IF Thorough THEN {0, 1, 2} ELSE {0, 2}      \* quick: empty / populated; thorough adds the singleton class

Lens(n, base) == [j \in 1..n |-> base + 2 * j]       \* distinct string lengths
RootShapesAll ==
  { [kind |-> "root", ver |-> v, ntex |-> a, nmat |-> b, ngrp |-> c, nport |-> d, pvlens |-> [j \in 1..d |-> 4],
     npref |-> e, nvbl |-> f, vbllens |-> [j \in 1..f |-> 3], nlight |-> g, ndd |-> h, nds |-> i, sky |-> s, skylen |-> 9,
     texlens |-> Lens(a, 3), grplens |-> Lens(c, 1), ddlens |-> Lens(h, 8)] :
     v \in Versions, a \in {0, 2}, b \in C012, c \in C012, d \in {0, 2}, e \in {0, 2}, f \in {0, 2},
     g \in {0, 2}, h \in C012, i \in {0, 2}, s \in {0, 1} }
GroupShapesAll ==
  { [kind |-> "group", ver |-> v, nvert |-> a, nidx |-> b, nnorm |-> c, ntc |-> d, ncol |-> e, nbatch |-> f,
     nbsp |-> g, liq |-> h, lw |-> 3, lh |-> 2, ndref |-> i] :
     v \in Versions, a \in {0, 2}, b \in {0, 3}, c \in {0, 2}, d \in {0, 2}, e \in {-1, 0, 2}, f \in {0, 1},
     g \in {-1, 0, 2}, h \in {0, 1, 2}, i \in {-1, 0, 2} }

\* quick: tie some dimensions together (the full product is the thorough tier)
RootShapes  == IF Thorough THEN RootShapesAll
               ELSE {r \in RootShapesAll : r.nport = r.npref /\ r.nvbl = r.nlight}
GroupShapes == IF Thorough THEN GroupShapesAll
               ELSE {r \in GroupShapesAll : r.nnorm = r.ntc /\ r.ncol # 0 /\ r.nbsp # 0 /\ r.ndref # 0}
\* lists of lists: every pattern of empty / non-empty inner lists (2 and 3 lists), nothing else populated
InnerPats(n, len) == [1..n -> {0, len}]
ListShapes ==
  { [kind |-> "root", ver |-> v, ntex |-> 0, nmat |-> 0, ngrp |-> 0, nport |-> Len(pv), pvlens |-> pv,
     npref |-> 0, nvbl |-> Len(vb), vbllens |-> vb, nlight |-> 0, ndd |-> 0, nds |-> 0, sky |-> 0, skylen |-> 9,
     texlens |-> << >>, grplens |-> << >>, ddlens |-> << >>] :
     v \in {VClassic, VMop}, pv \in InnerPats(2, 4) \cup InnerPats(3, 4) \cup {<< >>},
     vb \in InnerPats(2, 3) \cup InnerPats(3, 3) \cup {<< >>} }
ASSUME PortalRingsOk
ASSUME PortalMutantsRejected
ASSUME BspCatalogOk
ASSUME BspMutantsRejected
Init == LInit(RootShapes \cup GroupShapes \cup ListShapes)
Next == LNext
=============================================================================
