----------------------------- MODULE Gen_MpqIo -----------------------------
(* Stage (B) for X02/MpqIo: TLC enumerates (file length class, configuration, operation sequence). *)
(*  sweep : every boundary (off, len) pair of a length class, on all readers, for three configs    *)
(*          (plain, short reads, tight read limits)                                               *)
(*  open  : file length x {max_map_size, max_archive_size} at -1 / = / +1 x enabled x constructor  *)
(*  hist  : ALL operation sequences up to length 3 over the stateful alphabet (reads, extraction    *)
(*          batches at the session / size / count limits, timeout, caller cancellation, shutdown,  *)
(*          operations after shutdown); quick takes lengths <= 2 completely and a seed-rotated      *)
(*          residue class of length 3, thorough all of them                                       *)
EXTENDS MpqIoNum, Integers, Sequences, SequencesExt, FiniteSets, Json, IOUtils, TLC

Thorough == IOEnv.VERIF_TIER = "thorough"
Seed == atoi(IOEnv.VERIF_SEED)
Salt(L) == (Seed * 37 + L) % 256

Cfg(L) == [enable |-> TRUE, readahead |-> TRUE, maxmap |-> Lo(L + 100), maxarch |-> Lo(L + 100), maxdec |-> Lo(16777216),
           maxasync |-> 16777216, maxext |-> 4, maxops |-> 10, maxsess |-> Lo(16777216), chunk |-> 0]

Op(op) == [op |-> op, via |-> "", off |-> Lo(0), len |-> 0, reqs |-> <<>>]
Rd(off, len) == [Op("read") EXCEPT !.off = off, !.len = len]
Opn(via) == [Op("open") EXCEPT !.via = via]
Ext(reqs) == [Op("extract") EXCEPT !.reqs = reqs]

\* ---- sweep ---------------------------------------------------------------------------------------
Nat0(S) == {x \in S : x >= 0}
SweepOffs(L) == {Lo(x) : x \in Nat0({0, 1, L - 1, L, L + 1})} \cup {Hi(0), Hi(1), Hi(L)}
SweepLens(L, off, extra) ==
    IF IsHi(off) THEN {0, 1, L}
    ELSE Nat0({0, 1, L - off[2] - 1, L - off[2], L - off[2] + 1, L, L + 1}) \cup extra
SweepReads(L, extra) == UNION {{Rd(off, len) : len \in SweepLens(L, off, extra)} : off \in SweepOffs(L)}
SweepLs == IF Thorough THEN {1, 2, 17, 251, 252, 4095, 4096, 4097, 65536, 70001, 2097157} ELSE {1, 2, 17, 251, 4096, 4097, 70001}
SweepCfgs(L) == { <<"plain", Cfg(L), {}>>,
                  <<"short", [Cfg(L) EXCEPT !.chunk = 7, !.readahead = FALSE], {}>>,
                  <<"tight", [Cfg(L) EXCEPT !.maxdec = Lo(8), !.maxasync = 8, !.chunk = 3], {7, 8, 9}>> }
Sweeps == UNION { { [kind |-> "io", label |-> "sweep-" \o c[1], len |-> L, salt |-> Salt(L), cfg |-> c[2],
                      ops |-> <<Opn("new")>> \o SetToSeq(SweepReads(L, c[3]))] : c \in SweepCfgs(L) } : L \in SweepLs }

\* ---- open ----------------------------------------------------------------------------------------
OpenLs == {0, 1, 4096}
OpensOf(L) == { [kind |-> "io", label |-> "open", len |-> L, salt |-> Salt(L),
            cfg |-> [Cfg(L) EXCEPT !.enable = en, !.maxmap = Lo(mm), !.maxarch = Lo(ma)],
            ops |-> <<Opn("new"), Opn("from_file"), Opn("manager"), Rd(Lo(0), 1), Opn("manager"), Rd(Lo(L), 0)>>] :
              en \in BOOLEAN, mm \in Nat0({L - 1, L, L + 1}), ma \in Nat0({L - 1, L, L + 1}) }
Opens == UNION {OpensOf(L) : L \in OpenLs}

\* ---- histories -------------------------------------------------------------------------------------
HL == 10
HCfg == [Cfg(HL) EXCEPT !.maxext = 1, !.maxdec = Lo(6), !.maxsess = Lo(16), !.chunk = 3, !.maxasync = 6]
Q(off, size) == <<Lo(off), size>>
Alphabet == { Rd(Lo(0), 1), Rd(Lo(4), 6), Rd(Lo(4), 7), Rd(Lo(10), 0), Op("stall"), Op("drop"), Op("shutdown"), Opn("manager"),
              Ext(<<Q(0, Lo(4)), Q(6, Lo(4))>>),                  \* 8 bytes: twice = the session limit exactly
              Ext(<<Q(0, Lo(1))>>),                               \* one more byte
              Ext(<<Q(3, Lo(6))>>), Ext(<<Q(3, Lo(7))>>),         \* per-file limit: = and + 1
              Ext(<<Q(0, Lo(1)), Q(1, Lo(1)), Q(2, Lo(1))>>),     \* 2 * max_concurrent_extractions + 1
              Ext(<<Q(0, Lo(4)), Q(7, Lo(4))>>),                  \* second request runs over the end
              Ext(<<Q(0, Hi(0)), Q(6, Lo(4))>>),                  \* sizes whose sum leaves u64
              Ext(<<>>) }
Hist(ops) == [kind |-> "io", label |-> "hist", len |-> HL, salt |-> Salt(HL), cfg |-> HCfg, ops |-> ops]
H1 == {<<a>> : a \in Alphabet}
H2 == {<<a, b>> : a \in Alphabet, b \in Alphabet}
H3 == {<<a, b, c>> : a \in Alphabet, b \in Alphabet, c \in Alphabet}
H3Seq == SetToSeq(H3)
H3Pick == IF Thorough THEN H3Seq ELSE SelectSeq([ii \in 1..Len(H3Seq) |-> IF ii % 9 = Seed % 9 THEN H3Seq[ii] ELSE <<>>], LAMBDA x : x # <<>>)
\* every history ends with one probe read so that the final counters are observed
Hists == [ii \in 1..(Cardinality(H1) + Cardinality(H2) + Len(H3Pick)) |->
            LET all == SetToSeq(H1) \o SetToSeq(H2) \o H3Pick IN Hist(all[ii] \o <<Rd(Lo(0), 1)>>)]

Cases == SetToSeq(Sweeps) \o SetToSeq(Opens) \o Hists
ASSUME ndJsonSerialize(IOEnv.CASES, Cases)
ASSUME PrintT(<<"GENERATED", Len(Cases)>>)
=============================================================================
