CONSTANT SubmeshStep = 48
INIT Init
NEXT Next
CHECK_DEADLOCK FALSE
