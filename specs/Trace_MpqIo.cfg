CONSTANTS
  DevZeroAtEnd = FALSE
  DevShutUnderflow = FALSE
  DevDropLeak = FALSE
  DevSumPanic = FALSE
INIT Init
NEXT Next
POSTCONDITION Accepted
CHECK_DEADLOCK FALSE
