---------------------------- MODULE Trace_MpqMap ----------------------------
(***************************************************************************************************)
(* Stage (D) for C06: the events recorded while replaying a TLC-generated history on a real        *)
(* MutableArchive must be explained by the actions of MpqMap.                                      *)
(*                                                                                                 *)
(* P-conjuncts (verdict):                                                                          *)
(*   - every call returned (res = "hang" / "panic" matches no action)                              *)
(*   - res = ok only where the map operation is defined; a refusal only where a plain map with     *)
(*     capacity refuses (the Fail actions of MpqMap), and then nothing changes                     *)
(*   - after every close, a fresh Archive::open succeeds (Check) and read_file of EVERY name of    *)
(*     the universe equals vdisk (token equality; notfound for absent).  Names the history never   *)
(*     touched are part of the universe, so "untouched files stay bit-identical" is the same check.*)
(* Totalised style: an event no action explains is reported as <<"BAD", line, why, ...>>.  After a *)
(* wrong Read the model is resynchronised with the observation (one lost file does not cascade);   *)
(* after a wrong call result the rest of that trace is skipped up to the next Reset (vskip).       *)
(* D (DRIFT only): the List observation; agreement of each Read with what the model of the code    *)
(* (MpqHashTable implementation machine, run by Gen_MpqHashTable) predicted.                       *)
(***************************************************************************************************)
EXTENDS MpqMap, Sequences, Json, IOUtils, TLC, TLCExt

Rec == ndJsonDeserialize(IOEnv.TRACE)
VARIABLES tl,
          vreset,     \* index of the Reset event of the current trace (its `preds` = predictions of the code model)
          voptok,     \* model token key ("i:<name>", "o<k>") -> content token actually used by the driver
          vskip,      \* the current trace has been rejected: consume its remaining events
          vhaslf      \* the archive carries a (listfile) (starting archive, or produced by compact())
tvars == <<tl, vdisk, vsess, vopen, vdirty, vcap, vextra, vreset, voptok, vskip, vhaslf>>
Keep == UNCHANGED <<vreset, voptok, vskip, vhaslf>>

Ev == Rec[tl]
Is(k) == Ev.ev = k

T_Reset == /\ Is("Reset")
           /\ vdisk' = Ev.initial /\ vsess' = Ev.initial /\ vopen' = FALSE /\ vdirty' = FALSE
           /\ vcap' = Ev.hsize /\ vextra' = Ev.nspecial
           /\ vreset' = tl /\ voptok' = Ev.toks /\ vskip' = FALSE /\ vhaslf' = Ev.lf

\* no action of MpqMap explains the event: report it, give up on this trace
Reject(why) == /\ PrintT(<<"BAD", tl, why>>)
               /\ vskip' = TRUE /\ UNCHANGED <<mvars, vreset, voptok, vhaslf>>

T_Open  == /\ Is("Open")
           /\ IF Ev.res = "ok" /\ CanOpen THEN Open /\ Keep ELSE Reject("open")

NoteTok == voptok' = [x \in DOMAIN voptok \cup {Ev.okey} |-> IF x = Ev.okey THEN Ev.tok ELSE voptok[x]]
Refusal(r) == r \notin {"ok", "exists", "hang", "panic", "notfound"}        \* err:<Variant>
T_Add   == /\ Is("Add")
           /\ IF Ev.res = "ok" /\ CanAdd(Ev.n, Ev.rep) THEN Add(Ev.n, Ev.tok, Ev.rep) /\ NoteTok /\ UNCHANGED <<vreset, vskip, vhaslf>>
              ELSE IF Ev.res = "exists" /\ CanAddFailExists(Ev.n, Ev.rep) THEN AddFailExists(Ev.n, Ev.rep) /\ Keep
              ELSE IF Refusal(Ev.res) /\ CanAddFailFull(Ev.n) THEN AddFailFull(Ev.n) /\ Keep
              ELSE Reject("add")

T_Remove == /\ Is("Remove")
            /\ IF Ev.res = "ok" /\ CanRemove(Ev.n) THEN Remove(Ev.n) /\ Keep
               ELSE IF Ev.res = "notfound" /\ CanRemoveFail(Ev.n) THEN RemoveFail(Ev.n) /\ Keep
               ELSE Reject("remove")

T_Rename == /\ Is("Rename")
            /\ IF Ev.res = "ok" /\ CanRename(Ev.n, Ev.m) THEN Rename(Ev.n, Ev.m) /\ Keep
               ELSE IF Ev.res \in {"notfound", "exists"} /\ CanRenameFail(Ev.n, Ev.m) THEN RenameFail(Ev.n, Ev.m) /\ Keep
               ELSE Reject("rename")

T_Flush   == Is("Flush")   /\ IF Ev.res = "ok" /\ vopen THEN Flush /\ Keep ELSE Reject("flush")
\* the compacted file is produced by the builder, which generates a (listfile)
T_Compact == Is("Compact") /\ IF Ev.res = "ok" /\ vopen
                              THEN Compact(Ev.hsize, Ev.nspecial) /\ vhaslf' = TRUE /\ UNCHANGED <<vreset, voptok, vskip>>
                              \* a refusal is legitimate only where the names are not all known
                              ELSE IF Ev.res \notin {"ok", "hang", "panic"} /\ vopen /\ ~vhaslf THEN CompactFail /\ Keep
                              ELSE Reject("compact")
T_Close   == Is("Close")   /\ IF Ev.res = "ok" /\ vopen THEN Close /\ Keep ELSE Reject("close")
\* a fresh Archive::open of the file after the session was closed must succeed
T_Check   == Is("Check")   /\ IF Ev.res = "ok" /\ ~vopen THEN UNCHANGED mvars /\ Keep ELSE Reject("check")

ReadWhy(e) == IF vdisk[e.n] = None THEN "ghost"                    \* absent name is readable
              ELSE IF e.res = "notfound" THEN "lost"                \* present name not found
              ELSE IF e.res = "ok" THEN "corrupt"                   \* other bytes than were stored
              ELSE "unreadable"                                     \* present name, read fails
\* D: does the observation equal what the model of the code predicted for this name at this checkpoint?
PredFor(e) == LET ps == Rec[vreset].preds IN IF e.ck <= Len(ps) THEN ps[e.ck] ELSE [kind |-> "none"]
\* "corrupt:<cause>" / "corrupt!:<cause>": the code model predicts unreadable or wrong bytes, and why
BadPred == {"corrupt:" \o c : c \in {"overrun", "fixkey", "renkey", "unopenable"}} \cup
           {"corrupt!:" \o c : c \in {"overrun", "fixkey", "renkey", "unopenable"}}
PredVal(e) == LET p == PredFor(e) IN IF p.kind = "map" THEN p.map[e.n] ELSE "nopred"
\* the cause the code model names for a predicted corruption ("" when it predicts a plain value)
PredCause(e) == IF PredVal(e) \in BadPred THEN PredVal(e) ELSE ""
ModelSays(e) == LET p == PredFor(e) IN
    IF p.kind # "map" THEN "nopred"
    ELSE LET v == p.map[e.n] IN
         IF v = "none" THEN (IF e.res = "notfound" THEN "asmodel" ELSE "notmodel")
         ELSE IF v \in BadPred THEN (IF e.res # "notfound" THEN "asmodel" ELSE "notmodel")
         ELSE IF e.res = "ok" /\ v \in DOMAIN voptok /\ voptok[v] = e.tok THEN "asmodel" ELSE "notmodel"
\* marker for "present, but reading it failed" after a reported Read (the same failure at the next
\* checkpoint is the same observation, not a new one)
Unread == "?unreadable"
T_Read == /\ Is("Read") /\ Keep
          /\ IF ReadIs(Ev.n, Ev.res, Ev.tok) \/ (~vopen /\ vdisk[Ev.n] = Unread /\ Ev.res \notin {"ok", "notfound"})
             THEN /\ UNCHANGED mvars
                  /\ IF ModelSays(Ev) = "notmodel" THEN PrintT(<<"DRIFT", tl, "pred">>) ELSE TRUE
             ELSE /\ PrintT(<<"BAD", tl, ReadWhy(Ev), ModelSays(Ev), PredCause(Ev)>>)
                  /\ vdisk' = [vdisk EXCEPT ![Ev.n] = IF Ev.res = "ok" THEN Ev.tok ELSE IF Ev.res = "notfound" THEN None ELSE Unread]
                  /\ vsess' = vdisk'
                  /\ UNCHANGED <<vopen, vdirty, vcap, vextra>>

\* P (archives that carry a listfile): list() of the reopened archive names exactly the present files
\* ("the readable names ... equal the result of applying the same operations to a plain map"; list is
\* one of the property's observation points).  Without a listfile list() can only produce placeholder
\* names: DRIFT at most.  Special files are logged with a leading "?" and ignored.
Listed(e) == {x \in {e.names[j] : j \in 1..Len(e.names)} : x \in DOMAIN vdisk}
ListModel(e) == LET p == PredFor(e) IN
                IF p.kind # "map" THEN "nopred" ELSE IF Listed(e) = {p.list[j] : j \in 1..Len(p.list)} THEN "asmodel" ELSE "notmodel"
T_List == /\ Is("List") /\ UNCHANGED mvars /\ Keep
          /\ IF Ev.res = "ok" /\ Present(vdisk) = Listed(Ev) THEN TRUE
             ELSE IF vhaslf THEN PrintT(<<"BAD", tl, "list", ListModel(Ev), "">>)
             ELSE PrintT(<<"DRIFT", tl, "list">>)

\* D (only when the tree carries the optional verif_state() hook): after a call the number of occupied
\* hash slots and the dirty flag of the real object equal the abstract map's
StDrift == IF Ev.ev \in {"Add", "Remove", "Rename", "Flush"} /\ ~vskip' /\ Ev.st.has
              /\ (Ev.st.live # Cardinality(Present(vsess')) + vextra' \/ Ev.st.dirty # vdirty')
           THEN PrintT(<<"DRIFT", tl, "state">>) ELSE TRUE
\* P: MutableArchive::read_file inside the session returns the session's view of the name
\* (one of the property's observation points; "the map" is what the session shows before it is closed)
SessionWhy(e) == IF vsess[e.n] = None THEN "ghost" ELSE IF e.res = "notfound" THEN "lost"
                 ELSE IF e.res = "ok" THEN "stale" ELSE "unreadable"
SessionModel(e) == LET ps == Rec[vreset].psr IN
    IF e.oi > Len(ps) THEN "nopred"
    ELSE LET v == ps[e.oi] IN
         IF v = "-" THEN "nopred"
         ELSE IF v = "none" THEN (IF e.res = "notfound" THEN "asmodel" ELSE "notmodel")
         ELSE IF v \in BadPred THEN (IF e.res # "notfound" THEN "asmodel" ELSE "notmodel")
         ELSE IF e.res = "ok" /\ v \in DOMAIN voptok /\ voptok[v] = e.tok THEN "asmodel" ELSE "notmodel"
\* (since 9c6ca29 read_file writes pending changes out first: modelled as Flush so that the hook's dirty flag
\* agrees; nothing in the verdict depends on it - Close makes the session durable anyway)
T_SRead == /\ Is("SRead") /\ Keep
           /\ IF vopen /\ vdirty THEN Flush ELSE UNCHANGED mvars
           /\ IF vopen /\ ((vsess[Ev.n] = None /\ Ev.res = "notfound") \/ (vsess[Ev.n] # None /\ Ev.res = "ok" /\ Ev.tok = vsess[Ev.n]))
              THEN TRUE
              ELSE PrintT(<<"BAD", tl, "sessionread:" \o SessionWhy(Ev), SessionModel(Ev), "">>)
\* D: the (attributes) file, where present, records the CRC32 of every readable file (attributes maintenance is
\* integrity metadata - C10's subject - and not part of the map the property speaks about)
T_Attrs == /\ Is("Attrs") /\ UNCHANGED mvars /\ Keep
           /\ IF Ev.loaded /\ Ev.bad = <<>> THEN TRUE ELSE PrintT(<<"DRIFT", tl, "attrs">>)
T_Skip == ~Is("Reset") /\ UNCHANGED <<mvars, vreset, voptok, vskip, vhaslf>>

TInit == tl = 1 /\ MapInit(<<>>, 0, 0) /\ vreset = 0 /\ voptok = <<>> /\ vskip = FALSE /\ vhaslf = FALSE
TNext == /\ tl <= Len(Rec)
         /\ tl' = tl + 1
         /\ IF vskip /\ ~Is("Reset") THEN T_Skip
            ELSE \/ T_Reset \/ T_Open \/ T_Add \/ T_Remove \/ T_Rename \/ T_Flush \/ T_Compact \/ T_Close
                 \/ T_Check \/ T_Read \/ T_List \/ T_SRead \/ T_Attrs
         /\ StDrift

Accepted == LET d == TLCGet("stats").diameter IN
            IF d - 1 = Len(Rec) THEN PrintT(<<"CONSUMED", Len(Rec)>>) ELSE Print(<<"TRACE_STUCK_AT", d>>, FALSE)
=============================================================================
